import SamplyModel.Proto
import SamplyModel.Model.ProfileSer
import SamplyModel.Model.ProfileDecode
/-!
Line protocol for C03 (shared with `harness/src/bin/c03.rs`).

Handles live in *registers*: an op that returns a handle names the register receiving it.

ops (strings are hex of UTF-8, `-` = empty string; `-` in a register position = `None`):

    process <dst> <pid> <startNs> <nameHex>           thread <dst> <proc> <tid> <startNs> <main01>
    settid <thread> <tid>      setname <thread> <nameHex>      setpname <proc> <nameHex>
    setstart <thread> <ns>     setpstart <proc> <ns>
    lib <dst> <nameHex>        libsyms <lib> (<addr>:<size|->:<nameHex>)*      map <proc> <lib> <start> <end> <rel>
    unmap <proc> <start>       (remove_lib_mapping)            clearmaps <proc>   (clear_process_lib_mappings)
    kmap <lib> <start> <end> <rel>   (add_kernel_lib_mapping)   kunmap <start>     (remove_kernel_lib_mapping)
    string <dst> <hex>         cat <dst> <nameHex> <color>     subcat <dst> <cat> <nameHex>
    flabel <dst> <thread> <str> <sub> <flags>
    flabelsrc <dst> <thread> <str> <fileStr|-> <line|-> <col|-> <sub> <flags>
    faddr <dst> <thread> <ip|ra|ara> <addr> <sub> <flags>
    frel <dst> <thread> <ip|ra|ara> <lib> <rel> <sub> <flags>
    nsym <dst> <thread> <lib> <addr> <size|-> <nameHex>
    fsym <dst> <thread> <abs|rel> <ip|ra|ara> <lib|-> <addr> <nameStr|-> <nsym> <fileStr|-> <line|-> <col|-> <depth> <sub> <flags>
    stack <dst> <thread> <frame> <parentStack|->      stackframes <dst> <thread> <frame>*
    sample <thread> <ns> <stack|-> <cpuZero01>        samesample <thread> <ns>
    allocsample <thread> <ns> <stack|-> foreign=<01>   (foreign=1: thread is not the first thread of its
                                                        process and a stack is passed — the known finding)
    mtype <dst> <typeNameHex> <cat> <formats|->        one letter per field, all 14 `MarkerFieldFormat`s:
        u String ("unique-string")  U|s Url  P FilePath  Z SanitizedString  (string kinds)
        D Duration T Time S Seconds M Milliseconds C Microseconds N Nanoseconds B Bytes p Percentage
        i|n Integer d Decimal  (number kinds)
    marker <dst> <thread> <st:k|rt:mtype>[:<i|v|s|e>] <nameStr> <str>*     one <str> per string-kind field;
        timing i = Instant (default), v = Interval, s = IntervalStart, e = IntervalEnd
    mstack <thread> <marker> <stack|->
    counter <dst> <proc>       csample <counter> <ns>          visible <thread>       selected <thread>

  <sub> = `o` (CategoryHandle::OTHER) | `c:<cat>` | `s:<subcat>` | `C:<nameHex>:<color>` (Category by
  value) | `S:<nameHex>:<color>:<subNameHex>` (Subcategory by value)

out: one line per op — `ok` | `h <numbers in the returned handle>` | `h none` | `rejected` | `panic` |
`skipped` (an operand register is unset because its defining op did not return) — then the tables of the
serialized profile (`libs`, `cats`, `vis`, `sel`, `counter`*, per thread `thread`, `S`, `FT…`, `FN…`,
`RT…`, `NS…`, `ST…`, `SA…`, `NA…`, `MK…`), or `panic` if serialization panics. An ill-formed op list
(unknown op, undefined register, wrong register kind) gives the single line `bad-op`.
-/
namespace C03
open PT Proto

/-! ### parsing helpers -/

def num? (s : String) : Option Nat :=
  if s.isEmpty || !s.toList.all Char.isDigit then none else
  match s.toNat? with
  | some n => if n < 4294967296 then some n else none
  | none => none

def optNum? (s : String) : Option (Option Nat) :=
  if s = "-" then some none else (num? s).map some

def flag? (s : String) : Option Bool :=
  if s = "0" then some false else if s = "1" then some true else none

def unhexStr? (s : String) : Option String :=
  if s = "-" then some "" else
  let cs := s.toList
  if cs.length % 2 ≠ 0 || !cs.all (fun c => (hexDigit? c).isSome) then none else
  String.fromUTF8? (ByteArray.mk (hexBytes s).toArray)

def hexOf (s : String) : String := bytesHex s.toUTF8.toList

def akind? (s : String) : Option AKind :=
  if s = "ip" then some .ip else if s = "ra" then some .ra else if s = "ara" then some .ara else none

/-- one letter per `MarkerFieldFormat` -/
def mformat? (c : Char) : Option MFormat :=
  if c = 'u' then some .string else if c = 'U' || c = 's' then some .url else if c = 'P' then some .filePath
  else if c = 'Z' then some .sanitizedString else if c = 'D' then some .duration else if c = 'T' then some .time
  else if c = 'S' then some .seconds else if c = 'M' then some .milliseconds else if c = 'C' then some .microseconds
  else if c = 'N' then some .nanoseconds else if c = 'B' then some .bytes else if c = 'p' then some .percentage
  else if c = 'i' || c = 'n' then some .integer else if c = 'd' then some .decimal else none

/-- the field kinds of a format word (through the model's `MFormat.fmt` = `kind()` + the `== String` test) -/
def fmts? (s : String) : Option (List Fmt) :=
  if s = "-" then some [] else
  s.toList.mapM (fun c => (mformat? c).map MFormat.fmt)

def timing? (s : String) : Option MTiming :=
  if s = "i" then some .instant else if s = "v" then some .interval else if s = "s" then some .intervalStart
  else if s = "e" then some .intervalEnd else none

/-- `st:k[:tm]` / `rt:reg[:tm]` → (tag, argument, timing) -/
def mtypeTok? (ty : String) : Option (String × String × MTiming) :=
  match ty.splitOn ":" with
  | [tag, a] => some (tag, a, .instant)
  | [tag, a, tm] => (timing? tm).map (fun tm => (tag, a, tm))
  | _ => none

def syms? (ws : List String) : Option (List Sym) :=
  ws.mapM (fun w =>
    match w.splitOn ":" with
    | [a, sz, n] => do
      let a ← num? a
      let sz ← optNum? sz
      let n ← unhexStr? n
      pure (⟨a, sz, n⟩ : Sym)
    | _ => none)

def strictlyIncreasing : List Nat → Bool
  | a :: b :: rest => decide (a < b) && strictlyIncreasing (b :: rest)
  | _ => true

/-! ### registers -/

inductive Kind
  | proc | thread | lib | str | cat | sub | frame | stack | nsym | mtype | marker | counter
deriving DecidableEq, Repr

inductive RVal
  | proc (i : Nat) | thread (i : Nat) | lib (i : Nat) | str (i : Nat) | cat (i : Nat)
  | sub (c s : Nat) | frame (t i : Nat) | stack (v : Option TH) | nsym (t i : Nat)
  | mtype (h : Nat) | marker (i : Nat) | counter (i : Nat)
deriving Repr

def lookupS {α : Type} (m : List (String × α)) (k : String) : Option α :=
  (m.find? (·.1 = k)).map (·.2)

/-- static state of the well-formedness check: register kinds, formats of marker types -/
structure Chk where
  kinds : List (String × Kind) := []
  fmts : List (String × List Fmt) := []

def Chk.is (c : Chk) (r : String) (k : Kind) : Option Unit :=
  if lookupS c.kinds r = some k then some () else none
def Chk.opt (c : Chk) (r : String) (k : Kind) : Option Unit :=
  if r = "-" then some () else c.is r k
def Chk.define (c : Chk) (r : String) (k : Kind) : Option Chk :=
  if r = "-" || r.isEmpty then none else some { c with kinds := (r, k) :: c.kinds }

def guard' (b : Bool) : Option Unit := if b then some () else none

def Chk.subSpec (c : Chk) (s : String) : Option Unit :=
  if s = "o" then some () else
  match s.splitOn ":" with
  | ["c", r] => c.is r .cat
  | ["s", r] => c.is r .sub
  | ["C", n, col] => do let _ ← unhexStr? n; let _ ← num? col; pure ()
  | ["S", n, col, sn] => do let _ ← unhexStr? n; let _ ← num? col; let _ ← unhexStr? sn; pure ()
  | _ => none

def stringFields (f : List Fmt) : Nat := (f.filter (· ≠ .n)).length

def staticFormats (k : Nat) : Option (List Fmt) := (staticSchema k).map (·.2.2.2)

/-- static well-formedness of one op line (mirrors `check_program` of the harness) -/
def checkLine (c : Chk) (w : List String) : Option Chk :=
  match w with
  | ["process", d, pid, st, nm] => do
    let _ ← num? pid; let _ ← num? st; let _ ← unhexStr? nm; c.define d .proc
  | ["thread", d, p, tid, st, m] => do
    c.is p .proc; let _ ← num? tid; let _ ← num? st; let _ ← flag? m; c.define d .thread
  | ["settid", t, n] => do c.is t .thread; let _ ← num? n; pure c
  | ["setstart", t, n] => do c.is t .thread; let _ ← num? n; pure c
  | ["setname", t, n] => do c.is t .thread; let _ ← unhexStr? n; pure c
  | ["setpname", p, n] => do c.is p .proc; let _ ← unhexStr? n; pure c
  | ["setpstart", p, n] => do c.is p .proc; let _ ← num? n; pure c
  | ["lib", d, n] => do let _ ← unhexStr? n; c.define d .lib
  | "libsyms" :: l :: rest => do
    c.is l .lib
    let syms ← syms? rest
    guard' (strictlyIncreasing (syms.map (·.addr)))
    pure c
  | ["map", p, l, s, e, r] => do
    c.is p .proc; c.is l .lib; let _ ← num? s; let _ ← num? e; let _ ← num? r; pure c
  | ["kmap", l, s, e, r] => do c.is l .lib; let _ ← num? s; let _ ← num? e; let _ ← num? r; pure c
  | ["kunmap", s] => do let _ ← num? s; pure c
  | ["unmap", p, s] => do c.is p .proc; let _ ← num? s; pure c
  | ["clearmaps", p] => do c.is p .proc; pure c
  | ["string", d, s] => do let _ ← unhexStr? s; c.define d .str
  | ["cat", d, n, col] => do let _ ← unhexStr? n; let _ ← num? col; c.define d .cat
  | ["subcat", d, ca, n] => do c.is ca .cat; let _ ← unhexStr? n; c.define d .sub
  | ["flabel", d, t, s, sc, fl] => do
    c.is t .thread; c.is s .str; c.subSpec sc; let _ ← num? fl; c.define d .frame
  | ["flabelsrc", d, t, s, f, li, co, sc, fl] => do
    c.is t .thread; c.is s .str; c.opt f .str; let _ ← optNum? li; let _ ← optNum? co
    c.subSpec sc; let _ ← num? fl; c.define d .frame
  | ["faddr", d, t, k, a, sc, fl] => do
    c.is t .thread; let _ ← akind? k; let _ ← num? a; c.subSpec sc; let _ ← num? fl; c.define d .frame
  | ["frel", d, t, k, l, a, sc, fl] => do
    c.is t .thread; let _ ← akind? k; c.is l .lib; let _ ← num? a; c.subSpec sc; let _ ← num? fl
    c.define d .frame
  | ["nsym", d, t, l, a, sz, n] => do
    c.is t .thread; c.is l .lib; let _ ← num? a; let _ ← optNum? sz; let _ ← unhexStr? n
    c.define d .nsym
  | ["fsym", d, t, mode, k, l, a, nm, ns, f, li, co, dp, sc, fl] => do
    c.is t .thread; let _ ← akind? k
    (if mode = "abs" then guard' (l = "-") else if mode = "rel" then c.is l .lib else none)
    let _ ← num? a; c.opt nm .str; c.is ns .nsym; c.opt f .str; let _ ← optNum? li; let _ ← optNum? co
    let dp ← num? dp; guard' (dp < 65536); c.subSpec sc; let _ ← num? fl; c.define d .frame
  | ["stack", d, t, f, par] => do c.is t .thread; c.is f .frame; c.opt par .stack; c.define d .stack
  | "stackframes" :: d :: t :: fs => do
    c.is t .thread; let _ ← fs.mapM (fun f => c.is f .frame); c.define d .stack
  | ["sample", t, n, st, z] => do c.is t .thread; let _ ← num? n; c.opt st .stack; let _ ← flag? z; pure c
  | ["samesample", t, n] => do c.is t .thread; let _ ← num? n; pure c
  | ["allocsample", t, n, st, fo] => do
    c.is t .thread; let _ ← num? n; c.opt st .stack; guard' (fo = "foreign=0" || fo = "foreign=1"); pure c
  | ["mtype", d, n, ca, f] => do
    let _ ← unhexStr? n; c.is ca .cat; let f ← fmts? f
    let c' ← c.define d .mtype
    pure { c' with fmts := (d, f) :: c'.fmts }
  | "marker" :: d :: t :: ty :: nm :: strs => do
    c.is t .thread
    let f ← (match mtypeTok? ty with
      | some ("st", k, _) => (num? k).bind staticFormats
      | some ("rt", r, _) => (c.is r .mtype).bind (fun _ => lookupS c.fmts r)
      | _ => none)
    c.is nm .str
    guard' (strs.length = stringFields f)
    let _ ← strs.mapM (fun s => c.is s .str)
    c.define d .marker
  | ["mstack", t, m, st] => do c.is t .thread; c.is m .marker; c.opt st .stack; pure c
  | ["counter", d, p] => do c.is p .proc; c.define d .counter
  | ["csample", ct, n] => do c.is ct .counter; let _ ← num? n; pure c
  | ["visible", t] => do c.is t .thread; pure c
  | ["selected", t] => do c.is t .thread; pure c
  | _ => none

def checkProgram (ls : List (List String)) : Bool :=
  (ls.foldl (fun (c : Option Chk) w => c.bind (fun c => checkLine c w)) (some {})).isSome

/-! ### building `PT.Op`s from lines and registers -/

abbrev Regs := List (String × RVal)

def Regs.proc (r : Regs) (k : String) : Option Nat := match lookupS r k with | some (.proc i) => some i | _ => none
def Regs.thread (r : Regs) (k : String) : Option Nat := match lookupS r k with | some (.thread i) => some i | _ => none
def Regs.lib (r : Regs) (k : String) : Option Nat := match lookupS r k with | some (.lib i) => some i | _ => none
def Regs.str (r : Regs) (k : String) : Option Nat := match lookupS r k with | some (.str i) => some i | _ => none
def Regs.cat (r : Regs) (k : String) : Option Nat := match lookupS r k with | some (.cat i) => some i | _ => none
def Regs.frame (r : Regs) (k : String) : Option TH := match lookupS r k with | some (.frame t i) => some (t, i) | _ => none
def Regs.nsym (r : Regs) (k : String) : Option TH := match lookupS r k with | some (.nsym t i) => some (t, i) | _ => none
def Regs.marker (r : Regs) (k : String) : Option Nat := match lookupS r k with | some (.marker i) => some i | _ => none
def Regs.counter (r : Regs) (k : String) : Option Nat := match lookupS r k with | some (.counter i) => some i | _ => none
def Regs.mtype (r : Regs) (k : String) : Option Nat := match lookupS r k with | some (.mtype h) => some h | _ => none
def Regs.optStr (r : Regs) (k : String) : Option (Option Nat) := if k = "-" then some none else (r.str k).map some
def Regs.optStack (r : Regs) (k : String) : Option (Option TH) :=
  if k = "-" then some none else match lookupS r k with | some (.stack v) => some v | _ => none

def Regs.subSpec (r : Regs) (s : String) : Option SubSpec :=
  if s = "o" then some .other else
  match s.splitOn ":" with
  | ["c", k] => (r.cat k).map SubSpec.cat
  | ["s", k] => match lookupS r k with | some (.sub c s) => some (.sub c s) | _ => none
  | ["C", n, col] => do pure (.catVal (← unhexStr? n) ((← num? col) % 14))
  | ["S", n, col, sn] => do pure (.subVal (← unhexStr? n) ((← num? col) % 14) (← unhexStr? sn))
  | _ => none

def addrSpec (r : Regs) (mode k l a : String) : Option AddrSpec := do
  let k ← akind? k
  let a ← num? a
  if mode = "abs" then pure (.abs k a) else pure (.rel k (← r.lib l) a)

/-- the op of a (statically well-formed) line under the current registers; `none` = an operand
register is unset. The second component is the destination register and how to wrap the result. -/
def toOp (r : Regs) (w : List String) : Option (Op × Option (String × Kind)) :=
  match w with
  | ["process", d, pid, st, nm] => do pure (.addProcess (← num? pid) (← num? st) (← unhexStr? nm), some (d, .proc))
  | ["thread", d, p, tid, st, m] => do
    pure (.addThread (← r.proc p) (← num? tid) (← num? st) (← flag? m), some (d, .thread))
  | ["settid", t, n] => do pure (.setTid (← r.thread t) (← num? n), none)
  | ["setstart", t, n] => do pure (.setStart (← r.thread t) (← num? n), none)
  | ["setname", t, n] => do pure (.setName (← r.thread t) (← unhexStr? n), none)
  | ["setpname", p, n] => do pure (.setPName (← r.proc p) (← unhexStr? n), none)
  | ["setpstart", p, n] => do pure (.setPStart (← r.proc p) (← num? n), none)
  | ["lib", d, n] => do pure (.addLib (← unhexStr? n), some (d, .lib))
  | "libsyms" :: l :: rest => do pure (.libSyms (← r.lib l) (← syms? rest), none)
  | ["map", p, l, s, e, rl] => do
    pure (.addMapping (← r.proc p) (← r.lib l) (← num? s) (← num? e) (← num? rl), none)
  | ["kmap", l, s, e, rl] => do pure (.addKernelMapping (← r.lib l) (← num? s) (← num? e) (← num? rl), none)
  | ["kunmap", s] => do pure (.removeKernelMapping (← num? s), none)
  | ["unmap", p, s] => do pure (.removeMapping (← r.proc p) (← num? s), none)
  | ["clearmaps", p] => do pure (.clearMappings (← r.proc p), none)
  | ["string", d, s] => do pure (.string (← unhexStr? s), some (d, .str))
  | ["cat", d, n, col] => do pure (.category (← unhexStr? n) ((← num? col) % 14), some (d, .cat))
  | ["subcat", d, ca, n] => do pure (.subcategory (← r.cat ca) (← unhexStr? n), some (d, .sub))
  | ["flabel", d, t, s, sc, fl] => do
    let t ← r.thread t; let s ← r.str s; let sc ← r.subSpec sc
    pure (.frameLabel t s none sc ((← num? fl) % 4), some (d, .frame))
  | ["flabelsrc", d, t, s, f, li, co, sc, fl] => do
    let t ← r.thread t; let s ← r.str s; let f ← r.optStr f; let sc ← r.subSpec sc
    pure (.frameLabel t s (some (f, ← optNum? li, ← optNum? co)) sc ((← num? fl) % 4), some (d, .frame))
  | ["faddr", d, t, k, a, sc, fl] => do
    let t ← r.thread t; let sc ← r.subSpec sc
    pure (.frameAddr t (← addrSpec r "abs" k "-" a) sc ((← num? fl) % 4), some (d, .frame))
  | ["frel", d, t, k, l, a, sc, fl] => do
    let t ← r.thread t; let a ← addrSpec r "rel" k l a; let sc ← r.subSpec sc
    pure (.frameAddr t a sc ((← num? fl) % 4), some (d, .frame))
  | ["nsym", d, t, l, a, sz, n] => do
    pure (.nativeSymbol (← r.thread t) (← r.lib l) ⟨← num? a, ← optNum? sz, ← unhexStr? n⟩, some (d, .nsym))
  | ["fsym", d, t, mode, k, l, a, nm, ns, f, li, co, dp, sc, fl] => do
    let t ← r.thread t; let a ← addrSpec r mode k l a; let nm ← r.optStr nm; let ns ← r.nsym ns
    let f ← r.optStr f; let sc ← r.subSpec sc
    pure (.frameSym t a nm ns f (← optNum? li) (← optNum? co) (← num? dp) sc ((← num? fl) % 4), some (d, .frame))
  | ["stack", d, t, f, par] => do
    pure (.stack (← r.thread t) (← r.frame f) (← r.optStack par), some (d, .stack))
  | "stackframes" :: d :: t :: fs => do
    pure (.stackFrames (← r.thread t) (← fs.mapM r.frame), some (d, .stack))
  | ["sample", t, _, st, z] => do pure (.sample (← r.thread t) (← r.optStack st) (← flag? z), none)
  | ["samesample", t, _] => do pure (.sameSample (← r.thread t), none)
  | ["allocsample", t, _, st, _] => do pure (.allocSample (← r.thread t) (← r.optStack st), none)
  | ["mtype", d, n, ca, f] => do pure (.markerType (← unhexStr? n) (← r.cat ca) (← fmts? f), some (d, .mtype))
  | "marker" :: d :: t :: ty :: nm :: strs => do
    let t ← r.thread t
    let (ty, tm) ← (match mtypeTok? ty with
      | some ("st", k, tm) => (num? k).map (fun k => (MType.static k, tm))
      | some ("rt", k, tm) => (r.mtype k).map (fun h => (MType.runtime h, tm))
      | _ => none)
    pure (.marker t ty (← r.str nm) (← strs.mapM r.str) tm, some (d, .marker))
  | ["mstack", t, m, st] => do pure (.markerStack (← r.thread t) (← r.marker m) (← r.optStack st), none)
  | ["counter", d, p] => do pure (.counter (← r.proc p), some (d, .counter))
  | ["csample", ct, _] => do pure (.counterSample (← r.counter ct), none)
  | ["visible", t] => do pure (.visible (← r.thread t), none)
  | ["selected", t] => do pure (.selected (← r.thread t), none)
  | _ => none

def wrap (k : Kind) (vals : List Nat) : Option RVal :=
  match k, vals with
  | .proc, [i] => some (.proc i)
  | .thread, [i] => some (.thread i)
  | .lib, [i] => some (.lib i)
  | .str, [i] => some (.str i)
  | .cat, [i] => some (.cat i)
  | .sub, [c, s] => some (.sub c s)
  | .frame, [t, i] => some (.frame t i)
  | .nsym, [t, i] => some (.nsym t i)
  | .stack, [t, i] => some (.stack (some (t, i)))
  | .mtype, [h] => some (.mtype h)
  | .marker, [i] => some (.marker i)
  | .counter, [i] => some (.counter i)
  | _, _ => none

def showOut : Out → String
  | .ok => "ok"
  | .h vals => "h " ++ " ".intercalate (vals.map toString)
  | .noStack => "h none"
  | .rejected => "rejected"
  | .panic => "panic"
  | .bug => "panic"
  | .invalid => "invalid-handle"

/-- run the op lines on the model; returns the final state, the per-op output lines and the ops that
were executed (for the judge's use of the call history) -/
def runLines (ls : List (List String)) : P × List String :=
  let rec go (p : P) (r : Regs) (ls : List (List String)) (acc : List String) : P × List String :=
    match ls with
    | [] => (p, acc.reverse)
    | w :: rest =>
      match toOp r w with
      | none => go p r rest ("skipped" :: acc)
      | some (op, dst) =>
        let (p', out) := step p op
        let r' := match dst, out with
          | some (d, k), .h vals => match wrap k vals with
            | some v => (d, v) :: r
            | none => r
          | some (d, .stack), .noStack => (d, .stack none) :: r
          | _, _ => r
        go p' r' rest (showOut out :: acc)
  go P.init [] ls []

/-! ### printing the serialized tables (same format as `dump` in the harness) -/

def line (tag : String) (toks : List String) : String :=
  if toks.isEmpty then tag else tag ++ " " ++ " ".intercalate toks

def optTok : Option Nat → String
  | none => "-"
  | some n => toString n

def colorName (n : Nat) : String :=
  (["transparent", "lightblue", "red", "lightred", "orange", "blue", "green", "purple", "yellow", "brown",
    "magenta", "lightgreen", "grey", "darkgray"][n % 14]?).getD "?"

def optLe : Option Nat → Option Nat → Bool
  | none, _ => true
  | some _, none => false
  | some a, some b => decide (a ≤ b)

def showThread (t : SerThread) : List String :=
  let nats (l : List Nat) := l.map toString
  let opts (l : List (Option Nat)) := l.map optTok
  [ s!"thread {t.pid} {t.tid} {if t.isMain then 1 else 0} {hexOf t.processName} {hexOf t.name}",
    line "S" (toString t.strings.length :: t.strings.map hexOf),
    line "FT" (toString t.ftLen :: nats t.ftCols),
    line "FT.func" (nats t.ftFunc), line "FT.cat" (nats t.ftCat), line "FT.sub" (nats t.ftSub),
    line "FT.line" (opts t.ftLine), line "FT.col" (opts t.ftCol), line "FT.addr" (opts t.ftAddr),
    line "FT.nsym" (opts t.ftNsym), line "FT.depth" (nats t.ftDepth),
    line "FN" (toString t.fnLen :: nats t.fnCols),
    line "FN.name" (nats t.fnName), line "FN.flags" (nats t.fnFlags), line "FN.res" (opts t.fnRes),
    line "FN.file" (opts t.fnFile),
    line "RT" (toString t.rtLen :: nats t.rtCols), line "RT.lib" (nats t.rtLib), line "RT.name" (nats t.rtName),
    line "NS" (toString t.nsLen :: nats t.nsCols), line "NS.addr" (nats t.nsAddr), line "NS.size" (opts t.nsSize),
    line "NS.lib" (nats t.nsLib), line "NS.name" (nats t.nsName),
    line "ST" (toString t.stLen :: nats t.stCols), line "ST.prefix" (opts t.stPrefix), line "ST.frame" (nats t.stFrame),
    line "SA" (toString t.saLen :: nats t.saCols),
    line "SA.stack" (opts (t.saStack.mergeSort optLe)) ]
  ++ (match t.na with
      | none => ["NA -"]
      | some (len, cols, st) => [line "NA" (toString len :: nats cols), line "NA.stack" (opts st)])
  ++ [ line "MK" (toString t.mkLen :: nats t.mkCols), line "MK.cat" (nats t.mkCat), line "MK.name" (nats t.mkName),
       line "MK.stack" (opts t.mkStack),
       line "MK.start" (t.mkStart.map (fun b => if b then "1" else "0")),
       line "MK.end" (t.mkEnd.map (fun b => if b then "1" else "0")),
       line "MK.phase" (nats t.mkPhase),
       line "MK.ustr" (t.mkUstr.map (fun iv => s!"{iv.1}:{iv.2}")) ]

def showProfile (s : SerProfile) : List String :=
  [ line "libs" (s.libs.map hexOf),
    line "cats" (s.cats.map (fun c => s!"{hexOf c.1}:{colorName c.2.1}:{",".intercalate (c.2.2.map hexOf)}")),
    line "vis" (s.visible.map toString), line "sel" (s.selected.map toString) ]
  ++ s.counters.map (fun c => s!"counter {c.pid} {c.mainThreadIndex} {c.samples}")
  ++ s.threads.flatMap showThread

def model (ls : List String) : List String :=
  let ws := ls.map words
  if !checkProgram ws then ["bad-op"] else
  let (p, outs) := runLines ws
  outs ++ (match serialize p with
    | none => ["panic"]
    | some s => showProfile s)

end C03

/-! ## The judge

Evaluates the property statement on the tables printed from the implementation's JSON:

1. `PT.wf` (the conclusion of the theorems) on the parsed tables;
2. *identity* clauses, against a caller-side view computed from the op lines alone: the `k`-th reuse
   of a numeric pid / tid carries the suffix `.k`; every thread the caller created appears exactly once,
   under its process's pid; `initialVisibleThreads` / `initialSelectedThreads` / a counter's
   `mainThreadIndex` denote the thread / the first thread of the process the caller named;
3. *canonical interning*: decoding the tables (stack → frames → func → strings / resource → lib /
   native symbol) gives back, for every sample, allocation sample and marker, what the caller
   supplied, described without any index (`FrameDesc`).

The reference side (`Spec`) never looks at a table index: registers denote descriptions. -/
namespace C03
open PT Proto

-- `FrameDesc` (the index-free description of a frame) lives in `Model/ProfileDecode.lean` (`PT.FrameDesc`):
-- it is the vocabulary of the theorems `C03_frame_rows` / `C03_canonical_*` as well.

abbrev StackDesc := Option (List FrameDesc)

inductive SVal
  | proc (i : Nat) | thread (i : Nat) | lib (name : String) | str (s : String)
  | cat (name : String) (color : Nat) | sub (name : String) (color : Nat) (sub : String)
  | frame (owner : Nat) (d : FrameDesc) | stack (owner : Nat) (fs : StackDesc)
  | nsym (owner : Nat) (lib : String) (addr : Nat)
  | mtype (cat : String × Nat) (fmts : List Fmt)
  | marker (owner idx : Nat) | counter (proc : Nat)

structure SMarker where
  name : String
  cat : String × Nat
  stack : StackDesc
  ustr : List String
  /-- is a start / an end time stored, numeric phase — from the `MarkerTiming` the caller passed -/
  timing : Bool × Bool × Nat := (true, false, 0)
deriving DecidableEq

structure SThread where
  proc : Nat
  tid : String
  isMain : Bool
  /-- native symbols are interned by (lib, address); the first registration fixes size and name -/
  nsyms : List ((String × Nat) × (Option Nat × String)) := []
  samples : List StackDesc := []
  lastStack : StackDesc := none
  lastZero : Bool := false
  markers : List SMarker := []

structure SMap where
  start : Nat
  end_ : Nat
  rel : Nat
  lib : String

structure SProc where
  pid : String
  threads : List Nat := []
  maps : List SMap := []
  allocs : List StackDesc := []
  foreignAlloc : Bool := false

structure Spec where
  pidUses : List Nat := []
  tidUses : List Nat := []
  procs : List SProc := []
  threads : List SThread := []
  symtabs : List (String × List Sym) := []
  /-- kernel library mappings (global) -/
  kmaps : List SMap := []
  regs : List (String × SVal) := []
  visible : List Nat := []
  selected : List Nat := []
  counters : List Nat := []
  /-- a mapping with an empty or inverted range was added: the declarative mapping semantics below
  does not cover it, the canonical clause is then not judged -/
  oddMaps : Bool := false
  /-- every frame handle the implementation returned: (thread, index inside the handle, description) -/
  frames : List (Nat × Nat × FrameDesc) := []
  /-- every native symbol handle returned: (thread, index inside the handle, library, address) -/
  nsymsOut : List (Nat × Nat × String × Nat) := []
  err : Option String := none

/-- the pid / tid string of the `k`-th reuse of a number -/
def expectedId (uses : List Nat) (id : Nat) : String :=
  let k := uses.count id
  if k = 0 then toString id else s!"{id}.{k}"

def Spec.reg (s : Spec) (k : String) : Option SVal := lookupS s.regs k
def Spec.threadR (s : Spec) (k : String) : Option Nat := match s.reg k with | some (.thread i) => some i | _ => none
def Spec.procR (s : Spec) (k : String) : Option Nat := match s.reg k with | some (.proc i) => some i | _ => none
def Spec.libR (s : Spec) (k : String) : Option String := match s.reg k with | some (.lib n) => some n | _ => none
def Spec.strR (s : Spec) (k : String) : Option String := match s.reg k with | some (.str n) => some n | _ => none
def Spec.optStrR (s : Spec) (k : String) : Option (Option String) :=
  if k = "-" then some none else (s.strR k).map some
def Spec.catR (s : Spec) (k : String) : Option (String × Nat) := match s.reg k with | some (.cat n c) => some (n, c) | _ => none
/-- optional stack argument: owner (if a stack is passed) and description -/
def Spec.optStackR (s : Spec) (k : String) : Option (Option Nat × StackDesc) :=
  if k = "-" then some (none, none) else
  match s.reg k with
  | some (.stack _ none) => some (none, none)        -- the register holds `None` (empty frame list)
  | some (.stack o (some fs)) => some (some o, some fs)
  | _ => none

def Spec.subR (s : Spec) (spec : String) : Option ((String × Nat) × String) :=
  if spec = "o" then some (("Other", 12), "Other") else
  match spec.splitOn ":" with
  | ["c", k] => (s.catR k).map (fun c => (c, "Other"))
  | ["s", k] => match s.reg k with | some (.sub n c sn) => some ((n, c), sn) | _ => none
  | ["C", n, col] => do pure ((← unhexStr? n, (← num? col) % 14), "Other")
  | ["S", n, col, sn] => do pure ((← unhexStr? n, (← num? col) % 14), ← unhexStr? sn)
  | _ => none

def Spec.setReg (s : Spec) (k : String) (v : SVal) : Spec := { s with regs := (k, v) :: s.regs }
def Spec.fail (s : Spec) (msg : String) : Spec := if s.err.isSome then s else { s with err := some msg }
def Spec.modThread (s : Spec) (i : Nat) (f : SThread → SThread) : Spec :=
  { s with threads := s.threads.modify i f }
def Spec.modProc (s : Spec) (i : Nat) (f : SProc → SProc) : Spec :=
  { s with procs := s.procs.modify i f }

inductive SAddr
  | unknown (a : Nat)
  | inLib (rel : Nat) (lib : String)

/-- declarative address resolution: the live mapping covering the address (live = not overlapped by a
later `add_lib_mapping`); `ra` addresses are looked up one byte earlier -/
def Spec.resolve (s : Spec) (t : Nat) (mode k l a : String) : Option SAddr := do
  let a ← num? a
  let adj := if k = "ra" then a - 1 else a
  if mode = "abs" then
    let th ← s.threads[t]?
    let pr ← s.procs[th.proc]?
    -- kernel mappings are consulted first, then the process's
    match (s.kmaps ++ pr.maps).find? (fun m => decide (m.start ≤ adj) && decide (adj < m.end_)) with
    | some m => pure (.inLib (m.rel + (adj - m.start)) m.lib)
    | none => pure (.unknown adj)
  else
    pure (.inLib adj (← s.libR l))

/-- the native symbol (lib, addr) on thread `t`: size and name of its first registration -/
def Spec.nsymInfo (s : Spec) (t : Nat) (lib : String) (addr : Nat) : Option (Option Nat × String) :=
  (s.threads[t]?).bind (fun th => lookupS' th.nsyms (lib, addr))
where lookupS' (m : List ((String × Nat) × (Option Nat × String))) (k : String × Nat) :=
  (m.find? (·.1 = k)).map (·.2)

def Spec.registerNsym (s : Spec) (t : Nat) (lib : String) (sym : Sym) : Spec :=
  match s.nsymInfo t lib sym.addr with
  | some _ => s
  | none => s.modThread t (fun th => { th with nsyms := ((lib, sym.addr), (sym.size, sym.name)) :: th.nsyms })

def returned (out : String) : Bool := out = "ok" || out.startsWith "h"

/-- does the caller pass a handle of another thread where the code asserts ownership? -/
def ownerMismatch (t : Nat) (owners : List (Option Nat)) : Bool :=
  owners.any (fun o => match o with | some o => o != t | none => false)

/-- bookkeeping common to all ops: compare the implementation's outcome with what the call history
allows; returns `true` when the op's effect is to be applied -/
def Spec.outcome (s : Spec) (n : Nat) (out : String) (mismatch : Bool) (mayPanic : Bool) : Spec × Bool :=
  if mismatch then
    if out = "rejected" then (s, false)
    else (s.fail s!"op {n}: a handle of another thread was not rejected (outcome `{out}`)", false)
  else if out = "rejected" then (s.fail s!"op {n}: rejected although every handle belongs to the thread", false)
  else if out = "panic" then
    if mayPanic then (s, false) else (s.fail s!"op {n}: unexpected panic", false)
  else if returned out then (s, true)
  else (s.fail s!"op {n}: unexpected outcome `{out}`", false)

/-- one op line against the reference; `none` from a register lookup = operand unset ⇒ `skipped` -/
def Spec.step (s : Spec) (n : Nat) (w : List String) (out : String) : Spec :=
  let skipped (s : Spec) : Spec :=
    if out = "skipped" then s else s.fail s!"op {n}: operand register unset but outcome `{out}`"
  let frameOp (s : Spec) (d : String) (t : Nat) (desc : FrameDesc) (mismatch : Bool) (mayPanic : Bool) : Spec :=
    let (s, go) := s.outcome n out mismatch mayPanic
    if !go then s else
    -- `h <thread> <index>`: the numbers inside the returned FrameHandle
    let s := match (words out).map num? with
      | [_, some _, some i] => { s with frames := (t, i, desc) :: s.frames }
      | _ => s
    s.setReg d (.frame t desc)
  match w with
  | ["process", d, pid, _, _] =>
    match num? pid with
    | some pid =>
      let (s, go) := s.outcome n out false false
      if !go then s else
      let s' : Spec := { s with procs := s.procs ++ [({ pid := expectedId s.pidUses pid } : SProc)], pidUses := pid :: s.pidUses }
      s'.setReg d (.proc s.procs.length)
    | none => s
  | ["thread", d, p, tid, _, m] =>
    match s.procR p, num? tid, flag? m with
    | some p, some tid, some m =>
      let (s, go) := s.outcome n out false false
      if !go then s else
      let h := s.threads.length
      let nt : SThread := { proc := p, tid := expectedId s.tidUses tid, isMain := m }
      let s' : Spec := { s with threads := s.threads ++ [nt], tidUses := tid :: s.tidUses }
      (s'.modProc p (fun pr => { pr with threads := pr.threads ++ [h] })).setReg d (.thread h)
    | _, _, _ => skipped s
  | ["settid", t, tid] =>
    match s.threadR t, num? tid with
    | some t, some tid =>
      let (s, go) := s.outcome n out false false
      if !go then s else
      { s with tidUses := tid :: s.tidUses }.modThread t (fun th => { th with tid := expectedId s.tidUses tid })
    | _, _ => skipped s
  | ["setstart", t, _] | ["setname", t, _] =>
    match s.threadR t with
    | some _ => (s.outcome n out false false).1
    | none => skipped s
  | ["setpname", p, _] | ["setpstart", p, _] =>
    match s.procR p with
    | some _ => (s.outcome n out false false).1
    | none => skipped s
  | ["lib", d, nm] =>
    match unhexStr? nm with
    | some nm => let (s, go) := s.outcome n out false false; if go then s.setReg d (.lib nm) else s
    | none => s
  | "libsyms" :: l :: rest =>
    match s.libR l, syms? rest with
    | some l, some syms =>
      let (s, go) := s.outcome n out false false
      if go then { s with symtabs := (l, syms) :: s.symtabs } else s
    | _, _ => skipped s
  | ["map", p, l, st, en, rl] =>
    match s.procR p, s.libR l, num? st, num? en, num? rl with
    | some p, some l, some st, some en, some rl =>
      let (s, go) := s.outcome n out false true
      let s := if st < en then s else { s with oddMaps := true }
      if !go then s else
      s.modProc p (fun pr => { pr with maps :=
        ⟨st, en, rl, l⟩ :: pr.maps.filter (fun m => !(decide (m.start < en) && decide (st < m.end_))) })
    | _, _, _, _, _ => skipped s
  | ["kmap", l, st, en, rl] =>
    match s.libR l, num? st, num? en, num? rl with
    | some l, some st, some en, some rl =>
      let (s, go) := s.outcome n out false true
      let s := if st < en then s else { s with oddMaps := true }
      if !go then s else
      { s with kmaps := ⟨st, en, rl, l⟩ :: s.kmaps.filter (fun m => !(decide (m.start < en) && decide (st < m.end_))) }
    | _, _, _, _ => skipped s
  | ["kunmap", st] =>
    match num? st with
    | some st =>
      let (s, go) := s.outcome n out false false
      if !go then s else { s with kmaps := s.kmaps.filter (fun m => m.start ≠ st) }
    | none => s
  | ["unmap", p, st] =>
    -- remove_lib_mapping: the mapping that *starts* at the address is gone, nothing else changes
    match s.procR p, num? st with
    | some p, some st =>
      let (s, go) := s.outcome n out false false
      if !go then s else s.modProc p (fun pr => { pr with maps := pr.maps.filter (fun m => m.start ≠ st) })
    | _, _ => skipped s
  | ["clearmaps", p] =>
    match s.procR p with
    | some p =>
      let (s, go) := s.outcome n out false false
      if !go then s else s.modProc p (fun pr => { pr with maps := [] })
    | none => skipped s
  | ["string", d, x] =>
    match unhexStr? x with
    | some x => let (s, go) := s.outcome n out false false; if go then s.setReg d (.str x) else s
    | none => s
  | ["cat", d, nm, col] =>
    match unhexStr? nm, num? col with
    | some nm, some col =>
      let (s, go) := s.outcome n out false false; if go then s.setReg d (.cat nm (col % 14)) else s
    | _, _ => s
  | ["subcat", d, c, nm] =>
    match s.catR c, unhexStr? nm with
    | some c, some nm =>
      let (s, go) := s.outcome n out false false; if go then s.setReg d (.sub c.1 c.2 nm) else s
    | _, _ => skipped s
  | ["flabel", d, t, x, sc, fl] =>
    match s.threadR t, s.strR x, s.subR sc, num? fl with
    | some t, some x, some (c, sb), some fl =>
      frameOp s d t ⟨x, c, sb, none, none, none, 0, none, none, none, fl % 4⟩ false false
    | _, _, _, _ => skipped s
  | ["flabelsrc", d, t, x, f, li, co, sc, fl] =>
    match s.threadR t, s.strR x, s.optStrR f, optNum? li, optNum? co, s.subR sc, num? fl with
    | some t, some x, some f, some li, some co, some (c, sb), some fl =>
      frameOp s d t ⟨x, c, sb, none, none, none, 0, f, li, co, fl % 4⟩ false false
    | _, _, _, _, _, _, _ => skipped s
  | ["faddr", d, t, k, a, sc, fl] | ["frel", d, t, k, _, a, sc, fl] =>
    let (mode, l) := match w with
      | ["frel", _, _, _, l, _, _, _] => ("rel", l)
      | _ => ("abs", "-")
    match s.threadR t, s.subR sc, num? fl with
    | some t, some (c, sb), some fl =>
      match s.resolve t mode k l a with
      | none => skipped s
      | some (.unknown addr) =>
        frameOp s d t ⟨hexStr addr, c, sb, none, none, none, 0, none, none, none, fl % 4⟩ false true
      | some (.inLib rel lib) =>
        match (lookupS s.symtabs lib).bind (fun tab => symLookup tab rel) with
        | some sym =>
          if !returned out then (s.outcome n out false true).1 else
          let s := s.registerNsym t lib sym
          match s.nsymInfo t lib sym.addr with
          | some (sz, nm) =>
            frameOp s d t ⟨nm, c, sb, some lib, some rel, some (lib, sym.addr, sz, nm), 0, none, none, none, fl % 4⟩ false true
          | none => s
        | none =>
          frameOp s d t ⟨hexStr rel, c, sb, some lib, some rel, none, 0, none, none, none, fl % 4⟩ false true
    | _, _, _ => skipped s
  | ["nsym", d, t, l, a, sz, nm] =>
    match s.threadR t, s.libR l, num? a, optNum? sz, unhexStr? nm with
    | some t, some l, some a, some sz, some nm =>
      let (s, go) := s.outcome n out false false
      if !go then s else
      let s := match (words out).map num? with
        | [_, some _, some j] => { s with nsymsOut := (t, j, l, a) :: s.nsymsOut }
        | _ => s
      (s.registerNsym t l ⟨a, sz, nm⟩).setReg d (.nsym t l a)
    | _, _, _, _, _ => skipped s
  | ["fsym", d, t, mode, k, l, a, nm, ns, f, li, co, dp, sc, fl] =>
    match s.threadR t, s.optStrR nm, s.reg ns, s.optStrR f, optNum? li, optNum? co, num? dp, s.subR sc, num? fl with
    | some t, some nm, some (.nsym owner nl na), some f, some li, some co, some dp, some (c, sb), some fl =>
      match s.resolve t mode k l a with
      | none => skipped s
      | some res =>
        let mismatch := owner != t
        match res with
        | .unknown addr =>
          frameOp s d t ⟨nm.getD (hexStr addr), c, sb, none, none, none, 0, f, li, co, fl % 4⟩ mismatch true
        | .inLib rel lib =>
          match s.nsymInfo owner nl na with
          | some (sz, sn) =>
            frameOp s d t ⟨nm.getD sn, c, sb, some lib, some rel, some (nl, na, sz, sn), dp, f, li, co, fl % 4⟩ mismatch true
          | none => s.fail s!"op {n}: native symbol register without registration"
    | _, _, _, _, _, _, _, _, _ => skipped s
  | ["stack", d, t, f, par] =>
    match s.threadR t, s.reg f, s.optStackR par with
    | some t, some (.frame fo fd), some (po, pd) =>
      let (s, go) := s.outcome n out (ownerMismatch t [some fo, po]) false
      if go then s.setReg d (.stack t (some (pd.getD [] ++ [fd]))) else s
    | _, _, _ => skipped s
  | "stackframes" :: d :: t :: fs =>
    match s.threadR t, fs.mapM (fun f => match s.reg f with | some (.frame o fd) => some (o, fd) | _ => none) with
    | some t, some frames =>
      let (s, go) := s.outcome n out (ownerMismatch t (frames.map (fun f => some f.1))) false
      if !go then s else
      s.setReg d (.stack t (if frames.isEmpty then none else some (frames.map (·.2))))
    | _, _ => skipped s
  | ["sample", t, _, st, z] =>
    match s.threadR t, s.optStackR st, flag? z with
    | some t, some (o, sd), some z =>
      let (s, go) := s.outcome n out (ownerMismatch t [o]) false
      if !go then s else
      s.modThread t (fun th => { th with samples := th.samples ++ [sd], lastStack := sd, lastZero := z })
    | _, _, _ => skipped s
  | ["samesample", t, _] =>
    match s.threadR t with
    | some t =>
      let (s, go) := s.outcome n out false false
      if !go then s else
      -- consecutive zero-CPU samples are combined into one row
      s.modThread t (fun th => if th.lastZero then th else
        { th with samples := th.samples ++ [th.lastStack], lastZero := true })
    | none => skipped s
  | ["allocsample", t, _, st, _] =>
    match s.threadR t, s.optStackR st with
    | some t, some (o, sd) =>
      let (s, go) := s.outcome n out (ownerMismatch t [o]) false
      if !go then s else
      match s.threads[t]? with
      | none => s
      | some th =>
        let first := (s.procs[th.proc]?).bind (·.threads.head?)
        let foreign := first != some t && sd.isSome
        -- the `foreign=` word of the op line is only a marker for KNOWN_FINDINGS' ops_regex; the
        -- attribution tag is computed from the call history itself
        s.modProc th.proc (fun pr => { pr with allocs := pr.allocs ++ [sd], foreignAlloc := pr.foreignAlloc || foreign })
    | _, _ => skipped s
  | ["mtype", d, _, c, f] =>
    match s.catR c, fmts? f with
    | some c, some f => let (s, go) := s.outcome n out false false; if go then s.setReg d (.mtype c f) else s
    | _, _ => skipped s
  | "marker" :: d :: t :: ty :: nm :: strs =>
    let tyInfo : Option ((String × Nat) × List Fmt) := match mtypeTok? ty with
      | some ("st", k, _) => ((num? k).bind staticSchema).map (fun sc => ((sc.2.1, sc.2.2.1), sc.2.2.2))
      | some ("rt", r, _) => match s.reg r with | some (.mtype c f) => some (c, f) | _ => none
      | _ => none
    -- specification side of `MarkerTiming`: Instant = start only, phase 0; Interval = both, 1;
    -- IntervalStart = start only, 2; IntervalEnd = end only, 3
    let tmw : String := ((ty.splitOn ":")[2]?).getD "i"
    let timing : Bool × Bool × Nat :=
      if tmw = "v" then (true, true, 1) else if tmw = "s" then (true, false, 2)
      else if tmw = "e" then (false, true, 3) else (true, false, 0)
    match s.threadR t, tyInfo, s.strR nm, strs.mapM s.strR with
    | some t, some (c, f), some nm, some vals =>
      let (s, go) := s.outcome n out false false
      if !go then s else
      match s.threads[t]? with
      | none => s
      | some th =>
        let ustr := ((f.filter (· ≠ .n)).zip vals).filter (·.1 = .u) |>.map (·.2)
        (s.modThread t (fun th => { th with markers := th.markers ++ [⟨nm, c, none, ustr, timing⟩] })).setReg d
          (.marker t th.markers.length)
    | _, _, _, _ => skipped s
  | ["mstack", t, m, st] =>
    match s.threadR t, s.reg m, s.optStackR st with
    | some t, some (.marker _ idx), some (o, sd) =>
      -- a MarkerHandle is a bare index: on thread `t` it addresses `t`'s marker `idx`, if that exists
      let cnt := ((s.threads[t]?).map (·.markers.length)).getD 0
      let (s, go) := s.outcome n out (ownerMismatch t [o]) (decide (cnt ≤ idx))
      if !go then s else
      if cnt ≤ idx then s.fail s!"op {n}: marker index {idx} does not exist on the thread, yet the call returned" else
      s.modThread t (fun th => { th with markers := th.markers.modify idx (fun mk => { mk with stack := sd }) })
    | _, _, _ => skipped s
  | ["counter", d, p] =>
    match s.procR p with
    | some p =>
      let (s, go) := s.outcome n out false false
      if go then { s with counters := s.counters ++ [p] }.setReg d (.counter p) else s
    | none => skipped s
  | ["csample", c, _] =>
    match s.reg c with
    | some (.counter _) => (s.outcome n out false false).1
    | _ => skipped s
  | ["visible", t] =>
    match s.threadR t with
    | some t => let (s, go) := s.outcome n out false false; if go then { s with visible := s.visible ++ [t] } else s
    | none => skipped s
  | ["selected", t] =>
    match s.threadR t with
    | some t => let (s, go) := s.outcome n out false false; if go then { s with selected := s.selected ++ [t] } else s
    | none => skipped s
  | _ => s.fail s!"op {n}: unknown op"

def Spec.run (ws : List (List String)) (outs : List String) : Spec :=
  let rec go (s : Spec) (n : Nat) : List (List String) → List String → Spec
    | w :: ws, o :: os => go (s.step n w o) (n + 1) ws os
    | _, _ => s
  go {} 0 ws outs

/-! ### parsing the printed tables -/

def nats? (ws : List String) : Option (List Nat) := ws.mapM num?
def opts? (ws : List String) : Option (List (Option Nat)) := ws.mapM optNum?

def tagged (tag : String) (l : String) : Option (List String) :=
  match words l with
  | t :: rest => if t = tag then some rest else none
  | [] => none

def colorIdx? (s : String) : Option Nat := (List.range 14).find? (fun i => colorName i = s)

def parseCat (w : String) : Option (String × Nat × List String) :=
  match w.splitOn ":" with
  | [n, c, subs] => do
    let n ← unhexStr? n
    let c ← colorIdx? c
    let subs ← (if subs.isEmpty then some [] else (subs.splitOn ",").mapM unhexStr?)
    pure (n, c, subs)
  | _ => none

def parseUstr (w : String) : Option (Nat × Nat) :=
  match w.splitOn ":" with
  | [i, v] => do pure (← num? i, ← num? v)
  | _ => none

/-- header `TAG len c1 c2 …` -/
def header? (tag : String) (l : String) : Option (Nat × List Nat) := do
  let ws ← tagged tag l
  match ws with
  | len :: cols => do pure (← num? len, ← nats? cols)
  | [] => none

def parseThread (ls : List String) : Except String (SerThread × List String) :=
  let bad (l : String) : Except String (SerThread × List String) := .error s!"malformed table line `{l}`"
  match ls with
  | lt :: lS :: lFT :: lFunc :: lCat :: lSub :: lLine :: lCol :: lAddr :: lNsym :: lDepth ::
    lFN :: lFnName :: lFnFlags :: lFnRes :: lFnFile :: lRT :: lRtLib :: lRtName ::
    lNS :: lNsAddr :: lNsSize :: lNsLib :: lNsName :: lST :: lStPre :: lStFrame :: lSA :: lSaStack :: lNA :: rest =>
    let naPart : Option (Option (Nat × List Nat × List (Option Nat)) × List String) :=
      if lNA = "NA -" then some (none, rest) else
      match rest with
      | lNaStack :: rest' => do
        let (len, cols) ← header? "NA" lNA
        let st ← (tagged "NA.stack" lNaStack).bind opts?
        pure (some (len, cols, st), rest')
      | [] => none
    match naPart with
    | none => bad lNA
    | some (na, rest) =>
    match rest with
    | lMK :: lMkCat :: lMkName :: lMkStack :: lMkStart :: lMkEnd :: lMkPhase :: lMkUstr :: rest =>
      let r : Option SerThread := do
        let tw ← tagged "thread" lt
        let (pid, tid, main, pn, nm) ← (match tw with
          | [pid, tid, m, pn, nm] => do pure (pid, tid, ← flag? m, ← unhexStr? pn, ← unhexStr? nm)
          | _ => none)
        let sw ← tagged "S" lS
        let strings ← (match sw with
          | cnt :: strs => do
            let cnt ← num? cnt
            let strs ← strs.mapM unhexStr?
            if strs.length = cnt then pure strs else none
          | [] => none)
        let (ftLen, ftCols) ← header? "FT" lFT
        let (fnLen, fnCols) ← header? "FN" lFN
        let (rtLen, rtCols) ← header? "RT" lRT
        let (nsLen, nsCols) ← header? "NS" lNS
        let (stLen, stCols) ← header? "ST" lST
        let (saLen, saCols) ← header? "SA" lSA
        let (mkLen, mkCols) ← header? "MK" lMK
        pure {
          pid := pid, tid := tid, isMain := main, processName := pn, name := nm, strings := strings,
          ftLen := ftLen, ftCols := ftCols,
          ftFunc := ← (tagged "FT.func" lFunc).bind nats?, ftCat := ← (tagged "FT.cat" lCat).bind nats?,
          ftSub := ← (tagged "FT.sub" lSub).bind nats?, ftLine := ← (tagged "FT.line" lLine).bind opts?,
          ftCol := ← (tagged "FT.col" lCol).bind opts?, ftAddr := ← (tagged "FT.addr" lAddr).bind opts?,
          ftNsym := ← (tagged "FT.nsym" lNsym).bind opts?, ftDepth := ← (tagged "FT.depth" lDepth).bind nats?,
          fnLen := fnLen, fnCols := fnCols,
          fnName := ← (tagged "FN.name" lFnName).bind nats?, fnFlags := ← (tagged "FN.flags" lFnFlags).bind nats?,
          fnRes := ← (tagged "FN.res" lFnRes).bind opts?, fnFile := ← (tagged "FN.file" lFnFile).bind opts?,
          rtLen := rtLen, rtCols := rtCols,
          rtLib := ← (tagged "RT.lib" lRtLib).bind nats?, rtName := ← (tagged "RT.name" lRtName).bind nats?,
          nsLen := nsLen, nsCols := nsCols,
          nsAddr := ← (tagged "NS.addr" lNsAddr).bind nats?, nsSize := ← (tagged "NS.size" lNsSize).bind opts?,
          nsLib := ← (tagged "NS.lib" lNsLib).bind nats?, nsName := ← (tagged "NS.name" lNsName).bind nats?,
          stLen := stLen, stCols := stCols,
          stPrefix := ← (tagged "ST.prefix" lStPre).bind opts?, stFrame := ← (tagged "ST.frame" lStFrame).bind nats?,
          saLen := saLen, saCols := saCols, saStack := ← (tagged "SA.stack" lSaStack).bind opts?,
          na := na,
          mkLen := mkLen, mkCols := mkCols,
          mkCat := ← (tagged "MK.cat" lMkCat).bind nats?, mkName := ← (tagged "MK.name" lMkName).bind nats?,
          mkStack := ← (tagged "MK.stack" lMkStack).bind opts?,
          mkUstr := ← (tagged "MK.ustr" lMkUstr).bind (·.mapM parseUstr),
          mkStart := ← (tagged "MK.start" lMkStart).bind (·.mapM flag?),
          mkEnd := ← (tagged "MK.end" lMkEnd).bind (·.mapM flag?),
          mkPhase := ← (tagged "MK.phase" lMkPhase).bind nats? }
      match r with
      | some t => .ok (t, rest)
      | none =>
        -- name the first line that does not parse (a missing column prints `x` / `missing` / `?`)
        let all := [lt, lS, lFT, lFunc, lCat, lSub, lLine, lCol, lAddr, lNsym, lDepth, lFN, lFnName, lFnFlags, lFnRes,
          lFnFile, lRT, lRtLib, lRtName, lNS, lNsAddr, lNsSize, lNsLib, lNsName, lST, lStPre, lStFrame, lSA, lSaStack,
          lNA, lMK, lMkCat, lMkName, lMkStack, lMkStart, lMkEnd, lMkPhase, lMkUstr]
        let culprit := all.find? (fun l => (words l).any (fun w => w = "x" || w = "?" || w = "missing" || w.endsWith ":x" || w.endsWith ":noschema"))
        .error s!"a table column is missing or malformed in thread `{lt}`: `{culprit.getD "?"}`"
    | _ => .error "truncated thread tables"
  | _ => .error "truncated thread tables"

def parseTables (ls : List String) : Except String SerProfile :=
  match ls with
  | lLibs :: lCats :: lVis :: lSel :: rest =>
    let hd : Option (List String × List (String × Nat × List String) × List Nat × List Nat) := do
      let libs ← (tagged "libs" lLibs).bind (·.mapM unhexStr?)
      let cats ← (tagged "cats" lCats).bind (·.mapM parseCat)
      let vis ← (tagged "vis" lVis).bind nats?
      let sel ← (tagged "sel" lSel).bind nats?
      pure (libs, cats, vis, sel)
    match hd with
    | none => .error "malformed libs/cats/vis/sel lines"
    | some (libs, cats, vis, sel) =>
      let cl := rest.takeWhile (·.startsWith "counter ")
      let tl := rest.dropWhile (·.startsWith "counter ")
      match cl.mapM (fun l => match words l with
          | [_, pid, mti, n] => do pure (⟨pid, ← num? mti, ← num? n⟩ : SerCounter)
          | _ => none) with
      | none => .error "malformed counter line"
      | some counters =>
        let rec threads (fuel : Nat) (ls : List String) (acc : List SerThread) : Except String (List SerThread) :=
          match fuel, ls with
          | _, [] => .ok acc.reverse
          | 0, _ => .error "too many lines"
          | fuel + 1, ls =>
            match parseThread ls with
            | .ok (t, rest) => threads fuel rest (t :: acc)
            | .error e => .error e
        match threads tl.length tl [] with
        | .ok ts => .ok ⟨libs, cats, vis, sel, counters, ts⟩
        | .error e => .error e
  | _ => .error "missing table lines"

/-! ### decoding tables back into descriptions -/

-- `decodeFrame` = `PT.decodeFrame` (`rowFrame` then `descOfFrame`), see `Model/ProfileDecode.lean`

-- `decodeStack` = `PT.decodeStack` (walk `stackTable.prefix` from the row, decode every frame), the vocabulary of
-- `C03_canonical_stack_decoded`; `wf` (checked first) guarantees `prefix[i] < i`, so the fuel `i + 1` suffices

def decodeOptStack (s : SerProfile) (t : SerThread) : Option Nat → Option StackDesc
  | none => some none
  | some i => (decodeStack s t i).map some

def msEq {α : Type} [DecidableEq α] (a b : List α) : Bool :=
  decide (a.length = b.length) && a.all (fun x => a.count x = b.count x)

/-! ### the verdict -/

/-- first failing clause of `wfThread`, for the explanation only (the verdict is `PT.wf`) -/
def whyThread (nLibs : Nat) (cats : List (Str × Nat × List Str)) (t : SerThread) : String :=
  let nStr := t.strings.length
  let checks : List (String × Bool) := [
    ("frameTable column lengths", t.ftCols.all (· = t.ftLen) && t.ftFunc.length = t.ftLen && t.ftCat.length = t.ftLen && t.ftSub.length = t.ftLen && t.ftNsym.length = t.ftLen),
    ("funcTable column lengths", t.fnCols.all (· = t.fnLen) && t.fnName.length = t.fnLen && t.fnRes.length = t.fnLen && t.fnFile.length = t.fnLen),
    ("resourceTable column lengths", t.rtCols.all (· = t.rtLen) && t.rtLib.length = t.rtLen && t.rtName.length = t.rtLen),
    ("nativeSymbols column lengths", t.nsCols.all (· = t.nsLen) && t.nsLib.length = t.nsLen && t.nsName.length = t.nsLen),
    ("stackTable column lengths", t.stCols.all (· = t.stLen) && t.stPrefix.length = t.stLen && t.stFrame.length = t.stLen),
    ("samples column lengths", t.saCols.all (· = t.saLen) && t.saStack.length = t.saLen),
    ("markers column lengths", t.mkCols.all (· = t.mkLen) && t.mkCat.length = t.mkLen && t.mkName.length = t.mkLen && t.mkStack.length = t.mkLen),
    ("frameTable.func out of range", t.ftFunc.all (· < t.fnLen)),
    ("frameTable.category out of range", t.ftCat.all (· < cats.length)),
    ("frameTable.subcategory out of range", subOk cats t.ftCat t.ftSub),
    ("frameTable.nativeSymbol out of range", t.ftNsym.all (optBelow t.nsLen)),
    ("funcTable.name out of range", t.fnName.all (· < nStr)),
    ("funcTable.fileName out of range", t.fnFile.all (optBelow nStr)),
    ("funcTable.resource out of range", t.fnRes.all (optBelow t.rtLen)),
    ("resourceTable.lib out of range", t.rtLib.all (· < nLibs)),
    ("resourceTable.name out of range", t.rtName.all (· < nStr)),
    ("nativeSymbols.libIndex out of range", t.nsLib.all (· < nLibs)),
    ("nativeSymbols.name out of range", t.nsName.all (· < nStr)),
    ("stackTable.frame out of range", t.stFrame.all (· < t.ftLen)),
    ("stackTable.prefix not an earlier row", prefixOk 0 t.stPrefix),
    ("samples.stack out of range", t.saStack.all (optBelow t.stLen)),
    ("nativeAllocations.stack out of range or column lengths", match t.na with
      | none => true
      | some (len, cols, stack) => cols.all (· = len) && stack.length = len && stack.all (optBelow t.stLen)),
    ("marker cause.stack out of range", t.mkStack.all (optBelow t.stLen)),
    ("markers.category out of range", t.mkCat.all (· < cats.length)),
    ("markers.name out of range", t.mkName.all (· < nStr)),
    ("marker unique-string field out of range", t.mkUstr.all (fun iv => decide (iv.1 < t.mkLen) && decide (iv.2 < nStr)))]
  match checks.find? (fun c => !c.2) with
  | some c => s!"thread tid={t.tid}: {c.1}"
  | none => ""

def whyWf (s : SerProfile) : String :=
  match s.threads.find? (fun t => !wfThread s.libs.length s.cats t) with
  | some t => whyThread s.libs.length s.cats t
  | none =>
    if !distinct (s.threads.map (·.tid)) then "tid strings not pairwise distinct"
    else if !contiguous (s.threads.map (·.pid)) then "threads of a process not adjacent"
    else if !mainFirst (s.threads.map (fun t => (t.pid, t.isMain))) then "main thread not first within its process"
    else "initialVisibleThreads / initialSelectedThreads out of range"

/-- drop the stack column of every `nativeAllocations` table (used to attribute a failure to the known
finding: the verdict is computed on the unmodified tables) -/
def maskAllocs (s : SerProfile) : SerProfile :=
  { s with threads := s.threads.map (fun t => { t with na := t.na.map (fun a => (a.1, a.2.1, a.2.2.map (fun _ => none))) }) }

def posOfTid (s : SerProfile) (tid : String) : Option Nat :=
  let i := (s.threads.map (·.tid)).idxOf tid
  if i < s.threads.length then some i else none

/-- identity clauses; `none` = fine -/
def checkIdentity (sp : Spec) (s : SerProfile) : Option String :=
  if s.threads.length ≠ sp.threads.length then
    some s!"{sp.threads.length} threads were created, {s.threads.length} are serialized" else
  let pids := sp.procs.map (·.pid)
  if !distinct pids then some "expected pid strings collide" else
  -- every created thread appears under its tid, with its process's pid, main flag preserved
  let bad := (List.range sp.threads.length).find? (fun h =>
    match sp.threads[h]? with
    | none => true
    | some th =>
      match (posOfTid s th.tid).bind (s.threads[·]?) with
      | none => true
      | some st => !(some st.pid = (sp.procs[th.proc]?).map (·.pid) && st.isMain = th.isMain))
  match bad with
  | some h => some s!"thread handle {h}: no serialized thread with its tid string, or wrong pid / isMainThread"
  | none =>
  let posOf (h : Nat) : Option Nat := (sp.threads[h]?).bind (fun th => posOfTid s th.tid)
  if s.visible.map some ≠ sp.visible.map posOf then some "initialVisibleThreads does not denote the threads the caller named" else
  if s.selected.map some ≠ sp.selected.map posOf then some "initialSelectedThreads does not denote the threads the caller named" else
  if s.counters.length ≠ sp.counters.length then some "number of counters differs" else
  let badc := (List.range sp.counters.length).find? (fun c =>
    match sp.counters[c]?, s.counters[c]? with
    | some p, some sc =>
      match sp.procs[p]? with
      | none => true
      | some pr =>
        if sc.pid ≠ pr.pid then true else
        -- the format requires a thread; a counter on a thread-less process is outside the property
        if pr.threads.isEmpty then false else
        let first := (s.threads.map (·.pid)).idxOf pr.pid
        !(sc.mainThreadIndex = first && first < s.threads.length)
    | _, _ => true)
  match badc with
  | some c => some s!"counter {c}: pid or mainThreadIndex does not denote the first thread of the process the caller named"
  | none => none

/-- the caller's view (`PT.CallerView`) computed from the op lines alone -/
def Spec.view (sp : Spec) : CallerView where
  procs := sp.procs.map (·.pid)
  threads := sp.threads.map (fun th => (th.proc, th.tid, th.isMain))
  counters := sp.counters.map (fun p => (p, ((sp.procs[p]?).map (·.pid)).getD "?"))
  visible := sp.visible
  selected := sp.selected

/-- canonical interning of samples and markers of one thread; `none` = fine -/
def checkThreadCanonical (sp : Spec) (s : SerProfile) (h : Nat) : Option String :=
  match sp.threads[h]? with
  | none => none
  | some th =>
    match (posOfTid s th.tid).bind (s.threads[·]?) with
    | none => some "thread missing"
    | some st =>
      match st.saStack.mapM (decodeOptStack s st) with
      | none => some s!"tid={th.tid}: a sample's stack cannot be decoded"
      | some got =>
        if !msEq got th.samples then some s!"tid={th.tid}: walking the samples' stacks does not give back the frame lists the caller supplied" else
        if st.mkLen ≠ th.markers.length then some s!"tid={th.tid}: number of markers differs" else
        let badm := (List.range th.markers.length).find? (fun i =>
          match th.markers[i]? with
          | none => true
          | some m =>
            let name := (st.mkName[i]?).bind (st.strings[·]?)
            let cat := ((st.mkCat[i]?).bind (s.cats[·]?)).map (fun c => (c.1, c.2.1))
            let stack := (st.mkStack[i]?).bind (decodeOptStack s st)
            let ustr := ((st.mkUstr.filter (·.1 = i)).mapM (fun iv => st.strings[iv.2]?))
            let timing := match st.mkStart[i]?, st.mkEnd[i]?, st.mkPhase[i]? with
              | some a, some b, some ph => some (a, b, ph)
              | _, _, _ => none
            !(name = some m.name && cat = some m.cat && stack = some m.stack && ustr = some m.ustr
              && timing = some m.timing))
        match badm with
        | some i => some s!"tid={th.tid}: marker {i} does not carry the name / category / stack / strings / timing the caller supplied"
        | none => none

/-- every frame handle denotes, after serialization, the frame the caller described — whether or not a
sample / marker refers to it; every frame row decodes; every resource row is named after its library -/
def checkFramesCanonical (sp : Spec) (s : SerProfile) : Option String :=
  match s.threads.find? (fun st => !resNamesOk s st) with
  | some st => some s!"tid={st.tid}: a resourceTable row is not named after its library"
  | none =>
  match s.threads.find? (fun st => !(List.range st.ftLen).all (fun i => (decodeFrame s st i).isSome)) with
  | some st => some s!"tid={st.tid}: a frame row cannot be decoded"
  | none =>
  let bad := sp.frames.find? (fun f =>
    match (sp.threads[f.1]?).bind (fun th => (posOfTid s th.tid).bind (s.threads[·]?)) with
    | none => true
    | some st => decodeFrame s st f.2.1 != some f.2.2)
  match bad with
  | some f => some s!"frame handle ({f.1}, {f.2.1}) does not decode to the frame the caller supplied"
  | none =>
  -- native symbol handles: row `j` is (library, address, size and name of the first registration)
  let badn := sp.nsymsOut.find? (fun n =>
    match (sp.threads[n.1]?).bind (fun th => (posOfTid s th.tid).bind (s.threads[·]?)), sp.nsymInfo n.1 n.2.2.1 n.2.2.2 with
    | some st, some (sz, nm) => decodeNsym s st n.2.1 != some (n.2.2.1, n.2.2.2, sz, nm)
    | _, _ => true)
  match badn with
  | some n => some s!"native symbol handle ({n.1}, {n.2.1}) does not decode to the symbol the caller registered"
  | none => none

/-- allocation samples of a process live on its first thread; `none` = fine -/
def checkAllocCanonical (sp : Spec) (s : SerProfile) (p : Nat) : Option String :=
  match sp.procs[p]? with
  | none => none
  | some pr =>
    if pr.allocs.isEmpty then none else
    match (pr.threads.head?).bind (sp.threads[·]?) with
    | none => some "allocation samples on a process without thread"
    | some th =>
      match (posOfTid s th.tid).bind (s.threads[·]?) with
      | none => some "thread missing"
      | some st =>
        match st.na with
        | none => some s!"tid={th.tid}: nativeAllocations missing"
        | some (_, _, stacks) =>
          if stacks.mapM (decodeOptStack s st) = some pr.allocs then none
          else some s!"tid={th.tid}: walking the allocation samples' stacks does not give back the frame lists the caller supplied"

def judge (ops impl : List String) : Bool × String :=
  let ws := ops.map words
  if !checkProgram ws then (true, "skipped: ill-formed op list") else
  if impl = ["bad-op"] then (false, "implementation driver rejected a well-formed op list") else
  let outs := impl.take ops.length
  let tables := impl.drop ops.length
  if outs.length ≠ ops.length then (false, "implementation panicked outside a call (fewer outcome lines than ops)") else
  let sp := Spec.run ws outs
  match sp.err with
  | some e => (false, e)
  | none =>
  if tables = ["panic"] then (false, "serialization panicked") else
  match parseTables tables with
  | .error e => (false, e)
  | .ok s =>
    let foreign := sp.procs.any (·.foreignAlloc)
    if !wf s then
      if foreign && wf (maskAllocs s) then
        (false, "[alloc-foreign-stack] " ++ whyWf s)
      else (false, whyWf s)
    else
    -- the identity clauses: `PT.identOk` is the conclusion of theorem `C03_identity`; `checkIdentity`
    -- (the first round's formulation of the same clauses) names the failing clause and stays a verdict
    match checkIdentity sp s with
    | some e => (false, e)
    | none =>
    if !identOk sp.view s then (false, "identity clauses (identOk) violated") else
    if sp.oddMaps then (true, "ok (canonical clause not judged: empty or inverted mapping range)") else
    match (List.range sp.threads.length).findSome? (checkThreadCanonical sp s) with
    | some e => (false, e)
    | none =>
    match checkFramesCanonical sp s with
    | some e => (false, e)
    | none =>
    match (List.range sp.procs.length).findSome? (fun p =>
        (checkAllocCanonical sp s p).map (fun e => (p, e))) with
    | some (p, e) =>
      if ((sp.procs[p]?).map (·.foreignAlloc)).getD false then (false, "[alloc-foreign-stack] " ++ e) else (false, e)
    | none => (true, "ok")

end C03
