import SamplyModel.Iface.Conv
import SamplyModel.Model.ConvSpec
/-!
Judges of the perf.data-driven properties: each evaluates the property's statement on the
*implementation's* output lines, against the specification side (`Model/ConvSpec.lean`) computed from the
operation lines only.
-/
namespace ConvJudge
open Conv ConvSpec ConvIface Proto

structure OThread where
  pid : String
  tid : String
  fields : List (String × String)
  /-- (time, rest of the sample line split into words) -/
  samples : List (Nat × List String)
  /-- marker stacks: (time, rest of the `m` line split into words) -/
  markers : List (Nat × List String) := []
deriving Repr

def field (t : OThread) (k : String) : String := ((t.fields.find? (·.1 == k)).map (·.2)).getD ""

/-- parse `thread …` / `s …` lines -/
def parseOut (ls : List String) : Option (List OThread) :=
  let rec go (ls : List String) (cur : Option OThread) (acc : List OThread) : Option (List OThread) :=
    match ls with
    | [] => some ((match cur with | some c => c :: acc | none => acc).reverse)
    | l :: rest =>
      match words l with
      | "thread" :: pid :: tid :: kv =>
        let fields := kv.filterMap (fun w => match w.splitOn "=" with | [k, v] => some (k, v) | _ => none)
        go rest (some { pid, tid, fields, samples := [] }) (match cur with | some c => c :: acc | none => acc)
      | "s" :: t :: more =>
        match cur with
        | some c => go rest (some { c with samples := c.samples ++ [(nat! t, more)] }) acc
        | none => none
      | "m" :: t :: more =>
        match cur with
        | some c => go rest (some { c with markers := c.markers ++ [(nat! t, more)] }) acc
        | none => none
      | _ => none
  go ls none []

def baseOf (s : String) : Nat := nat! ((s.splitOn ".").headD "")

def natLe (a b : Nat × Nat × Nat) : Bool :=
  a.1 < b.1 || (a.1 == b.1 && (a.2.1 < b.2.1 || (a.2.1 == b.2.1 && a.2.2 ≤ b.2.2)))

/-! ### C01 -/

def judgeC01Plain (ops impl : List String) : Bool × String :=
  match parse ops, parseOut impl with
  | some (_, rs), none =>
    if impl == ["panic"] then panicVerdict rs else (false, s!"unparsable implementation output: {impl.take 2}")
  | some (cfg, rs), some threads =>
    let acc := accepted rs
    let outAll := threads.flatMap (fun t => t.samples.map (fun s => (baseOf t.pid, baseOf t.tid, s.1, s.2)))
    if outAll.any (fun o => o.2.2.2 != ["1"]) then (false, "a sample does not have weight 1") else
    if cfg.reuse then
      -- merged entries allowed: every accepted sample appears once at its time, nothing else
      let want := (acc.map (fun a => a.t - cfg.ref)).mergeSort (· ≤ ·)
      let got := (outAll.map (fun o => o.2.2.1)).mergeSort (· ≤ ·)
      if want == got then (true, "ok") else
        (false, s!"reuse: sample times differ: accepted {want.length} output {got.length}")
    else if Life.grammarOk cfg.ref rs then
      -- inside the FORK / EXEC grammar the eager lifecycle `Life` says which incarnation of the pid / tid is
      -- current at every sample: the key is the *entry* (`pid`, `pid.1`, … / `tid`, `tid.1`, …), not the number
      -- (`C01_conservation_entry`): a sample in the entry of an earlier or later incarnation is a violation
      let want := ((acceptedInc cfg.ref rs).map
        (fun a => s!"{idStr a.pid a.psuffix} {idStr a.tid a.tsuffix} {a.t - cfg.ref}")).mergeSort strLe
      let got := (threads.flatMap (fun t => t.samples.map (fun s => s!"{t.pid} {t.tid} {s.1}"))).mergeSort strLe
      if want == got then (true, "ok") else
        let missing := want.filter (fun w => !got.contains w)
        let extra := got.filter (fun g => !want.contains g)
        (false, s!"samples differ (keyed by entry): accepted {want.length} output {got.length}; missing (pid-entry tid-entry t) {missing.take 3}; unexpected {extra.take 3}")
    else
      let want := (acc.map (fun a => (a.pid, a.tid, a.t - cfg.ref))).mergeSort natLe
      let got := (outAll.map (fun o => (o.1, o.2.1, o.2.2.1))).mergeSort natLe
      if want == got then (true, "ok") else
        let missing := want.filter (fun w => !got.contains w)
        let extra := got.filter (fun g => !want.contains g)
        (false, s!"samples differ: accepted {want.length} output {got.length}; missing (pid,tid,t) {missing.take 3}; unexpected {extra.take 3}")
  | none, _ => (false, "bad-op")

/-! ### context-switch families (C12 `conv` mode, C01) -/

def lexLe : List Nat → List Nat → Bool
  | [], _ => true
  | _ :: _, [] => false
  | a :: as, b :: bs => a < b || (a == b && lexLe as bs)

/-- output samples of the `cs` projection as (pid, tid, t, off, weight, cpu µs); `none` if a line is malformed -/
def csOut (threads : List OThread) : Option (List (List Nat)) :=
  (threads.flatMap (fun t => t.samples.map (fun s => (baseOf t.pid, baseOf t.tid, s.1, s.2)))).mapM
    (fun o => match o.2.2.2 with
      | [kind, w, c] =>
        if kind == "on" || kind == "off" then
          some [o.1, o.2.1, o.2.2.1, if kind == "off" then 1 else 0, nat! w, nat! c]
        else none
      | _ => none)

def csWant (cfg : Config) (rs : List Rec) : List (List Nat) :=
  (CsSpec.expected cfg rs).map (fun e => [e.pid, e.tid, e.t - cfg.ref, if e.off then 1 else 0, e.weight, e.cpuNs / 1000])

/-- see `judgeCs`; `got0` = the output samples as [pid, tid, t, off, weight, cpu µs] -/
def judgeCsGot (cfg : Config) (rs : List Rec) (got0 : List (List Nat)) : Bool × String :=
    let unkey (l : List (List Nat)) := if cfg.reuse then l.map (fun x => x.drop 2) else l
    let want := (unkey (csWant cfg rs)).mergeSort lexLe
    let got := (unkey got0).mergeSort lexLe
    if want != got then
      let missing := want.filter (fun w => !got.contains w)
      let extra := got.filter (fun g => !want.contains g)
      (false, s!"samples differ from the record history: expected {want.length} got {got.length}; expected-but-absent [pid,tid,t,off,weight,cpu] {missing.take 3}; unexpected {extra.take 3}")
    else if cfg.reuse || CsSpec.hasCut rs then (true, "ok") else
    let tab := (CsSpec.run cfg rs).1
    let minT := (rs.map CsSpec.recTime).foldl min (rs.headD (.exit 0 0 0) |> CsSpec.recTime)
    let rec go : List ((Nat × Nat) × CsSpec.TS) → Bool × String
      | [] => (true, "ok")
      | ((pid, tid), ts) :: rest =>
        let mine := got0.filter (fun x => x.take 2 == [pid, tid])
        let cpuSum := (mine.map (fun x => x.getD 5 0)).sum
        let offW := ((mine.filter (fun x => x.getD 3 0 == 1)).map (fun x => x.getD 4 0)).sum
        let wholeUs := (CsSpec.expected cfg rs).all (fun e => e.cpuNs % 1000 == 0)
        if cfg.offCpu.isSome && wholeUs && cpuSum * 1000 != ts.handed then
          (false, s!"cpu: thread {pid}/{tid}: cpu deltas add up to {cpuSum} µs, running time up to the last sample is {ts.handed} ns")
        else if cfg.offCpu.isSome && !(decide (cpuSum * 1000 ≤ ts.handed) && decide (ts.handed < (cpuSum + mine.length + 1) * 1000)) then
          (false, s!"cpu: thread {pid}/{tid}: cpu deltas add up to {cpuSum} µs in {mine.length} samples, running time is {ts.handed} ns")
        else if cfg.offWeight == 1 && decide (ts.counted < 2^31) && offW + ts.dropped != ts.counted then
          (false, s!"offcpu: thread {pid}/{tid}: off-CPU weights {offW} + dropped {ts.dropped} ≠ accounted units {ts.counted} (sleeping {ts.h.sleeping} ns, interval {cfg.interval})")
        else if decide (cfg.ref ≤ minT) && (mine.filter (fun x => x.getD 3 0 == 1)).any (fun x =>
            !(ts.sleeps.any (fun sl => decide (sl.1 - cfg.ref < x.getD 2 0) && decide (x.getD 2 0 ≤ sl.2 - cfg.ref)))) then
          (false, s!"inside: thread {pid}/{tid}: an off-CPU sample lies outside every sleep {ts.sleeps.take 4}")
        else go rest
    go tab

/-- see `judgeCs` -/
def judgeCsCore (cfg : Config) (rs : List Rec) (impl : List String) : Bool × String :=
  match parseOut impl with
  | some threads =>
    match csOut threads with
    | none => (false, "unparsable sample line")
    | some got0 => judgeCsGot cfg rs got0
  | none => (false, s!"unparsable implementation output: {impl.take 2}")

/-- The statement of C12 at converter level, evaluated on samply's output against the bare record history:
(1) the samples of every thread are exactly the ones the declarative reading `CsSpec.expected` predicts (time,
on/off, weight, cpu delta); and, on histories without EXIT / EXEC, per thread: (2) the cpu deltas add up to the
running time observed up to the last sample that carries one (exactly when all deltas are whole µs, else within
the rounding of one µs per sample); (3) the off-CPU weights add up to the units of sleeping time accounted,
minus the units of dropped groups; (4) every off-CPU sample lies inside a sleep of its thread. -/
def judgeCs (ops impl : List String) : Bool × String :=
  -- outside the statement's quantifier (a sampling interval > 0, a time-ordered history): compared with the
  -- model only
  if cfgPanics ops then (true, "not-applicable: the event interpretation panics (frequency 0 / period 0)") else
  match parse ops with
  | some (cfg, rs) =>
    if cfg.interval = 0 then (true, "not-applicable: interval 0") else
    if !CsSpec.timeOrdered rs then (true, "not-applicable: history not time-ordered") else
    judgeCsCore cfg rs impl
  | none => (false, "bad-op")

/-- C01 in the presence of context switches: "conservation of samples" reads (a) the *recorded* samples — output
samples that do not carry a stored off-CPU stack — are exactly the accepted samples, each once, weight 1; (b) the
synthesized off-CPU samples are additional samples and are exactly the groups the bare history predicts
(a first sample of weight 1 unit and, for a group of n > 1 units, a rest sample of weight n − 1). -/
def judgeC01Cs (ops impl : List String) : Bool × String :=
  match parse ops, parseOut impl with
  | some (cfg, rs), some threads =>
    match csOut threads with
    | none => (false, "unparsable sample line")
    | some got0 =>
      let unkey (l : List (List Nat)) := if cfg.reuse then l.map (fun x => x.drop 2) else l
      let key4 (x : List Nat) := x.take 5   -- pid tid t off weight
      let acc := (accepted rs).map (fun a => [a.pid, a.tid, a.t - cfg.ref, 0, 1])
      let gotOn := (got0.filter (fun x => x.getD 3 0 == 0)).map key4
      let w := (unkey acc).mergeSort lexLe
      let g := (unkey gotOn).mergeSort lexLe
      if w != g then
        (false, s!"recorded samples differ: accepted {w.length} output {g.length}; missing [pid,tid,t,off,weight] {(w.filter (fun x => !g.contains x)).take 3}; unexpected {(g.filter (fun x => !w.contains x)).take 3}")
      else if cfg.interval = 0 || !CsSpec.timeOrdered rs then (true, "ok (synthesized samples not judged)") else
      let wantOff := (unkey (((csWant cfg rs).filter (fun x => x.getD 3 0 == 1)).map key4)).mergeSort lexLe
      let gotOff := (unkey ((got0.filter (fun x => x.getD 3 0 == 1)).map key4)).mergeSort lexLe
      if wantOff != gotOff then
        (false, s!"synthesized off-CPU samples differ from the groups of the record history: expected {wantOff.length} got {gotOff.length}; missing {(wantOff.filter (fun x => !gotOff.contains x)).take 3}; unexpected {(gotOff.filter (fun x => !wantOff.contains x)).take 3}")
      else (true, "ok")
  | none, _ => (false, "bad-op")
  | _, none => (false, s!"unparsable implementation output: {impl.take 2}")

/-- recordings with context-switch settings are rendered in the `cs` projection and judged by `judgeC01Cs` -/
def judgeC01 (ops impl : List String) : Bool × String :=
  if (csWord ops).isSome then judgeC01Cs ops impl else judgeC01Plain ops impl

/-! ### C17 -/

def rowLine (r : Life.Row) : String :=
  s!"thread {r.pid} {r.tid} main={if r.isMain then 1 else 0} name={hexOfStr r.name} pname={hexOfStr r.processName} start={r.start} end={optNat r.end_} pstart={r.pstart} pend={optNat r.pend}"

/-- C17: whole-row equality of samply's thread entries with the eager reading `Life` of the record history.
Applies to default options and to every history that respects the FORK / EXEC clauses of the record grammar
(`Life.grammarOk`) — EXITs of threads whose process is not known included: the specification says "no entry"
(repaired by 8ede2c85; no excuse for the old behaviour). -/
def judgeC17 (ops impl : List String) : Bool × String :=
  match parse ops with
  | none => (false, "bad-op")
  | some (cfg, rs) =>
    if impl == ["panic"] then panicVerdict rs else
    if impl.any (·.startsWith "err:") then (false, s!"conversion failed: {impl.take 1}") else
    -- the statement is about default options and grammar-respecting histories
    if cfg.reuse then (true, "not-applicable: --reuse-threads") else
    if !Life.grammarOk cfg.ref rs then (true, "not-applicable: FORK onto a bound child / EXEC on a non-main thread") else
    let want := ((Life.rows (Life.run cfg.ref rs)).map rowLine).mergeSort strLe
    let got := (impl.filter (·.startsWith "thread ")).mergeSort strLe
    if want == got then (true, "ok") else
      let missing := want.filter (fun w => !got.contains w)
      let extra := got.filter (fun g => !want.contains g)
      -- (the leading word is the reason class bin/check keeps while shrinking)
      (false, s!"rows: thread entries differ from the record history: expected-but-absent {missing.take 2}; unexpected {extra.take 2}")

/-! ### C02 / C14: stacks -/

def parseFrame (w : String) : Option Frame :=
  match w.splitOn ":" with
  | ["l", p, r] => some (.lib (strOfHex p) (nat! r))
  | ["r", a] => some (.raw (nat! a))
  | ["e", c] => some (.elided (nat! c))
  | ["j", n] => some (.label (strOfHex n))
  | ["x", n] => some (.tlabel (strOfHex n))
  | _ => none

def parseFrames (ws : List String) : Option (List Frame) :=
  if ws == ["-"] then some [] else ws.mapM parseFrame

/-- find the output stack of the accepted sample (pid, tid, t): thread entries whose base ids match, a
sample at the relative time; with several candidates (id reuse) any match is accepted -/
def outStacks (threads : List OThread) (pid tid trel : Nat) : List (List String) :=
  (threads.filter (fun t => baseOf t.pid == pid && baseOf t.tid == tid)).flatMap
    (fun t => (t.samples.filter (fun s => s.1 == trel)).map (·.2))

/-- the cause stacks of the "Other event" markers at relative time `trel` on the entries of (pid, tid) -/
def outMarkerStacks (threads : List OThread) (pid tid trel : Nat) : List (List String) :=
  (threads.filter (fun t => baseOf t.pid == pid && baseOf t.tid == tid)).flatMap
    (fun t => (t.markers.filter (fun s => s.1 == trel)).map (·.2))

/-- `check orig out` decides one stack; `tag orig out` is prepended to the failure message (reason tags of
known findings) -/
def judgeStacks (check : List Frame → List Frame → Bool) (tag : List Frame → List Frame → String) (what : String)
    (ops impl : List String) : Bool × String :=
  match parse ops, parseOut impl with
  | some (cfg, rs), some threads =>
    if cfg.reuse then (true, "not-applicable") else
    let expS := expectedSamples cfg rs
    -- known finding C02-fork-onto-live-pid: failures of such histories carry the tag
    let ontoLive := Life.forkOntoLive cfg.ref rs
    let tagFor := fun (pid : Nat) => if ontoLive.contains pid then "[fork-onto-live-pid] " else ""
    -- candidate findings: a failure whose output is exactly what samply's present mechanism yields where it
    -- deviates from the statement carries the reason tag (see `ConvSpec.ExpSample`)
    let tagLegacy := fun (e : ExpSample) (cands : List (List String)) =>
      let hit := fun (want : List Frame) => want != e.frames &&
        cands.any (fun ws => match parseFrames ws with | some fs => check want fs | none => false)
      if hit e.legacySp then "[special-path-not-evicting] "
      else if hit e.legacyQ then "[backdated-record] " else ""
    let fail (pre : String) (whatT : String) (frames : List Frame) (cands : List (List String)) : String :=
      let got := (cands.headD [])
      let tg := match parseFrames got with | some fs => tag frames fs | none => ""
      s!"{pre}{tg}{whatT}: expected {showFrames (frames.take 6)} (depth {frames.length}) got {" ".intercalate (got.take 6)} (depth {got.length})"
    -- ALL stacks of the case are judged; the failures are collected (a stack that shows a known finding does
    -- not hide the others)
    let rec go : List ExpSample → List String
      | [] => []
      | e :: rest =>
        let cands := outStacks threads e.pid e.tid (e.t - cfg.ref)
        if cands.isEmpty then s!"{tagFor e.pid}no output sample for accepted sample pid {e.pid} tid {e.tid} t {e.t}" :: go rest
        else if cands.any (fun ws => match parseFrames ws with | some fs => check e.frames fs | none => false)
        then go rest
        else fail (tagFor e.pid ++ tagLegacy e cands) s!"{what}: sample pid {e.pid} tid {e.tid} t {e.t}" e.frames cands :: go rest
    -- `--per-cpu-threads`: the copy on the CPU's thread and the copy on the combined thread (pid 0, tid 0) carry
    -- the thread label in front of the same frames; the depth limiter sees label :: frames
    let rec goCpu : List (Nat × Nat × Option String × List Frame) → List String
      | [] => []
      | (cpu, t, lb, frames) :: rest =>
        let okFor := fun (tid : Nat) =>
          let cands := outStacks threads 0 tid (t - cfg.ref)
          if cands.any (fun ws => match parseFrames ws with
              | some (.tlabel l :: fs) => (match lb with | some want => l == want | none => true) &&
                  check (.tlabel l :: frames) (.tlabel l :: fs)
              | _ => false)
          then none
          else some (fail "" s!"{what} (per-CPU copy on tid {tid}, label {lb}): sample t {t}"
                      (.tlabel (lb.getD "?") :: frames) cands)
        (okFor cpu).toList ++ (if cpu == 0 then [] else (okFor 0).toList) ++ goCpu rest
    -- marker stacks (samples of another event): the same statement on the stack attached to the marker of that
    -- thread at that time, against the declaratively attributed stack; every marker must carry its own stack
    -- (`nostack` parses to nothing and fails), and no other marker stack may exist
    let expM := expectedMarkers cfg rs
    let rec goM : List ExpSample → List String
      | [] => []
      | e :: rest =>
        let cands0 := outMarkerStacks threads e.pid e.tid (e.t - cfg.ref)
        -- several markers may share thread and time: show the one that starts like the expected stack
        let headW := (e.frames.head?.map showFrame).getD ""
        let cands := cands0.filter (fun ws => ws.head? == some headW) ++ cands0.filter (fun ws => ws.head? != some headW)
        if cands.isEmpty then s!"{tagFor e.pid}no marker for the other-event sample pid {e.pid} tid {e.tid} t {e.t}" :: goM rest
        else if cands.any (fun ws => match parseFrames ws with | some fs => check e.frames fs | none => false)
        then goM rest
        else fail (tagFor e.pid) s!"{what}: marker stack pid {e.pid} tid {e.tid} t {e.t}" e.frames cands :: goM rest
    let nOutM := (threads.map (fun t => t.markers.length)).sum
    let countM := if nOutM == expM.length then [] else
      [s!"{what}: {nOutM} marker stacks in the output, {expM.length} other-event samples in the history"]
    -- the verdict: the first failure that carries no reason tag of a known / candidate finding, else the first
    -- tagged one
    let fails := go expS ++ goCpu (expectedCpuStacks cfg rs) ++ goM expM ++ countM
    match fails.find? (fun m => !m.startsWith "["), fails with
    | some m, _ => (false, m)
    | none, m :: _ => (false, m ++ (if fails.length > 1 then s!" (+{fails.length - 1} more tagged failure(s) in this case)" else ""))
    | none, [] => (true, "ok")
  | some (cfg, rs), none =>
    if impl == ["panic"] then
      -- an MMAP2 record whose relative start cannot be computed in `u64` (candidate finding C02-mmap-arith-panic)
      if rs.any (fun r => !recSafe cfg r) then
        (false, "[mmap-arith-panic] conversion failed: [panic] (an MMAP2 record's base address computation under- / overflows u64)")
      -- a relative address that does not fit 32 bits: the debug build panics in `convert_address`
      else if !cfg.reuse && (expectedSamples cfg rs).any (·.overflow) then
        (true, "not-applicable: a relative address exceeds 32 bits (u32 addition in LibMappings::convert_address; the debug build panics)")
      else panicVerdict rs
    else (false, s!"unparsable implementation output: {impl.take 2}")
  | none, _ => (false, "bad-op")

/-- C02: frames equal the declarative attribution (stacks below the depth limit), root first -/
def judgeC02 (ops impl : List String) : Bool × String :=
  judgeStacks (fun orig out => if orig.length < 500 then out == orig else elisionOk orig out) (fun _ _ => "")
    "attribution" ops impl

/-- Reason tag of the recorded deviation of the depth limiter (it decides by the *recorded* length while JS
label frames come on top): `[js-label-depth]` is attached to a failure of the full statement only if the
original (emitted) stack contains JS label frames and the output is otherwise faithful — either the recorded
depth is below 500 and the stack reached the profile unchanged, or everything but the two upper bounds on the
depth holds (`elisionOkButDepth`). -/
def tagC14 (orig out : List Frame) : String :=
  let nrec := (orig.filter (fun f => match f with | .label _ => false | .tlabel _ => false | _ => true)).length
  if elisionOk orig out then "" else
  if orig.any isLabel then
    (if (decide (nrec < 500) && out == orig) || elisionOkButDepth orig out then "[js-label-depth] " else "")
  else ""

/-- C14: the output stack is an admissible shortening of the declaratively attributed stack — the full
statement `elisionOk` on the complete frame list that would reach the profile without the limiter (JS label
frames and the per-CPU thread label included). -/
def judgeC14 (ops impl : List String) : Bool × String :=
  judgeStacks elisionOk tagC14 "elision" ops impl

end ConvJudge
