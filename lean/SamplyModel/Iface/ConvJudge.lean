import SamplyModel.Iface.Conv
import SamplyModel.Model.ConvSpec
/-!
Judges of the perf.data-driven properties: each evaluates the property's statement on the
*implementation's* output lines, against the specification side (`Model/ConvSpec.lean`) computed from the
operation lines only.
-/
namespace ConvJudge
open Conv ConvSpec ConvIface Proto

structure OThread where
  pid : String
  tid : String
  fields : List (String × String)
  /-- (time, rest of the sample line split into words) -/
  samples : List (Nat × List String)
deriving Repr

def field (t : OThread) (k : String) : String := ((t.fields.find? (·.1 == k)).map (·.2)).getD ""

/-- parse `thread …` / `s …` lines -/
def parseOut (ls : List String) : Option (List OThread) :=
  let rec go (ls : List String) (cur : Option OThread) (acc : List OThread) : Option (List OThread) :=
    match ls with
    | [] => some ((match cur with | some c => c :: acc | none => acc).reverse)
    | l :: rest =>
      match words l with
      | "thread" :: pid :: tid :: kv =>
        let fields := kv.filterMap (fun w => match w.splitOn "=" with | [k, v] => some (k, v) | _ => none)
        go rest (some { pid, tid, fields, samples := [] }) (match cur with | some c => c :: acc | none => acc)
      | "s" :: t :: more =>
        match cur with
        | some c => go rest (some { c with samples := c.samples ++ [(nat! t, more)] }) acc
        | none => none
      | _ => none
  go ls none []

def baseOf (s : String) : Nat := nat! ((s.splitOn ".").headD "")

def natLe (a b : Nat × Nat × Nat) : Bool :=
  a.1 < b.1 || (a.1 == b.1 && (a.2.1 < b.2.1 || (a.2.1 == b.2.1 && a.2.2 ≤ b.2.2)))

/-! ### C01 -/

def judgeC01 (ops impl : List String) : Bool × String :=
  match parse ops, parseOut impl with
  | some (cfg, rs), some threads =>
    let acc := accepted rs
    let outAll := threads.flatMap (fun t => t.samples.map (fun s => (baseOf t.pid, baseOf t.tid, s.1, s.2)))
    if outAll.any (fun o => o.2.2.2 != ["1"]) then (false, "a sample does not have weight 1") else
    if cfg.reuse then
      -- merged entries allowed: every accepted sample appears once at its time, nothing else
      let want := (acc.map (fun a => a.t - cfg.ref)).mergeSort (· ≤ ·)
      let got := (outAll.map (fun o => o.2.2.1)).mergeSort (· ≤ ·)
      if want == got then (true, "ok") else
        (false, s!"reuse: sample times differ: accepted {want.length} output {got.length}")
    else
      let want := (acc.map (fun a => (a.pid, a.tid, a.t - cfg.ref))).mergeSort natLe
      let got := (outAll.map (fun o => (o.1, o.2.1, o.2.2.1))).mergeSort natLe
      if want == got then (true, "ok") else
        let missing := want.filter (fun w => !got.contains w)
        let extra := got.filter (fun g => !want.contains g)
        (false, s!"samples differ: accepted {want.length} output {got.length}; missing (pid,tid,t) {missing.take 3}; unexpected {extra.take 3}")
  | none, _ => (false, "bad-op")
  | _, none => (false, s!"unparsable implementation output: {impl.take 2}")

/-! ### C17 -/

def rowLine (r : Life.Row) : String :=
  s!"thread {r.pid} {r.tid} main={if r.isMain then 1 else 0} name={hexOfStr r.name} pname={hexOfStr r.processName} start={r.start} end={optNat r.end_} pstart={r.pstart} pend={optNat r.pend}"

def judgeC17 (ops impl : List String) : Bool × String :=
  match parse ops with
  | none => (false, "bad-op")
  | some (cfg, rs) =>
    if impl == ["panic"] || impl.any (·.startsWith "err:") then (false, s!"conversion failed: {impl.take 1}") else
    -- the statement is about default options and grammar-respecting histories
    if cfg.reuse || !Life.grammarOk cfg.ref rs then (true, "not-applicable") else
    let want := ((Life.rows (Life.run cfg.ref rs)).map rowLine).mergeSort strLe
    let got := (impl.filter (·.startsWith "thread ")).mergeSort strLe
    if want == got then (true, "ok") else
      let missing := want.filter (fun w => !got.contains w)
      let extra := got.filter (fun g => !want.contains g)
      (false, s!"thread entries differ from the record history: expected-but-absent {missing.take 2}; unexpected {extra.take 2}")

/-! ### C02 / C14: stacks -/

def parseFrame (w : String) : Option Frame :=
  match w.splitOn ":" with
  | ["l", p, r] => some (.lib (strOfHex p) (nat! r))
  | ["r", a] => some (.raw (nat! a))
  | ["e", c] => some (.elided (nat! c))
  | ["j", n] => some (.label (strOfHex n))
  | ["x", n] => some (.tlabel (strOfHex n))
  | _ => none

def parseFrames (ws : List String) : Option (List Frame) :=
  if ws == ["-"] then some [] else ws.mapM parseFrame

/-- find the output stack of the accepted sample (pid, tid, t): thread entries whose base ids match, a
sample at the relative time; with several candidates (id reuse) any match is accepted -/
def outStacks (threads : List OThread) (pid tid trel : Nat) : List (List String) :=
  (threads.filter (fun t => baseOf t.pid == pid && baseOf t.tid == tid)).flatMap
    (fun t => (t.samples.filter (fun s => s.1 == trel)).map (·.2))

/-- `check orig out` decides one stack; `tag orig out` is prepended to the failure message (reason tags of
known findings) -/
def judgeStacks (check : List Frame → List Frame → Bool) (tag : List Frame → List Frame → String) (what : String)
    (ops impl : List String) : Bool × String :=
  match parse ops, parseOut impl with
  | some (cfg, rs), some threads =>
    if cfg.reuse then (true, "not-applicable") else
    let exp := expectedStacks cfg rs
    -- known finding C02-fork-onto-live-pid: failures of such histories carry the tag
    let ontoLive := Life.forkOntoLive cfg.ref rs
    let tagFor := fun (pid : Nat) => if ontoLive.contains pid then "[fork-onto-live-pid] " else ""
    let fail (pre : String) (whatT : String) (frames : List Frame) (cands : List (List String)) : String :=
      let got := (cands.headD [])
      let tg := match parseFrames got with | some fs => tag frames fs | none => ""
      s!"{pre}{tg}{whatT}: expected {showFrames (frames.take 6)} (depth {frames.length}) got {" ".intercalate (got.take 6)} (depth {got.length})"
    let rec go : List (Nat × Nat × Nat × List Frame) → Bool × String
      | [] => (true, "ok")
      | (pid, tid, t, frames) :: rest =>
        let cands := outStacks threads pid tid (t - cfg.ref)
        if cands.isEmpty then (false, s!"{tagFor pid}no output sample for accepted sample pid {pid} tid {tid} t {t}")
        else if cands.any (fun ws => match parseFrames ws with | some fs => check frames fs | none => false)
        then go rest
        else (false, fail (tagFor pid) s!"{what}: sample pid {pid} tid {tid} t {t}" frames cands)
    -- `--per-cpu-threads`: the copy on the CPU's thread and the copy on the combined thread (pid 0, tid 0) carry
    -- the thread label in front of the same frames; the depth limiter sees label :: frames
    let rec goCpu : List (Nat × Nat × Option String × List Frame) → Bool × String
      | [] => (true, "ok")
      | (cpu, t, lb, frames) :: rest =>
        let okFor := fun (tid : Nat) =>
          let cands := outStacks threads 0 tid (t - cfg.ref)
          if cands.any (fun ws => match parseFrames ws with
              | some (.tlabel l :: fs) => (match lb with | some want => l == want | none => true) &&
                  check (.tlabel l :: frames) (.tlabel l :: fs)
              | _ => false)
          then none
          else some (fail "" s!"{what} (per-CPU copy on tid {tid}, label {lb}): sample t {t}"
                      (.tlabel (lb.getD "?") :: frames) cands)
        match okFor cpu, okFor 0 with
        | none, none => goCpu rest
        | some e, _ => (false, e)
        | _, some e => (false, e)
    match go exp with
    | (true, _) => goCpu (expectedCpuStacks cfg rs)
    | r => r
  | none, _ => (false, "bad-op")
  | _, none => (false, s!"unparsable implementation output: {impl.take 2}")

/-- C02: frames equal the declarative attribution (stacks below the depth limit), root first -/
def judgeC02 (ops impl : List String) : Bool × String :=
  judgeStacks (fun orig out => if orig.length < 500 then out == orig else elisionOk orig out) (fun _ _ => "")
    "attribution" ops impl

/-- Reason tag of the recorded deviation of the depth limiter (it decides by the *recorded* length while JS
label frames come on top): `[js-label-depth]` is attached to a failure of the full statement only if the
original (emitted) stack contains JS label frames and the output is otherwise faithful — either the recorded
depth is below 500 and the stack reached the profile unchanged, or everything but the two upper bounds on the
depth holds (`elisionOkButDepth`). -/
def tagC14 (orig out : List Frame) : String :=
  let nrec := (orig.filter (fun f => match f with | .label _ => false | .tlabel _ => false | _ => true)).length
  if elisionOk orig out then "" else
  if orig.any isLabel then
    (if (decide (nrec < 500) && out == orig) || elisionOkButDepth orig out then "[js-label-depth] " else "")
  else ""

/-- C14: the output stack is an admissible shortening of the declaratively attributed stack — the full
statement `elisionOk` on the complete frame list that would reach the profile without the limiter (JS label
frames and the per-CPU thread label included). -/
def judgeC14 (ops impl : List String) : Bool × String :=
  judgeStacks elisionOk tagC14 "elision" ops impl

end ConvJudge
