import SamplyModel.Proto
import SamplyModel.Model.ContextSwitch
import SamplyModel.Iface.ConvJudge
/-!
Line protocol for C12.

ops:   `interval <n>` (first line), then `in <t>` | `out <t>` | `sample <t>` | `consume`
out:   one line per event: `ok` | `group none` | `group <begin> <end> <count>` | `delta <n>` | `panic`
       (a panic ends the case), then `final <unknown|on|off> <t> <onAcc> <offAcc>`
-/
namespace C12
open CS Proto

def parseEv (l : String) : Option Ev :=
  match words l with
  | ["in", t] => t.toNat?.map Ev.switchIn
  | ["out", t] => t.toNat?.map Ev.switchOut
  | ["sample", t] => t.toNat?.map Ev.sample
  | ["consume"] => some Ev.consume
  | _ => none

def parse (ls : List String) : Option (Nat × List Ev) :=
  match ls with
  | l :: rest =>
    match words l with
    | ["interval", n] => do
      let i ← n.toNat?
      let evs ← rest.mapM parseEv
      pure (i, evs)
    | _ => none
  | [] => none

def showGroup : Option Group → String
  | none => "group none"
  | some g => s!"group {g.begin_} {g.end_} {g.count}"

def showState (st : St) : String :=
  match st.state with
  | .unknown => s!"final unknown 0 {st.onAcc} {st.offAcc}"
  | .on t => s!"final on {t} {st.onAcc} {st.offAcc}"
  | .off t => s!"final off {t} {st.onAcc} {st.offAcc}"

/-- second mode `conv`: the case is a perf.data record history (first line `cfg …`, see `Iface/Conv.lean`)
converted by `samply import`; model and judge are the converter model / `ConvJudge.judgeCs` -/
def isConv (ls : List String) : Bool :=
  match ls with
  | l :: _ => (words l).head? == some "cfg"
  | [] => false

def moduleModel (ls : List String) : List String :=
  match parse ls with
  | none => ["bad-op"]
  | some (interval, evs) =>
    let rec go (st : St) (evs : List Ev) (acc : List String) : List String :=
      match evs with
      | [] => (showState st :: acc).reverse
      | e :: es =>
        if !stepSafe interval st e then ("panic" :: acc).reverse else
        let r := step interval st e
        let line := match e with
          | .switchOut _ => "ok"
          | .consume => s!"delta {r.2.2.getD 0}"
          | _ => showGroup r.2.1
        go r.1 es (line :: acc)
    go St.init evs []

def model (ls : List String) : List String :=
  if isConv ls then ConvIface.model .cs ls else moduleModel ls

/-- The judge evaluates the statement of C12 on the implementation's own output, using only the bare
history (`CS.spec`, `CS.hstep`) as reference. -/
def moduleJudge (ops impl : List String) : Bool × String :=
  match parse ops with
  | none => (false, "bad-op")
  | some (interval, evs) =>
    -- outside the statement's quantifier ("time-ordered history", a sampling interval > 0): compared with the
    -- model only (both must panic at the same event, or not at all)
    if interval = 0 then (true, "not-applicable: interval 0") else
    if !decide (Nondecr H.init evs) then (true, "not-applicable: history not time-ordered") else
    if impl.contains "panic" then (false, "implementation panicked") else
    if impl.length ≠ evs.length + 1 then (false, "wrong number of output lines") else
    -- walk events and outputs together
    let rec go (h : H) (evs : List Ev) (outs : List String) (handed groups lastEnd : Nat)
        : Bool × String :=
      match evs, outs with
      | [], [fin] =>
        match words fin with
        | ["final", _, _, on, off] =>
          let on := nat! on; let off := nat! off
          let open_ := match h.last, h.sleepStart with
            | some (now, false), some s => now - s
            | _, _ => 0
          if handed + on ≠ h.running then (false, s!"cpu: handed {handed} + pending {on} ≠ running {h.running}")
          else if ¬ off < interval then (false, s!"remainder {off} not below interval")
          else if groups * interval + off + open_ ≠ h.sleeping then
            (false, s!"offcpu: {groups}*{interval} + {off} + open {open_} ≠ sleeping {h.sleeping}")
          else (true, "ok")
        | _ => (false, "bad final line")
      | e :: es, o :: os =>
        let h' := hstep h e
        match words o with
        | ["ok"] => go h' es os handed groups lastEnd
        | ["delta", d] =>
          -- per hand-out: what has been handed out so far is exactly the running time observed so far
          if handed + nat! d ≠ h'.running then
            (false, s!"cpu: delta {d} handed out after {handed}, but the running time observed so far is {h'.running}")
          else go h' es os (handed + nat! d) groups lastEnd
        | ["group", "none"] => go h' es os handed groups lastEnd
        | ["group", b, en, c] =>
          let b := nat! b; let en := nat! en; let c := nat! c
          match h.sleepStart, e.time? with
          | some t0, some ts =>
            if t0 < b ∧ b ≤ en ∧ en ≤ ts ∧ 1 ≤ c ∧ en - b = (c - 1) * interval ∧ (groups = 0 ∨ lastEnd < b)
            then go h' es os handed (groups + c) en
            else (false, s!"group {b} {en} {c} not inside sleep ({t0},{ts}] or out of order")
          | _, _ => (false, "group emitted outside a sleep")
        | _ => (false, s!"bad output line {o}")
      | _, _ => (false, "length mismatch")
    go H.init evs impl 0 0 0

def judge (ops impl : List String) : Bool × String :=
  if isConv ops then ConvJudge.judgeCs ops impl else moduleJudge ops impl

end C12
