import SamplyModel.Proto
import SamplyModel.Model.SourceApi
/-!
Line protocol for C09 (`/source/v1` confinement), version 2: several offsets of one library served by ONE
symbol manager, several debug-file candidates, the receiver of `location_for_source_file` observable.
All strings are hex-encoded UTF-8 (`-` = empty string), `~` = absent.

ops (the first five lines are the header):
  `module <kind> <debugName> <breakpadId> <payload>`
        how the harness serves the library (kind and payload opaque here); `<breakpadId>` is the debug id every
        well-formed request of the case asks for
  `helper w <cand> <fs entry>*`   real wholesym (`SymbolManager::with_config` with the directory of the one cand as
        extra symbol directory) over real files: `D,<path>` | `F,<path>,<len>` | `L,<path>,<target>` (symlink);
        `/ROOT` stands for a fresh directory; the store line then lists what the OPERATING SYSTEM reads for exactly
        the listed path strings (symlinks and `..` resolved by the OS); `r` lines carry no locations
  `helper <d|c> <cand>*`     cand = `<l|r>,<path>,<ok|other|absent|junk>`
        `c`: what `get_candidate_paths_for_debug_file` returns, in order: location tag (`l`ocal / `r`emote),
        path, and what the helper serves there (the library, another build of it, nothing, garbage);
        `d`: the helper supplies the symbol map itself (`get_symbol_map_for_library`), the one cand is its location
  `loaded <res>*`            res = `e` | `<breakpadId>,<l|r>,<path>`
        oracle, one per cand: `load_symbol_map_from_location` of that candidate alone failed, or the debug id and
        the `debug_file_location()` of the symbol map it gave
  `lookup <group>*`          group = `<offset>=<nosymbols|notfound|noframes|frames>[/<frame>]*`
        oracle: `SymbolMap::lookup` of each offset on a fresh symbol map of the library (the first `loaded` entry
        with the requested id), innermost frame first; a frame is `~` (no file) or
        `<raw>,n` | `<raw>,g,<repo>,<path>,<rev>` | `<raw>,h,<repo>,<path>,<rev>` |
        `<raw>,s,<bucket>,<digest>,<path>` | `<raw>,c,<registry>,<crate>,<version>,<path>`
  `store <all|abs|wholesym> <aux|noaux> <path>:<len>*`
        helper: `location_for_source_file` accepts every path / absolute paths only / follows wholesym's policy;
        whether dwo / dwp / external object files can be loaded (opaque here); which source locations can be
        read and how long the file is
  then requests, all served by one `SymbolManager`, offsets interleaved:
  `req <offset> <file> [tag]` | `reqbadid <offset> <file> [tag]` | `reqmalformed <offset> <file> [tag]`
  `reqx <debugName> <=|u<id>|b<id>> <moduleOffset string> <file> [tag]`
        the body field by field: another library name; the module's id (`=`), a well-formed id nobody has (`u`),
        a string `to_debug_id` rejects (`b`); the `moduleOffset` member as sent (`0x` prefix, sign, case, leading
        zeros, overflow, junk)

out:
  per lookup group, in order:
  `api <offset> <spelling|~>*`     `to_api_file_path` of every frame's file path
  `sym <offset> - | panic | <outer file|~> <inline file|~>*`
        what ONE `/symbolicate/v5` request for all offsets of the case (and neighbours) reports for the offset
        (`-` = neither `file` nor `inlines`)
  `r <class> <location>*`          one per request: response class `ok:<len>` | `err:<kind>` and the ordered
        source-file locations passed to `load_file`; location = `<l|r>,<receiver path>,<path>`: tag and path of
        the location `location_for_source_file` was called on, and the resulting path
-/
namespace C09
open SourceApi Proto

def decodeStr (h : String) : Option String :=
  if h = "-" then some "" else
  let bs := hexBytes h
  if bs.length * 2 ≠ h.length then none else String.fromUTF8? ⟨bs.toArray⟩

def encodeStr (s : String) : String := bytesHex s.toUTF8.toList

def parseFrame (tok : String) : Option Frame :=
  if tok = "~" then some ⟨none⟩ else
  match tok.splitOn "," with
  | [raw, "n"] => do
    let r ← decodeStr raw
    pure ⟨some ⟨r, none⟩⟩
  | [raw, "g", a, b, c] => do
    let r ← decodeStr raw; let a ← decodeStr a; let b ← decodeStr b; let c ← decodeStr c
    pure ⟨some ⟨r, some (.git a b c)⟩⟩
  | [raw, "h", a, b, c] => do
    let r ← decodeStr raw; let a ← decodeStr a; let b ← decodeStr b; let c ← decodeStr c
    pure ⟨some ⟨r, some (.hg a b c)⟩⟩
  | [raw, "s", a, b, c] => do
    let r ← decodeStr raw; let a ← decodeStr a; let b ← decodeStr b; let c ← decodeStr c
    pure ⟨some ⟨r, some (.s3 a b c)⟩⟩
  | [raw, "c", a, b, c, d] => do
    let r ← decodeStr raw; let a ← decodeStr a; let b ← decodeStr b; let c ← decodeStr c
    let d ← decodeStr d
    pure ⟨some ⟨r, some (.cargo a b c d)⟩⟩
  | _ => none

/-- `<offset>=<class>[/<frame>]*` -/
def parseGroup (tok : String) : Option (Nat × Lookup) :=
  match tok.splitOn "=" with
  | [o, rest] => do
    let o ← o.toNat?
    match rest.splitOn "/" with
    | ["nosymbols"] => pure (o, .noSymbols)
    | ["notfound"] => pure (o, .notFound)
    | ["noframes"] => pure (o, .noFrames)
    | "frames" :: toks => do
      let fs ← toks.mapM parseFrame
      pure (o, .frames fs)
    | _ => none
  | _ => none

def parseLookups (l : String) : Option (List (Nat × Lookup)) :=
  match words l with
  | "lookup" :: toks => toks.mapM parseGroup
  | _ => none

def parseOptStr (tok : String) : Option (Option String) :=
  if tok = "~" then some none else (decodeStr tok).map some

/-- the helper's location type for debug files: local / remote tag and path -/
structure DebugLoc where
  remote : Bool
  path : String
  deriving DecidableEq, Repr

/-- a source-file location: the receiver `location_for_source_file` was called on, and the resulting path -/
structure SrcLoc where
  remote : Bool
  base : String
  path : String
  deriving DecidableEq, Repr

def parseTag (t : String) : Option Bool :=
  if t = "l" then some false else if t = "r" then some true else none

def parseCand (tok : String) : Option DebugLoc :=
  match tok.splitOn "," with
  | [t, p, c] =>
    if c = "ok" ∨ c = "other" ∨ c = "absent" ∨ c = "junk" then do
      let t ← parseTag t
      let p ← decodeStr p
      pure ⟨t, p⟩
    else none
  | _ => none

def parseFsEntry (tok : String) : Option Unit :=
  match tok.splitOn "," with
  | ["D", p] => (decodeStr p).map (fun _ => ())
  | ["F", p, n] => do let _ ← decodeStr p; let _ ← n.toNat?; pure ()
  | ["L", p, t] => do let _ ← decodeStr p; let _ ← decodeStr t; pure ()
  | _ => none

/-- `(mode, candidate locations)`; mode `w`: one candidate, then file-system entries (opaque here) -/
def parseHelper (l : String) : Option (String × List DebugLoc) :=
  match words l with
  | "helper" :: "w" :: c :: fs => do
    let c ← parseCand c
    let _ ← fs.mapM parseFsEntry
    pure ("w", [c])
  | "helper" :: mode :: toks =>
    if mode = "d" ∨ mode = "c" then (toks.mapM parseCand).map (fun cs => (mode, cs)) else none
  | _ => none

/-- `e` | `<id>,<tag>,<path>`: `none` = load error -/
def parseLoadedTok (tok : String) : Option (Option (String × DebugLoc)) :=
  if tok = "e" then some none else
  match tok.splitOn "," with
  | [id, t, p] => do
    let t ← parseTag t
    let p ← decodeStr p
    pure (some (id, ⟨t, p⟩))
  | _ => none

def parseLoaded (l : String) : Option (List (Option (String × DebugLoc))) :=
  match words l with
  | "loaded" :: toks => toks.mapM parseLoadedTok
  | _ => none

inductive Policy where
  | all | abs | wholesym
  deriving DecidableEq, Repr

structure Store where
  policy : Policy
  files : List (String × Nat)

def parseStoreEntry (tok : String) : Option (String × Nat) :=
  match tok.splitOn ":" with
  | [p, n] => do
    let p ← decodeStr p
    let n ← n.toNat?
    pure (p, n)
  | _ => none

def parseStore (l : String) : Option Store :=
  match words l with
  | "store" :: pol :: aux :: toks =>
    if aux ≠ "aux" ∧ aux ≠ "noaux" then none else do
    let pol ← (if pol = "all" then some Policy.all else if pol = "abs" then some Policy.abs
               else if pol = "wholesym" then some Policy.wholesym else none)
    let fs ← toks.mapM parseStoreEntry
    pure ⟨pol, fs⟩
  | _ => none

/-- `std::path` on Unix for the well-formed paths the generator uses (no doubled or trailing separators in
debug-file paths): `is_absolute` = starts with `/`; `parent` drops the last component (`None` for `/` and the
empty path, `""` for a single relative component); `join` of a relative path appends after one separator. -/
def unixPathOps : PathOps where
  isAbsolute := fun p => p.startsWith "/"
  parent := fun p =>
    if p = "" ∨ p = "/" then none else
    match (p.splitOn "/").reverse with
    | [] => none
    | [_] => some ""
    | _ :: rest =>
      let d := "/".intercalate rest.reverse
      some (if d = "" then "/" else d)
  join := fun b p => if b = "" then p else if b.endsWith "/" then b ++ p else b ++ "/" ++ p

def toWLoc (dl : DebugLoc) : WLoc := if dl.remote then .remote else .localFile dl.path

def Store.locationFor (st : Store) (dl : DebugLoc) (p : String) : Option SrcLoc :=
  match st.policy with
  | .all => some ⟨dl.remote, dl.path, p⟩
  | .abs => if p.startsWith "/" then some ⟨dl.remote, dl.path, p⟩ else none
  | .wholesym =>
    match wholesymLocationFor unixPathOps (toWLoc dl) p with
    | some (.localFile q) => some ⟨dl.remote, dl.path, q⟩
    | some (.url u) => some ⟨dl.remote, dl.path, "url:" ++ u⟩
    | _ => none

def Store.fileLen (st : Store) (loc : SrcLoc) : Option Nat :=
  (st.files.find? (·.1 == loc.path)).map (·.2)

/-- A request and whether it asks for the case's library (name and id of the module line). -/
structure Req where
  own : Bool
  rq : OffsetRequest

def parseReq (name id : String) (l : String) : Option Req :=
  match words l with
  | "req" :: o :: f :: _ => do
    let o ← o.toNat?; let f ← decodeStr f
    pure ⟨true, ⟨true, some id, o, f⟩⟩
  | "reqbadid" :: o :: f :: _ => do
    let o ← o.toNat?; let f ← decodeStr f
    pure ⟨true, ⟨true, none, o, f⟩⟩
  | "reqmalformed" :: o :: f :: _ => do
    let o ← o.toNat?; let f ← decodeStr f
    pure ⟨true, ⟨false, some id, o, f⟩⟩
  | "reqx" :: n :: idTok :: off :: f :: _ => do
    let n ← decodeStr n; let off ← decodeStr off; let f ← decodeStr f
    let (known, dbg) ← (if idTok = "=" then some (true, some id)
      else if idTok.startsWith "u" then (decodeStr (idTok.drop 1).toString).map (fun i => (false, some i))
      else if idTok.startsWith "b" then some (true, none)
      else none)
    pure ⟨n == name && known, (⟨true, off.toList, dbg, f⟩ : RawRequest).toOffsetRequest⟩
  | _ => none

structure Case where
  name : String
  id : String
  direct : Bool
  /-- real wholesym over real files: loads are not observable -/
  real : Bool
  cands : List (Option (String × DebugLoc))
  lookups : List (Nat × Lookup)
  store : Store
  reqs : List Req

def lookupFn (gs : List (Nat × Lookup)) (o : Nat) : Lookup :=
  match gs.find? (·.1 == o) with
  | some g => g.2
  | none => .notFound     -- unreachable: `parse` rejects requests for offsets without a group

def parse (ls : List String) : Option Case :=
  match ls with
  | m :: h :: ld :: lk :: st :: reqs =>
    match words m with
    | "module" :: _ :: name :: id :: _ => do
      let (mode, cands) ← parseHelper h
      let direct := mode = "d"
      let loaded ← parseLoaded ld
      if loaded.length ≠ cands.length then none else
      if direct ∧ cands.length ≠ 1 then none else
      let lookups ← parseLookups lk
      let store ← parseStore st
      let reqs ← reqs.mapM (parseReq name id)
      if reqs.any (fun r => r.rq.parsed && !(lookups.any (·.1 == r.rq.offset))) then none else
      if mode = "w" ∧ store.policy ≠ .wholesym then none else
      pure ⟨name, id, direct, mode = "w", loaded, lookups, store, reqs⟩
    | _ => none
  | _ => none

/-- the manager of the case, as the model sees it -/
def Case.manager (c : Case) : Manager DebugLoc SrcLoc :=
  let mk : String × DebugLoc → Loaded DebugLoc := fun (id, dl) => ⟨id, dl, lookupFn c.lookups⟩
  let rs : List (CandResult DebugLoc) := c.cands.map (fun o =>
    match o with
    | none => .err
    | some x => .ok (mk x))
  if c.direct then
    match c.cands with
    | [some x] => ⟨some (mk x), [], c.store.locationFor, c.store.fileLen⟩
    | _ => ⟨none, [], c.store.locationFor, c.store.fileLen⟩
  else ⟨none, rs, c.store.locationFor, c.store.fileLen⟩

/-- what the helper offers for a library it does not know (other name, or an id nobody has): nothing -/
def Case.emptyManager (c : Case) : Manager DebugLoc SrcLoc :=
  ⟨none, [], c.store.locationFor, c.store.fileLen⟩

def Case.managerFor (c : Case) (r : Req) : Manager DebugLoc SrcLoc :=
  if r.own then c.manager else c.emptyManager

def showOutcome : Outcome → String
  | .ok n => s!"ok:{n}"
  | .err .parse => "err:parse"
  | .err .noSymbols => "err:no-symbols"
  | .err .noDebugInfo => "err:no-debug-info"
  | .err .invalidPath => "err:invalid-path"
  | .err .refusedLocation => "err:refused-location"
  | .err .openFile => "err:open-file"

def parseOutcome (s : String) : Option Outcome :=
  match s with
  | "err:parse" => some (.err .parse)
  | "err:no-symbols" => some (.err .noSymbols)
  | "err:no-debug-info" => some (.err .noDebugInfo)
  | "err:invalid-path" => some (.err .invalidPath)
  | "err:refused-location" => some (.err .refusedLocation)
  | "err:open-file" => some (.err .openFile)
  | _ =>
    match s.splitOn ":" with
    | ["ok", n] => n.toNat?.map .ok
    | _ => none

def framesOf : Lookup → List Frame
  | .frames fs => fs
  | _ => []

def showLoc (l : SrcLoc) : String :=
  (if l.remote then "r" else "l") ++ "," ++ encodeStr l.base ++ "," ++ encodeStr l.path

def parseLoc (tok : String) : Option SrcLoc :=
  match tok.splitOn "," with
  | [t, b, p] => do
    let t ← parseTag t; let b ← decodeStr b; let p ← decodeStr p
    pure ⟨t, b, p⟩
  | _ => none

def showResult (r : Result SrcLoc) : String :=
  " ".intercalate (("r" :: showOutcome r.outcome :: r.loads.map showLoc))

def optTok (o : Option String) : String :=
  match o with
  | none => "~"
  | some s => encodeStr s

def showSym (o : Nat) (e : SymEntry) : String :=
  match e with
  | .noDebugInfo => s!"sym {o} -"
  | .panic => s!"sym {o} panic"
  | .info r =>
    if r.file.isNone && r.inlines.isEmpty then s!"sym {o} -"
    else " ".intercalate ("sym" :: toString o :: optTok r.file :: r.inlines.map optTok)

def model (ls : List String) : List String :=
  match parse ls with
  | none => ["bad-op"]
  | some c =>
    let m := c.manager
    let perOffset := c.lookups.flatMap (fun (o, lk) =>
      let api := " ".intercalate ("api" :: toString o :: (framesOf lk).map (fun f =>
        match f.filePath with
        | none => "~"
        | some fp => encodeStr (toApiFilePath fp)))
      -- what the batched `/symbolicate/v5` model reports for this offset
      [api, showSym o (symbolicateAt toApiFilePath m (some c.id) o)])
    perOffset ++ c.reqs.map (fun r =>
      let res := sourceApiAt toApiFilePath (c.managerFor r) r.rq
      if c.real then "r " ++ showOutcome res.outcome else showResult res)

def parseResult (l : String) : Option (Result SrcLoc) :=
  match words l with
  | "r" :: cls :: locs => do
    let o ← parseOutcome cls
    let ls ← locs.mapM parseLoc
    pure ⟨ls, o⟩
  | _ => none

/-- Specification side of "the debug file's location": the location of the first candidate that loaded with
the requested id (or of the helper-supplied map). Declarative (`filter` + `head?`), not the model's loop. -/
def Case.winner (c : Case) : Option DebugLoc :=
  if c.direct then
    match c.cands with
    | [some x] => some x.2
    | _ => none
  else ((c.cands.filterMap (fun x => x)).filter (fun x => x.1 == c.id)).head?.map (·.2)

/-- `api <offset> tok*` → `(offset, spellings)` -/
def parseApiLine (l : String) : Option (Nat × List (Option String)) :=
  match words l with
  | "api" :: o :: toks => do
    let o ← o.toNat?
    let a ← toks.mapM parseOptStr
    pure (o, a)
  | _ => none

/-- `sym <offset> …` → `(offset, reported files)`; `none` on a panic or a malformed line -/
def parseSymLine (l : String) : Option (Nat × List String) :=
  match words l with
  | ["sym", o, "-"] => o.toNat?.map (fun o => (o, []))
  | ["sym", _, "panic"] => none
  | "sym" :: o :: toks => do
    let o ← o.toNat?
    let fs ← toks.mapM parseOptStr
    pure (o, fs.filterMap id)
  | _ => none

structure OffsetView where
  offset : Nat
  /-- (raw path from the lookup oracle, spelling from the implementation's `api` line) per frame with a file -/
  pairs : List (String × String)
  /-- the files the implementation's batched `/symbolicate/v5` reported for the offset -/
  reported : List String

/-- The judge evaluates the statement of C09 (`SourceApi.specOk`) on the implementation's own output: per
offset the permitted set is what the real batched `/symbolicate/v5` reported (the implementation's `sym` line),
the frames' raw paths come from the direct lookup (`lookup` line) and their spellings from the implementation's
`api` line; the debug file's location is the first candidate loaded with the requested id (`Case.winner`). It
does not use `findPermitted` / `toApiFilePath` / `loadSymbolMap` / `sourceApi`. -/
def judge (ops impl : List String) : Bool × String :=
  match parse ops with
  | none => (false, "bad-op")
  | some c =>
    if impl.contains "panic" then (false, "implementation panicked") else
    if impl.contains "oracle-mismatch" then (false, "oracle lines do not describe the code (stale case)") else
    let nOff := c.lookups.length
    let head := impl.take (2 * nOff)
    let rs := impl.drop (2 * nOff)
    if head.length ≠ 2 * nOff then (false, "missing api / sym lines") else
    let rec views (gs : List (Nat × Lookup)) (ls : List String) : Except String (List OffsetView) :=
      match gs, ls with
      | [], _ => .ok []
      | (o, lk) :: gs, a :: s :: ls =>
        match parseApiLine a with
        | none => .error "bad api line"
        | some (oa, apis) =>
          if oa ≠ o then .error "api line for the wrong offset" else
          let fs := framesOf lk
          if apis.length ≠ fs.length then .error "api line does not have one entry per frame" else
          let pairs : List (String × String) := (fs.zip apis).filterMap (fun (f, a) =>
            match f.filePath, a with
            | some fp, some a => some (fp.rawPath, a)
            | _, _ => none)
          if pairs.length ≠ (filePaths fs).length then .error "api line misses a frame's file" else
          let reported : Except String (List String) :=
            match words s with
            | ["sym", o', "panic"] =>
              -- excluded point: `/symbolicate/v5` panics on an empty frame list of a helper-supplied map
              if o'.toNat? == some o && fs.isEmpty && (match lk with | .frames _ => true | _ => false) then .ok []
              else .error "/symbolicate/v5 panicked"
            | _ =>
              match parseSymLine s with
              | some (os, r) => if os = o then .ok r else .error "sym line for the wrong offset"
              | none => .error "bad sym line"
          match reported with
          | .error e => .error e
          | .ok reported =>
            match views gs ls with
            | .error e => .error e
            | .ok vs => .ok (⟨o, pairs, reported⟩ :: vs)
      | _, _ => .error "missing api / sym lines"
    match views c.lookups head with
    | .error e => (false, e)
    | .ok vs =>
      if rs.length ≠ c.reqs.length then (false, "wrong number of response lines") else
      let win := c.winner
      let locFor : String → Option SrcLoc := fun raw =>
        match win with
        | none => none
        | some dl => c.store.locationFor dl raw
      let rec go (reqs : List Req) (rs : List String) (k : Nat) : Bool × String :=
        match reqs, rs with
        | [], _ => (true, "ok")
        | _, [] => (true, "ok")
        | r :: reqs, l :: rs =>
          let rq := r.rq
          -- a request for another library (name / id nobody has), or with an unparsable offset: nothing is
          -- reported for it, nothing may be read
          let view : Option OffsetView :=
            if r.own && rq.parsed then vs.find? (·.offset == rq.offset) else some ⟨rq.offset, [], []⟩
          let locFor : String → Option SrcLoc := if r.own then locFor else fun _ => none
          match parseResult l, view with
          | none, _ => (false, s!"request {k}: bad response line")
          | _, none => (false, s!"request {k}: no view of its offset")
          | some res, some v =>
            let wf := rq.parsed && rq.debugId.isSome
            if c.real then
              -- loads are not observable: the response class and the returned content are judged against what
              -- the operating system reads for exactly the reported path string
              if !res.loads.isEmpty then (false, s!"request {k}: unexpected location tokens") else
              if !specOkContent v.pairs v.reported locFor c.store.fileLen wf rq.file res.outcome then
                let what :=
                  if wf && v.reported.contains rq.file && !res.outcome.accepted then
                    "a path reported by /symbolicate/v5 for this offset was not accepted"
                  else if !(wf && v.reported.contains rq.file) then
                    "a request for a path that is not reported for this offset was not refused"
                  else "the answer is not what the operating system reads for the reported path as it stands (content / readability of the file the debug-info path denotes)"
                (false, s!"request {k} (offset {rq.offset}, {encodeStr rq.file}): {what}")
              else go reqs rs (k + 1)
            else
            if !specOk v.pairs v.reported locFor c.store.fileLen wf rq.file res then
              let what :=
                if res.loads.length > 1 then "more than one source file read"
                else if !res.loads.isEmpty && !(wf && v.reported.contains rq.file) then
                  "a source file was read although the requested path is not one reported for this offset"
                else if !res.loads.isEmpty &&
                    !res.loads.all (fun l => v.pairs.any (fun p => p.2 == rq.file && locFor p.1 == some l)) then
                  "the file read is not the location the debug file's location gives for the raw path of a frame of this offset with the requested spelling"
                else if wf && v.reported.contains rq.file && !res.outcome.accepted then
                  "a path reported by /symbolicate/v5 for this offset was not accepted"
                else if !res.outcome.accepted && !res.loads.isEmpty then "refusal with a read"
                else "the response class is not justified by the helper (content / readability / location of the file)"
              (false, s!"request {k} (offset {rq.offset}, {encodeStr rq.file}): {what}")
            else go reqs rs (k + 1)
      go c.reqs rs 0

end C09
