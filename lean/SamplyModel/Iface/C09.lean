import SamplyModel.Proto
import SamplyModel.Model.SourceApi
/-!
Line protocol for C09 (`/source/v1` confinement). All strings are hex-encoded UTF-8 (`-` = empty string),
`~` = absent.

ops (the first five lines are the header; they describe one `(module, offset)` and the helper):
  `module <kind> <debugName> <breakpadId> <payload>`   how the harness serves the module (opaque here)
  `offset <n>`                                         the queried module offset (opaque here)
  `lookup <nosymbols|notfound|noframes|frames> <frame>*`
        the direct `SymbolMap::lookup` of that offset, innermost frame first; a frame is `~` (no file) or
        `<raw>,n` | `<raw>,g,<repo>,<path>,<rev>` | `<raw>,h,<repo>,<path>,<rev>` |
        `<raw>,s,<bucket>,<digest>,<path>` | `<raw>,c,<registry>,<crate>,<version>,<path>`
  `sym none` | `sym panic` | `sym files <outer file|~> <inline file|~>*`
        what `/symbolicate/v5` reports for that offset (`debug_info.file`, `inlines[].file`)
  `store <all|abs> <path>:<len>*`
        helper: `location_for_source_file` accepts every path / absolute paths only; which source
        locations can be read and how long the file is
  then requests, all for that module and offset:
  `req <file> [tag]` | `reqbadid <file> [tag]` (invalid debugId) | `reqmalformed <file> [tag]` (body does
  not deserialise); the tag names the generator family and is ignored

out:
  `api <spelling|~>*`           `to_api_file_path` of every frame's file path
  `r <class> <location>*`       one per request: response class `ok:<len>` | `err:<kind>` and the ordered
                                source-file locations passed to `load_file` during the request
-/
namespace C09
open SourceApi Proto

def decodeStr (h : String) : Option String :=
  if h = "-" then some "" else
  let bs := hexBytes h
  if bs.length * 2 ≠ h.length then none else String.fromUTF8? ⟨bs.toArray⟩

def encodeStr (s : String) : String := bytesHex s.toUTF8.toList

def parseFrame (tok : String) : Option Frame :=
  if tok = "~" then some ⟨none⟩ else
  match tok.splitOn "," with
  | [raw, "n"] => do
    let r ← decodeStr raw
    pure ⟨some ⟨r, none⟩⟩
  | [raw, "g", a, b, c] => do
    let r ← decodeStr raw; let a ← decodeStr a; let b ← decodeStr b; let c ← decodeStr c
    pure ⟨some ⟨r, some (.git a b c)⟩⟩
  | [raw, "h", a, b, c] => do
    let r ← decodeStr raw; let a ← decodeStr a; let b ← decodeStr b; let c ← decodeStr c
    pure ⟨some ⟨r, some (.hg a b c)⟩⟩
  | [raw, "s", a, b, c] => do
    let r ← decodeStr raw; let a ← decodeStr a; let b ← decodeStr b; let c ← decodeStr c
    pure ⟨some ⟨r, some (.s3 a b c)⟩⟩
  | [raw, "c", a, b, c, d] => do
    let r ← decodeStr raw; let a ← decodeStr a; let b ← decodeStr b; let c ← decodeStr c
    let d ← decodeStr d
    pure ⟨some ⟨r, some (.cargo a b c d)⟩⟩
  | _ => none

def parseLookup (l : String) : Option Lookup :=
  match words l with
  | ["lookup", "nosymbols"] => some .noSymbols
  | ["lookup", "notfound"] => some .notFound
  | ["lookup", "noframes"] => some .noFrames
  | "lookup" :: "frames" :: toks => (toks.mapM parseFrame).map .frames
  | _ => none

def parseOptStr (tok : String) : Option (Option String) :=
  if tok = "~" then some none else (decodeStr tok).map some

/-- reported files of the `sym` line (absent ones dropped) -/
def parseSym (l : String) : Option (List String) :=
  match words l with
  | ["sym", "none"] => some []
  | ["sym", "panic"] => some []   -- `/symbolicate/v5` panicked (empty frame list from a helper-supplied map)
  | "sym" :: "files" :: toks => (toks.mapM parseOptStr).map (·.filterMap id)
  | _ => none

structure Store where
  absOnly : Bool
  files : List (String × Nat)

def parseStoreEntry (tok : String) : Option (String × Nat) :=
  match tok.splitOn ":" with
  | [p, n] => do
    let p ← decodeStr p
    let n ← n.toNat?
    pure (p, n)
  | _ => none

def parseStore (l : String) : Option Store :=
  match words l with
  | "store" :: pol :: toks =>
    if pol = "all" ∨ pol = "abs" then (toks.mapM parseStoreEntry).map (fun fs => ⟨pol = "abs", fs⟩)
    else none
  | _ => none

def Store.locationFor (st : Store) (p : String) : Option String :=
  if st.absOnly && !(p.startsWith "/") then none else some p

def Store.fileLen (st : Store) (loc : String) : Option Nat :=
  (st.files.find? (·.1 == loc)).map (·.2)

def parseReq (l : String) : Option Request :=
  match words l with
  | "req" :: f :: _ => (decodeStr f).map (fun f => ⟨true, true, f⟩)
  | "reqbadid" :: f :: _ => (decodeStr f).map (fun f => ⟨true, false, f⟩)
  | "reqmalformed" :: f :: _ => (decodeStr f).map (fun f => ⟨false, true, f⟩)
  | _ => none

structure Case where
  lookup : Lookup
  reported : List String
  store : Store
  reqs : List Request

def parse (ls : List String) : Option Case :=
  match ls with
  | m :: o :: lk :: sy :: st :: reqs =>
    if (words m).head? ≠ some "module" ∨ (words o).head? ≠ some "offset" then none else do
    let lookup ← parseLookup lk
    let reported ← parseSym sy
    let store ← parseStore st
    let reqs ← reqs.mapM parseReq
    pure ⟨lookup, reported, store, reqs⟩
  | _ => none

def showOutcome : Outcome → String
  | .ok n => s!"ok:{n}"
  | .err .parse => "err:parse"
  | .err .noSymbols => "err:no-symbols"
  | .err .noDebugInfo => "err:no-debug-info"
  | .err .invalidPath => "err:invalid-path"
  | .err .refusedLocation => "err:refused-location"
  | .err .openFile => "err:open-file"

def parseOutcome (s : String) : Option Outcome :=
  match s with
  | "err:parse" => some (.err .parse)
  | "err:no-symbols" => some (.err .noSymbols)
  | "err:no-debug-info" => some (.err .noDebugInfo)
  | "err:invalid-path" => some (.err .invalidPath)
  | "err:refused-location" => some (.err .refusedLocation)
  | "err:open-file" => some (.err .openFile)
  | _ =>
    match s.splitOn ":" with
    | ["ok", n] => n.toNat?.map .ok
    | _ => none

def framesOf : Lookup → List Frame
  | .frames fs => fs
  | _ => []

def showResult (r : Result String) : String :=
  " ".intercalate (("r" :: showOutcome r.outcome :: r.loads.map encodeStr))

def model (ls : List String) : List String :=
  match parse ls with
  | none => ["bad-op"]
  | some c =>
    let env : Env String := ⟨c.lookup, c.store.locationFor, c.store.fileLen⟩
    let api := " ".intercalate ("api" :: (framesOf c.lookup).map (fun f =>
      match f.filePath with
      | none => "~"
      | some fp => encodeStr (toApiFilePath fp)))
    api :: c.reqs.map (fun rq => showResult (sourceApi toApiFilePath env rq))

def parseResult (l : String) : Option (Result String) :=
  match words l with
  | "r" :: cls :: locs => do
    let o ← parseOutcome cls
    let ls ← locs.mapM decodeStr
    pure ⟨ls, o⟩
  | _ => none

/-- The judge evaluates the statement of C09 (`SourceApi.specOk`) on the implementation's own output:
the permitted set is what `/symbolicate/v5` reported for the offset (`sym` line), the frames' raw paths come
from the direct lookup (`lookup` line) and their spellings from the implementation's `api` line — not from
the model's `findPermitted`/`toApiFilePath`. -/
def judge (ops impl : List String) : Bool × String :=
  match parse ops with
  | none => (false, "bad-op")
  | some c =>
    if impl.contains "panic" then (false, "implementation panicked") else
    match impl with
    | [] => (false, "no output")
    | apiLine :: rs =>
      match words apiLine with
      | "api" :: toks =>
        match toks.mapM parseOptStr with
        | none => (false, "bad api line")
        | some apis =>
          let fs := framesOf c.lookup
          if apis.length ≠ fs.length then (false, "api line does not have one entry per frame") else
          -- (raw, spelling) of every frame with a file
          let pairs : List (String × String) := (fs.zip apis).filterMap (fun (f, a) =>
            match f.filePath, a with
            | some fp, some a => some (fp.rawPath, a)
            | _, _ => none)
          if pairs.length ≠ (filePaths fs).length then (false, "api line misses a frame's file") else
          if rs.length ≠ c.reqs.length then (false, "wrong number of response lines") else
          let rec go (reqs : List Request) (rs : List String) (k : Nat) : Bool × String :=
            match reqs, rs with
            | [], _ => (true, "ok")
            | _, [] => (true, "ok")
            | rq :: reqs, l :: rs =>
              match parseResult l with
              | none => (false, s!"request {k}: bad response line")
              | some res =>
                let wf := rq.parsed && rq.debugIdOk
                if !specOk pairs c.reported c.store.locationFor wf rq.file res then
                  let what :=
                    if res.loads.length > 1 then "more than one source file read"
                    else if !res.loads.isEmpty && !(wf && c.reported.contains rq.file) then
                      "a source file was read although the requested path is not one reported for this offset"
                    else if !res.loads.isEmpty then
                      "the file read is not the raw path of a frame of this offset with the requested spelling"
                    else if wf && c.reported.contains rq.file then
                      "a path reported by /symbolicate/v5 for this offset was not accepted"
                    else "refusal with a read"
                  (false, s!"request {k} ({encodeStr rq.file}): {what}")
                else
                  -- the returned source is the content of the location that was read
                  match res.outcome, res.loads with
                  | .ok n, [l] =>
                    if c.store.fileLen l ≠ some n then
                      (false, s!"request {k}: returned source is not the content of the file read")
                    else go reqs rs (k + 1)
                  | .ok _, _ => (false, s!"request {k}: source returned without exactly one read")
                  | _, _ => go reqs rs (k + 1)
          go c.reqs rs 0
      | _ => (false, "missing api line")

end C09
