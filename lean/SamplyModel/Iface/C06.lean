import SamplyModel.Proto
import SamplyModel.Model.Candidates
import SamplyModel.Model.CandidateFiles
/-!
Line protocol for C06 (see `harness/src/bin/c06.rs` for the grammar of the op lines).

`C06.model` computes the expected outcome of a case from the *abstract descriptions* of the candidates
only (file references are ignored). `C06.judge` evaluates the statement of C06 on the implementation's
output, using a declarative reading of the descriptions ("is this candidate a file of the requested
build?") and none of the model's loops.
-/
namespace C06
open Cand Proto

abbrev Id := String

def strip? (p s : String) : Option String :=
  if s.startsWith p then some (s.drop p.length).toString else none

def key (ws : List String) (k : String) : String :=
  (ws.findSome? fun w => strip? (k ++ "=") w).getD ""

def hexNat (s : String) : Nat :=
  s.toList.foldl (fun n c => n * 16 + (hexDigit? c).getD 0) 0

/-- lower-case hex without leading zeros (how `DebugId::breakpad` prints the age) -/
def hexLower (n : Nat) : String :=
  let rec go (fuel n : Nat) (acc : List Char) : List Char :=
    match fuel with
    | 0 => acc
    | fuel + 1 =>
      let d := n % 16
      let c := if d < 10 then Char.ofNat ('0'.toNat + d) else Char.ofNat ('a'.toNat + (d - 10))
      if n / 16 = 0 then c :: acc else go fuel (n / 16) (c :: acc)
  String.ofList (go 64 n [])

/-- breakpad form: 32 hex digits of the UUID followed by the age in hex -/
def parseDid (s : String) : Option (DebugId Id) :=
  if s.length < 33 then none else some ⟨(s.take 32).toString, hexNat (s.drop 32).toString⟩

def showDid (d : DebugId Id) : String := d.uuid ++ hexLower d.age

def showODid : Option (DebugId Id) → String
  | none => "none"
  | some d => showDid d

def optStr (s : String) : Option String := if s = "none" ∨ s = "-" ∨ s = "" then none else some s

def showOpt : Option String → String
  | none => "none"
  | some s => s

def showErr : Err Id → String
  | .open_ => "open"
  | .parse => "parse"
  | .unmatched a => "unmatched:" ++ showODid a
  | .unmatchedCode a => "unmatched-code:" ++ showOpt a
  | .fatEmpty => "fat-empty"
  | .fatNoDisamb => "fat-nodisamb"
  | .fatNoMatch => "fat-nomatch"

/-- `ok:<ID>` | `open` | `parse` -/
def parseSymRes (s : String) : Option (Load (SymInfo Id)) :=
  if s = "open" then some .unreadable
  else if s = "parse" then some .unparsable
  else match strip? "ok:" s with
    | some r => (parseDid r).map fun d => .ok ⟨d⟩
    | none => none

/-- `ok:<ID|none>:<code|none>` | `open` | `parse` -/
def parseBinRes (s : String) : Option (Load (BinInfo Id)) :=
  if s = "open" then some .unreadable
  else if s = "parse" then some .unparsable
  else match strip? "ok:" s with
    | some r =>
      match r.splitOn ":" with
      | [d, c] =>
        if d = "none" then some (.ok ⟨none, optStr c⟩)
        else (parseDid d).map fun d => .ok ⟨some d, optStr c⟩
      | _ => none
    | none => none

def parseMember {α : Type} (pr : String → Option (Load α)) (s : String) : Option (Member Id α) :=
  match s.splitOn "/" with
  | [a, u, r] => (pr r).map fun l => ⟨optStr a, optStr u, l⟩
  | _ => none

def parseCand {α : Type} (pr : String → Option (Load α)) (s : String) : Option (Candidate Id α) :=
  match strip? "fat:" s with
  | some r =>
    if r = "" then some (.fat []) else
    ((r.splitOn ",").mapM (parseMember pr)).map .fat
  | none => (pr s).map .single

def candLines {α : Type} (pr : String → Option (Load α)) (ls : List String) : Option (List (Candidate Id α)) :=
  ls.mapM fun l =>
    match words l with
    | "cand" :: _ref :: v :: _ => parseCand pr v
    | _ => none

/-- the preference list `BestMatchForNative` is compiled with on the harness machine (x86_64) -/
def native : List Id := ["x86_64h", "x86_64"]

def parseDisamb (s : String) : Option (Option (Disamb Id)) :=
  if s = "none" then some none
  else if s = "native" then some (some .native)
  else match strip? "arch:" s with
    | some a => some (some (.arch a))
    | none =>
      match strip? "best:" s with
      | some l => some (some (.bestMatch ((l.splitOn ",").filter (· ≠ ""))))
      | none =>
        match strip? "id:" s with
        | some d => (parseDid d).map fun d => some (.debugId d)
        | none => none

structure Comp where
  ok : Bool       -- readable ∧ (object/parses)
  idOk : Bool     -- crc / build id / debug id equals the wanted one
  marker : String

/-! ### request headers -/

def parseBinReq (ws : List String) : BinReq Id :=
  ⟨key ws "name" = "1", (optStr (key ws "id")).bind parseDid, optStr (key ws "code"), optStr (key ws "arch")⟩

structure FatMemberLine where
  arch : Option Id
  uuid : Option Id
  sym : Load (SymInfo Id)
  bin : Load (BinInfo Id)

def parseFatMembers (ls : List String) : Option (List FatMemberLine) :=
  ls.mapM fun l =>
    match words l with
    | ["member", _ref, a, u, s, b] => do
      let s ← parseSymRes s
      let b ← parseBinRes b
      pure ⟨optStr a, optStr u, s, b⟩
    | _ => none

def hexByte? (a b : Char) : Option UInt8 := do
  let x ← hexDigit? a
  let y ← hexDigit? b
  pure (UInt8.ofNat (x * 16 + y))

def unhex? : List Char → Option (List UInt8)
  | [] => some []
  | [_] => none
  | a :: b :: rest => do
    let x ← hexByte? a b
    let xs ← unhex? rest
    pure (x :: xs)

/-- The CRC of a debuglink candidate. For a `raw:<hex>` reference the bytes are in the op line, and the model runs
the chunked loop of elf.rs:181-200 with CRC-32 on them itself; otherwise the value the harness states
(its own CRC-32 of the whole file). -/
def candCrc (ref : String) (statedCrc : Nat) : Nat :=
  match strip? "raw:" ref with
  | some h =>
    match unhex? h.toList with
    | some bytes =>
      match crcChunked crc32.step crc32.init debugLinkChunk bytes with
      | .ok s => crc32.fin s
      | _ => statedCrc
    | none => statedCrc
  | none => statedCrc

def dlCands (ls : List String) : Option (List (DlCand String)) :=
  ls.mapM fun l =>
    match words l with
    | "cand" :: _ref :: rest =>
      some ⟨key rest "readable" = "1", candCrc _ref (nat! (key rest "crc")), key rest "parses" = "1", key rest "marker"⟩
    | _ => none

def supCands (ls : List String) : Option (List (SupCand Id String)) :=
  ls.mapM fun l =>
    match words l with
    | "cand" :: _ref :: rest =>
      some ⟨key rest "readable" = "1", key rest "object" = "1", optStr (key rest "buildid"), key rest "marker"⟩
    | _ => none

/-- the words of every `cand` line after the reference (`none` for a malformed line) -/
def candWords (ls : List String) : Option (List (List String)) :=
  ls.mapM fun l =>
    match words l with
    | "cand" :: _ref :: rest => some rest
    | _ => none

/-- a stated value: `none` when the key is missing or `-` -/
def stated (ws : List String) (k : String) : Option String :=
  let v := key ws k
  if v = "" ∨ v = "-" then none else some v

structure BpLine where
  cand : BpCand
  /-- ground truth: the id in the spec of the `.sym` file -/
  own : DebugId Id
  mark : String
  stale : Bool

/-- `DebugId::from_breakpad` on the id token of a MODULE line -/
def parseTok (t : List UInt8) : Option (DebugId Id) :=
  parseDid (String.ofList (t.map fun b => Char.ofNat b.toNat))

/-- `str::from_utf8(line).is_ok()` -/
def utf8ok (l : List UInt8) : Bool := ByteArray.validateUTF8 ⟨l.toArray⟩

def bpLines (ls : List String) : Option (List BpLine) :=
  ls.mapM fun l =>
    match words l with
    | "cand" :: _ref :: rest => do
      let own ← parseDid (key rest "own")
      let head ← unhex? (key rest "symhead").toList
      let v := key rest "side"
      let side : Load (List UInt8) ←
        (if v = "open" then some .unreadable
         else if v = "parse" then some .unparsable
         else if v.startsWith "ok:" then (unhex? (key rest "sideinfo").toList).map .ok
         else none)
      pure ⟨⟨head, side⟩, own, key rest "mark", key rest "stale" = "1"⟩
    | _ => none

/-- `cache <ref> <view>` lines of a `dyld` case: what looking for the dylib in that cache yields, reduced to the
debug id of the result -/
def cacheLines (bin : Bool) (ls : List String) : Option (List (Load (Option (DebugId Id)))) :=
  ls.mapM fun l =>
    match words l with
    | "cache" :: _ref :: v :: _ =>
      if bin then (parseBinRes v).map fun
        | .ok i => .ok i.debugId
        | .unreadable => .unreadable
        | .unparsable => .unparsable
      else (parseSymRes v).map fun
        | .ok i => .ok (some i.debugId)
        | .unreadable => .unreadable
        | .unparsable => .unparsable
    | _ => none

/-! ### model -/

def showSymOut : SymOut Id → List String
  | .ok k m => [s!"ok {showDid m.debugId} from {k}"]
  | .notEnoughInfo => ["err not-enough-info"]
  | .noCandidates => ["err no-candidates"]
  | .single e => ["err " ++ showErr e]
  | .noneOk es => ["err none-ok " ++ " ".intercalate (es.map showErr)]

def showBinOut : BinOut Id → List String
  | .ok m => [s!"ok {showODid m.debugId} {showOpt m.codeId}"]
  | .notEnoughInfo => ["err not-enough-info"]
  | .noCandidates => ["err no-candidates"]
  | .lastErr e => ["err " ++ showErr e]
  | .panic => ["panic"]

def model (ls : List String) : List String :=
  match ls with
  | [] => ["bad-op"]
  | hd :: rest =>
    let ws := words hd
    match ws with
    | ["symmap", r] =>
      match candLines parseSymRes rest, candWords rest with
      | some cs, some cws =>
        if r = "none" then showSymOut (loadSymbolMap native none cs) else
        match parseDid r with
        | none => ["bad-op"]
        | some d =>
          match loadSymbolMap native (some d) cs with
          | .ok k m =>
            -- the map is built from candidate `k`: it shows what that file shows (if the line states it)
            match (cws[k]?).bind (stated · "mark") with
            | some mk => [s!"ok {showDid m.debugId} from {k} shows {mk}"]
            | none => showSymOut (.ok k m)
          | out => showSymOut out
      | _, _ => ["bad-op"]
    | ["symidx", r] =>
      match parseDid r, bpLines rest with
      | some d, some ls =>
        match loadSymbolMapBp parseTok utf8ok native (some d) (ls.map (·.cand)) with
        | (.ok k m, _) =>
          -- lookups are served from the text of candidate `k` (`BpCand.content`)
          [s!"ok {showDid m.debugId} from {k} shows {((ls[k]?).map (·.mark)).getD "?"}"]
        | (out, _) => showSymOut out
      | _, _ => ["bad-op"]
    | "binary" :: kvs =>
      match candLines parseBinRes rest with
      | none => ["bad-op"]
      | some cs => showBinOut (loadBinary native (parseBinReq kvs) cs)
    | ["dyld", what, d] =>
      match parseDisamb d, cacheLines (what = "bin") rest with
      | some dis, some caches =>
        match loadForDyldCacheImage (fun (x : Option (DebugId Id)) => x) dis caches with
        | .ok a => ["ok " ++ showODid a]
        | .noCache => ["err no-dyld-cache"]
        | .lastErr e => ["err " ++ showErr e]
      | _, _ => ["bad-op"]
    | ["fat", d] =>
      match parseDisamb d, parseFatMembers rest with
      | some _, some [] =>
        -- a fat header with zero architectures is not recognised as a fat archive by `object::FileKind::parse`
        -- (lib.rs:560 / :649), so `EmptyFatArchive` (macho.rs:71) cannot be reached through the loaders
        ["bin err parse", "sym err parse"]
      | some d, some ms =>
        let bins : List (Member Id (BinInfo Id)) := ms.map fun m => ⟨m.arch, m.uuid, m.bin⟩
        let syms : List (Member Id (SymInfo Id)) := ms.map fun m => ⟨m.arch, m.uuid, m.sym⟩
        let b := match fatMember native d bins with
          | .error e => "bin err " ++ showErr e
          | .ok m =>
            match m.load with
            | .ok i => s!"bin ok {showOpt m.arch} {showODid i.debugId} {showOpt i.codeId}"
            | _ => "bin err parse"
        let s := match (Candidate.fat syms).load native d with
          | .error e => "sym err " ++ showErr e
          | .ok i => "sym ok " ++ showDid i.debugId
        [b, s]
      | _, _ => ["bad-op"]
    | "debuglink" :: _main :: kvs =>
      match dlCands rest with
      | none => ["bad-op"]
      | some cs =>
        match optStr (key kvs "id") with
        | none => ["err parse"]            -- no debug id: neither the debuglink path nor the file itself loads
        | some id =>
          let link := if key kvs "link" = "1" then some (nat! (key kvs "wanted")) else none
          [s!"id {id}", "used " ++ ((debugLink link true cs).getD (key kvs "base"))]
    | "sup" :: _main :: kvs =>
      match supCands rest with
      | none => ["bad-op"]
      | some cs =>
        match optStr (key kvs "id") with
        | none => ["err parse"]
        | some id =>
          let link := if key kvs "link" = "1" then optStr (key kvs "wanted") else none
          [s!"id {id}", "used " ++ ((supplementary link cs).getD (key kvs "base"))]
    | "pdb" :: _main :: kvs =>
      match parseDid (key kvs "id") with
      | none => ["bad-op"]
      | some binId =>
        let (l, marker) : Load (SymInfo Id) × String := match rest with
          | [] => (.unreadable, "?")
          | c :: _ =>
            match words c with
            | "cand" :: _ref :: v :: more => ((parseSymRes v).getD .unparsable, key more "marker")
            | _ => (.unparsable, "?")
        [s!"id {showDid binId}", "used " ++ ((pdbCompanion binId l marker).getD (key kvs "base"))]
    | _ => ["bad-op"]

/-! ### judge: the statement of C06 on the implementation's own output -/

/-- declarative: is this candidate a file of the requested build (symbol-map view)? -/
def symIsBuild (req : DebugId Id) : Candidate Id (SymInfo Id) → Bool
  | .single (.ok m) => m.debugId == req
  | .single _ => false
  | .fat ms => ms.any fun m => m.uuid == some req.uuid && req.age == 0 &&
      (match m.load with | .ok i => i.debugId == req | _ => false)

/-- the images a candidate can yield (binary view) -/
def binImages : Candidate Id (BinInfo Id) → List (BinInfo Id)
  | .single (.ok m) => [m]
  | .single _ => []
  | .fat ms => ms.filterMap fun m => match m.load with | .ok i => some i | _ => none

def judgeCompanion (what : String) (kvs : List String) (cands : List Comp) (impl : List String) : Bool × String :=
  match impl with
  | [l1, l2] =>
    match words l1, words l2 with
    | ["id", x], ["used", m] =>
      if x ≠ key kvs "id" then (false, s!"[wrong-id] the map reports {x}, the file that was asked for has {key kvs "id"}")
      else if m = key kvs "base" then (true, "ok")
      else if cands.any fun c => c.marker = m && c.marker ≠ "?" && c.ok && c.idOk then (true, "ok")
      else if cands.any fun c => c.marker = m && c.marker ≠ "?" then
        (false, s!"[companion-mismatch] a {what} companion showing {m} was used although its id does not match")
      else (false, s!"[companion-unknown] lookups show {m}, which neither the file itself nor a matching companion provides")
    | _, _ => (false, "bad output")
  | [l] =>
    match words l with
    | "err" :: _ => (true, "ok")
    | ["panic"] => (false, "[panic] the request neither succeeded nor failed cleanly")
    | _ => (false, "bad output")
  | _ => (false, "bad output")

def judge (ops impl : List String) : Bool × String :=
  match ops with
  | [] => (false, "bad-op")
  | hd :: rest =>
    if impl.contains "panic" then (false, "[panic] the request neither succeeded nor failed cleanly") else
    match words hd with
    | ["symmap", r] =>
      match candLines parseSymRes rest, candWords rest, impl with
      | some cs, some cws, [l] =>
        -- ground truth first: a generated file's spec says which id it carries; what samply reports for it alone
        -- (the description) must agree
        let drift := (cs.zip cws).findSome? fun (c, ws) =>
          match c, stated ws "truth" with
          | .single (.ok m), some t => if showDid m.debugId = t then none else some (showDid m.debugId, t)
          | _, _ => none
        match drift with
        | some (got, t) => (false, s!"[id-drift] a candidate that carries {t} is reported as {got}")
        | none =>
        -- is candidate `i` a file of build `req`: by ground truth where there is one, else by description
        let isBuild (req : DebugId Id) (i : Nat) : Bool :=
          match cs[i]?, cws[i]? with
          | some c, some ws =>
            (match c, stated ws "truth" with
             | .single (.ok _), some t => t == showDid req
             | .single _, some _ => false
             | c, _ => symIsBuild req c)
          | _, _ => false
        match words l with
        | "ok" :: id :: "from" :: k :: more =>
          match parseDid r with
          | none => (false, "[no-request] a symbol map was handed out although no debug id was requested")
          | some req =>
            if id ≠ showDid req then (false, s!"[wrong-id] requested {showDid req}, the symbol map reports {id}")
            else if (nat! k) ≥ cs.length then (false, s!"[not-a-candidate] result attributed to candidate {k} of {cs.length}")
            else if !isBuild req (nat! k) then (false, s!"[wrong-file] candidate {k} is not a file of build {showDid req}")
            else match more with
              | [] => (true, "ok")
              | ["shows", mk] =>
                -- content: what the map shows must be what some candidate *of the requested build* shows
                -- (its `m=` where the reference is a generated file, else the stated marker)
                let own (i : Nat) : Option String := (cws[i]?).bind (stated · "mark")
                if (List.range cs.length).any fun i => isBuild req i && own i == some mk then (true, "ok")
                else (false, s!"[wrong-content] the map reports {id} but shows {mk}, which no candidate of that build shows")
              | _ => (false, "bad output")
        | "err" :: _ => (true, "ok")
        | _ => (false, "bad output")
      | none, _, _ => (false, "bad-op")
      | _, none, _ => (false, "bad-op")
      | _, _, _ => (false, "bad output")
    | ["symidx", r] =>
      match parseDid r, bpLines rest, impl with
      | some req, some ls, [l] =>
        match words l with
        | ["ok", id, "from", k, "shows", mk] =>
          if id ≠ showDid req then (false, s!"[wrong-id] requested {showDid req}, the symbol map reports {id}")
          else
            -- the text that serves the lookups is a `.sym` file's; it must be a file of the requested build
            let ofBuild := ls.filter fun b => b.own == req
            match ls[nat! k]? with
            | none => (false, s!"[not-a-candidate] result attributed to candidate {k} of {ls.length}")
            | some b =>
              if b.own != req then
                (false, s!"[stale-symindex] candidate {k} is a .sym of build {showDid b.own}; with the .symindex next to it the map reports {id} and shows {mk}")
              else if ofBuild.any fun b => b.mark = mk then (true, "ok")
              else (false, s!"[wrong-content] the map reports {id} but shows {mk}, which no candidate of that build shows")
        | "err" :: _ => (true, "ok")
        | _ => (false, "bad output")
      | none, _, _ => (false, "bad-op")
      | _, none, _ => (false, "bad-op")
      | _, _, _ => (false, "bad output")
    | "binary" :: kvs =>
      match candLines parseBinRes rest, impl with
      | some cs, [l] =>
        let req := parseBinReq kvs
        -- ground truth of generated files against what samply reports for them alone
        let drift := (cs.zip ((candWords rest).getD [])).findSome? fun (c, ws) =>
          match c, stated ws "truth" with
          | .single (.ok m), some t =>
            let got := showODid m.debugId ++ ":" ++ showOpt m.codeId
            if got = t then none else some (got, t)
          | _, _ => none
        match drift with
        | some (got, t) => (false, s!"[id-drift] a candidate that carries {t} is reported as {got}")
        | none =>
        match words l with
        | ["ok", id, code] =>
          let fromCand := cs.any fun c => (binImages c).any fun i => showODid i.debugId = id && showOpt i.codeId = code
          if !fromCand then (false, s!"[not-a-candidate] no candidate yields an image with ids {id} {code}") else
          match req.debugId, req.codeId with
          | some d, _ =>
            if id = showDid d then (true, "ok") else (false, s!"[wrong-id] requested debug id {showDid d}, the binary has {id}")
          | none, some c =>
            if code = c then (true, "ok") else (false, s!"[wrong-id] requested code id {c}, the binary has {code}")
          | none, none => (false, "[no-request] a binary was handed out although neither id was requested")
        | "err" :: _ => (true, "ok")
        | _ => (false, "bad output")
      | none, _ => (false, "bad-op")
      | _, _ => (false, "bad output")
    | ["dyld", what, d] =>
      match parseDisamb d, cacheLines (what = "bin") rest, impl with
      | some dis, some caches, [l] =>
        match words l with
        | ["ok", id] =>
          if !(caches.any fun c => match c with | .ok i => showODid i = id | _ => false) then
            (false, s!"[not-a-candidate] no cache yields an image with debug id {id}")
          else match dis with
            | some (.debugId r) =>
              if id = showDid r then (true, "ok") else (false, s!"[wrong-id] requested debug id {showDid r}, the result has {id}")
            | _ => (true, "ok")   -- without a debug id nothing was requested "by id" (lib.rs:501 / :540)
        | "err" :: _ => (true, "ok")
        | _ => (false, "bad output")
      | none, _, _ => (false, "bad-op")
      | _, none, _ => (false, "bad-op")
      | _, _, _ => (false, "bad output")
    | ["fat", d] =>
      match parseDisamb d, parseFatMembers rest, impl with
      | some dis, some ms, [b, s] =>
        -- declarative score of an architecture name
        let pos (a : Option Id) (l : List Id) : Option Nat := a.bind fun a => (l.idxOf? a)
        let score (m : FatMemberLine) : Option Nat :=
          match dis with
          | none => if ms.length = 1 then some 0 else none
          | some (.arch a) => if m.arch = some a then some 0 else none
          | some (.bestMatch l) => pos m.arch l
          | some .native => pos m.arch native
          | some (.debugId r) => if m.uuid = some r.uuid ∧ r.age = 0 then some 0 else none
        let best : Option Nat := (ms.filterMap score).foldl (fun acc s => match acc with | none => some s | some a => some (min a s)) none
        let binOk : Bool × String := match words b with
          | ["bin", "ok", a, id, code] =>
            if ms.any fun m => showOpt m.arch = a && score m = best && best.isSome &&
                (match m.bin with | .ok i => showODid i.debugId = id && showOpt i.codeId = code | _ => false)
            then (true, "ok") else (false, s!"[wrong-member] binary member {a} {id} {code} is not a best match for {d}")
          | "bin" :: "err" :: _ => (true, "ok")
          | _ => (false, "bad output")
        let symOk : Bool × String := match words s with
          | ["sym", "ok", id] =>
            if ms.any fun m => score m = best && best.isSome && (match m.sym with | .ok i => showDid i.debugId = id | _ => false)
            then (true, "ok") else (false, s!"[wrong-member] symbol map {id} does not come from a best match for {d}")
          | "sym" :: "err" :: _ => (true, "ok")
          | _ => (false, "bad output")
        if !binOk.1 then binOk else symOk
      | none, _, _ => (false, "bad-op")
      | _, none, _ => (false, "bad-op")
      | _, _, _ => (false, "bad output")
    | "debuglink" :: _main :: kvs =>
      match dlCands rest with
      | none => (false, "bad-op")
      | some cs =>
        let wanted := nat! (key kvs "wanted")
        judgeCompanion "debuglink" kvs
          (cs.map fun c => ⟨c.readable && c.parses, key kvs "link" = "1" && c.crc == wanted, c.payload⟩) impl
    | "sup" :: _main :: kvs =>
      match supCands rest with
      | none => (false, "bad-op")
      | some cs =>
        let wanted := key kvs "wanted"
        judgeCompanion "supplementary" kvs
          (cs.map fun c => ⟨c.readable && c.isObject, key kvs "link" = "1" && c.buildId == some wanted, c.payload⟩) impl
    | "pdb" :: _main :: kvs =>
      let cands : List Comp := rest.filterMap fun c =>
        match words c with
        | "cand" :: _ref :: v :: more =>
          some ⟨true, (match parseSymRes v with | some (.ok m) => showDid m.debugId = key kvs "id" | _ => false), key more "marker"⟩
        | _ => none
      judgeCompanion "PDB" kvs cands impl
    | _ => (false, "bad-op")

end C06
