import SamplyModel.Proto
import SamplyModel.Model.LibIdentity
/-!
Line protocol for C19 (see `harness/src/bin/c19.rs` for the three kinds of cases).

ops   `kind fld` then `lib <slot> <name> <path> <debugName> <debugPath> <id> <code> <arch>`
      `kind raw` then `obj <slot> <name> <path> <debugName> <debugPath> <breakpadId> <codeId> <arch> <dup>`
                  or `objk <slot> k:<hex key text>=<null|bad|s:hex> …` (a library object with arbitrary key text)
      `kind e2e` then `file <i> gen|fix|copy …`, `rec <i> m|h|hz <build id>` (the recording carries a build id for
                 file `i`: in its MMAP2 records / as header entry with / without the stored length),
                 `opt relcwd|presym|names <a> <b>`, `dbg <i> same|stale`, `map <i> <addr> <len> <pgoff>`,
                 `hit <i> <rel> <function>`
out   `ser <tag> name=… path=… debugName=… debugPath=… breakpadId=… codeId=… arch=…` (e2e: `… id=<typed id>`, the
      written breakpadId as read by the real `debugid`)
      `rd <json|gz> <debugName>/<id> name=… path=… dpath=… code=… arch=…` | `rd <fmt> err`
      `gz same`, `known <fmt> <tag> found|missing`, `addr <fmt> <tag> <rel> same:<fn>|not-found|nofile`

Strings are hex-encoded bytes (`-` = empty). `C19.model` runs the model of `Model/LibIdentity.lean`;
`C19.judge` evaluates the property on the implementation's output with a specification-side reference only.
-/
namespace C19
open LI Proto

/-! ## text helpers -/

def hexStr? (s : String) : Option Str :=
  if s = "-" then some [] else
  let rec go : List Char → Option Str
    | a :: b :: rest =>
      match hexDigit? a, hexDigit? b, go rest with
      | some x, some y, some r => some ((x * 16 + y) :: r)
      | _, _, _ => none
    | [] => some []
    | [_] => none
  go s.toList

def strHex (s : Str) : String :=
  if s.isEmpty then "-" else
  String.ofList (s.flatMap fun b => [hexNibble (b / 16 % 16), hexNibble (b % 16)])

def asciiStr (s : Str) : String := String.ofList (s.map fun b => Char.ofNat b)

def ofAscii (s : String) : Str := s.toList.map (·.toNat)

def showOpt : Option Str → String
  | none => "none"
  | some s => "s:" ++ strHex s

def showJVal : JVal → String
  | .null => "null"
  | .str s => "s:" ++ strHex s
  | .bad => "bad"

def showDebugId : DebugId → String
  | .uuid bs age => s!"u:{strHex bs}:{age}"
  | .pdb20 ts age => s!"p:{ts}:{age}"

def showCodeId : Option CodeId → String
  | none => "none"
  | some (.pe ts size) => s!"pe:{ts}:{size}"
  | some (.macho u) => s!"macho:{strHex u}"
  | some (.elf b) => s!"elf:{strHex b}"

def sortLines (ls : List String) : List String := ls.mergeSort fun a b => !(b < a)

/-- the keys are printed from the model's *writer-side* literals (`Key.writerText`), the values as the reader
will see them -/
def serLineT (tag : String) (o : TObj) : String :=
  o.foldl (fun acc kv => acc ++ " " ++ asciiStr kv.1 ++ "=" ++ showJVal kv.2) ("ser " ++ tag)

def serLine (tag : String) (l : LibInfo) : String := serLineT tag (serializeLibText l)

def rdLine (fmt : String) (kv : MapKey × RLib) : String :=
  let (k, v) := kv
  s!"rd {fmt} {strHex k.1}/{showDebugId k.2} name={showOpt v.name} path={showOpt v.path} dpath={showOpt v.debugPath} code={showCodeId v.codeId} arch={showOpt v.arch}"

def rdLines (fmt : String) (d : TDoc) : List String :=
  match preparseText d with
  | none => [s!"rd {fmt} err"]
  | some m => sortLines (m.map (rdLine fmt))

/-! ## documents from slots -/

inductive Seg
  | t (i : Nat)
  | p (i : Nat)

def parseSlot (s : String) : Option (List Seg) :=
  if s = "top" then some [] else
  (s.splitOn ".").mapM fun seg =>
    match seg.toList with
    | 't' :: ds => (String.ofList ds).toNat?.map Seg.t
    | 'p' :: ds => (String.ofList ds).toNat?.map Seg.p
    | _ => none

def modifyNth {α : Type} (dflt : α) (f : α → α) : Nat → List α → List α
  | 0, [] => [f dflt]
  | 0, x :: xs => f x :: xs
  | n + 1, [] => dflt :: modifyNth dflt f n []
  | n + 1, x :: xs => x :: modifyNth dflt f n xs

def place : List Seg → TObj → TDoc → TDoc
  | [], o, .mk l t p => .mk (l ++ [o]) t p
  | .t i :: _, o, .mk l t p => .mk l (modifyNth [] (· ++ [o]) i t) p
  | .p i :: rest, o, .mk l t p => .mk l t (modifyNth (.mk [] [] []) (place rest o) i p)

/-! ## field-level cases -/

def parseId (s : String) : Option DebugId :=
  match s.splitOn ":" with
  | ["u", h, age] => do
    let b ← hexStr? h
    let a ← age.toNat?
    pure (.uuid b a)
  | ["p", ts, age] => do
    let t ← ts.toNat?
    let a ← age.toNat?
    pure (.pdb20 t a)
  | _ => none

/-- typed code id of an op line; `raw:` carries arbitrary text -/
inductive CodeSpec
  | none
  | typed (c : CodeId)
  | raw (s : Str)

def parseCode (s : String) : Option CodeSpec :=
  if s = "none" then some .none else
  match s.splitOn ":" with
  | ["elf", h] => (hexStr? h).map fun b => .typed (.elf b)
  | ["macho", h] => (hexStr? h).map fun b => .typed (.macho b)
  | ["pe", ts, size] => do
    let t ← ts.toNat?
    let z ← size.toNat?
    pure (.typed (.pe t z))
  | ["raw", h] => (hexStr? h).map .raw
  | _ => none

def CodeSpec.text : CodeSpec → Option Str
  | .none => Option.none
  | .typed c => some c.toStr
  | .raw s => some s

def parseOptS (s : String) : Option (Option Str) :=
  if s = "none" then some none else
  match s.splitOn ":" with
  | ["s", h] => (hexStr? h).map some
  | _ => none

structure FldLib where
  slot : String
  segs : List Seg
  lib : LibInfo
  code : CodeSpec

def parseFldLine (l : String) : Option FldLib :=
  match words l with
  | ["lib", slot, name, path, dname, dpath, id, code, arch] => do
    let segs ← parseSlot slot
    let name ← hexStr? name
    let path ← hexStr? path
    let dname ← hexStr? dname
    let dpath ← hexStr? dpath
    let id ← parseId id
    let code ← parseCode code
    let arch ← parseOptS arch
    pure ⟨slot, segs, ⟨name, dname, path, dpath, id, code.text, arch⟩, code⟩
  | _ => none

def emptyDoc : TDoc := .mk [] [] []

def modelFld (ls : List String) : List String :=
  match ls.mapM parseFldLine with
  | none => ["bad-op"]
  | some libs =>
    let sers := libs.map fun f => serLine f.slot f.lib
    let doc := libs.foldl (fun d f => place f.segs (serializeLibText f.lib) d) emptyDoc
    sers ++ rdLines "json" doc ++ rdLines "gz" doc

/-! ## reader-only cases -/

def parseRawField (s : String) : Option (Option JVal) :=
  if s = "absent" then some none
  else if s = "null" then some (some .null)
  else if s = "bad" then some (some .bad)
  else match s.splitOn ":" with
    | ["s", h] => (hexStr? h).map fun b => some (.str b)
    | _ => none

def keyOfString (s : String) : Option Key :=
  Key.all.find? fun k => asciiStr k.writerText = s

/-- `k:<hex key text>=<null|bad|s:hex>` -/
def parseMember (w : String) : Option (Str × JVal) :=
  match w.splitOn "=" with
  | [k, v] => do
    let kb ← match k.splitOn ":" with
      | ["k", h] => hexStr? h
      | _ => none
    let v ← parseRawField v
    let v ← v
    pure (kb, v)
  | _ => none

def parseRawLine (l : String) : Option (List Seg × TObj) :=
  match words l with
  | ["obj", slot, name, path, dname, dpath, bp, code, arch, dup] => do
    let segs ← parseSlot slot
    let vals ← [name, path, dname, dpath, bp, code, arch].mapM parseRawField
    let keys := [Key.name, .path, .debugName, .debugPath, .breakpadId, .codeId, .arch]
    let obj : TObj := (keys.zip vals).filterMap fun kv => kv.2.map fun v => (kv.1.writerText, v)
    let extra ← if dup = "-" then some [] else (keyOfString dup).map fun k => [(k.writerText, JVal.null)]
    pure (segs, obj ++ extra)
  | "objk" :: slot :: members => do
    -- a library object whose keys are arbitrary text: the reader's own key matching decides
    let segs ← parseSlot slot
    let ms ← members.mapM parseMember
    pure (segs, ms)
  | _ => none

def modelRaw (ls : List String) : List String :=
  match ls.mapM parseRawLine with
  | none => ["bad-op"]
  | some objs =>
    let doc := objs.foldl (fun d so => place so.1 so.2 d) emptyDoc
    rdLines "json" doc ++ rdLines "gz" doc

/-! ## end-to-end cases -/

structure E2eFile where
  name : Str          -- relative to the case directory
  present : Bool
  /-- the `.note.gnu.build-id` of the file's bytes (also known for a file that is absent at import time) -/
  fileBid : Option (List Nat)
  /-- XOR hash of the first text page -/
  textHash : List Nat
  /-- the build id the recording carries in this file's MMAP2 records (`Mmap2FileId::BuildId`) -/
  recM : Option (List Nat) := none
  /-- … in the `HEADER_BUILD_ID` entry of this file's path, as the reader of the perf.data file sees it -/
  recH : Option (List Nat) := none

/-- converter.rs:775-786: the MMAP2 record's own build id, else the header entry of the path -/
def E2eFile.recBid (f : E2eFile) : Option (List Nat) := f.recM.orElse fun _ => f.recH

def dollarD : Str := [36, 68, 47] -- "$D/"

def relocPrefix : Str := [114, 101, 108, 111, 99, 47] -- "reloc/"

/-- the path under which the converter opened the binary (converter.rs:1425-1447, utils.rs
`open_file_with_fallback`): the mapped path `$D/<name>`; for a name `reloc/<base>` nothing exists there
and the file is found as `$D/<base>`, next to the perf.data file. That path is what the profile records. -/
def E2eFile.path (f : E2eFile) : Str :=
  if f.present && f.name.take 6 == relocPrefix then dollarD ++ f.name.drop 6 else dollarD ++ f.name

def E2eFile.mapped (f : E2eFile) : MappedFile :=
  if f.present then .elf f.fileBid f.textHash else .absent

/-- converter.rs `add_module_to_process`: `none` = the mapping is dropped (build id of the recording ≠ the file's) -/
def E2eFile.lib? (f : E2eFile) : Option LibInfo := convertMapping f.path f.mapped f.recBid

/-- specification side: the recording names a build id and the file at the path has another one (or none) -/
def E2eFile.mismatch (f : E2eFile) : Bool :=
  f.present && (match f.recBid with
    | some e => f.fileBid != some e
    | none => false)

structure E2e where
  files : List E2eFile
  hits : List (Nat × Nat × String)
  /-- `samply import --unstable-presymbolicate`: a `.syms.json` sidecar next to the profile -/
  presym : Bool := false

def parseBid (s : String) : Option (Option (List Nat)) :=
  if s = "none" then some none else
  match s.splitOn ":" with
  | ["b", h] => (hexStr? h).map some
  | _ => none

/-- linux-perf-data `detect_build_id_len` (build_id_event.rs:8-18; third-party, semantics assumed and exercised):
a header entry without the size bit loses its trailing all-zero 4-byte groups (of the 20 stored bytes) -/
def detectLen (bs : List Nat) : List Nat :=
  let padded := bs ++ List.replicate (20 - bs.length) 0
  let chunks := [padded.take 4, (padded.drop 4).take 4, (padded.drop 8).take 4, (padded.drop 12).take 4, (padded.drop 16).take 4]
  let kept := (chunks.reverse.dropWhile fun c => c.all (· == 0)).reverse
  kept.flatten

def parseE2eLine (e : E2e) (l : String) : Option E2e :=
  match words l with
  | "file" :: _ :: "gen" :: name :: present :: _base :: _toff :: _tsize :: _delta :: _fm :: _fa :: bid :: th :: _ => do
    let name ← hexStr? name
    let bid ← parseBid bid
    let th ← match th.splitOn ":" with
      | ["t", h] => hexStr? h
      | _ => none
    pure { e with files := e.files ++ [{ name := name, present := present = "1", fileBid := bid, textHash := th }] }
  | ["file", _, "fix", name, _present, _rel, bid] => do
    let name ← hexStr? name
    let bid ← parseBid bid
    let b ← bid
    pure { e with files := e.files ++ [{ name := name, present := true, fileBid := some b, textHash := [] }] }
  | ["file", _, "copy", name, _present, j] => do
    let name ← hexStr? name
    let j ← j.toNat?
    let f ← e.files[j]?
    pure { e with files := e.files ++ [{ f with name := name, recM := none, recH := none }] }
  | ["rec", i, how, h] => do
    -- the recording carries a build id for file `i`: in its MMAP2 records (`m`), in the header section with the
    -- length stored (`h`) or without (`hz`)
    let i ← i.toNat?
    let b ← hexStr? h
    let f ← e.files[i]?
    let f' ← if how = "m" then some { f with recM := some b }
      else if how = "h" then some { f with recH := some b }
      else if how = "hz" then some { f with recH := some (detectLen b) }
      else none
    pure { e with files := e.files.set i f' }
  | ["opt", "presym"] => some { e with presym := true }
  | "opt" :: _ => some e     -- how samply is invoked (cwd, output names): no effect on the outcome
  | ["dbg", _, _] => some e  -- a `<path>.dbg` companion on disk: no effect on the outcome
  | ["map", _, _, _, _] => some e
  | ["hit", i, rel, want] => do
    let i ← i.toNat?
    let rel ← rel.toNat?
    pure { e with hits := e.hits ++ [(i, rel, want)] }
  | _ => none

def parseE2e (ls : List String) : Option E2e :=
  ls.foldlM parseE2eLine ⟨[], [], false⟩

def dedupNat (l : List Nat) : List Nat :=
  l.foldl (fun acc x => if acc.contains x then acc else acc ++ [x]) []

/-- `samply_api::to_debug_id` refuses all-zero ids: such a library is never looked for -/
def isNilId : DebugId → Bool
  | .uuid bs age => bs.all (· == 0) && age == 0
  | .pdb20 ts age => ts == 0 && age == 0

/-- the typed reading of a written `breakpadId` (printed by the harness with the real `debugid`) -/
def idSuffix (l : LibInfo) : String :=
  match DebugId.fromBreakpad l.debugId.toBreakpad with
  | some d => " id=" ++ showDebugId d
  | none => " id=bad"

def modelE2e (ls : List String) : List String :=
  match parseE2e ls with
  | none => ["bad-op"]
  | some e =>
    -- `libs[]` = the used libraries in the order of first use (one leaf frame per sample, in time order);
    -- a dropped mapping has no library, its samples have no library frame
    let used := dedupNat (e.hits.map (·.1))
    let usedFiles : List (E2eFile × LibInfo) := used.filterMap fun i =>
      (e.files[i]?).bind fun f => f.lib?.map fun l => (f, l)
    let prof : Profile := ⟨usedFiles.map (·.2), 1⟩
    let sers := sortLines (usedFiles.map fun fl => serLine (strHex fl.1.path) fl.2 ++ idSuffix fl.2)
    let doc := serializeProfileText prof
    -- the sidecar of `--unstable-presymbolicate` (symbol_precog.rs:334-456, main.rs:240-249, helper.rs:337-346,
    -- 867-880): one table per used library holding exactly the relative addresses the profile uses in it,
    -- registered **by debug id only** — of several used libraries with one debug id the last listed one's table
    -- survives and answers for all of them; an address it does not hold is not found. Known finding
    -- C19-sidecar-collision; the model follows the code, the judge flags it.
    let usedIdx : List (Nat × E2eFile × LibInfo) := used.filterMap fun i =>
      (e.files[i]?).bind fun f => f.lib?.map fun l => (i, f, l)
    let tableOf := fun (l : LibInfo) =>
      match (usedIdx.filter fun x => x.2.1.present && x.2.2.debugId == l.debugId).getLast? with
      | some (j, _, _) => some (e.hits.filterMap fun (h : Nat × Nat × String) => if h.1 == j then some h.2.1 else none)
      | none => none
    -- `presymbolicate` builds a library info from every used library (model: `presymLibs`, symbol_precog.rs:346-359);
    -- `none` = the import panics after the profile was written. Repaired (`fix:` 4dd060e3, was C19-presym-badcodeid):
    -- a code id text that `CodeId::from_str` rejects is no code id (`C19_presym_registers_recorded_identity`).
    let presymPanics := e.presym && (presymLibs prof).isNone
    if presymPanics then ["import json panic", "import gz panic"] else
    let perFmt := fun (fmt : String) =>
      let known := usedFiles.map fun (f, l) =>
        s!"known {fmt} {strHex f.path} {if f.present && !isNilId l.debugId then "found" else "missing"}"
      let addrs := e.hits.filterMap fun (i, rel, want) =>
        (e.files[i]?).bind fun f => f.lib?.map fun l =>
          let verdict := if !f.present then "nofile" else if isNilId l.debugId then "not-found"
            else if e.presym then
              (match tableOf l with
               | some rels => if rels.contains rel then "same:" ++ want else "not-found"
               | none => "same:" ++ want)
            else "same:" ++ want
          s!"addr {fmt} {strHex f.path} {rel} {verdict}"
      sortLines (known ++ addrs.eraseDups)
    sers ++ ["gz same"] ++ rdLines "json" doc ++ rdLines "gz" doc ++ perFmt "json" ++ perFmt "gz"

def model (ls : List String) : List String :=
  match ls with
  | "kind fld" :: rest => modelFld rest
  | "kind raw" :: rest => modelRaw rest
  | "kind e2e" :: rest => modelE2e rest
  | _ => ["bad-op"]

/-! ## the judge: the statement of C19 evaluated on the implementation's own output

Reference used: only the operation lines (what was recorded / which files exist and what their symbols are)
and, for end-to-end cases, the `libs[]` entries of the profile the implementation wrote (`ser` lines) — the
property is about what happens to *those* when the file is loaded back. -/

/-- one `rd` line, parsed: key text, then the field texts -/
structure RdEntry where
  fmt : String
  key : String
  name : String
  path : String
  dpath : String
  code : String
  arch : String

def parseRd (l : String) : Option RdEntry :=
  match words l with
  | ["rd", fmt, key, name, path, dpath, code, arch] =>
    let strip := fun (pre s : String) => if s.startsWith pre then some (s.drop pre.length).toString else none
    do
      let n ← strip "name=" name
      let p ← strip "path=" path
      let d ← strip "dpath=" dpath
      let c ← strip "code=" code
      let a ← strip "arch=" arch
      pure ⟨fmt, key, n, p, d, c, a⟩
  | _ => none

/-- what must be known about a recorded library -/
structure Want where
  key : String
  name : String
  path : String
  dpath : String
  code : String        -- typed code id text, `none`, or `?` when the recorded text has no declared type
  arch : String
  /-- the recorded code id is one of the two families `CodeId::from_str` cannot read back as an ELF build id -/
  excluded : Bool

def excludedElf (b : List Nat) : Bool :=
  b.length ≤ 8 || (b.length == 16 && decide (DecimalOnly b))

def wantOfLib (l : LibInfo) (code : CodeSpec) : Want :=
  { key := s!"{strHex l.debugName}/{showDebugId l.debugId}"
    name := showOpt (some l.name), path := showOpt (some l.path), dpath := showOpt (some l.debugPath)
    code := match code with
      | .none => "none"
      | .typed c => showCodeId (some c)
      | .raw _ => "?"
    arch := showOpt l.arch
    excluded := match code with
      | .typed (.elf b) => excludedElf b
      | _ => false }

def fieldsEq (w : Want) (r : RdEntry) (withCode : Bool) : Bool :=
  w.name == r.name && w.path == r.path && w.dpath == r.dpath && w.arch == r.arch
    && (!withCode || w.code == "?" || w.code == r.code)

/-- every wanted library has, in format `fmt`, an entry under its key that equals a wanted library with that
same key. Returns the first failure; failures that are only a mistyped code id of an excluded-point library are
reported last and tagged. -/
def checkKnownFields (wants : List Want) (rds : List RdEntry) (fmt : String) : Option String :=
  let rs := rds.filter (·.fmt == fmt)
  let problems := wants.filterMap fun w =>
    match rs.find? (·.key == w.key) with
    | none => some (false, s!"{fmt}: no entry under key {w.key}")
    | some r =>
      let same := wants.filter (·.key == w.key)
      if same.any (fun w' => fieldsEq w' r true) then none
      else if same.any (fun w' => fieldsEq w' r false && w'.excluded) then
        some (true, s!"[codeid-mistyped] {fmt}: key {w.key} recorded code id {w.code} is known as {r.code}")
      else some (false, s!"{fmt}: entry under key {w.key} differs from what was recorded (name {r.name} path {r.path} dpath {r.dpath} code {r.code} arch {r.arch})")
  match problems.find? (fun p => !p.1) with
  | some p => some p.2
  | none => (problems.head?).map (·.2)

def judgeFld (ops impl : List String) : Bool × String :=
  match ops.mapM parseFldLine with
  | none => (false, "bad-op")
  | some libs =>
    if impl.any (fun l => l.endsWith " err" || l.endsWith " panic") then (false, "the reader rejected the writer's document") else
    let wants := libs.map fun f => wantOfLib f.lib f.code
    let rds := impl.filterMap parseRd
    match checkKnownFields wants rds "json", checkKnownFields wants rds "gz" with
    | none, none => (true, "ok")
    | some a, some b => if a.startsWith "[" then (false, b) else (false, a)
    | some a, none => (false, a)
    | none, some b => (false, b)

/-- a `ser` line of an end-to-end case: the recorded identity as written into the profile -/
def wantOfSer (l : String) : Option (String × Want) :=
  match words l with
  | ["ser", tag, name, path, dname, dpath, bp, code, arch, tid] =>
    let strip := fun (pre s : String) => if s.startsWith pre then some (s.drop pre.length).toString else none
    do
      let n ← strip "name=" name
      let p ← strip "path=" path
      let dn ← strip "debugName=" dname
      let dp ← strip "debugPath=" dpath
      let b ← strip "breakpadId=" bp
      let c ← strip "codeId=" code
      let a ← strip "arch=" arch
      let dnB ← (strip "s:" dn).bind hexStr?
      let _bpB ← (strip "s:" b).bind hexStr?
      -- the typed reading of the written breakpadId comes from the harness (the real `debugid` crate), not from
      -- the model's parser
      let id ← (strip "id=" tid).bind parseId
      -- every library of these recordings is an ELF file: its recorded code id text denotes an ELF build id
      let (codeW, excl) ← (if c = "null" then some ("none", false) else do
        let t ← (strip "s:" c).bind hexStr?
        let bytes ← if t.isEmpty then some [] else hexStr? (asciiStr t)
        pure (showCodeId (some (.elf bytes)), excludedElf bytes))
      let conv := fun (s : String) => if s = "null" then "none" else s
      pure (tag, { key := s!"{strHex dnB}/{showDebugId id}", name := conv n, path := conv p, dpath := conv dp,
                   code := codeW, arch := conv a, excluded := excl })
  | _ => none

def judgeE2e (ops impl : List String) : Bool × String :=
  match parseE2e ops with
  | none => (false, "bad-op")
  | some e =>
    if let some l := impl.find? (fun l => l.startsWith "import " || l.startsWith "load " || l = "panic") then
      -- no tag: a panic of `samply import` (e.g. in `--unstable-presymbolicate` on a code id text that does not
      -- parse, repaired defect C19-presym-badcodeid) is a plain violation
      (false, s!"samply failed: {l}") else
    if !impl.contains "gz same" then (false, "out.json and out.json.gz differ") else
    let serLines := impl.filter (·.startsWith "ser ")
    match serLines.mapM wantOfSer with
    | none => (false, "a libs[] entry of the profile lacks a field or has an unreadable breakpadId")
    | some tagged =>
      let wants := tagged.map (·.2)
      let rds := impl.filterMap parseRd
      -- (1) end to end: every frame of a present file is symbolicated, to the right function, for both formats
      let e2eProblem := e.hits.findSome? fun (i, rel, want) =>
        match e.files[i]? with
        | none => some "bad hit"
        | some f =>
          if !f.present then none else
          -- the recording names another build id than the file at the path has: the file is not "the binary
          -- recorded"; if the profile does not list it there is nothing to find (if it does, it must be found)
          if f.mismatch && !(tagged.any fun t => t.1 == strHex f.path) then none else
          ["json", "gz"].findSome? fun fmt =>
            let tag := strHex f.path
            if !impl.contains s!"known {fmt} {tag} found" then
              some s!"{fmt}: library {asciiStr f.path} of the profile is not found by the server under its recorded (debugName, breakpadId)"
            else
              match impl.find? (fun l => l.startsWith s!"addr {fmt} {tag} {rel} ") with
              | none => some s!"{fmt}: frame address {rel} of {asciiStr f.path} is not in the profile"
              | some l =>
                let verdict := (words l).getLast?.getD ""
                if verdict.startsWith "same:" && (want = "-" || want = "?" || verdict = "same:" ++ want) then none
                else
                  -- tag (not an excuse): presymbolicated profile in which another mapped file has the same identity
                  let twin := e.presym && verdict = "not-found" && (e.files.zipIdx.any fun (g, j) =>
                    j != i && g.present && g.fileBid == f.fileBid && (f.fileBid.isSome || g.textHash == f.textHash))
                  some s!"{if twin then "[sidecar-collision] " else ""}{fmt}: address {rel} of {asciiStr f.path}: {verdict} (function expected from the symbol table: {want})"
      -- (2) no other frame of the profile may be answered differently from the direct lookup
      let otherProblem := impl.find? fun l =>
        l.startsWith "addr " && (let v := (words l).getLast?.getD ""
          v.startsWith "differs" || v = "not-found") &&
        -- absent files have nothing to be found
        !(e.files.any fun f => !f.present && (words l)[2]? == some (strHex f.path))
      -- (0) the identity a listed library carries is that of the file at its path (C19_convert_keeps_file_identity):
      -- the written code id is the file's own build id, whatever the recording named
      let identityProblem := e.files.findSome? fun f =>
        if !f.present then none else
        match tagged.find? (fun t => t.1 == strHex f.path) with
        | none => none
        | some (_, w) =>
          let fileCode := showCodeId (f.fileBid.map CodeId.elf)
          if f.mismatch then
            some s!"library {asciiStr f.path} is listed although the recording names another build id than the file at that path has ({fileCode})"
          else if w.code == fileCode then none
          else some s!"library {asciiStr f.path} is listed with code id {w.code} but the file at that path has {fileCode}"
      match identityProblem, e2eProblem, otherProblem with
      | some p, _, _ => (false, p)
      | none, some p, _ => (false, p)
      | none, none, some l => (false, s!"a frame of the profile is answered differently from the direct lookup: {l}")
      | none, none, none =>
        -- (3) field level: known under the recorded identity
        match checkKnownFields wants rds "json", checkKnownFields wants rds "gz" with
        | none, none => (true, "ok")
        | some a, some b => if a.startsWith "[" then (false, b) else (false, a)
        | some a, none => (false, a)
        | none, some b => (false, b)

def judge (ops impl : List String) : Bool × String :=
  -- a case the harness could not even set up (e.g. a shrunk case whose `hit` has no `file`) says nothing
  if impl = ["bad-op"] then (true, "not-applicable: malformed case") else
  match ops with
  | "kind fld" :: rest => judgeFld rest impl
  | "kind raw" :: _ =>
    -- reader-only cases on hand-made documents: the property says nothing beyond "no crash"
    if impl.any (·.endsWith " panic") || impl.contains "panic" then (false, "the reader panicked") else (true, "ok")
  | "kind e2e" :: rest => judgeE2e rest impl
  | _ => (false, "bad-op")

end C19
