import SamplyModel.Proto
import SamplyModel.Model.AsmDecode
import SamplyModel.Model.AsmBytes
/-!
Line protocol for C20 (see `harness/src/bin/c20.rs` for the op lines).

`arch <s>` is the string `BinaryImage::arch()` returned for the loaded binary (observed by the harness); the model
matches it as the code does (`archOfName`). `truearch <s>` is the architecture according to the object file's own
header (harness's parse with the `object` crate; for a JITDUMP the machine the generator wrote); it is what the
judge and the decoder oracle use. Corpus files written before the improvement round have no `truearch` line: the
judge then falls back to the canonical reading of `arch`.

model out:  `resp <startAddress> <size> <arch>` / `offs <o>[!] …` / `bad <hex> …` / `fp <h> …`
            | `err:<notfound|range|parse|arch>` | `panic`
            | `err:harness-slice …` / `err:window` when the harness's specification-side slice is not the one the
              model computes (never equal to an implementation output: flags a harness/model discrepancy)
-/
namespace C20
open Asm Proto

structure Case where
  archName : Option String := none
  tarch : Option Arch := none
  jit : Bool := false
  jents : Array JitEntry := #[]
  flen : Nat := 0
  req : Req := ⟨0, 0, false⟩
  sym : Option Sym := none
  base : Nat := 0
  secs : Array Region := #[]
  segs : Array Region := #[]
  slice : Option (Nat × Nat) := none
  lo : Nat := 0
  win : Array UInt8 := #[]
  oracle : Array Dec := #[]
  ref : Array String := #[]
  bad : Bool := false

def parseArch (s : String) : Arch :=
  if s = "x86" then .x86
  else if s = "x86_64" ∨ s = "x86_64h" then .x64
  else if s = "arm64" ∨ s = "arm64e" then .a64
  else if s = "arm" then .arm
  else .unknown

/-- the architecture the model decodes with: the code's own matching of the observed string -/
def Case.arch (c : Case) : Arch := archOfName c.archName

/-- the architecture the judge and the oracle use: the object file's header -/
def Case.specArch (c : Case) : Arch :=
  match c.tarch with
  | some a => a
  | none => parseArch (c.archName.getD "none")

def parseDec (c : Char) : Dec :=
  if c = 'x' then .exhausted
  else if c = 'i' then .invalid
  else match hexDigit? c with
    | some n => .ok n
    | none => .invalid

def parseRegion (a s f d : String) : Region :=
  ⟨nat! a, nat! s, nat! f, if d = "e" then none else some (nat! d)⟩

def parseLine (c : Case) (l : String) : Case :=
  match words l with
  | ["arch", a] => { c with archName := if a = "none" then none else some a }
  | ["truearch", a] => { c with tarch := some (parseArch a) }
  | ["kind", "jit"] => { c with jit := true }
  | ["kind", _] => c
  | ["jent", r, o, l] => { c with jents := c.jents.push ⟨nat! r, nat! o, nat! l⟩ }
  | ["flen", n] => { c with flen := nat! n }
  | ["req", a, s, k] => { c with req := ⟨nat! a, nat! s, k = "1"⟩ }
  | ["sym", "none"] => { c with sym := none }
  | ["sym", a, "none"] => { c with sym := some ⟨nat! a, none⟩ }
  | ["sym", a, n] => { c with sym := some ⟨nat! a, some (nat! n)⟩ }
  | ["base", b] => { c with base := nat! b }
  | ["sec", a, s, f, d] => { c with secs := c.secs.push (parseRegion a s f d) }
  | ["seg", a, s, f, d] => { c with segs := c.segs.push (parseRegion a s f d) }
  | ["slice", "none"] => { c with slice := none }
  | ["slice", r, n] => { c with slice := some (nat! r, nat! n) }
  | ["win", lo, h] => { c with lo := nat! lo, win := (hexBytes h).toArray }
  | ["oracle", "-"] => { c with oracle := #[] }
  | ["oracle", o] =>
    -- `?` = the harness saw a decoded length outside 1..15 or one that differs from `inst.len()`
    { c with oracle := (o.toList.map parseDec).toArray, bad := c.bad || o.toList.contains '?' }
  | "ref" :: toks => { c with ref := toks.toArray }
  | "note" :: _ => c
  | "file" :: _ => c
  | "text" :: _ => c
  | "data" :: _ => c
  | "bss" :: _ => c
  | "fsym" :: _ => c
  | "bsym" :: _ => c
  | "rec" :: _ => c
  | "skip" :: _ => c
  | "member" :: _ => c
  | "pre" :: _ => c
  | "fpmode" :: _ => c
  | [] => c
  | _ => { c with bad := true }

def parse (ls : List String) : Case := ls.foldl parseLine {}

def Case.dec (c : Case) (p : Nat) : Dec :=
  match c.oracle[p]? with
  | some d => d
  | none => .exhausted

/-- `Case.dec` is the oracle its table denotes (`decOfTable`, about which `C20_table_oracle` speaks) -/
theorem Case.dec_eq (c : Case) : c.dec = decOfTable c.oracle.toList := by
  funext p
  unfold Case.dec decOfTable
  rw [Array.getElem?_toList]
  cases c.oracle[p]? <;> rfl

def Case.img (c : Case) : Image := ⟨c.base, c.secs.toList, c.segs.toList⟩

def showItems (items : List Item) : String :=
  if items.isEmpty then "offs -" else
  "offs " ++ " ".intercalate (items.map fun it => if it.inv then s!"{it.off}!" else s!"{it.off}")

def joinOr (xs : List String) : String := if xs.isEmpty then "-" else " ".intercalate xs

def model (ls : List String) : List String :=
  let c := parse ls
  if c.bad then ["bad-op"] else
  let out :=
    if c.jit then queryJit c.arch c.jents.toList c.flen c.sym c.req c.dec
    else some (query c.arch c.img c.sym c.req c.dec)
  match out with
  | none => ["err:io"]
  | some .panic => ["panic"]
  | some .nofuel => ["nofuel"]
  | some (.err .notFound) => ["err:notfound"]
  | some (.err .range) => ["err:range"]
  | some (.err .parse) => ["err:parse"]
  | some (.err .arch) => ["err:arch"]
  | some (.resp rel fo n items size) =>
    if c.slice ≠ some (rel, n) ∨ c.lo ≠ fo then [s!"err:harness-slice model wants rel={rel} fileoff={fo} len={n}"] else
    match fileSlice c.lo c.win.toList fo n with
    | none => ["err:window"]
    | some bytes =>
      let bad := items.filter (·.inv) |>.map fun it => bytesHex (shown bytes c.arch.adjust it.off)
      let fps := items.filter (!·.inv) |>.map fun it =>
        match c.ref[it.off]? with
        | some f => f
        | none => "?"
      [s!"resp {rel} {size} {c.arch.respName}", showItems items, "bad " ++ joinOr bad, "fp " ++ joinOr fps]

/-! ### Judge: the statement of C20 evaluated on the implementation's response

Reference used: the request, the architecture, the symbol found for the start address, and the harness's
specification-side slice (aligned start, bytes read directly from the file, the decoder's verdict per offset and
the fingerprint of the decoded text per offset). Nothing of the model's mechanism (no loop, no read arithmetic). -/

def parseItem (tok : String) : Option Item :=
  if tok.endsWith "!" then (tok.dropEnd 1).toString.toNat?.map (⟨·, true⟩)
  else tok.toNat?.map (⟨·, false⟩)

/-- largest multiple of the instruction alignment that is ≤ start -/
def specStart (a : Arch) (start : Nat) : Nat := start / a.align * a.align

/-- walk the listing: `prev` is the previous item with its step -/
def walk (dec : Nat → Dec) (adjust limit : Nat) : Option (Item × Nat) → List Item → Except String Nat
  | none, [] => .ok 0
  | some (a, s), [] => .ok (a.off + s)
  | prev, it :: rest =>
    let expected := match prev with
      | none => 0
      | some (a, s) => a.off + s
    if it.off ≠ expected then
      .error (match prev with
        | none => s!"first listed offset is {it.off}, not 0"
        | some (a, s) => s!"offset {it.off} follows {a.off} whose instruction occupies {s} byte(s): " ++
            (if it.off < expected then "bytes decoded twice" else "bytes skipped"))
    else if ¬ it.off < limit then .error s!"listed offset {it.off} is not within the requested length {limit}"
    else match stepAt dec adjust it with
      | none => .error s!"instruction at offset {it.off}: listing says {if it.inv then "undecodable" else "decoded"}, the decoder on the file's bytes says otherwise"
      | some s =>
        if s = 0 then .error s!"zero-length step at {it.off}" else walk dec adjust limit (some (it, s)) rest

/-- the architecture names for which `/asm/v1` has a decoder (documented behaviour of the API) -/
def supportedName (n : Option String) : Bool :=
  match n with
  | some s => ["x86", "x86_64", "x86_64h", "arm64", "arm64e", "arm"].contains s
  | none => false

/-- `OracleOK ∧ OracleTail` for the tabulated oracle of the case (decidable; vacuous without a slice) -/
def oracleAssumptionsHold (c : Case) : Bool :=
  match c.slice with
  | none => true
  | some (_, n) => tableOk c.specArch.adjust n c.oracle.toList 0

/-- Declarative file offset of the aligned start: the file offset of the section that contains the address plus
the address's offset into that section (`C20_bytes_section`). `none` when not applicable: JITDUMP, no slice, a
section without file data, or a section whose mapping differs from its segment's. The judge requires the window of the case to start there, so "the file's bytes at that
address" is checked against a rule that does not mention segments (the mechanism prefers segments). -/
def sectionOffset (c : Case) : Option Nat :=
  if c.jit then none else
  match c.slice with
  | none => none
  | some (rel, _) =>
    match containing c.secs.toList (c.base + rel) with
    | none => none
    | some sec =>
      -- only where segment and section describe the same mapping (hypothesis of `C20_bytes_section`); it fails
      -- e.g. for the non-allocated sections with address 0 (.comment, .debug_*) that the code's "first section
      -- containing the address" rule finds for addresses inside the ELF header
      let consistent : Bool := match containing c.segs.toList (c.base + rel) with
        | none => true
        | some seg => decide (seg.addr ≤ sec.addr) && seg.fileOff + (sec.addr - seg.addr) == sec.fileOff
      match sec.dataLen with
      | none => none
      | some d => if d == 0 || !consistent then none else some (sec.fileOff + (c.base + rel - sec.addr))

def judge (ops impl : List String) : Bool × String :=
  let c := parse ops
  if c.bad then (false, "bad-op") else
  -- 0. the decoder oracle of this case satisfies the assumptions of the theorems (OracleOK, OracleTail)
  if ¬ oracleAssumptionsHold c then
    (false, "assumption violated: the decoder oracle reports an instruction of length 0 or one that extends past the slice, or reports 'invalid' (not 'exhausted') with less than one resynchronisation unit of input left")
  else if (match sectionOffset c with | some o => o != c.lo | none => false) then
    (false, s!"reference: the window of the case starts at file offset {c.lo}, but the section containing the start address places it at {(sectionOffset c).getD 0} (segment-based and section-based file offsets differ)")
  else
  match impl with
  | ["panic"] =>
    if c.base + specStart c.specArch c.req.start > u64max then
      (false, "implementation panicked: image base + start address exceeds 2^64 (u64 overflow in read_bytes_at_relative_address)")
    else (false, "implementation panicked")
  | [e] =>
    if e.startsWith "err:" ∧ e ≠ "err:badjson" ∧ e ≠ "err:nobinary" ∧ e ≠ "err:other" then
      -- An error is accepted when the file has no bytes for the aligned start, when the object's architecture has
      -- no decoder, or when the binary was loaded under an architecture *name* outside the API's vocabulary
      -- (Mach-O `i386`, `arm64v8`, `armv7…`: documented limitation, see notes/C20.md). Otherwise - in particular
      -- when the loaded image reports no architecture at all for an x86 / ARM object - the request must succeed.
      if c.slice.isSome ∧ c.specArch ≠ .unknown ∧ (supportedName c.archName ∨ c.archName.isNone) then
        (false, s!"availability: the request failed ({e}) although the aligned start address maps to bytes of the file and the architecture is supported")
      else (true, "error response (the statement is about requests that succeed)")
    else (false, s!"unexpected output {e}")
  | [r, o, b, f] =>
    match words r, words o, words b, words f with
    | ["resp", sa, sz, _], "offs" :: otoks, "bad" :: btoks, "fp" :: ftoks =>
      let sa := nat! sa
      let size := nat! sz
      let otoks := otoks.filter (· ≠ "-")
      let btoks := btoks.filter (· ≠ "-")
      let ftoks := ftoks.filter (· ≠ "-")
      match otoks.mapM parseItem with
      | none => (false, "unparsable offsets")
      | some items =>
        let limit := specLen c.req (fnEnd c.sym)
        let adjust := c.specArch.adjust
        -- 1. offset 0 is the alignment-adjusted start address
        if sa ≠ specStart c.specArch c.req.start then
          (false, s!"startAddress {sa} is not the alignment-adjusted start {specStart c.specArch c.req.start}")
        else match c.slice with
        | none => (false, "a listing was returned although no bytes of the file correspond to the start address")
        | some (rel, n) =>
          if rel ≠ sa then (false, "harness slice does not start at the aligned start address") else
          -- 2.-4. gap-free chain from 0 within the allowed length
          match walk c.dec adjust limit none items with
          | .error e => (false, e)
          | .ok stop =>
            -- 5. size extends past the last listed offset
            match items.getLast? with
            | some last =>
              if ¬ last.off < size then (false, s!"size {size} does not extend past the last listed offset {last.off}")
              else judgeRest c items btoks ftoks limit n stop
            | none => judgeRest c items btoks ftoks limit n stop
    | _, _, _, _ => (false, "unparsable response lines")
  | _ => (false, "wrong number of output lines")
where
  judgeRest (c : Case) (items : List Item) (btoks ftoks : List String) (limit n stop : Nat) : Bool × String :=
    -- 6. the bytes decoded are the file's bytes at that address
    let inv := items.filter (·.inv)
    let val := items.filter (!·.inv)
    if inv.length ≠ btoks.length ∨ val.length ≠ ftoks.length then (false, "listing/fingerprint count mismatch") else
    let badOk := (inv.zip btoks).all fun (it, h) =>
      h == bytesHex (c.win.extract it.off (it.off + c.specArch.adjust)).toList
    let fpOk := (val.zip ftoks).all fun (it, h) =>
      match c.ref[it.off]? with
      | some f => f == h
      | none => false
    if ¬ badOk then (false, "the bytes shown for an undecodable instruction are not the file's bytes at that address")
    else if ¬ fpOk then (false, "a listed instruction is not the decoding of the file's bytes at that address")
    -- 7. the listing is not cut short
    else if ¬ (limit ≤ stop ∨ c.dec stop = .exhausted ∨ n < stop) then
      (false, s!"listing stops at {stop} before the requested length {limit} although more bytes can be decoded")
    else (true, "ok")

end C20
