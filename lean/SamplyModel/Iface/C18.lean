import SamplyModel.Proto
import SamplyModel.Model.Server
/-!
Line protocol for C18.

ops (one case = the requests sent over ONE connection, in order; or one `tokens` / `enc` op):

    req <cfg> <METHOD> <target> acrm=<v|-> acrh=<v|-> origin=<v|-> body=<hex|->
        cfg     j = server serving profile.json, z = server serving profile.json.gz,
                d = server whose profile file was deleted after start-up
        target  the HTTP/1.1 request-target, written as a template over the (per-run, secret) token:
                {T} token · {T:a:b} token[a..b) · {U} token upper-cased · {C:k} k-th letter upper-cased
                {X:k} character k replaced by the next alphabet character · {P:k} character k
                percent-encoded · {D:k} character k deleted · {I:k} the successor of
                character k inserted in front of it
                (k is taken modulo the token length / number of letters). Both sides expand the
                template — the harness with the real token, the model with its own — so the op lines
                are reproducible across runs although the token is fresh in every run.
        acrm / acrh / origin   value of Access-Control-Request-Method / -Headers / Origin (no spaces)
        body    request body (sent with Content-Length when not `-`, and always for POST)
        optional trailing words: c=<k> connection number within the case (default 0; several
                connections may be open at the same time) · v=1.0 HTTP/1.0 request line · nohost no
                automatic Host header · h=<Name>:<value> a further header field, in op order (value
                = template over the token, `+` = space) · te=chunked body sent chunked · pipe
                written together with the next request before any response is read
    tokens <k>     start k further servers; compare all tokens of this run
    anchor generate_token   shape of `generate_token` in the source tree the binary was built from
    uri <hex>      `http::Uri::try_from(bytes)` (the parser hyper applies to the request-target) and
                   `Uri::path()`, called in-process on arbitrary bytes
    enc <hex>      `nix_base32::to_nix_base32` on these bytes

out:

    r status=<n> acao=<*|-|other> acam=<std|-|other> acma=<86400|-|other> acah=<echo|-|other> acx=<-|n> xo=<-|n> body=<class>
        acx = number of further `access-control-*` response headers; xo = number of `Timing-Allow-Origin` /
        `Cross-Origin-Resource-Policy` response headers; class = landing-p | landing-n |
        profile | json | empty | other
    closed         no response: connection closed (panic of the connection task, or an earlier
                   request of the case killed / closed the connection)
    tokens distinct=<yes|no> len=<n|mixed> alphabet=<ok|bad> varied=<yes|no>
        (varied: no character position is the same in all compared tokens)
    tok <string> | panic
    path <hex> | err
-/
namespace C18
open Server Proto

/-- the model's stand-in for the secret token: its own encoding of the bytes 0..23 -/
def modelToken : List Char := (encode ((List.range 24).map UInt8.ofNat)).getD []

def hex2 (n : Nat) : List Char := [hexNibble (n / 16), hexNibble (n % 16)]

def nextAlpha (c : Char) : Char :=
  let i := alphabet.idxOf c
  alphabet.getD ((i + 1) % alphabet.length) '0'

/-- index of the `k`-th letter (cyclically) of `tok`, if it has a letter -/
def letterIdx (tok : List Char) (k : Nat) : Option Nat :=
  let idxs := (List.range tok.length).filter fun i => (tok.getD i '0').isAlpha
  if idxs.isEmpty then none else some (idxs.getD (k % idxs.length) 0)

def expandSpec (tok : List Char) (spec : String) : List Char :=
  let n := tok.length
  match spec.splitOn ":" with
  | ["T"] => tok
  | ["T", a, b] => (tok.drop (nat! a)).take (nat! b - nat! a)
  | ["U"] => tok.map Char.toUpper
  | ["C", k] =>
    match letterIdx tok (nat! k) with
    | some i => tok.set i (tok.getD i '0').toUpper
    | none => tok
  | ["X", k] => if n = 0 then tok else tok.set (nat! k % n) (nextAlpha (tok.getD (nat! k % n) '0'))
  | ["P", k] =>
    if n = 0 then tok else
      tok.take (nat! k % n) ++ ('%' :: hex2 (tok.getD (nat! k % n) '0').toNat) ++ tok.drop (nat! k % n + 1)
  | ["D", k] => if n = 0 then tok else tok.eraseIdx (nat! k % n)
  | ["I", k] =>
    if n = 0 then tok else
      tok.take (nat! k % n) ++ (nextAlpha (tok.getD (nat! k % n) '0') :: tok.drop (nat! k % n))
  | _ => ("{" ++ spec ++ "}").toList

def expand (tok : List Char) (tmpl : String) : List Char :=
  match tmpl.splitOn "{" with
  | [] => []
  | first :: rest =>
    first.toList ++ rest.flatMap fun piece =>
      match piece.splitOn "}" with
      | [spec] => expandSpec tok spec
      | spec :: lits => expandSpec tok spec ++ ("}".intercalate lits).toList
      | [] => []

def parseMethod : String → Method
  | "GET" => .get | "POST" => .post | "OPTIONS" => .options | "HEAD" => .head | "PUT" => .put
  | "DELETE" => .delete | "PATCH" => .patch | _ => .other

structure ReqOp where
  cfg : String
  methodName : String
  target : List Char
  acrm : Option String
  acrh : Option String
  origin : Option String
  body : Option (List UInt8)
  /-- connection number within the case (`c=<k>`, default 0) -/
  conn : Nat := 0
  /-- `v=1.0` -/
  http11 : Bool := true
  /-- `nohost`: no automatic `Host` header -/
  noHost : Bool := false
  /-- `h=<Name>:<value template>` in op order (`+` in the value = a space) -/
  extra : Headers := []

def field (w pre : String) : Option (Option String) :=
  if w.startsWith pre then
    let v := (w.drop pre.length).toString
    some (if v = "-" then none else some v)
  else none

/-- optional trailing words of a `req` line; transport-only words (`te=chunked`, `pipe`) do not
change what the service function sees and are ignored here -/
def applyExtra (tok : List Char) (r : ReqOp) (w : String) : ReqOp :=
  if w = "v=1.0" then { r with http11 := false }
  else if w = "nohost" then { r with noHost := true }
  else if w.startsWith "c=" then { r with conn := nat! (w.drop 2).toString }
  else if w.startsWith "h=" then
    let nv := (w.drop 2).toString
    match nv.splitOn ":" with
    | name :: rest =>
      let v := (expand tok (":".intercalate rest)).map fun c => if c = '+' then ' ' else c
      { r with extra := r.extra ++ [(name.toList, v)] }
    | [] => r
  else r

def parseReq (tok : List Char) (l : String) : Option ReqOp :=
  match words l with
  | "req" :: cfg :: m :: t :: a :: h :: o :: b :: extras => do
    let acrm ← field a "acrm="
    let acrh ← field h "acrh="
    let origin ← field o "origin="
    let body ← field b "body="
    let r : ReqOp := { cfg := cfg, methodName := m, target := expand tok t, acrm := acrm, acrh := acrh,
                       origin := origin, body := body.map hexBytes }
    pure (extras.foldl (applyExtra tok) r)
  | _ => none

def cfgOf (tok : List Char) : String → Cfg
  | "z" => { pfx := '/' :: tok, profile := some ⟨true, true⟩ }
  | "d" => { pfx := '/' :: tok, profile := some ⟨false, false⟩ }
  | _ => { pfx := '/' :: tok, profile := some ⟨false, true⟩ }

/-- the header block exactly in the order the harness writes it -/
def headersOf (r : ReqOp) : Headers :=
  (if r.noHost then [] else [("Host".toList, "127.0.0.1".toList)]) ++
  (match r.origin with | some v => [("Origin".toList, v.toList)] | none => []) ++
  (match r.acrm with | some v => [("Access-Control-Request-Method".toList, v.toList)] | none => []) ++
  (match r.acrh with | some v => [("Access-Control-Request-Headers".toList, v.toList)] | none => []) ++
  r.extra

def wireOf (r : ReqOp) : WireReq :=
  { methodTok := r.methodName.toList, target := r.target, http11 := r.http11, headers := headersOf r,
    bodyUtf8 := match r.body with
      | none => true
      | some bs => ByteArray.validateUTF8 ⟨bs.toArray⟩ }

def showResp (r : Resp) : String :=
  let body := match r.kind with
    | .landing true => "landing-p"
    | .landing false => "landing-n"
    | .notFound => "empty"
    | .options _ => "empty"
    | .profile _ => "profile"
    | .api _ => "json"
  s!"r status={r.status} acao={if r.allowOrigin then "*" else "-"} acam={if r.allowMethods then "std" else "-"} acma={if r.maxAge then "86400" else "-"} acah={if r.allowHeaders.isSome then "echo" else "-"} acx=- xo=- body={body}"

def rejectedLine : String := "r status=400 acao=- acam=- acma=- acah=- acx=- xo=- body=empty"

def tokensLine : String := "tokens distinct=yes len=39 alphabet=ok varied=yes"

/-- the source anchor of the unprovable clause (see `judgeAnchor`) -/
def anchorLine : String := "anchor generate_token fn=found buf=24 rng=rand::rng() fill=fill_bytes:whole enc=to_nix_base32:whole shadow=no"

/-- The bytes of a request-target as the character string the model works on. The parser never looks
at what follows the first `#`; in front of it bytes that are not UTF-8 are always an error (a byte
≥ 0x80 is no scheme / authority character, and path + query are checked with `from_utf8`). -/
def decodeTarget (bs : List UInt8) : Option (List Char) :=
  match String.fromUTF8? ⟨bs.toArray⟩ with
  | some s => some s.toList
  | none =>
    let before := bs.takeWhile (· ≠ 0x23)
    if before.length = bs.length then none else
    match String.fromUTF8? ⟨before.toArray⟩ with
    | some s => some (s.toList ++ ['#'])
    | none => none

def modelUri (h : String) : String :=
  match decodeTarget (hexBytes h) with
  | none => "err"
  | some t =>
    match pathOfTarget t with
    | none => "err"
    | some p => "path " ++ bytesHex (String.ofList p).toUTF8.toList

/-- model output of one request line and the connections that are over afterwards
(`Server.serveStep`: one step of `Server.serveCase`) -/
def modelReq (l : String) (dead : List Nat) : String × List Nat :=
  match parseReq modelToken l with
  | none => ("bad-op", dead)
  | some r =>
    let (o, dead') := serveStep dead (r.conn, cfgOf modelToken r.cfg, wireOf r)
    match o with
    | .closed => ("closed", dead')
    | .panic => ("closed", dead')
    | .rejected => (rejectedLine, dead')  -- hyper answers 400 and closes the connection
    | .resp resp =>
      -- HEAD: hyper drops the body
      let line := showResp resp
      let line := if r.methodName = "HEAD" then
          (line.splitOn " body=").headD line ++ " body=empty" else line
      (line, dead')

def modelLine (l : String) (dead : List Nat) : String × List Nat :=
  match words l with
  | "req" :: _ => modelReq l dead
  | ["tokens", _] => (tokensLine, dead)
  | ["anchor", "generate_token"] => (anchorLine, dead)
  | ["enc", h] =>
    match encode (hexBytes h) with
    | some s => ("tok " ++ String.ofList s, dead)
    | none => ("panic", dead)
  | ["uri", h] => (modelUri h, dead)
  | _ => ("bad-op", dead)

def model (ls : List String) : List String :=
  let rec go (ls : List String) (dead : List Nat) (acc : List String) : List String :=
    match ls with
    | [] => acc.reverse
    | l :: rest =>
      let (o, dead') := modelLine l dead
      go rest dead' (o :: acc)
  go ls [] []

/-! ## Judge: the statement of C18 evaluated on the implementation's own responses -/

def kv (ws : List String) (key : String) : String :=
  match ws.find? (·.startsWith (key ++ "=")) with
  | some w => (w.drop (key.length + 1)).toString
  | none => "?"

/-- Specification: a request whose path does not begin with `"/" ++ token` must be answered, must get
no `access-control-*` header of any kind, and a body that is the landing page or empty with an error
status (404 from the service function; 400 when the HTTP layer rejects the request line itself).
Under the prefix the statement demands nothing. A dropped connection counts as an answer only under
the prefix, or when the connection was over before: an earlier request of the same connection was
dropped / rejected with 400, or the client itself ended it (`Connection: close`, HTTP/1.0 without
keep-alive). `dead` = the connections of the case that are over. Headers of the request — whatever they
are, with or without the token in them — play no role in the verdict. -/
def judgeReq (l o : String) (dead : List Nat) : (Bool × String) × List Nat :=
  match parseReq modelToken l with
  | none => ((false, "bad-op"), dead)
  | some r =>
    let path? := pathOfTarget r.target
    let under := match path? with
      | some p => ('/' :: modelToken).isPrefixOf p
      | none => false
    let kill := if dead.contains r.conn then dead else r.conn :: dead
    if o = "closed" then
      if dead.contains r.conn then ((true, "ok"), dead)
      else if under then ((true, "ok"), kill)
      else ((false, s!"connection dropped without a response outside the secret prefix: {r.methodName} {String.ofList r.target}"), kill)
    else
      let ws := words o
      if ws.head? ≠ some "r" then ((false, s!"bad output line {o}"), kill) else
      -- the client ended the connection with this request
      -- (an HTTP/1.0 connection may be ended by the server after any response)
      let after := if r.http11 && keepAlive (wireOf r) then dead else kill
      if under then ((true, "ok"), after) else
      let what := s!"{r.methodName} {String.ofList r.target} (path does not begin with the token prefix)"
      let cors := [kv ws "acao", kv ws "acam", kv ws "acma", kv ws "acah", kv ws "acx", kv ws "xo"]
      if cors.any (· ≠ "-") then
        ((false, s!"cross-origin permission header outside the secret prefix: {o} for {what}"), after)
      else
        let body := kv ws "body"
        let status := kv ws "status"
        if body = "landing-p" ∨ body = "landing-n" then ((true, "ok"), after)
        else if body = "empty" ∧ (status = "404" ∨ status = "400") then
          ((true, "ok"), if status = "404" then after else kill)
        else ((false, s!"neither landing page nor an empty 404 outside the secret prefix: {o} for {what}"), after)

/-- Source anchor of the clause that cannot be proved or observed ("the token is freshly random"):
the harness reads `generate_token` (samply/src/server.rs) from the tree the binary under test was built
from and reports its shape. Demanded: a 24-byte buffer, filled as a whole by `fill_bytes` /
`try_fill_bytes(..).unwrap()` of an OS-seeded generator of the `rand` crate (`rand::rng()` = `ThreadRng`,
ChaCha12 seeded and reseeded from the OS; or `OsRng` itself), the whole buffer handed to
`nix_base32::to_nix_base32`, and no item of server.rs shadowing the name `rand`. Any other shape of the
function (a seeded `SmallRng` / `StdRng::seed_from_u64`, the time, the pid) is reported. -/
def judgeAnchor (o : String) : Bool × String :=
  let ws := words o
  if ws.take 2 ≠ ["anchor", "generate_token"] then (false, s!"bad output line {o}") else
  if kv ws "fn" ≠ "found" then
    (false, s!"generate_token no longer has the audited shape (24 bytes from an OS-seeded rand generator, base-32): {o}")
  else if kv ws "buf" ≠ "24" then (false, s!"generate_token: the random buffer is not 24 bytes: {o}")
  else if !(["rand::rng()", "rand::rngs::OsRng", "OsRng", "rand::rngs::OsRng.unwrap_err()", "OsRng.unwrap_err()"].contains (kv ws "rng")) then
    (false, s!"generate_token: the bytes do not come from an OS-seeded generator: {o}")
  else if !(["fill_bytes:whole", "try_fill_bytes:whole"].contains (kv ws "fill")) then
    (false, s!"generate_token: the buffer is not filled as a whole: {o}")
  else if kv ws "enc" ≠ "to_nix_base32:whole" then
    (false, s!"generate_token: the token is not the base-32 encoding of the whole buffer: {o}")
  else if kv ws "shadow" ≠ "no" then (false, s!"server.rs shadows the name `rand`: {o}")
  else (true, "ok")

def judgeEnc (h o : String) : Bool × String :=
  let bs := hexBytes h
  match words o with
  | ["panic"] => if bs.isEmpty then (true, "ok") else (false, "encoder panicked on a non-empty input")
  | ["tok", s] =>
    -- the token is the fixed-width base-32 numeral (most significant digit first) of the little-endian
    -- number the bytes denote: nothing of the input is lost
    if bs.isEmpty then (false, "encoder returned a token for the empty input (model: panic)") else
    if s.length ≠ (bs.length * 8 + 4) / 5 then (false, s!"token length {s.length} for {bs.length} bytes")
    else if numeralValue s.toList ≠ some (leValue bs) then (false, "token does not denote the input bytes")
    else (true, "ok")
  | _ => (false, s!"bad output line {o}")

def bytesHaveSub (sub : List UInt8) (l : List UInt8) : Bool :=
  (List.range (l.length + 1)).any fun k => sub.isPrefixOf (l.drop k)

/-- Specification of `Uri::path()` as far as C18 needs it: the path is a literal, contiguous piece of
the request-target without `?` / `#`, ending where the target ends or a `?` / `#` follows; for a target
that begins with `/` it is everything up to the first `?` / `#`; otherwise it is empty, `*`, the `/` an
absent path reads as, or it begins with `/` and stands behind `<scheme>://<authority>` where the
authority has no `/ ? #` in it. -/
def judgeUri (h o : String) : Bool × String :=
  let t := hexBytes h
  let isEnd (b : UInt8) : Bool := b = 0x3F || b = 0x23
  match words o with
  | ["err"] => (true, "ok")
  | ["path", ph] =>
    let p := hexBytes ph
    if p.any isEnd then (false, "Uri::path() contains ? or #")
    else if t.head? = some 0x2F then
      if p = t.takeWhile (fun b => !isEnd b) then (true, "ok")
      else (false, "Uri::path() of an origin-form target is not the part before the first ? / #")
    else if p = [] ∨ p = [0x2A] then
      if p = [0x2A] ∧ t ≠ [0x2A] then (false, "Uri::path() is * for a target that is not *") else (true, "ok")
    else
      let okAt (k : Nat) : Bool :=
        let a := t.take k
        let b := t.drop (k + p.length)
        p.isPrefixOf (t.drop k) && (b.isEmpty || (b.head?.map isEnd).getD false) && !a.any isEnd &&
        bytesHaveSub [0x3A, 0x2F, 0x2F] a &&
        -- no `/` between the first `://` and the path
        (let i := (List.range a.length).find? fun i => [0x3A, 0x2F, 0x2F].isPrefixOf (a.drop i)
         match i with
         | some i => !(a.drop (i + 3)).any (· = 0x2F) && (a.drop (i + 3)).length > 0
         | none => false)
      if p = [0x2F] then
        -- the `/` of the target itself, or an absent path
        if (List.range (t.length + 1)).any fun k =>
            okAt k || (k = t.length ∨ (t.drop k).head?.map isEnd = some true) && !(t.take k).any isEnd &&
              bytesHaveSub [0x3A, 0x2F, 0x2F] (t.take k) then (true, "ok")
        else (false, "Uri::path() is / but the target has no such path")
      else if p.head? ≠ some 0x2F then (false, "Uri::path() does not begin with /")
      else if (List.range t.length).any okAt then (true, "ok")
      else (false, "Uri::path() is not the literal path of the target")
  | _ => (false, s!"bad output line {o}")

def judge (ops impl : List String) : Bool × String :=
  if ops.length ≠ impl.length then (false, "wrong number of output lines") else
  let rec go (ops impl : List String) (dead : List Nat) : Bool × String :=
    match ops, impl with
    | l :: ls, o :: os =>
      match words l with
      | "req" :: _ =>
        let (v, dead') := judgeReq l o dead
        if v.1 then go ls os dead' else v
      | ["tokens", _] =>
        if o = tokensLine then go ls os dead
        else (false, s!"tokens of several server starts are not distinct 39-character base-32 strings: {o}")
      | ["anchor", "generate_token"] =>
        let v := judgeAnchor o
        if v.1 then go ls os dead else v
      | ["enc", h] =>
        let v := judgeEnc h o
        if v.1 then go ls os dead else v
      | ["uri", h] =>
        let v := judgeUri h o
        if v.1 then go ls os dead else v
      | _ => (false, "bad-op")
    | _, _ => (true, "ok")
  go ops impl []

end C18
