import SamplyModel.Proto
import SamplyModel.Model.Server
/-!
Line protocol for C18.

ops (one case = the requests sent over ONE connection, in order; or one `tokens` / `enc` op):

    req <cfg> <METHOD> <target> acrm=<v|-> acrh=<v|-> origin=<v|-> body=<hex|->
        cfg     j = server serving profile.json, z = server serving profile.json.gz,
                d = server whose profile file was deleted after start-up
        target  the HTTP/1.1 request-target, written as a template over the (per-run, secret) token:
                {T} token · {T:a:b} token[a..b) · {U} token upper-cased · {C:k} k-th letter upper-cased
                {X:k} character k replaced by the next alphabet character · {P:k} character k
                percent-encoded · {D:k} character k deleted · {I:k} the successor of
                character k inserted in front of it
                (k is taken modulo the token length / number of letters). Both sides expand the
                template — the harness with the real token, the model with its own — so the op lines
                are reproducible across runs although the token is fresh in every run.
        acrm / acrh / origin   value of Access-Control-Request-Method / -Headers / Origin (no spaces)
        body    request body (sent with Content-Length when not `-`, and always for POST)
    tokens <k>     start k further servers; compare all tokens of this run
    enc <hex>      `nix_base32::to_nix_base32` on these bytes

out:

    r status=<n> acao=<*|-|other> acam=<std|-|other> acma=<86400|-|other> acah=<echo|-|other> acx=<-|n> body=<class>
        acx = number of further `access-control-*` response headers; class = landing-p | landing-n |
        profile | json | empty | other
    closed         no response: connection closed (panic of the connection task, or an earlier
                   request of the case killed / closed the connection)
    tokens distinct=<yes|no> len=<n|mixed> alphabet=<ok|bad> varied=<yes|no>
        (varied: no character position is the same in all compared tokens)
    tok <string> | panic
-/
namespace C18
open Server Proto

/-- the model's stand-in for the secret token: its own encoding of the bytes 0..23 -/
def modelToken : List Char := (encode ((List.range 24).map UInt8.ofNat)).getD []

def hex2 (n : Nat) : List Char := [hexNibble (n / 16), hexNibble (n % 16)]

def nextAlpha (c : Char) : Char :=
  let i := alphabet.idxOf c
  alphabet.getD ((i + 1) % alphabet.length) '0'

/-- index of the `k`-th letter (cyclically) of `tok`, if it has a letter -/
def letterIdx (tok : List Char) (k : Nat) : Option Nat :=
  let idxs := (List.range tok.length).filter fun i => (tok.getD i '0').isAlpha
  if idxs.isEmpty then none else some (idxs.getD (k % idxs.length) 0)

def expandSpec (tok : List Char) (spec : String) : List Char :=
  let n := tok.length
  match spec.splitOn ":" with
  | ["T"] => tok
  | ["T", a, b] => (tok.drop (nat! a)).take (nat! b - nat! a)
  | ["U"] => tok.map Char.toUpper
  | ["C", k] =>
    match letterIdx tok (nat! k) with
    | some i => tok.set i (tok.getD i '0').toUpper
    | none => tok
  | ["X", k] => if n = 0 then tok else tok.set (nat! k % n) (nextAlpha (tok.getD (nat! k % n) '0'))
  | ["P", k] =>
    if n = 0 then tok else
      tok.take (nat! k % n) ++ ('%' :: hex2 (tok.getD (nat! k % n) '0').toNat) ++ tok.drop (nat! k % n + 1)
  | ["D", k] => if n = 0 then tok else tok.eraseIdx (nat! k % n)
  | ["I", k] =>
    if n = 0 then tok else
      tok.take (nat! k % n) ++ (nextAlpha (tok.getD (nat! k % n) '0') :: tok.drop (nat! k % n))
  | _ => ("{" ++ spec ++ "}").toList

def expand (tok : List Char) (tmpl : String) : List Char :=
  match tmpl.splitOn "{" with
  | [] => []
  | first :: rest =>
    first.toList ++ rest.flatMap fun piece =>
      match piece.splitOn "}" with
      | [spec] => expandSpec tok spec
      | spec :: lits => expandSpec tok spec ++ ("}".intercalate lits).toList
      | [] => []

def parseMethod : String → Method
  | "GET" => .get | "POST" => .post | "OPTIONS" => .options | "HEAD" => .head | "PUT" => .put
  | "DELETE" => .delete | "PATCH" => .patch | _ => .other

structure ReqOp where
  cfg : String
  methodName : String
  target : List Char
  acrm : Option String
  acrh : Option String
  origin : Option String
  body : Option (List UInt8)

def field (w pre : String) : Option (Option String) :=
  if w.startsWith pre then
    let v := (w.drop pre.length).toString
    some (if v = "-" then none else some v)
  else none

def parseReq (tok : List Char) (l : String) : Option ReqOp :=
  match words l with
  | ["req", cfg, m, t, a, h, o, b] => do
    let acrm ← field a "acrm="
    let acrh ← field h "acrh="
    let origin ← field o "origin="
    let body ← field b "body="
    pure { cfg := cfg, methodName := m, target := expand tok t, acrm := acrm, acrh := acrh,
           origin := origin, body := body.map hexBytes }
  | _ => none

def cfgOf (tok : List Char) : String → Cfg
  | "z" => { pfx := '/' :: tok, profile := some ⟨true, true⟩ }
  | "d" => { pfx := '/' :: tok, profile := some ⟨false, false⟩ }
  | _ => { pfx := '/' :: tok, profile := some ⟨false, true⟩ }

def reqOf (r : ReqOp) (path : List Char) : Req :=
  { method := parseMethod r.methodName, path := path, hasACRM := r.acrm.isSome,
    acrh := r.acrh.map String.toList,
    bodyUtf8 := match r.body with
      | none => true
      | some bs => ByteArray.validateUTF8 ⟨bs.toArray⟩ }

def showResp (r : Resp) : String :=
  let body := match r.kind with
    | .landing true => "landing-p"
    | .landing false => "landing-n"
    | .notFound => "empty"
    | .options _ => "empty"
    | .profile _ => "profile"
    | .api _ => "json"
  s!"r status={r.status} acao={if r.allowOrigin then "*" else "-"} acam={if r.allowMethods then "std" else "-"} acma={if r.maxAge then "86400" else "-"} acah={if r.allowHeaders.isSome then "echo" else "-"} acx=- body={body}"

def rejectedLine : String := "r status=400 acao=- acam=- acma=- acah=- acx=- body=empty"

def tokensLine : String := "tokens distinct=yes len=39 alphabet=ok varied=yes"

/-- model output of one request line; the Bool says whether the connection survives -/
def modelReq (l : String) : String × Bool :=
  match parseReq modelToken l with
  | none => ("bad-op", false)
  | some r =>
    match pathOfTarget r.target with
    | none => (rejectedLine, false)  -- hyper answers 400 and closes the connection
    | some path =>
      match service (cfgOf modelToken r.cfg) (reqOf r path) with
      | .panic => ("closed", false)
      | .resp resp =>
        -- HEAD: hyper drops the body
        let line := showResp resp
        let line := if r.methodName = "HEAD" then
            (line.splitOn " body=").headD line ++ " body=empty" else line
        (line, true)

def modelLine (l : String) (alive : Bool) : String × Bool :=
  match words l with
  | "req" :: _ => if alive then modelReq l else ("closed", false)
  | ["tokens", _] => (tokensLine, alive)
  | ["enc", h] =>
    match encode (hexBytes h) with
    | some s => ("tok " ++ String.ofList s, alive)
    | none => ("panic", alive)
  | _ => ("bad-op", alive)

def model (ls : List String) : List String :=
  let rec go (ls : List String) (alive : Bool) (acc : List String) : List String :=
    match ls with
    | [] => acc.reverse
    | l :: rest =>
      let (o, alive') := modelLine l alive
      go rest alive' (o :: acc)
  go ls true []

/-! ## Judge: the statement of C18 evaluated on the implementation's own responses -/

def kv (ws : List String) (key : String) : String :=
  match ws.find? (·.startsWith (key ++ "=")) with
  | some w => (w.drop (key.length + 1)).toString
  | none => "?"

/-- Specification: a request whose path does not begin with `"/" ++ token` must be answered, must get
no `access-control-*` header of any kind, and a body that is the landing page or empty with an error
status (404 from the service function; 400 when the HTTP layer rejects the request line itself).
Under the prefix the statement demands nothing. A dropped connection counts as an answer only under
the prefix (or after an earlier request of the same connection ended it). -/
def judgeReq (l o : String) (alive : Bool) : (Bool × String) × Bool :=
  match parseReq modelToken l with
  | none => ((false, "bad-op"), false)
  | some r =>
    let path? := pathOfTarget r.target
    let under := match path? with
      | some p => ('/' :: modelToken).isPrefixOf p
      | none => false
    if o = "closed" then
      if !alive then ((true, "ok"), false)
      else if under then ((true, "ok"), false)
      else ((false, s!"connection dropped without a response outside the secret prefix: {r.methodName} {String.ofList r.target}"), false)
    else
      let ws := words o
      if ws.head? ≠ some "r" then ((false, s!"bad output line {o}"), false) else
      if under then ((true, "ok"), true) else
      let what := s!"{r.methodName} {String.ofList r.target} (path does not begin with the token prefix)"
      let cors := [kv ws "acao", kv ws "acam", kv ws "acma", kv ws "acah", kv ws "acx"]
      if cors.any (· ≠ "-") then
        ((false, s!"cross-origin permission header outside the secret prefix: {o} for {what}"), true)
      else
        let body := kv ws "body"
        let status := kv ws "status"
        if body = "landing-p" ∨ body = "landing-n" then ((true, "ok"), true)
        else if body = "empty" ∧ (status = "404" ∨ status = "400") then ((true, "ok"), status = "404")
        else ((false, s!"neither landing page nor an empty 404 outside the secret prefix: {o} for {what}"), true)

def judgeEnc (h o : String) : Bool × String :=
  let bs := hexBytes h
  match words o with
  | ["panic"] => if bs.isEmpty then (true, "ok") else (false, "encoder panicked on a non-empty input")
  | ["tok", s] =>
    -- the token is the fixed-width base-32 numeral (most significant digit first) of the little-endian
    -- number the bytes denote: nothing of the input is lost
    if bs.isEmpty then (false, "encoder returned a token for the empty input (model: panic)") else
    if s.length ≠ (bs.length * 8 + 4) / 5 then (false, s!"token length {s.length} for {bs.length} bytes")
    else if numeralValue s.toList ≠ some (leValue bs) then (false, "token does not denote the input bytes")
    else (true, "ok")
  | _ => (false, s!"bad output line {o}")

def judge (ops impl : List String) : Bool × String :=
  if ops.length ≠ impl.length then (false, "wrong number of output lines") else
  let rec go (ops impl : List String) (alive : Bool) : Bool × String :=
    match ops, impl with
    | l :: ls, o :: os =>
      match words l with
      | "req" :: _ =>
        let (v, alive') := judgeReq l o alive
        if v.1 then go ls os alive' else v
      | ["tokens", _] =>
        if o = tokensLine then go ls os alive
        else (false, s!"tokens of several server starts are not distinct 39-character base-32 strings: {o}")
      | ["enc", h] =>
        let v := judgeEnc h o
        if v.1 then go ls os alive else v
      | _ => (false, "bad-op")
    | _, _ => (true, "ok")
  go ops impl true

end C18
