import SamplyModel.Proto
import SamplyModel.Model.FileCreation
import SamplyModel.Model.DownloadWrite
import SamplyModel.Model.FileCreationAsync
/-!
Line protocol for C16. One case = one op line.

`trace <scenario> chunks=<c> failat=<k>`
    scenario ∈ success | writer_error | cancelled (future dropped inside the callback after `failat` chunks:
               `close P`, `unlink part` (drop guard), `close L`) | existing | blocked_existing | blocked_absent |
               rename_error | part_open_error | lock_open_error.
    out: the system calls the traced creator issues on dest / dest.part / dest.lock, canonicalised
    (`open lock creat`, `flock L ex,nb -> ok|wouldblock`, `flock L ex -> ok`, `stat dest -> file|nofile`,
    `open part creat,trunc`, `write P`, `close P`, `rename part dest -> ok|err`, `unlink part`, `close L`,
    `unlink lock`, failing opens with ` -> err`), then `result created|existing|err:<kind>` and
    `final dest=<absent|complete|bad> part=<absent|present> lock=<absent|present>`.
    The model prints the `Sys` labels of the same run of the transition system `FC.next`.

`round mode=<threads|procs> n=<N> late=<L> cw=<C> fates=<f,…|-> sizes=<s,…> pre=<point>x<D>|- presize=<c> lead=…`
    N creators of one destination; the k-th creator to *enter the write callback* gets fate `fates[k]`
    (`fail@j` / `kill@j` / `cancel@j` after j chunks; default `ok`) and writes `sizes[k mod len]` chunks —
    so nothing that is compared depends on WHICH creator wins a race. `late` creators (and `cw` creators that
    are cancelled while they wait for the lock) start while the first `ok` writer is parked mid-write.
    `pre`: a first wave of D creators killed on entry to the named system call. `lead` (a delay injected into
    one creator by strace) is scheduling only and ignored by the model.
    out: `pre killed=<k> finished=<f>` (if pre), `outcomes created=… existing=… err=… killed=… cancelled=…`,
    `writes_ok=…`, `max_active=…`, `observations bad=…`, `seen ok|bad`, `final dest=… part=… lock=…`,
    `retry <outcome> dest=<class>`.

`symindex managers=<M> funcs=<F> seed=<s>`
    out: `symindex results ok=<M>`, `observations bad=0`, `final symindex=complete stable=yes`.

`download fault=<none|fsize:N|abort:N> funcs=<F> tail=<T> size=<S> seed=<s>`
    one `SymbolManager` in its own process downloads an `S`-byte `.sym` that arrives in two pieces (the last
    `T` bytes separately) through `downloader.rs::download_to_file`; `fsize:N` = every write past byte N of
    the file fails (RLIMIT_FSIZE), `abort:N` = the connection is lost after N body bytes; then a fault-free
    retry. The model runs the download callback (`Model/DownloadWrite.lean`) to decide the writer's fate
    and the file-creation model for the rest.
    out: `download child=ok|err`, `observations bad=<n>`, `final dest=absent|complete|partial:<len>`,
    `retry child=ok|err dest=<class>`.

`symindexfault fsize=<K> funcs=<F> isize=<I> seed=<s>`
    one `SymbolManager` in its own process loads a local `.sym`; writing the `I`-byte `.symindex`
    (breakpad.rs:204-222, one `write_all` + `flush` over `tokio::fs::File`) fails past byte K (RLIMIT_FSIZE);
    the symbol map itself still loads (the index is also kept in memory); then a fault-free retry.
    out: `symindexfault lookup=ok`, `observations bad=<n>`, `final symindex=absent|complete|partial:<len>`,
    `retry lookup=ok symindex=complete`.

`cancelwrite site=symindex a=<FA> b=<FB> isizea=<IA> isizeb=<IB> seed=<s>`
    creator A (a `SymbolManager` in its own process, blocking pool of ONE thread that the harness keeps busy)
    blocks on the lock (held by the harness), gets it, opens `.part`, hands its `write_all` to the blocking pool
    and is cancelled (future dropped) in `flush().await`; creator B (another version of the `.sym`, `IB` bytes of
    index) then creates the `.symindex`; finally the pool thread is released and A's queued write is executed.
    The model is `FCA.next false` (Model/FileCreationAsync.lean): the code as it is — since the repair the
    cancelled creator's drop guard has unlinked `.part` (`part_at_cancel=-1`), B makes a new inode and A's
    write lands on the nameless one.
    out: `cancelwrite a=cancelled part_at_cancel=<len|-1>`, `after_b lookup=ok symindex=complete`,
    `observations bad=<0|1>`, `final symindex=complete|bad`.

`cancelwrite site=download …`: the same on the downloader call site (A's download is cancelled in
    `stream.read().await` while the server holds the rest of the body back; B downloads a replaced file).

`poolwait k=<K> waiters=<W> seed=<s>`
    one runtime whose blocking pool has K threads; creator 0 sits in its write callback (which writes through a
    `tokio::fs::File`), W ≥ K further creators wait for the lock, then creator 0 writes. Waiting for the lock must
    not use the blocking pool (file_creation.rs:208-212). Model: W+1 creators whose writers succeed.
    out: `poolwait created=1 existing=<W> err=0 stuck=0`, `final dest=complete part=absent lock=absent`.

In `round` ops `cw` creators are cancelled (mode=threads) or SIGKILLed (mode=procs) while they are blocked in
flock; `sig=<S>` (mode=procs) sends S signals without SA_RESTART to every blocked flock thread (EINTR and
retry: no transition of the model); `sigx=<K>` (mode=procs) signals the last K late creators until their retry
loop gives up after five interruptions (model: `fail` at `.waiting`, outcome `err:locking`); `ce=<K>` (mode=threads)
starts K more creators after the round, one after the other: each suspends inside `handle_existing_fn` and has its
future dropped there (model: `cancel` at `.exUnlinked`), or creates the file if nobody did.

The judge evaluates the statement of C16 on the implementation's lines only (no model involved).
-/
namespace C16
open FC Proto

inductive Fate
  | ok
  | fail (k : Nat)      -- the write callback returns Err after k chunks
  | kill (k : Nat)      -- the process is killed after k chunks
  | cancel (k : Nat)    -- the future is dropped after k chunks
  | failRename | failOpenPart | failOpenLock   -- trace scenarios only
deriving Repr, DecidableEq

def kv (ws : List String) (key : String) : Option String :=
  ws.findSome? fun w =>
    match w.splitOn "=" with
    | [k, v] => if k = key then some v else none
    | _ => none

def kvNat (ws : List String) (key : String) (dflt : Nat) : Nat :=
  match kv ws key with
  | some v => v.toNat?.getD dflt
  | none => dflt

def parseFate (s : String) : Fate :=
  match s.splitOn "@" with
  | ["ok"] => .ok
  | ["fail", k] => .fail (nat! k)
  | ["kill", k] => .kill (nat! k)
  | ["cancel", k] => .cancel (nat! k)
  | ["rfail"] => .failRename
  | _ => .ok

def parseList (s : String) : List String :=
  if s = "-" ∨ s = "" then [] else s.splitOn ","

/-- payload of the `idx`-th arrival: `chunks` distinct chunk tokens -/
def mkPayload (idx chunks : Nat) : Content := (List.range chunks).map fun c => idx * 1000 + c + 1

structure Asg where
  idx : Nat
  fate : Fate
  chunks : Nat

structure Sim where
  s : State := State.init
  asg : List (Pid × Asg) := []
  arrivals : Nat := 0
  maxActive : Nat := 0
  writesOk : Nat := 0
  bad : Nat := 0
  killed : List Pid := []
  cancelled : List Pid := []
  gateOpen : Bool := true
  gateIdx : Option Nat := none

structure Cfg where
  fates : List Fate
  sizes : List Nat

def Sim.pl (sim : Sim) : Pid → Content := fun p =>
  match sim.asg.find? (·.1 = p) with
  | some (_, a) => mkPayload a.idx a.chunks
  | none => []

def Sim.asgOf (sim : Sim) (p : Pid) : Option Asg := (sim.asg.find? (·.1 = p)).map (·.2)

def isWriting : PC → Bool
  | .writing _ _ _ => true
  | _ => false

def Sim.destClass (sim : Sim) : String :=
  match sim.s.destContent with
  | none => "absent"
  | some c => if sim.asg.any (fun (_, a) => mkPayload a.idx a.chunks = c) then "complete" else "bad"

/-- one scheduling attempt for creator `p`; `none` = p cannot act now (blocked, parked, finished) -/
def actOnce (cfg : Cfg) (sim : Sim) (p : Pid) : Option Sim :=
  let pc := sim.s.pc p
  -- arrival: the first time a creator is inside the write callback it is given the next fate / size
  let sim := match pc, sim.asgOf p with
    | .writing _ _ _, none =>
      let idx := sim.arrivals
      let fate := cfg.fates.getD idx .ok
      let chunks := if cfg.sizes.isEmpty then 1 else cfg.sizes.getD (idx % cfg.sizes.length) 1
      { sim with asg := (p, ⟨idx, fate, chunks⟩) :: sim.asg, arrivals := idx + 1 }
    | _, _ => sim
  let a? : Option (Act × Bool × Bool) :=   -- action, is kill, is cancel
    match pc, sim.asgOf p with
    | .writing _ _ k, some a =>
      let parked := !sim.gateOpen && sim.gateIdx = some a.idx && k ≥ 1
      if parked then none else
      match a.fate with
      | .fail f => if k ≥ min f a.chunks then some (.fail p, false, false) else some (.step p, false, false)
      | .kill f => if k ≥ min f a.chunks then some (.crash p, true, false) else some (.step p, false, false)
      | .cancel f => if k ≥ min f a.chunks then some (.cancel p, false, true) else some (.step p, false, false)
      | _ => some (.step p, false, false)
    | .wroteOk _, some a => if a.fate = .failRename then some (.fail p, false, false) else some (.step p, false, false)
    | .absent _, some a => if a.fate = .failOpenPart then some (.fail p, false, false) else some (.step p, false, false)
    | .idle, some a => if a.fate = .failOpenLock then some (.fail p, false, false) else some (.step p, false, false)
    | _, _ => some (.step p, false, false)
  match a? with
  | none => none
  | some (a, isKill, isCancel) =>
    match next sim.pl sim.s a with
    | none => none
    | some s' =>
      let known := p :: sim.asg.map (·.1)
      let active := (known.eraseDups.filter fun q => isWriting (s'.pc q)).length
      let wroteNow := isWriting pc && (match s'.pc p with | .wroteOk _ => true | _ => false)
      let sim' := { sim with s := s', maxActive := max sim.maxActive active,
                             writesOk := sim.writesOk + (if wroteNow then 1 else 0),
                             killed := if isKill then p :: sim.killed else sim.killed,
                             cancelled := if isCancel then p :: sim.cancelled else sim.cancelled }
      some { sim' with bad := sim'.bad + (if sim'.destClass = "bad" then 1 else 0) }

/-- round-robin over `pids` until nobody can act -/
def drain (cfg : Cfg) (sim : Sim) (pids : List Pid) (fuel : Nat := 4000) : Sim := Id.run do
  let mut sim := sim
  for _ in [0:fuel] do
    let mut progressed := false
    for p in pids do
      match actOnce cfg sim p with
      | some sim' => sim := sim'; progressed := true
      | none => pure ()
    if !progressed then break
  return sim

/-- does the creator stand right before the system call named by the kill point? -/
def atPoint (point : String) (chunks : Nat) : PC → Bool
  | .opened _ => point = "flock"
  | .locked _ => point = "stat"
  | .absent _ => point = "openpart"
  | .writing _ _ k =>
    (point = "closepart" && k ≥ chunks) ||
    (point.startsWith "write" && k < chunks && (point.drop 5).toString.toNat? = some (k + 1))
  | .wroteOk _ => point = "rename"
  | .renamed _ | .sawExists _ | .failDrop _ _ => point = "closelock"
  | .crClosed | .exClosed => point = "unlinklock"
  | _ => false

/-- run creator `p` alone until it stands at the kill point (then kill it) or cannot move -/
def runToPointAndKill (cfg : Cfg) (sim : Sim) (p : Pid) (point : String) (chunks : Nat) : Sim := Id.run do
  let mut sim := sim
  for _ in [0:200] do
    if atPoint point chunks (sim.s.pc p) then
      match next sim.pl sim.s (.crash p) with
      | some s' => return { sim with s := s', killed := p :: sim.killed }
      | none => return sim
    match actOnce cfg sim p with
    | some sim' => sim := sim'
    | none => return sim
  return sim

def outcomeOf (sim : Sim) (p : Pid) : String :=
  match sim.s.pc p with
  | .doneCreated => "created"
  | .doneExisting => "existing"
  | .doneErr .lockCreate => "err:lockfile"
  | .doneErr .lockLock => "err:locking"
  | .doneErr .tempCreate => "err:tempfile"
  | .doneErr .callback => "err:callback"
  | .doneErr .rename => "err:rename"
  | .dead => if sim.killed.contains p then "killed" else if sim.cancelled.contains p then "cancelled" else "dead"
  | _ => "stuck"

def finalLine (sim : Sim) : String :=
  let part := if sim.s.part.isSome then "present" else "absent"
  let lock := if sim.s.lockName.isSome then "present" else "absent"
  s!"final dest={sim.destClass} part={part} lock={lock}"

def seenOk (sim : Sim) (pids : List Pid) : Bool :=
  pids.all fun p =>
    match sim.s.pc p with
    | .doneCreated | .doneExisting => sim.destClass = "complete"
    | _ => true

def simRound (ws : List String) : List String := Id.run do
  let n := kvNat ws "n" 1
  let late := kvNat ws "late" 0
  let cw := kvNat ws "cw" 0
  let fates := (parseList ((kv ws "fates").getD "-")).map parseFate
  let sizes := (parseList ((kv ws "sizes").getD "-")).map nat!
  let cfg : Cfg := { fates := fates, sizes := sizes }
  let mut sim : Sim := {}
  let mut out : List String := []
  -- wave 0: creators killed on entry to a system call
  match (kv ws "pre").getD "-" with
  | "-" => pure ()
  | pre =>
    match pre.splitOn "x" with
    | [point, d] =>
      let d := nat! d
      let presize := kvNat ws "presize" 2
      let prePids := (List.range d).map (· + 100)
      for p in prePids do
        sim := { sim with asg := (p, ⟨p, .ok, presize⟩) :: sim.asg }
      for p in prePids do
        sim := runToPointAndKill cfg sim p point presize
      -- creators that were not killed (never reached the point) finish on their own
      sim := drain cfg sim prePids
      let k := (prePids.filter fun p => sim.killed.contains p).length
      out := out ++ [s!"pre killed={k} finished={d - k}"]
      sim := { sim with maxActive := 0, writesOk := 0 }
    | _ => pure ()
  -- main wave
  let early := List.range (n - late)
  let latePids := (List.range late).map (· + (n - late))
  let cwPids := (List.range cw).map (· + n)
  let firstOk := (fates.takeWhile (· ≠ .ok)).length
  if late + cw > 0 then
    sim := { sim with gateOpen := false, gateIdx := some firstOk }
  sim := drain cfg sim early
  if late + cw > 0 then
    sim := drain cfg sim (early ++ latePids ++ cwPids)
    -- `sigx` late creators are signalled until their blocking flock has been interrupted five times and the
    -- retry loop gives up (file_creation.rs:233-244): the flock fails
    for p in (latePids.reverse.take (kvNat ws "sigx" 0)) do
      match sim.s.pc p with
      | .waiting _ =>
        match next sim.pl sim.s (.fail p) with
        | some s' => sim := { sim with s := s' }
        | none => pure ()
      | _ => pure ()
    -- the waiters that are to be cancelled are now blocked in flock: drop their futures
    for p in cwPids do
      if (kv ws "mode").getD "threads" = "procs" then
        -- a separate process blocked in flock is SIGKILLed
        match sim.s.pc p with
        | .waiting _ =>
          match next sim.pl sim.s (.crash p) with
          | some s' => sim := { sim with s := s', killed := p :: sim.killed }
          | none => pure ()
        | _ => pure ()
      else
      match next sim.pl sim.s (.cancel p) with
      | some s' => sim := { sim with s := s', cancelled := p :: sim.cancelled }
      | none => pure ()
    sim := { sim with gateOpen := true }
    sim := drain cfg sim (early ++ latePids ++ cwPids)
  -- `ce` more creators, one after the other: dropped inside the existing-file handler (await point :126) if they
  -- find the destination; otherwise they create it
  let cePids := (List.range (kvNat ws "ce" 0)).map (· + n + cw)
  for p in cePids do
    for _ in [0:60] do
      match sim.s.pc p with
      | .exUnlinked =>
        match next sim.pl sim.s (.cancel p) with
        | some s' => sim := { sim with s := s', cancelled := p :: sim.cancelled }
        | none => pure ()
      | _ =>
        match actOnce cfg sim p with
        | some sim' => sim := sim'
        | none => pure ()
  let all := early ++ latePids ++ cwPids ++ cePids
  let count (o : String) : Nat := (all.filter fun p => (outcomeOf sim p).startsWith o).length
  out := out ++ [s!"outcomes created={count "created"} existing={count "existing"} err={count "err"} killed={count "killed"} cancelled={count "cancelled"} err_rename={count "err:rename"}"]
  if count "stuck" + count "dead" > 0 then out := out ++ ["stuck creators"]
  out := out ++ [s!"writes_ok={sim.writesOk}", s!"max_active={sim.maxActive}",
                 s!"observations bad={sim.bad}",
                 if seenOk sim all then "seen ok" else "seen bad",
                 finalLine sim]
  -- retry: a fresh solo creator whose writer succeeds
  let rp := 1000
  sim := { sim with asg := (rp, ⟨rp, .ok, 2⟩) :: sim.asg }
  sim := drain cfg sim [rp]
  out := out ++ [s!"retry {outcomeOf sim rp} dest={sim.destClass}"]
  return out

def sysLine : Sys → String
  | .openLock => "open lock creat"
  | .openLockErr => "open lock creat -> err"
  | .tryLock true => "flock L ex,nb -> ok"
  | .tryLock false => "flock L ex,nb -> wouldblock"
  | .lockWait => "flock L ex -> ok"
  | .lockErr => "flock L -> err"
  | .statDest true => "stat dest -> file"
  | .statDest false => "stat dest -> nofile"
  | .closeLock => "close L"
  | .unlinkLock => "unlink lock"
  | .openPart => "open part creat,trunc"
  | .openPartErr => "open part creat,trunc -> err"
  | .write => "write P"
  | .closePart => "close P"
  | .rename true => "rename part dest -> ok"
  | .rename false => "rename part dest -> err"
  | .unlinkPart => "unlink part"

def traceOf (sim : Sim) (p : Pid) : List String :=
  (sim.s.trace.reverse.filter (·.1 = p)).map (sysLine ·.2)

/-- the traced creator is pid 0; a second creator (pid 1) plays "somebody else" where the scenario needs one -/
def simTrace (ws : List String) : List String := Id.run do
  let scenario := ws.getD 1 ""
  let chunks := kvNat ws "chunks" 2
  let failat := kvNat ws "failat" 1
  let cfg : Cfg := { fates := [], sizes := [chunks] }
  let mut sim : Sim := {}
  let pre (f : Fate) (sim : Sim) : Sim := { sim with asg := (0, ⟨0, f, chunks⟩) :: sim.asg }
  match scenario with
  | "success" => sim := drain cfg (pre .ok sim) [0]
  | "writer_error" => sim := drain cfg (pre (.fail failat) sim) [0]
  | "cancelled" => sim := drain cfg (pre (.cancel failat) sim) [0]
  | "rename_error" => sim := drain cfg (pre .failRename sim) [0]
  | "part_open_error" => sim := drain cfg (pre .failOpenPart sim) [0]
  | "lock_open_error" => sim := drain cfg (pre .failOpenLock sim) [0]
  | "existing" =>
    sim := { sim with asg := (1, ⟨1, .ok, chunks⟩) :: sim.asg }
    sim := drain cfg sim [1]
    sim := drain cfg (pre .ok sim) [0]
  | "blocked_existing" | "blocked_absent" =>
    let f : Fate := if scenario = "blocked_existing" then .ok else .fail 1
    sim := { sim with asg := (1, ⟨1, f, chunks⟩) :: sim.asg, gateOpen := false, gateIdx := some 1 }
    sim := drain cfg sim [1]            -- the other creator is parked inside its write callback
    sim := drain cfg (pre .ok sim) [0]  -- the traced creator blocks in flock
    sim := { sim with gateOpen := true }
    sim := drain cfg sim [1]
    sim := drain cfg sim [0]
  | _ => return ["bad-op"]
  return traceOf sim 0 ++ [s!"result {outcomeOf sim 0}", finalLine sim]

def simSymindex (ws : List String) : List String :=
  let m := kvNat ws "managers" 1
  -- M managers = M creators of one `.symindex` whose writers all succeed
  let cfg : Cfg := { fates := [], sizes := [1] }
  let pids := List.range m
  let sim := drain cfg {} pids
  let ok := (pids.filter fun p => outcomeOf sim p = "created" ∨ outcomeOf sim p = "existing").length
  [s!"symindex results ok={ok}", s!"observations bad={sim.bad}",
   s!"final symindex={sim.destClass} stable=yes"]

/-- stream and disk of a `download` case: two pieces (`size - tail`, `tail` bytes) -/
def downloadEnv (ws : List String) : DL.Env × List (Option (List UInt8)) :=
  let size := kvNat ws "size" 0
  let tail := min (kvNat ws "tail" 1) size
  let cut := size - tail
  let fault := (kv ws "fault").getD "none"
  let pieces : List (Option (List UInt8)) := [some [1], some [2]]
  match fault.splitOn ":" with
  | ["fsize", n] =>
    let n := nat! n
    -- the write that ends at byte `e` of the file succeeds iff `e ≤ N`
    (⟨fun k => if k = 0 then decide (cut ≤ n) else decide (size ≤ n), fun _ => 0⟩, pieces)
  | ["abort", n] =>
    let n := nat! n
    (⟨fun _ => true, fun _ => 0⟩, if n < cut then [some [1], none] else if n < size then [some [1], some [2], none] else pieces)
  | _ => (⟨fun _ => true, fun _ => 0⟩, pieces)

def simDownload (ws : List String) : List String :=
  let (env, stream) := downloadEnv ws
  let fate : Fate := match (DL.run env true stream).1 with
    | .ok _ => .ok
    | _ => .fail 1
  let cfg : Cfg := { fates := [fate, .ok], sizes := [2] }
  let sim := drain cfg {} [0]
  let first := outcomeOf sim 0
  let l1 := s!"download child={if first = "created" ∨ first = "existing" then "ok" else "err"}"
  let l3 := s!"final dest={sim.destClass}"
  let sim := drain cfg sim [1]
  let r := outcomeOf sim 1
  [l1, s!"observations bad={sim.bad}", l3,
   s!"retry child={if r = "created" ∨ r = "existing" then "ok" else "err"} dest={sim.destClass}"]

def simSymindexFault (ws : List String) : List String :=
  let isize := kvNat ws "isize" 0
  let k := kvNat ws "fsize" 0
  -- one piece; the write succeeds iff the whole index fits below the limit
  let env : DL.Env := ⟨fun _ => decide (isize ≤ k), fun _ => 0⟩
  let fate : Fate := match (DL.run env true [some [1]]).1 with
    | .ok _ => .ok
    | _ => .fail 1
  let cfg : Cfg := { fates := [fate, .ok], sizes := [1] }
  let sim := drain cfg {} [0]
  let l3 := s!"final symindex={sim.destClass}"
  let sim := drain cfg sim [1]
  ["symindexfault lookup=ok", s!"observations bad={sim.bad}", l3, s!"retry lookup=ok symindex={sim.destClass}"]

/-- the `cancelwrite` scenario on the deferred-write model of the code as it is (`joinOnDrop = false`):
creator 9 = the harness holding the lock, 0 = A (one write), 1 = B -/
def simCancelWrite (ws : List String) : List String :=
  let ia := kvNat ws "isizea" 1
  let ib := kvNat ws "isizeb" 2
  -- A's single write covers the first `ia` bytes: all of B's file if B is not longer
  let pl : Pid → Content := fun p => if p = 0 then [1] else if p = 1 then (if ia < ib then [1001, 1002] else [1001]) else [9]
  let b (a : FC.Act) : FCA.Act := .base a
  let upToCancel : List FCA.Act :=
    [b (.step 9), b (.step 9), b (.step 9),              -- the harness: lock file, flock, (stat)
     b (.step 0), b (.step 0),                           -- A: lock file, try-lock fails, waits
     b (.crash 9),                                       -- the harness closes its descriptor
     b (.step 0), b (.step 0), b (.step 0), b (.step 0), -- A: flock, stat, open .part, write_all (queued)
     b (.cancel 0)]
  let bRuns : List FCA.Act := (List.replicate (if ia < ib then 10 else 9) (b (.step 1)))
  match FCA.run false pl FCA.State.init upToCancel with
  | none => ["model: schedule not executable (1)"]
  | some s1 =>
    let partLen := match s1.partDisk with
      | some c => if c.isEmpty then "0" else toString ia
      | none => "-1"
    let how := if s1.base.pc 0 = .dead then "cancelled" else "finished"
    match FCA.run false pl s1 bRuns with
    | none => ["model: schedule not executable (2)"]
    | some s2 =>
      let cls (s : FCA.State) : String := match s.destDisk with
        | none => "absent"
        | some c => if c = pl 1 then "complete" else "bad"
      let bOk := s2.base.pc 1 = .doneCreated
      -- the blocking pool executes what is still queued
      let s3 := (List.range s2.inflight.length).foldl (fun s _ => (FCA.next false pl s (.land 0)).getD s) s2
      [s!"cancelwrite a={how} part_at_cancel={partLen}",
       s!"after_b lookup={if bOk then "ok" else "err"} symindex={cls s2}",
       s!"observations bad={if cls s3 = "bad" ∨ cls s2 = "bad" then 1 else 0}",
       s!"final symindex={cls s3}"]

def simPoolwait (ws : List String) : List String :=
  let w := kvNat ws "waiters" 1
  let cfg : Cfg := { fates := [], sizes := [2, 1] }
  let pids := List.range (w + 1)
  -- creator 0 is parked inside its callback while the others arrive and block
  let sim : Sim := { gateOpen := false, gateIdx := some 0 }
  let sim := drain cfg sim [0]
  let sim := drain cfg sim pids
  let sim := drain cfg { sim with gateOpen := true } pids
  let count (o : String) : Nat := (pids.filter fun p => (outcomeOf sim p).startsWith o).length
  [s!"poolwait created={count "created"} existing={count "existing"} err={count "err"} stuck={count "stuck"}",
   finalLine sim]

def model (ls : List String) : List String :=
  match ls with
  | [l] =>
    let ws := words l
    match ws.head? with
    | some "symindexfault" => simSymindexFault ws
    | some "cancelwrite" => simCancelWrite ws
    | some "poolwait" => simPoolwait ws
    | some "download" => simDownload ws
    | some "trace" => simTrace ws
    | some "round" => simRound ws
    | some "symindex" => simSymindex ws
    | _ => ["bad-op"]
  | _ => ["bad-op"]

/-! ### Judge: the statement of C16 evaluated on the implementation's observations -/

def findLine (impl : List String) (pfx : String) : Option (List String) :=
  (impl.find? (·.startsWith pfx)).map words

def judgeRound (ws impl : List String) : Bool × String :=
  let n := kvNat ws "n" 1 + kvNat ws "cw" 0 + kvNat ws "ce" 0
  match findLine impl "outcomes", findLine impl "writes_ok", findLine impl "observations",
        findLine impl "final", findLine impl "retry" with
  | some o, some w, some b, some f, some r =>
    let created := kvNat o "created" 0
    let existing := kvNat o "existing" 0
    let total := created + existing + kvNat o "err" 0 + kvNat o "killed" 0 + kvNat o "cancelled" 0
    let dest := (kv f "dest").getD "?"
    if impl.contains "panic" then (false, "implementation panicked")
    else if kvNat b "bad" 1 ≠ 0 then (false, s!"the final path was observed in a partial state ({kvNat b "bad" 1} observations)")
    else if dest ≠ "absent" ∧ dest ≠ "complete" then (false, s!"final destination is {dest}: neither absent nor one writer's complete payload")
    else if total ≠ n then (false, s!"{total} outcomes for {n} creators")
    else if created > 1 then (false, s!"{created} creators report having created the file")
    -- a write whose rename was MADE to fail from outside (`lead=renamefail:…`: one injected error) is a failed
    -- attempt and does not count (C16_written_at_most_once); a rename that fails without injection is no excuse
    else if kvNat w "writes_ok" 99 > 1 + min (kvNat o "err_rename" 0) (if ((kv ws "lead").getD "-").startsWith "renamefail" then 1 else 0) then
      (false, s!"the contents were written successfully {kvNat w "writes_ok" 99} times")
    else if created + existing > 0 ∧ dest ≠ "complete" then (false, "a creator returned success but the destination is not complete")
    else if ¬ impl.contains "seen ok" then (false, "a creator that returned success did not see the complete file")
    else if (kv r "dest").getD "?" ≠ "complete" then (false, "after the retry the destination is not complete")
    else if r.getD 1 "" ≠ "created" ∧ r.getD 1 "" ≠ "existing" then (false, s!"the retry did not succeed: {r.getD 1 ""}")
    else if dest = "absent" ∧ r.getD 1 "" ≠ "created" then (false, "destination absent but the retry did not create it")
    else (true, "ok")
  | _, _, _, _, _ => (false, "missing summary lines")

def judgeTrace (ws impl : List String) : Bool × String :=
  match findLine impl "final", findLine impl "result" with
  | some f, some r =>
    let dest := (kv f "dest").getD "?"
    let res := r.getD 1 ""
    if dest ≠ "absent" ∧ dest ≠ "complete" then (false, s!"final destination is {dest}")
    else if (res = "created" ∨ res = "existing") ∧ dest ≠ "complete" then (false, "success without a complete destination")
    else if ws.getD 1 "" = "success" ∧ res ≠ "created" then (false, s!"solo creation did not succeed: {res}")
    else (true, "ok")
  | _, _ => (false, "missing result/final line")

def judgeSymindex (ws impl : List String) : Bool × String :=
  match findLine impl "symindex", findLine impl "observations", findLine impl "final" with
  | some s, some b, some f =>
    if kvNat b "bad" 1 ≠ 0 then (false, "the .symindex was observed in a partial state")
    else if (kv f "symindex").getD "?" ≠ "complete" then (false, s!"final .symindex is {(kv f "symindex").getD "?"}")
    else if (kv f "stable").getD "?" ≠ "yes" then (false, "a repeated load changed the .symindex")
    else if kvNat s "ok" 0 ≠ kvNat ws "managers" 1 then (false, "a symbol manager failed to load the symbol map")
    else (true, "ok")
  | _, _, _ => (false, "missing summary lines")

def judgeDownload (_ws impl : List String) : Bool × String :=
  match findLine impl "download", findLine impl "observations", findLine impl "final", findLine impl "retry" with
  | some d, some b, some f, some r =>
    let dest := (kv f "dest").getD "?"
    if kvNat b "bad" 1 ≠ 0 then (false, s!"the downloaded file was observed at its final path in a partial state ({kvNat b "bad" 1} observations)")
    else if dest ≠ "absent" ∧ dest ≠ "complete" then (false, s!"after the download attempt the final path holds {dest}: neither absent nor the complete file")
    else if (kv d "child").getD "?" = "ok" ∧ dest ≠ "complete" then (false, "the download reported success but the final path is not the complete file")
    else if (kv r "dest").getD "?" ≠ "complete" then (false, s!"after a fault-free retry the final path holds {(kv r "dest").getD "?"}")
    else if (kv r "child").getD "?" ≠ "ok" then (false, "the fault-free retry did not succeed")
    else (true, "ok")
  | _, _, _, _ => (false, "missing summary lines")

def judgeSymindexFault (_ws impl : List String) : Bool × String :=
  match findLine impl "symindexfault", findLine impl "observations", findLine impl "final", findLine impl "retry" with
  | some _, some b, some f, some r =>
    let dest := (kv f "symindex").getD "?"
    if kvNat b "bad" 1 ≠ 0 then (false, s!"the .symindex was observed at its final path in a partial state ({kvNat b "bad" 1} observations)")
    else if dest ≠ "absent" ∧ dest ≠ "complete" then (false, s!"after the failed write the final path holds {dest}: neither absent nor the complete index")
    else if (kv r "symindex").getD "?" ≠ "complete" then (false, s!"after a fault-free retry the .symindex is {(kv r "symindex").getD "?"}")
    else (true, "ok")
  | _, _, _, _ => (false, "missing summary lines")

def judgeCancelWrite (_ws impl : List String) : Bool × String :=
  match findLine impl "cancelwrite", findLine impl "after_b", findLine impl "observations", findLine impl "final" with
  | some c, some a, some b, some f =>
    if (kv c "a").getD "?" ≠ "cancelled" then (false, s!"harness: creator A was not cancelled inside its write callback ({(kv c "a").getD "?"})")
    else if (kv a "symindex").getD "?" ≠ "complete" ∨ (kv a "lookup").getD "?" ≠ "ok" then
      (false, s!"after the cancelled attempt a second creator did not produce the complete file (lookup={(kv a "lookup").getD "?"} symindex={(kv a "symindex").getD "?"})")
    else if (kv f "symindex").getD "?" ≠ "complete" ∨ kvNat b "bad" 1 ≠ 0 then
      (false, s!"after a creator had returned success with the complete file at the final path, the final path holds {(kv f "symindex").getD "?"}: a write issued by the cancelled creator was executed on the published file")
    else (true, "ok")
  | _, _, _, _ => (false, "missing summary lines")

def judgePoolwait (ws impl : List String) : Bool × String :=
  match findLine impl "poolwait", findLine impl "final" with
  | some r, some f =>
    let n := kvNat ws "waiters" 1 + 1
    let dest := (kv f "dest").getD "?"
    if kvNat r "stuck" 1 ≠ 0 then (false, s!"{kvNat r "stuck" 1} creators never finished: the creators waiting for the lock prevented the lock holder's attempt from completing")
    else if dest ≠ "complete" then (false, s!"final destination is {dest}")
    else if kvNat r "created" 0 ≠ 1 then (false, s!"{kvNat r "created" 0} creators report having created the file")
    else if kvNat r "created" 0 + kvNat r "existing" 0 ≠ n then (false, s!"only {kvNat r "created" 0 + kvNat r "existing" 0} of {n} fault-free creators succeeded")
    else (true, "ok")
  | _, _ => (false, "missing summary lines")

def judge (ops impl : List String) : Bool × String :=
  match ops with
  | [l] =>
    let ws := words l
    match ws.head? with
    | some "symindexfault" => judgeSymindexFault ws impl
    | some "cancelwrite" => judgeCancelWrite ws impl
    | some "poolwait" => judgePoolwait ws impl
    | some "download" => judgeDownload ws impl
    | some "trace" => judgeTrace ws impl
    | some "round" => judgeRound ws impl
    | some "symindex" => judgeSymindex ws impl
    | _ => (false, "bad-op")
  | _ => (false, "bad-op")

end C16
