import SamplyModel.Proto
import SamplyModel.Model.PanicKernels
import SamplyModel.Model.BreakpadServe
import SamplyModel.Model.JsonText
/-!
Line protocol for C08. A case is a list of operations; every operation yields exactly one output line.

Kernel operations (the model predicts the value; byte strings are hex, `-` = empty):

    codeid <s>                      → ok pe <ts> <size> | ok macho <hex> | ok elf <hex> | err | panic
    pecodeid <s>                    → ok <ts> <size> | err | panic
    elfbuildid <s>                  → ok <hex> | err | panic
    specialpath <s>                 → ok git|hg <repo> <path> <rev> | ok s3 <bucket> <digest> <path>
                                      | ok cargo <registry> <crate> <version> <path> | err | panic
    symindex <modInfoOk 0|1> <file> → ok <moduleInfoLen> <files> <inlineOrigins> <symbols> | err <Kind> | panic
    asmreq <startAddress> <size>    → parsed | parse-err | panic       (the two JSON string fields)
    bpfunc <aTok> <sTok> <addr>     → sym <addr> <size> | none | panic
    bppublic <aTok> <addr>          → sym <addr> <size|none> | none | panic
    bpline <a> <s> <line> <file> <addr>  → line <n|none> | none | panic
    bpinline <depth> <a> <s> <addr> → frames <n> | none | panic

    bpmap <sym> <symindex> [<intent>|<ties>] <addr|iter>*
                                    → served notbreakpad | served nomodule | served panic
                                      | served id <DEBUGID> ; <look> ; <look> ; …   one `.sym` text served with a stored index;
                                        `<DEBUGID>` = `map.debug_id().breakpad()`, the id the served map REPORTS (`BPC.servedId`:
                                        the last MODULE line of the module info of the index in use — a sidecar with a second
                                        MODULE line would report another build than the text it serves, fix d2664d76)
                                        (own / of another file with the same or another MODULE line / corrupted);
                                        which index the map uses is C10's `BP.mapStored` (`BPC.serve`); lookups on ONE map;
                                        <look> = none | panic
                                               | sym <addr> <size|none> <name> <n|none> [, frame <fn|none> <file|none> <line|none>]*
                                        an address `iter` = `iter_symbols()` collected at that point:
                                               iter <n> <addr>:<name>,… | iter panic   (`BPC.serveSession`)
                                        the token containing `|`: `<intent>` = what the generator meant (statistics only),
                                        `<ties>` = `s:<key>:<offset>,f:…,o:…` — C10's tie-break oracle for the index built
                                        from the text (file offset of the entry that survived `sort_unstable + dedup`,
                                        read off the implementation's own index when the case was generated)
    errjson <msg>                   → json <text>      `json!({"error": msg}).to_string()` = `JT.errorJson msg`
    badurl <path>                   → json <text> | known-path      `Api::query_api(path, "{}")` for a path that is
                                        none of the three endpoints = `JT.errorJson ("Unrecognized URL " ++ path)`
    apiresp <path> <body> <resp>    → resp <text>      the response text itself; `<resp>` = what the same call
                                        returned when the case was generated (the model echoes it: determinism);
                                        the judge runs the independent recogniser `JT.acceptable path text` on
                                        the implementation's line (clauses (a), (b))

Exploration operations (third-party parsers in the loop; the model only states the property: the call
returns): `file …` → `set`; `api <path> <body>`, `lookup …`, `symcreate …`, `debugid …`, `bigsym …` → `fine`
(`debugid <s>` with `s` a non-empty string of hex digits → `id-ok | id-err`, predicted by `BP.debugIdOk`).
The implementation prints `panic`, `hang`, `badjson`, `notobject`, `badshape <why>`, `short-listing …`,
`neg-offset`, `empty-frames`, `slow …` when the property is violated; the runner prints `crash:<how>` for a
case whose child process died (stack overflow, out of memory, abort).
-/
namespace C08
open PK Proto

def natsHex (bs : List Nat) : String := bytesHex (bs.map UInt8.ofNat)

def showErrKind : SymErr → String
  | .fileTooSmallForHeader => "FileTooSmallForHeader"
  | .wrongMagic => "WrongMagicBytes"
  | .couldntReadModuleInfo => "CouldntReadModuleInfoBytes"
  | .couldntParseModuleInfo => "CouldntParseModuleInfoLine"
  | .fileListOverflow => "FileListByteLenOverflow"
  | .couldntReadFileList => "CouldntReadFileListBytes"
  | .inlineOriginOverflow => "InlineOriginListByteLenOverflow"
  | .couldntReadInlineOrigins => "CouldntReadInlineOriginListBytes"
  | .symbolAddressOverflow => "SymbolAddressListByteLenOverflow"
  | .couldntReadSymbolAddresses => "CouldntReadSymbolAddressListBytes"
  | .symbolEntryOverflow => "SymbolEntryListByteLenOverflow"
  | .couldntReadSymbolEntries => "CouldntReadSymbolEntryListBytes"

def render {ε α : Type} (r : Res ε α) (okS : α → String) (errS : ε → String) : String :=
  match r with
  | .ok v => okS v
  | .err e => errS e
  | .panic => "panic"

def showCodeId : CodeIdV → String
  | .pe t z => s!"ok pe {t} {z}"
  | .macho bs => s!"ok macho {natsHex bs}"
  | .elf bs => s!"ok elf {natsHex bs}"

def showPath : MappedPathV → String
  | .git a b c => s!"ok git {bytesHex a} {bytesHex b} {bytesHex c}"
  | .hg a b c => s!"ok hg {bytesHex a} {bytesHex b} {bytesHex c}"
  | .s3 a b c => s!"ok s3 {bytesHex a} {bytesHex b} {bytesHex c}"
  | .cargo a b c d => s!"ok cargo {bytesHex a} {bytesHex b} {bytesHex c} {bytesHex d}"

def optHex : Option (List UInt8) → String
  | none => "none"
  | some b => bytesHex b

def showLook : BP.Look → String
  | .panic => "panic"
  | .none => "none"
  | .found r =>
    let n := match r.frames with | none => "none" | some fs => toString fs.length
    let frs := (r.frames.getD []).map fun f => s!" , frame {optHex f.function} {optHex f.file} {optNat f.line}"
    s!"sym {r.symAddr} {optNat r.size} {bytesHex r.name} {n}" ++ String.join frs

/-- `<intent>|s:<key>:<offset>,f:<key>:<offset>,o:<key>:<offset>,…` → C10's tie-break oracle (0 = first candidate
for a key without an entry) -/
def pickOfToken (tok : String) : BP.Pick :=
  let ties : List (String × Nat × Nat) :=
    ((tok.splitOn "|").getD 1 "").splitOn "," |>.filterMap fun e =>
      match e.splitOn ":" with
      | [t, k, o] => some (t, nat! k, nat! o)
      | _ => none
  let f (t : String) (k : Nat) : Nat :=
    match ties.find? (fun e => e.1 = t ∧ e.2.1 = k) with
    | some e => e.2.2
    | none => 0
  ⟨f "s", f "f", f "o"⟩

def upperHexByte (b : UInt8) : UInt8 := if 97 ≤ b.toNat ∧ b.toNat ≤ 102 then b - 32 else b

/-- `DebugId::breakpad()` display of the id token of a MODULE line (debugid-0.8.0 lib.rs:378-390): the 32 (or, for
the 9..16-digit PDB 2.0 form, 8) leading digits in upper case, then the age in lower-case hex without leading
zeros (same rendering as C10's driver) -/
def debugIdString (id : List UInt8) : String :=
  let k := if 9 ≤ id.length ∧ id.length ≤ 16 then 8 else 32
  String.ofList (((id.take k).map upperHexByte).map (fun b => Char.ofNat b.toNat))
    ++ String.ofList (Nat.toDigits 16 (BP.hexValue (id.drop k)))

def showId : Option (List UInt8) → String
  | some id => "id " ++ debugIdString id
  | none => "id ?"

/-- `id` = the debug id the served map reports (`BPC.servedId`) -/
def showServed (id : Option (List UInt8)) : BPC.Served → String
  | .noModule => "served nomodule"
  | .mapPanic => "served panic"
  | .notBreakpad => "served notbreakpad"
  | .looks ls => "served " ++ " ; ".intercalate (showId id :: ls.map showLook)
  | .session pre names post =>
    let it := match names with
      | none => "iter panic"
      | some ns =>
        if ns.isEmpty then "iter 0"
        else s!"iter {ns.length} " ++ ",".intercalate (ns.map fun p => s!"{p.1}:{bytesHex p.2}")
    "served " ++ " ; ".intercalate (showId id :: (pre.map showLook ++ [it] ++ post.map showLook))

def modelOp (l : String) : String :=
  match words l with
  | ["codeid", s] => render (codeIdFromStr (hexBytes s)) showCodeId (fun _ => "err")
  | ["pecodeid", s] => render (peCodeIdFromStr (hexBytes s)) (fun p => s!"ok {p.1} {p.2}") (fun _ => "err")
  | ["elfbuildid", s] => render (elfBuildIdFromStr (hexBytes s)) (fun bs => s!"ok {natsHex bs}") (fun _ => "err")
  | ["specialpath", s] => render (specialPath (hexBytes s)) showPath (fun _ => "err")
  | ["symindex", ok, d] =>
    -- the panic kernel (error kinds; module-info parse = oracle bit) and, independently of that bit, the
    -- byte-exact parser of `Model/BreakpadIndex.lean` (module-info parse modelled) must agree on acceptance
    -- and on the four counts
    let bs := hexBytes d
    let r := parseSymindex bs (ok == "1")
    let agree : Bool := match r, BP.parseSymindex bs with
      | .ok i, some ix => i.moduleInfoLen == ix.moduleInfo.length && i.files == ix.files.length
          && i.inlineOrigins == ix.origins.length && i.symbols == ix.addrs.length
      | .ok _, none => false
      | .err _, none => true
      | .err _, some _ => false
      | .panic, _ => true
    if !agree then "models-disagree" else
    render r
      (fun i => s!"ok {i.moduleInfoLen} {i.files} {i.inlineOrigins} {i.symbols}")
      (fun e => s!"err {showErrKind e}")
  | ["asmreq", a, b] =>
    match fromPrefixedHexStr (hexBytes a), fromPrefixedHexStr (hexBytes b) with
    | .panic, _ => "panic"
    | _, .panic => "panic"
    | .ok _, .ok _ => "parsed"
    | _, _ => "parse-err"
  | ["bpfunc", a, s, addr] =>
    render (bpFunc false (hexBytes a) (hexBytes s) (nat! addr))
      (fun o => match o with | some (x, y) => s!"sym {x} {y}" | none => "none") (fun _ => "err")
  | ["bppublic", a, addr] =>
    render (bpPublic (hexBytes a) (nat! addr))
      (fun o => match o with | some (x, y) => s!"sym {x} {optNat y}" | none => "none") (fun _ => "err")
  | ["bpline", a, s, ln, f, addr] =>
    render (bpLine (hexBytes a) (hexBytes s) (hexBytes ln) (hexBytes f) (nat! addr))
      (fun o => match o with | some x => s!"line {optNat x}" | none => "none") (fun _ => "err")
  | ["bpinline", d, a, s, addr] =>
    render (bpInline (hexBytes d) (hexBytes a) (hexBytes s) (nat! addr))
      (fun o => match o with | some n => s!"frames {n}" | none => "none") (fun _ => "err")
  | "bpmap" :: t :: i :: rest =>
    let pick := pickOfToken ((rest.find? (·.contains '|')).getD "|")
    let addrs := rest.filter (fun w => !w.contains '|')
    let id := BPC.servedId pick (hexBytes t) (hexBytes i)
    if addrs.contains "iter" then
      showServed id (BPC.serveSession pick (hexBytes t) (hexBytes i) ((addrs.takeWhile (· != "iter")).map nat!)
        (((addrs.dropWhile (· != "iter")).drop 1).map nat!))
    else showServed id (BPC.serve pick (hexBytes t) (hexBytes i) (addrs.map nat!))
  | ["errjson", m] => s!"json {bytesHex (JT.errorJson (hexBytes m))}"
  | ["badurl", p] =>
    match JT.dispatch (hexBytes p) with
    | some _ => "known-path"
    | none => s!"json {bytesHex (JT.queryApiText (hexBytes p) (fun _ => .ok []))}"
  | ["apiresp", _, _, r] => s!"resp {r}"
  | "file" :: _ => "set"
  | "api" :: _ => "fine"
  | "lookup" :: _ => "fine"
  | "symcreate" :: _ => "fine"
  | ["debugid", s] =>
    -- for a non-empty string of hex digits the outcome of the third-party `DebugId::from_breakpad` is modelled
    -- (`BP.debugIdOk`, the model the module-info parse of `.symindex` files relies on); otherwise only "returns"
    let bs := hexBytes s
    if !bs.isEmpty && bs.all (fun b => (BP.hexVal b).isSome) then (if BP.debugIdOk bs then "id-ok" else "id-err")
    else "fine"
  | "debugid" :: _ => "fine"
  | "bigsym" :: _ => "fine"
  | _ => "bad-op"

def model (ls : List String) : List String := ls.map modelOp

def opKind (l : String) : String := (words l).headD "?"

/-- The judge evaluates the statement of C08 on the implementation's own outcome lines only: one
outcome per operation; no `panic`, no `hang`; every API response a JSON object (the harness prints
`badjson` / `notobject` otherwise); every other outcome is a value or a clean error. It does not look at
the model's values (those are the correspondence check's business). -/
def judge (ops impl : List String) : Bool × String :=
  let rec go (k : Nat) (ops outs : List String) : Bool × String :=
    match ops, outs with
    | [], [] => (true, "ok")
    | o :: os, r :: rs =>
      let kind := opKind o
      let w := words r
      if w.isEmpty then (false, s!"[empty] op {k} ({kind}): no outcome") else
      if r.startsWith "crash:" then (false, s!"[crash] op {k} ({kind}): the process running the case died ({r})") else
      if w.contains "panic" then (false, s!"[panic] op {k} ({kind}): the implementation panicked") else
      if w.contains "hang" then (false, s!"[hang] op {k} ({kind}): no answer within the watchdog time") else
      if w.head? = some "badjson" then (false, s!"[badjson] op {k} ({kind}): response is not valid JSON") else
      if w.head? = some "notobject" then (false, s!"[notobject] op {k} ({kind}): response is not a JSON object") else
      if w.head? = some "badshape" then (false, s!"[badshape] op {k} ({kind}): response is neither a result of the endpoint nor an object with an error message ({r})") else
      if w.head? = some "short-listing" then (false, s!"[short-listing] op {k} ({kind}): /asm/v1 listed fewer bytes than requested and available ({r})") else
      if w.head? = some "slow" then (false, s!"[slow] op {k} ({kind}): time far beyond n log n for the input size ({r})") else
      if w.head? = some "bad-op" then (false, s!"[bad-op] op {k} ({kind}): harness did not understand the operation") else
      if kind == "apiresp" && !(match words o, w with
          | [_, p, _, _], ["resp", t] => JT.acceptable (hexBytes p) (hexBytes t)
          | _, _ => false) then
        (false, s!"[not-json-response] op {k} ({kind}): the response text is not a JSON object that is a result of the endpoint or carries an error message (RFC 8259 recogniser)")
      else
      if kind == "debugid" && (r == "id-ok" || r == "id-err") then go (k + 1) os rs else
      if (kind == "api" || kind == "lookup" || kind == "symcreate" || kind == "debugid" || kind == "bigsym") && r ≠ "fine" then
        (false, s!"[unexpected] op {k} ({kind}): outcome {r}")
      else go (k + 1) os rs
    | _, _ => (false, s!"[count] {ops.length} operations but {impl.length} outcomes (a call did not return)")
  go 0 ops impl

end C08
