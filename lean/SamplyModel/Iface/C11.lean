import SamplyModel.Proto
import SamplyModel.Model.LibMappings
import SamplyModel.Model.ProfileThreads
/-!
Line protocol for C11. The first line selects what is driven.

`mode table`    the public `LibMappings<u32>` type, call by call
  ops:  `add <start> <end> <rel> <value>` | `remove <start>` | `clear` | `probe <addr>*` | `dump`
  out:  add → `ok` | `panic` (state unchanged);  remove → `removed -` | `removed <rel> <value>`;  clear → `ok`;
        probe → `res <tok>*`, one token per address: `<lookup>/<convert>` with lookup = `-` | `<value>` and
        convert = `-` | `<value>:<rel>` | `!` (panic);
        dump → `ents <start>:<end>:<rel>:<value>*` (the stored entries in key order, from the derived `Debug` output)

`mode profile`  the public `Profile` API with 3 processes (one thread each); library `v` is `LibraryInfo{name: "lib<v>"}`
  ops:  `kadd <start> <end> <rel> <v>` | `kremove <start>` | `padd <p> <start> <end> <rel> <v>` | `premove <p> <start>`
        | `pclear <p>` | `frame <p> ip|ra|ara <addr>`
  out:  mapping calls → `ok` | `panic`;  frame → `frame unknown <addr>` | `frame lib <v> <rel>` | `frame panic`
        (read back from the serialized profile: sample → stackTable.frame → frameTable.address / func →
        funcTable.resource / name → resourceTable.lib → libs[..].name)

`mode threads`  the public `Profile` API with processes and threads created by the case itself; handles are written as
                their index (the harness checks the `Debug` form of every handle it is given against it and mints
                handles that were never handed out from a second, larger `Profile`)
  ops:  `proc` | `thread <p>` | `kadd ..` | `kremove ..` | `padd <p> ..` | `premove <p> ..` | `pclear <p>` (as above)
        | `frame <t> <addr>` = `handle_for_frame_with_address(thread t, ..)`
        | `fsym <t> <nt> <addr>` = `handle_for_native_symbol(thread nt, ..)`, then
          `handle_for_frame_with_address_and_symbol(thread t, .., native symbol, ..)`
        with `<addr>` = `ip|ra|ara <avma>` | `rip|rra|rara <v> <rel>` (the `RelativeAddressFrom*` variants)
        | `pdump` = the profile's own tables, recovered from the derived `Debug` output of `Profile`
  out:  proc / thread → `h <index>` | `panic`;  mapping calls → `ok` | `panic`;  frame / fsym → as in `mode profile`, or
        `frame orphan` for a thread whose `add_thread` call panicked (it exists but is never serialized);
        pdump → `tables k <start>:<end>:<rel>:<v>* p0 <..>* p1 <..>* ..` (kernel table, then every process's table, key order)

Addresses must be below 2^64, relative addresses below 2^32, process numbers below 3 (`mode threads`: process and
thread indices below 64), otherwise `bad-op`.
-/
namespace C11
open LM Proto

def u64Lim : Nat := 18446744073709551616
def nProc : Nat := 3

def parseAddr (s : String) : Option Nat := do
  let n ← s.toNat?
  if n < u64Lim then some n else none

def parseM (s e rel v : String) : Option M := do
  let s ← parseAddr s
  let e ← parseAddr e
  let rel ← rel.toNat?
  let v ← v.toNat?
  if rel < u32Lim then some ⟨s, e, rel, v⟩ else none

def parseProc (s : String) : Option Nat := do
  let p ← s.toNat?
  if p < nProc then some p else none

inductive TLine
  | op (o : Op)
  | probe (addrs : List Nat)
  | dump

def parseT (l : String) : Option TLine :=
  match words l with
  | ["add", s, e, rel, v] => (parseM s e rel v).map (fun m => .op (.add m))
  | ["remove", s] => (parseAddr s).map (fun s => .op (.remove s))
  | ["clear"] => some (.op .clear)
  | "probe" :: addrs => (addrs.mapM parseAddr).map .probe
  | ["dump"] => some .dump
  | _ => none

def parseP (l : String) : Option POp :=
  match words l with
  | ["kadd", s, e, rel, v] => (parseM s e rel v).map .kadd
  | ["kremove", s] => (parseAddr s).map .kremove
  | ["padd", p, s, e, rel, v] => do
    let p ← parseProc p
    let m ← parseM s e rel v
    pure (.padd p m)
  | ["premove", p, s] => do
    let p ← parseProc p
    let s ← parseAddr s
    pure (.premove p s)
  | ["pclear", p] => (parseProc p).map .pclear
  | ["frame", p, kind, a] => do
    let p ← parseProc p
    let a ← parseAddr a
    match kind with
    | "ip" => pure (.frame p (.ip a))
    | "ra" => pure (.frame p (.ra a))
    | "ara" => pure (.frame p (.ara a))
    | _ => none
  | _ => none

def parseIdx (s : String) : Option Nat := do
  let p ← s.toNat?
  if p < 64 then some p else none

def parseFrameAddrX (ws : List String) : Option FrameAddrX :=
  match ws with
  | ["ip", a] => (parseAddr a).map (fun a => .abs (.ip a))
  | ["ra", a] => (parseAddr a).map (fun a => .abs (.ra a))
  | ["ara", a] => (parseAddr a).map (fun a => .abs (.ara a))
  | [kind, v, rel] => do
    let v ← v.toNat?
    let rel ← rel.toNat?
    if rel < u32Lim then
      match kind with
      | "rip" => pure (.relIp v rel)
      | "rra" => pure (.relRa v rel)
      | "rara" => pure (.relAra v rel)
      | _ => none
    else none
  | _ => none

def parseTh (l : String) : Option TOp :=
  match words l with
  | ["proc"] => some .newProc
  | ["thread", p] => (parseIdx p).map .newThread
  | ["kadd", s, e, rel, v] => (parseM s e rel v).map .kadd
  | ["kremove", s] => (parseAddr s).map .kremove
  | ["padd", p, s, e, rel, v] => do
    let p ← parseIdx p
    let m ← parseM s e rel v
    pure (.padd p m)
  | ["premove", p, s] => do
    let p ← parseIdx p
    let s ← parseAddr s
    pure (.premove p s)
  | ["pclear", p] => (parseIdx p).map .pclear
  | "frame" :: t :: rest => do
    let t ← parseIdx t
    let fa ← parseFrameAddrX rest
    pure (.frame t fa)
  | "fsym" :: t :: nt :: rest => do
    let t ← parseIdx t
    let nt ← parseIdx nt
    let fa ← parseFrameAddrX rest
    pure (.frameSym t nt fa)
  | _ => none

inductive ThLine
  | op (o : TOp)
  | dump

def parseThLine (l : String) : Option ThLine :=
  match words l with
  | ["pdump"] => some .dump
  | _ => (parseTh l).map .op

inductive Parsed
  | table (ls : List TLine)
  | profile (ls : List POp)
  | threads (ls : List ThLine)

def parse (ls : List String) : Option Parsed :=
  match ls with
  | h :: rest =>
    match words h with
    | ["mode", "table"] => (rest.mapM parseT).map .table
    | ["mode", "profile"] => (rest.mapM parseP).map .profile
    | ["mode", "threads"] => (rest.mapM parseThLine).map .threads
    | _ => none
  | [] => none

/-! ### model output -/

def convTok : Conv → String
  | .none => "-"
  | .ok rel v => s!"{v}:{rel}"
  | .panic => "!"

def probeTok (mp : Map) (a : Nat) : String :=
  let l := match lookup mp a with
    | none => "-"
    | some v => toString v
  s!"{l}/{convTok (convertAddress mp a)}"

def removedLine : Option M → String
  | none => "removed -"
  | some m => s!"removed {m.rel} {m.v}"

def entTok (m : M) : String := s!"{m.s}:{m.e}:{m.rel}:{m.v}"

def entsLine (mp : List M) : String := " ".intercalate ("ents" :: mp.map entTok)

def modelTable (ls : List TLine) : List String :=
  let rec go (t : Table) (ls : List TLine) (acc : List String) : List String :=
    match ls with
    | [] => acc.reverse
    | .probe addrs :: r => go t r ((" ".intercalate ("res" :: addrs.map (probeTok t.map))) :: acc)
    | .dump :: r => go t r (entsLine t.map :: acc)
    | .op o :: r =>
      let line := match o with
        | .add _ => if stepSafe t o then "ok" else "panic"
        | .remove s => removedLine (removeOut t.map s)
        | .clear => "ok"
      go (step t o) r (line :: acc)
  go Table.empty ls []

def resolvedLine : Resolved → String
  | .unknown a => s!"frame unknown {a}"
  | .inLib rel v => s!"frame lib {v} {rel}"
  | .panic => "frame panic"

def popSafe (st : PState) : POp → Bool
  | .kadd x => stepSafe st.kernel (.add x)
  | .padd p x => stepSafe (st.procs p) (.add x)
  | _ => true

def modelProfile (ls : List POp) : List String :=
  let rec go (st : PState) (ls : List POp) (acc : List String) : List String :=
    match ls with
    | [] => acc.reverse
    | o :: r =>
      let line := match o with
        | .frame p fa => resolvedLine (resolveFrame st.kernel.map (st.procs p).map fa)
        | _ => if popSafe st o then "ok" else "panic"
      go (pstep st o) r (line :: acc)
  go PState.init ls []

def isFrameOp : TOp → Option Nat
  | .frame t _ => some t
  | .frameSym t _ _ => some t
  | _ => none

def toutLine (orphan : Bool) (isFrame : Bool) : TOut → String
  | .ok => "ok"
  | .panic => if isFrame then "frame panic" else "panic"
  | .handle n => s!"h {n}"
  | .res r => if orphan then "frame orphan" else resolvedLine r

/-- `tables k <ents> p0 <ents> p1 <ents> ..` -/
def tablesLine (kernel : List M) (procs : List (List M)) : String :=
  let rec ptoks (i : Nat) (ps : List (List M)) : List String :=
    match ps with
    | [] => []
    | mp :: r => (s!"p{i}" :: mp.map entTok) ++ ptoks (i + 1) r
  " ".intercalate (("tables" :: "k" :: kernel.map entTok) ++ ptoks 0 procs)

def modelThreads (ls : List ThLine) : List String :=
  let rec go (st : TState) (orphans : List Nat) (ls : List ThLine) (acc : List String) : List String :=
    match ls with
    | [] => acc.reverse
    | .dump :: r => go st orphans r (tablesLine st.kernel.map (st.procs.map (·.map)) :: acc)
    | .op o :: r =>
      let (st', out) := tstep st o
      let orphans' := match o, out with
        | .newThread _, .panic => st.threads.length :: orphans
        | _, _ => orphans
      let line := match isFrameOp o with
        | some t => toutLine (orphans.contains t) true out
        | none => toutLine false false out
      go st' orphans' r (line :: acc)
  go TState.init [] ls []

def model (ls : List String) : List String :=
  match parse ls with
  | none => ["bad-op"]
  | some (.table t) => modelTable t
  | some (.profile p) => modelProfile p
  | some (.threads t) => modelThreads t

/-! ### judge

Evaluates the statement of C11 on the implementation's own output. The only reference is the bare history:
`LM.resolveSpec` / `LM.liveSpec` (most recently added mapping covering the address that no later clear / remove of
its start / intersecting add has ended). Scope of the statement: non-empty ranges — the judge stops at the first
`add` with `end ≤ start` (everything before it is judged; model and code are still compared on the rest) — and
relative addresses within 32 bits — where `rel_start + (addr − start) ≥ 2^32` the relative address / panic outcome is
not judged (the value returned by `lookup` still is). -/

def splitTok (t : String) : String × String :=
  match t.splitOn "/" with
  | [l, c] => (l, c)
  | _ => ("?", "?")

def judgeProbeTok (hist : List Op) (a : Nat) (tok : String) : Option String :=
  let (l, c) := splitTok tok
  match resolveSpec hist a with
  | none =>
    if l = "-" ∧ c = "-" then none
    else some s!"address {a} is covered by no live mapping but resolved to {tok}"
  | some m =>
    if l ≠ toString m.v then
      some s!"lookup({a}) = {l}, newest live mapping covering it is [{m.s},{m.e}) value {m.v}"
    else if relSpec m a < u32Lim then
      if c = s!"{m.v}:{relSpec m a}" then none
      else some s!"convert_address({a}) = {c}, expected {m.v}:{relSpec m a} from [{m.s},{m.e}) rel {m.rel}"
    else none

def judgeTable (ls : List TLine) (outs : List String) : Bool × String :=
  let rec go (hist : List Op) (ls : List TLine) (outs : List String) (k : Nat) : Bool × String :=
    match ls, outs with
    | [], [] => (true, "ok")
    | .probe addrs :: r, o :: os =>
      match words o with
      | "res" :: toks =>
        if toks.length ≠ addrs.length then (false, s!"line {k}: wrong number of probe results") else
        match (addrs.zip toks).findSome? (fun (a, t) => judgeProbeTok hist a t) with
        | some why => (false, s!"line {k}: {why}")
        | none => go hist r os (k + 1)
      | _ => (false, s!"line {k}: bad probe output {o}")
    | .dump :: r, o :: os =>
      -- the implementation's own table: exactly the live mappings of the history, ordered, pairwise disjoint
      let expected := (liveSpec hist).mergeSort (fun a b => a.s ≤ b.s)
      let disjoint := (expected.zip (expected.drop 1)).all (fun (a, b) => a.e ≤ b.s)
      if o ≠ entsLine expected then
        (false, s!"line {k}: table is '{o}', live mappings of the history are '{entsLine expected}'")
      else if !disjoint then (false, s!"line {k}: stored mappings overlap: {o}")
      else go hist r os (k + 1)
    | .op (.add x) :: r, o :: os =>
      if x.e ≤ x.s then (true, "ok (judged up to the first empty-range add, which is outside the statement)")
      else if o ≠ "ok" then (false, s!"line {k}: add [{x.s},{x.e}) answered {o}")
      else go (hist ++ [.add x]) r os (k + 1)
    | .op (.remove s) :: r, o :: os =>
      let expected := removedLine ((liveSpec hist).find? (fun m => m.s == s))
      if o ≠ expected then (false, s!"line {k}: remove {s} answered '{o}', live mapping starting there: '{expected}'")
      else go (hist ++ [.remove s]) r os (k + 1)
    | .op .clear :: r, o :: os =>
      if o ≠ "ok" then (false, s!"line {k}: clear answered {o}") else go (hist ++ [.clear]) r os (k + 1)
    | _, _ => (false, "number of output lines differs from number of operations")
  go [] ls outs 1

def addOf : POp → Option M
  | .kadd x => some x
  | .padd _ x => some x
  | _ => none

def judgeFrame (hist : List POp) (p : Nat) (fa : FrameAddr) (o : String) : Option String :=
  let a := fa.specAddr
  let expectLib (m : M) (which : String) : Option String :=
    if relSpec m a < u32Lim then
      if o = s!"frame lib {m.v} {relSpec m a}" then none
      else some s!"'{o}' but address {a} lies in {which} mapping [{m.s},{m.e}) rel {m.rel} lib {m.v}: expected 'frame lib {m.v} {relSpec m a}'"
    else none
  match resolveSpec (kernelOps hist) a with
  | some m => expectLib m "live kernel"
  | none =>
    match resolveSpec (procOps p hist) a with
    | some m => expectLib m s!"process {p}'s live"
    | none =>
      if o = s!"frame unknown {a}" then none
      else some s!"'{o}' but address {a} is covered by no live kernel mapping and no live mapping of process {p}"

def judgeProfile (ls : List POp) (outs : List String) : Bool × String :=
  let rec go (hist : List POp) (ls : List POp) (outs : List String) (k : Nat) : Bool × String :=
    match ls, outs with
    | [], [] => (true, "ok")
    | .frame p fa :: r, o :: os =>
      match judgeFrame hist p fa o with
      | some why => (false, s!"line {k}: {why}")
      | none => go (hist ++ [.frame p fa]) r os (k + 1)
    | op :: r, o :: os =>
      match addOf op with
      | some x =>
        if x.e ≤ x.s then (true, "ok (judged up to the first empty-range add, which is outside the statement)")
        else if o ≠ "ok" then (false, s!"line {k}: add [{x.s},{x.e}) answered {o}")
        else go (hist ++ [op]) r os (k + 1)
      | none =>
        if o ≠ "ok" then (false, s!"line {k}: answered {o}") else go (hist ++ [op]) r os (k + 1)
    | _, _ => (false, "number of output lines differs from number of operations")
  go [] ls outs 1

/-- `mode threads`: the only references are the bare history's projections — `threadOwner` (the process passed to
the `t`-th `thread` line), `procCount` / `owners` (how many handles were handed out), `mappingOps` (the mapping calls,
then `kernelOps` / `procOps` / `resolveSpec` as in `mode profile`). Scope: handles that were handed out (the judge
stops at the first call that passes any other handle), non-empty ranges, relative addresses within 32 bits. -/
def judgeFrameX (hist : List TOp) (t : Nat) (fa : FrameAddrX) (o : String) : Option String :=
  match threadOwner hist t with
  | none => some s!"thread {t} was never created"
  | some p =>
    match fa with
    | .abs a => judgeFrame (mappingOps hist) p a o
    | .relIp v rel => if o = s!"frame lib {v} {rel}" then none else some s!"'{o}' for relative address {rel} in lib {v}"
    | .relAra v rel => if o = s!"frame lib {v} {rel}" then none else some s!"'{o}' for relative address {rel} in lib {v}"
    | .relRa v rel =>
      if o = s!"frame lib {v} {rel - 1}" then none
      else some s!"'{o}' for relative return address {rel} in lib {v}: expected one byte earlier"

def sortedLive (h : List Op) : List M := (liveSpec h).mergeSort (fun a b => a.s ≤ b.s)

def disjointSorted (l : List M) : Bool := (l.zip (l.drop 1)).all (fun (a, b) => a.e ≤ b.s)

def judgeThreads (ls : List ThLine) (outs : List String) : Bool × String :=
  let rec go (hist : List TOp) (ls : List ThLine) (outs : List String) (k : Nat) : Bool × String :=
    match ls, outs with
    | [], [] => (true, "ok")
    | .dump :: r, o :: os =>
      -- the profile's own tables: the kernel table and the table of every process handed out so far hold exactly the
      -- live mappings of their history, ordered by start, pairwise disjoint
      let mh := mappingOps hist
      let kernel := sortedLive (kernelOps mh)
      let procs := (List.range (procCount hist)).map (fun p => sortedLive (procOps p mh))
      if o ≠ tablesLine kernel procs then
        (false, s!"line {k}: the profile's tables are '{o}', live mappings of the history are '{tablesLine kernel procs}'")
      else if !(disjointSorted kernel && procs.all disjointSorted) then
        (false, s!"line {k}: stored mappings overlap: {o}")
      else go hist r os (k + 1)
    | .op op :: r, o :: os =>
      if !handlesOk hist op then
        (true, "ok (judged up to the first call with a handle that was never handed out, which is outside the statement)")
      else
        let next := fun (_ : Unit) => go (hist ++ [op]) r os (k + 1)
        match op with
        | .newProc =>
          if o = s!"h {procCount hist}" then next ()
          else (false, s!"line {k}: add_process returned '{o}' after {procCount hist} earlier processes")
        | .newThread _ =>
          if o = s!"h {(owners hist).length}" then next ()
          else (false, s!"line {k}: add_thread returned '{o}' after {(owners hist).length} earlier threads")
        -- frame creations are not part of the history any clause looks at (`owners`, `procCount`, `mappingOps`
        -- ignore them): they are judged and not recorded
        | .frame t fa =>
          match judgeFrameX hist t fa o with
          | some why => (false, s!"line {k}: thread {t}: {why}")
          | none => go hist r os (k + 1)
        | .frameSym t _ fa =>
          match judgeFrameX hist t fa o with
          | some why => (false, s!"line {k}: thread {t} (with symbol): {why}")
          | none => go hist r os (k + 1)
        | _ =>
          match op.toPOp.bind addOf with
          | some x =>
            if x.e ≤ x.s then (true, "ok (judged up to the first empty-range add, which is outside the statement)")
            else if o ≠ "ok" then (false, s!"line {k}: add [{x.s},{x.e}) answered {o}")
            else next ()
          | none => if o ≠ "ok" then (false, s!"line {k}: answered {o}") else next ()
    | _, _ => (false, "number of output lines differs from number of operations")
  go [] ls outs 1

def judge (ops impl : List String) : Bool × String :=
  match parse ops with
  | none => (false, "bad-op")
  | some (.table t) => judgeTable t impl
  | some (.profile p) => judgeProfile p impl
  | some (.threads t) => judgeThreads t impl

end C11
