import SamplyModel.Proto
import SamplyModel.Model.BreakpadIndex
import SamplyModel.Model.BreakpadSpec
import SamplyModel.Model.BreakpadWholesym
/-!
Line protocol for C10 (all numbers decimal; `<hex>` lower-case hex, `-` = empty).

ops
    family <name>
    reading <0|1>
    l <hex> <kind> <fields…>       one line of the .sym text (bytes incl. terminator) + the abstract record it renders:
        module <os> <arch> <id> <name> | info <rest> | file <idx> <name> | origin <idx> <name>
        public <m> <addr> <psize> <name> | func <m> <addr> <size> <psize> <name>
        line <addr> <size> <line> <file> | inline <depth> <callLine> <callFile> <origin> (<addr> <size>)+
        stack | junk
    rep <count> <hex> junk         the bytes repeated
    tiebreak <sym|file|origin> <key> <offset>
    part <cut>*  |  partsize <n>   partitions of the text (the first one is `part` = one chunk)
    lookup <addr>*                 lookups, in this order (addresses may repeat, later passes are not ascending)
    itersyms                       `iter_symbols()` on the map at this point of the lookup sequence
    stored <kind> <hex>            another symbol map over the same text that is offered these bytes as `.symindex`
                                   (kind: empty | trunc | magic | counts | foreign | foreign-module | foreign-prefix | two-module | two-module-sameid | garbage | padded)
    wholesym fresh                 the text as a local `.sym` file under a wholesym `SymbolManager` with a symindex
    wholesym stale <kind> <hex>    cache directory; `stale`: a `.symindex` file with these bytes exists already

out
    part <i> <ok|err|panic> <len> <fnv>
    bytes <hex> / hdr … / modinfo <hex> / file … / origin … / sym <addr> <kind> <len> <offset>
    roundtrip <ok|err> <reserLen> <reserFnv> <same|diff>
    selfmap <ok <debugid>|err:notbreakpad|err:nomodule|panic>, look …, frame …
    storedmap …, slook …, sframe …
    iter <addr> <namehex> / siter …                      after an `itersyms` op (`iter panic` if it panicked)
    x<k>map …, x<k>look …, x<k>frame …, x<k>iter …       the k-th `stored` op
    w<k>map …, w<k>look …, w<k>frame …, w<k>iter …, w<k>index <absent|panic|<len> <fnv>>   the k-th `wholesym` op

The model uses only `l`/`rep` (text bytes), `tiebreak`, `part`/`partsize`, `lookup`. The judge uses the
abstract records and the implementation's output, never the model's mechanism (see `judge`).
-/
namespace C10
open Proto BP

/-! ### parsing the ops -/

def hexNib (c : Char) : Nat :=
  if '0' ≤ c ∧ c ≤ '9' then c.toNat - 48
  else if 'a' ≤ c ∧ c ≤ 'f' then c.toNat - 87
  else if 'A' ≤ c ∧ c ≤ 'F' then c.toNat - 55
  else 0

/-- tail-recursive hex decoder (the lines can be very long) -/
def unhexInto (acc : Array UInt8) (s : String) : Array UInt8 :=
  if s = "-" then acc else
  let rec go (cs : List Char) (acc : Array UInt8) : Array UInt8 :=
    match cs with
    | a :: b :: rest => go rest (acc.push (UInt8.ofNat (hexNib a * 16 + hexNib b)))
    | _ => acc
  go s.toList acc

def unhex (s : String) : List UInt8 := (unhexInto #[] s).toList

def hexOf (bs : List UInt8) : String :=
  if bs.isEmpty then "-" else
  String.ofList (bs.foldr (fun b acc => hexNibble (b.toNat / 16) :: hexNibble (b.toNat % 16) :: acc) [])

inductive PartOp
  | cuts (cs : List Nat)
  | size (n : Nat)

/-- abstract record of one text line, as printed by the generator -/
inductive Rec
  | module (os arch id name : List UInt8)
  | info (rest : List UInt8)
  | file (idx : Nat) (name : List UInt8)
  | origin (idx : Nat) (name : List UInt8)
  | pub (m : Bool) (addr psize : Nat) (name : List UInt8)
  | func (m : Bool) (addr size psize : Nat) (name : List UInt8)
  | line (addr size line file : Nat)
  | inline (depth callLine callFile origin : Nat) (ranges : List (Nat × Nat))
  | stack
  | junk

/-- one text line: offset, raw bytes (with terminator), abstract record -/
structure TLine where
  off : Nat
  raw : List UInt8
  r : Rec

structure Case where
  family : String
  reading : Bool
  text : List UInt8
  lines : List TLine
  ties : List (String × Nat × Nat)
  parts : List PartOp
  lookups : List Nat
  /-- lookups and `itersyms` in op order: `some a` = lookup of `a`, `none` = iter_symbols -/
  actions : List (Option Nat)
  stored : List (String × List UInt8)
  ws : List (Option (String × List UInt8))

def pairs : List Nat → List (Nat × Nat)
  | a :: b :: rest => (a, b) :: pairs rest
  | _ => []

def parseRec (ws : List String) : Rec :=
  match ws with
  | ["module", os, arch, id, name] => .module (unhex os) (unhex arch) (unhex id) (unhex name)
  | ["info", r] => .info (unhex r)
  | ["file", i, n] => .file (nat! i) (unhex n)
  | ["origin", i, n] => .origin (nat! i) (unhex n)
  | ["public", m, a, p, n] => .pub (m = "1") (nat! a) (nat! p) (unhex n)
  | ["func", m, a, s, p, n] => .func (m = "1") (nat! a) (nat! s) (nat! p) (unhex n)
  | ["line", a, s, l, f] => .line (nat! a) (nat! s) (nat! l) (nat! f)
  | "inline" :: d :: cl :: cf :: o :: rest => .inline (nat! d) (nat! cl) (nat! cf) (nat! o) (pairs (rest.map nat!))
  | ["stack"] => .stack
  | _ => .junk

structure PState where
  family : String := ""
  reading : Bool := false
  text : Array UInt8 := #[]
  lines : Array TLine := #[]
  ties : Array (String × Nat × Nat) := #[]
  parts : Array PartOp := #[]
  lookups : Array Nat := #[]
  actions : Array (Option Nat) := #[]
  stored : Array (String × List UInt8) := #[]
  ws : Array (Option (String × List UInt8)) := #[]

def parseOp (st : PState) (l : String) : PState :=
  match words l with
  | ["family", f] => { st with family := f }
  | ["reading", r] => { st with reading := r = "1" }
  | "l" :: h :: rest =>
    let raw := unhexInto #[] h
    { st with lines := st.lines.push ⟨st.text.size, raw.toList, parseRec rest⟩, text := st.text ++ raw }
  | "rep" :: n :: h :: _ =>
    let raw := unhexInto #[] h
    let rec go (k : Nat) (t : Array UInt8) : Array UInt8 :=
      match k with
      | 0 => t
      | k + 1 => go k (t ++ raw)
    { st with text := go (nat! n) st.text }
  | ["tiebreak", t, k, o] => { st with ties := st.ties.push (t, nat! k, nat! o) }
  | "part" :: cs => { st with parts := st.parts.push (.cuts (cs.map nat!)) }
  | ["partsize", n] => { st with parts := st.parts.push (.size (nat! n)) }
  | "lookup" :: as =>
    { st with lookups := st.lookups ++ (as.map nat!).toArray,
              actions := st.actions ++ (as.map fun a => some (nat! a)).toArray }
  | ["itersyms"] => { st with actions := st.actions.push none }
  | ["stored", k, h] => { st with stored := st.stored.push (k, unhex h) }
  | ["wholesym", "fresh"] => { st with ws := st.ws.push none }
  | ["wholesym", "stale", k, h] => { st with ws := st.ws.push (some (k, unhex h)) }
  | _ => st

def parseCase (ls : List String) : Case :=
  let st := ls.foldl parseOp {}
  ⟨st.family, st.reading, st.text.toList, st.lines.toList, st.ties.toList, st.parts.toList, st.lookups.toList,
   st.actions.toList, st.stored.toList, st.ws.toList⟩

def pickOf (ties : List (String × Nat × Nat)) : Pick :=
  let f (t : String) (k : Nat) : Nat :=
    match ties.find? (fun e => e.1 = t ∧ e.2.1 = k) with
    | some e => e.2.2
    | none => 0
  ⟨f "sym", f "file", f "origin"⟩

/-- chunks of a `part` op: cuts clamped to the length and made non-decreasing -/
def cutChunks (text : List UInt8) (cuts : List Nat) : List (List UInt8) :=
  let len := text.length
  let rec go (rest : List UInt8) (pos : Nat) (cuts : List Nat) : List (List UInt8) :=
    match cuts with
    | [] => [rest]
    | c :: cs =>
      let c := max pos (min c len)
      rest.take (c - pos) :: go (rest.drop (c - pos)) c cs
  go text 0 cuts

def chunksFor (text : List UInt8) : PartOp → List (List UInt8)
  | .cuts cs => cutChunks text cs
  | .size n => chunksOf (max n 1) text.length text

/-! ### printing -/

def fnv (bs : List UInt8) : UInt64 :=
  bs.foldl (fun h b => (h ^^^ b.toUInt64) * 0x100000001b3) 0xcbf29ce484222325

def showOutcome (i : Nat) : Outcome → String
  | .panic => s!"part {i} panic 0 0"
  | .err => s!"part {i} err 0 0"
  | .ok b => s!"part {i} ok {b.length} {(fnv b).toNat}"

def optHex : Option (List UInt8) → String
  | none => "none"
  | some b => hexOf b

def showFrames (tag : String) (fs : List Frame) : List String :=
  fs.map fun f => s!"{tag} {optHex f.function} {optHex f.file} {optNat f.line}"

def showLook (p : String) (a : Nat) : Look → List String
  | .panic => [s!"{p}look {a} panic"]
  | .none => [s!"{p}look {a} none"]
  | .found r =>
    let n := match r.frames with | none => "none" | some fs => toString fs.length
    s!"{p}look {a} sym {r.symAddr} {optNat r.size} {hexOf r.name} {n}"
      :: showFrames (p ++ "frame") (r.frames.getD [])

def upperHexByte (b : UInt8) : UInt8 := if 97 ≤ b.toNat ∧ b.toNat ≤ 102 then b - 32 else b

def lowerHexNat (n : Nat) : String := String.ofList (Nat.toDigits 16 n)

/-- `DebugId::breakpad()` display of the id token of the MODULE line (debugid-0.8.0 lib.rs:378-390) -/
def debugIdString (id : List UInt8) : String :=
  let k := if 9 ≤ id.length ∧ id.length ≤ 16 then 8 else 32
  String.ofList (((id.take k).map upperHexByte).map (fun b => Char.ofNat b.toNat)) ++ lowerHexNat (hexValue (id.drop k))

/-- answers of `BP.lookup` / `BP.iterSymbols` for one index, computed once per distinct address and shared
by all maps of a case that hold the same index (pure memoisation of the driver; the functions evaluated
are `BP.lookup text ix a` and `BP.iterSymbols text ix`) -/
structure Table where
  ix : Index
  looks : List (Nat × Look)
  iter : Option (List (Nat × List UInt8))

def mkTable (text : List UInt8) (actions : List (Option Nat)) (ix : Index) : Table :=
  let addrs := (actions.filterMap id).eraseDups
  ⟨ix, addrs.map (fun a => (a, lookup text ix a)),
   if actions.any (·.isNone) then iterSymbols text ix else some []⟩

def tableFor (text : List UInt8) (actions : List (Option Nat)) (cache : List Table) (ix : Index) :
    List Table × Table :=
  match cache.find? (fun t => t.ix == ix) with
  | some t => (cache, t)
  | none => let t := mkTable text actions ix; (t :: cache, t)

/-- lines of one symbol map; `m` = tag of the map line, `pre` = prefix of `look` / `frame` / `iter` -/
def showMapT (m pre : String) (text : List UInt8) (actions : List (Option Nat)) (cache : List Table) :
    MapOutcome → List Table × List String
  | .panic => (cache, [s!"{m} panic"])
  | .notBreakpad => (cache, [s!"{m} err:notbreakpad"])
  | .noModule => (cache, [s!"{m} err:nomodule"])
  | .ok ix =>
    let id := match deriveModule ix.moduleInfo with | some m => debugIdString m.id | none => "?"
    let (cache, t) := tableFor text actions cache ix
    (cache, s!"{m} ok {id}" :: actions.flatMap fun
      | some a => showLook pre a ((t.looks.lookup a).getD .none)
      | none => match t.iter with
        | none => [s!"{pre}iter panic"]
        | some l => l.map fun (a, n) => s!"{pre}iter {a} {hexOf n}")

def showWsIdx (tag : String) : WsIdx → String
  | .panic => s!"{tag} panic"
  | .absent => s!"{tag} absent"
  | .file b => s!"{tag} {b.length} {(fnv b).toNat}"

def showIndex (bytes : List UInt8) : List String :=
  match parseSymindex bytes with
  | none =>
    -- cannot happen for bytes the creator produced (C10_roundtrip); print what a decoder would see
    [s!"bytes {hexOf bytes}", "undecodable", "roundtrip err 0 0 diff"]
  | some ix =>
    let h := match decHeader (bytes.take 48) with | some h => h | none => layout ix
    let re := serialize ix
    [s!"bytes {hexOf bytes}",
     s!"hdr {h.version} {h.miOff} {h.miLen} {h.fileCount} {h.fileOff} {h.originCount} {h.originOff} {h.symCount} {h.addrOff} {h.entOff}",
     s!"modinfo {hexOf ix.moduleInfo}"]
    ++ ix.files.map (fun e => s!"file {e.index} {e.lineLen} {e.offset}")
    ++ ix.origins.map (fun e => s!"origin {e.index} {e.lineLen} {e.offset}")
    ++ (ix.addrs.zip ix.entries).map (fun (a, e) => s!"sym {a} {e.kind} {e.len} {e.offset}")
    ++ [if serializeSafe ix then s!"roundtrip ok {re.length} {(fnv re).toNat} same" else "roundtrip panic 0 0 diff"]

def model (ls : List String) : List String :=
  let c := parseCase ls
  let pick := pickOf c.ties
  let outs := c.parts.map fun p => index pick (chunksFor c.text p)
  let partLines := (List.range outs.length).zip outs |>.map fun (i, o) => showOutcome i o
  let ixLines := match outs.head? with
    | some (.ok b) => showIndex b
    | _ => []
  let stored := match outs.getLast? with
    | some (.ok b) => some b
    | _ => none
  let maps : List (String × String × MapOutcome × List String) :=
    [("selfmap", "", mapSelf pick c.text, []), ("storedmap", "s", mapStored pick c.text stored, [])]
    ++ ((List.range c.stored.length).zip c.stored).map (fun (k, (_, b)) =>
        (s!"x{k}map", s!"x{k}", mapStored pick c.text (some b), []))
    ++ ((List.range c.ws.length).zip c.ws).map (fun (k, e) =>
        let r := wsLocalMap pick [] c.text (e.map (·.2))
        (s!"w{k}map", s!"w{k}", r.1, [showWsIdx s!"w{k}index" r.2]))
  let mapLines := (maps.foldl (fun (acc : List Table × List String) (m, pre, o, tail) =>
      let (cache, ls) := showMapT m pre c.text c.actions acc.1 o
      (cache, acc.2 ++ ls ++ tail)) ([], [])).2
  partLines ++ ixLines ++ mapLines

/-! ### the judge: the statement of C10 evaluated on the implementation's own output

Reference = the abstract records printed by the generator next to every text line (`l … <kind> …`) and
plain arithmetic on the line lengths; none of the model's parsers, state machine or lookup is used. -/

/-- content length of a raw line: without the terminator `\r* \n` and without trailing `\r`s -/
def contentLen (raw : List UInt8) : Nat :=
  let l := if raw.getLast? = some 10 then raw.dropLast else raw
  (l.reverse.dropWhile (· = 13)).length

def content (raw : List UInt8) : List UInt8 := raw.take (contentLen raw)

def Rec.isCloser : Rec → Bool
  | .pub .. | .func .. | .stack | .info _ => true
  | _ => false

structure SpecSym where
  addr : Nat
  kind : Nat
  len : Nat
  off : Nat
  name : List UInt8
  size : Nat
  /-- the lines after the FUNC line that belong to its block -/
  body : List Rec

/-- the FUNC / PUBLIC records with the extent the index must record for them -/
def specSyms (textLen : Nat) : List TLine → List SpecSym
  | [] => []
  | t :: rest =>
    match t.r with
    | .pub _ addr _ name => ⟨addr % 4294967296, 0, contentLen t.raw, t.off, name, 0, []⟩ :: specSyms textLen rest
    | .func _ addr size _ name =>
      let blockLines := rest.takeWhile (fun u => !u.r.isCloser)
      let endOff := match rest.find? (fun u => u.r.isCloser) with
        | some u => u.off
        | none => textLen
      ⟨addr, 1, endOff - t.off, t.off, name, size, blockLines.map (·.r)⟩ :: specSyms textLen rest
    | _ => specSyms textLen rest

def specFiles (ls : List TLine) : List (Nat × Nat × Nat × List UInt8) :=
  ls.filterMap fun t => match t.r with
    | .file i n => some (i, contentLen t.raw, t.off, n)
    | _ => none

def specOrigins (ls : List TLine) : List (Nat × Nat × Nat × List UInt8) :=
  ls.filterMap fun t => match t.r with
    | .origin i n => some (i, contentLen t.raw, t.off, n)
    | _ => none

def specModInfo (ls : List TLine) : List UInt8 :=
  match ls with
  | [] => []
  | m :: rest =>
    rest.foldl (fun acc t => match t.r with
      | .info _ => acc ++ 10 :: content t.raw
      | _ => acc) (content m.raw)

def strictlyAscending : List Nat → Bool
  | a :: b :: rest => a < b && strictlyAscending (b :: rest)
  | _ => true

def keySetEq (a b : List Nat) : Bool := a.all (b.contains ·) && b.all (a.contains ·)

/-- parsed output of one symbol map -/
structure LookOut where
  addr : Nat
  res : List String          -- words after the address on the look line
  frames : List (List String)

def splitLooks (pre : String) : List String → List LookOut → List LookOut
  | [], acc => acc.reverse
  | l :: rest, acc =>
    match words l with
    | k :: a :: res =>
      if k = pre ++ "look" then splitLooks pre rest (⟨nat! a, res, []⟩ :: acc)
      else if k = pre ++ "frame" then
        match acc with
        | top :: acc' => splitLooks pre rest ({ top with frames := top.frames ++ [a :: res] } :: acc')
        | [] => splitLooks pre rest acc
      else splitLooks pre rest acc
    | _ => splitLooks pre rest acc

/-- acceptable names for a FILE / INLINE_ORIGIN id: any record with that id (`none` when there is none) -/
def namesFor (tbl : List (Nat × Nat × Nat × List UInt8)) (idx : Nat) : List String :=
  match (tbl.filter (·.1 = idx)).map (fun e => hexOf e.2.2.2) with
  | [] => ["none"]
  | l => l

/-- the inline chain by direct reading: per depth the INLINE record with a range covering `a` -/
def specChain (body : List Rec) (files origins : List (Nat × Nat × Nat × List UInt8)) (a : Nat) :
    Nat → Nat → List String → List (List String × List String × String)
  | 0, _, _ => []
  | fuel + 1, depth, fnNames =>
    let hit := body.find? fun r => match r with
      | .inline d _ _ _ ranges => d = depth && ranges.any (fun (s, n) => s ≤ a && a < s + n)
      | _ => false
    match hit with
    | some (.inline _ callLine callFile origin _) =>
      (fnNames, namesFor files callFile, toString callLine)
        :: specChain body files origins a fuel (depth + 1) (namesFor origins origin)
    | _ => [(fnNames, [], "")]   -- marker: the innermost frame, completed by the caller

/-- does any line record start at or before `a` (used only to tag the known line-gap deviation) -/
def hasEarlierLine (body : List Rec) (a : Nat) : Bool :=
  body.any fun r => match r with | .line s _ _ _ => s ≤ a | _ => false

/-- expected frames (outermost last) as alternatives per field; innermost first like the API -/
def specFrames (s : SpecSym) (files origins : List (Nat × Nat × Nat × List UInt8)) (a : Nat) :
    List (List String × List String × String) :=
  let chain := specChain s.body files origins a (s.body.length + 1) 0 [hexOf s.name]
  let cover := s.body.find? fun r => match r with
    | .line st n _ _ => st ≤ a && a < st + n
    | _ => false
  let chain := chain.map fun (fns, fl, ln) =>
    if fl.isEmpty && ln = "" then
      match cover with
      | some (.line _ _ line file) => (fns, namesFor files file, toString line)
      | _ => (fns, ["none"], "none")
    else (fns, fl, ln)
  chain.reverse

def frameMatches (exp : List String × List String × String) (got : List String) : Bool :=
  match got with
  | [fn, fl, ln] => exp.1.contains fn && exp.2.1.contains fl && exp.2.2 = ln
  | _ => false

def framesMatch : List (List String × List String × String) → List (List String) → Bool
  | [], [] => true
  | e :: es, g :: gs => frameMatches e g && framesMatch es gs
  | _, _ => false

/-- check one lookup against the direct reading; returns an error description -/
def checkLookup (syms : List SpecSym) (files origins : List (Nat × Nat × Nat × List UInt8))
    (lo : LookOut) : Option String :=
  let a := lo.addr
  let below := syms.filter (·.addr ≤ a)
  match below.foldl (fun m s => max m s.addr) 0, below with
  | _, [] => if lo.res = ["none"] then none else some s!"reading:covering lookup {a}: no symbol at or below, got {lo.res}"
  | best, _ =>
    let cands := syms.filter (·.addr = best)
    let next := (syms.filter (best < ·.addr)).foldl (fun m s => match m with
      | none => some s.addr
      | some x => some (min x s.addr)) none
    let okFor (s : SpecSym) : Bool :=
      if s.kind = 0 then
        lo.res = ["sym", toString best, optNat (next.map (· - best)), hexOf s.name, "none"] && lo.frames.isEmpty
      else if best + s.size ≤ a then lo.res = ["none"]
      else
        let fr := specFrames s files origins a
        lo.res = ["sym", toString best, toString s.size, hexOf s.name, toString fr.length]
          && framesMatch fr lo.frames
    if cands.any okFor then none
    else
      -- classify the two deviations of the pinned tree that are recorded as known findings
      let s := cands.headD ⟨0, 0, 0, 0, [], 0, []⟩
      let originInBlock := s.kind = 1 && s.body.any (fun r => match r with | .origin .. => true | _ => false)
      let tagStr :=
        if originInBlock && lo.res = ["none"] && a < best + s.size then "reading:origin-in-func-block"
        else if s.kind = 1 && a < best + s.size then
          let fr := specFrames s files origins a
          let got := lo.frames
          -- everything agrees except file/line of the innermost frame, and no line record covers `a`
          let relaxed := fr.zip got |>.all fun (e, g) => match g with
            | [fn, _, _] => e.1.contains fn
            | _ => false
          if fr.length = got.length && relaxed && hasEarlierLine s.body a
              && (fr.head?.map (·.2.2)) = some "none" && framesMatch (fr.drop 1) (got.drop 1)
          then "reading:line-gap" else "reading:frames"
        else "reading:covering"
      some s!"{tagStr} lookup {a}: direct reading of the record at {best} does not give {lo.res} {lo.frames}"

def firstSome {α : Type} (f : α → Option String) : List α → Option String
  | [] => none
  | x :: xs => match f x with | some e => some e | none => firstSome f xs

/-! #### the theorem's own specification, evaluated when the text is exactly `BPS.render` of the records -/

def crsOf (raw : List UInt8) : Nat :=
  let l := if raw.getLast? = some 10 then raw.dropLast else raw
  (l.reverse.takeWhile (· = 13)).length

def toSpecRec (t : TLine) : Option BPS.Rec :=
  match t.r with
  | .info rest => some (.info rest)
  | .file i n => some (.file i n)
  | .origin i n => some (.origin i n)
  | .pub m a p n => some (.pub m a p n)
  | .func m a sz p n => some (.func m a sz p n)
  | .line a sz l f => some (.line a sz l f)
  | .inline d cl cf o (r0 :: rs) => some (.inline d cl cf o r0 rs)
  | .inline _ _ _ _ [] => none
  | .stack => some (.stack ((content t.raw).drop 6))
  | .module .. => none
  | .junk => none

/-- the abstract file of `BPS`, if every line is a record and the first one a MODULE line -/
def toSymFile (c : Case) : Option BPS.SymFile :=
  match c.lines with
  | [] => none
  | m :: rest =>
    match m.r with
    | .module .. =>
      match rest.mapM (fun t => (toSpecRec t).map (fun r => (⟨r, crsOf t.raw⟩ : BPS.SLine))) with
      | none => none
      | some ls => some ⟨content m.raw, crsOf m.raw, ls, c.text.getLast? = some 10⟩
    | _ => none

def nodupNat (l : List Nat) : Bool :=
  match l with
  | [] => true
  | a :: t => !t.contains a && nodupNat t

/-- exact comparison with `BPS.readDirectly` (the specification of theorem `C10_reading`) -/
def checkExact (sf : BPS.SymFile) (looks : List LookOut) : Option String :=
  firstSome (fun lo =>
    let expected := showLook "" lo.addr (BPS.readDirectly sf lo.addr)
    let got := (s!"look {lo.addr} " ++ " ".intercalate lo.res) :: lo.frames.map (fun f => "frame " ++ " ".intercalate f)
    if expected = got then none
    else some s!"reading:exact lookup {lo.addr}: BPS.readDirectly gives {expected} but the implementation {got}") looks

/-- lines of the map whose tags carry the prefix `p` (`x0`, `w1`, …), prefix removed -/
def mapLinesOf (impl : List String) (p : String) : List String :=
  impl.filterMap fun l =>
    if l.startsWith (p ++ "map") || l.startsWith (p ++ "look") || l.startsWith (p ++ "frame")
        || l.startsWith (p ++ "iter") then some (l.drop p.length).toString
    else none

/-- kinds of damaged `.symindex` files that no reader may accept (empty, a proper prefix of a valid
index, wrong magic, a table announced beyond the end of the file), and — since fix 3f61c23c — the valid
index of ANOTHER file whose MODULE line differs from the one of this text (`foreign-module`) and — since fix
d2664d76 — an index whose module info has a second MODULE line stating another debug id (`two-module`): the map must
behave as if no index had been offered -/
def mustReject (k : String) : Bool :=
  k = "empty" || k = "trunc" || k = "magic" || k = "counts" || k = "foreign-module" || k = "two-module"

def judge (ops impl : List String) : Bool × String :=
  let c := parseCase ops
  let w := impl.map words
  if impl.any (fun l => (words l).contains "panic") then (false, "panic: the implementation panicked") else
  -- 1. every partition gives the same index
  let parts := w.filter (·.head? = some "part")
  if parts.length ≠ c.parts.length then (false, "chunking: missing part lines") else
  let sig := parts.map (·.drop 2)
  match sig with
  | [] => (true, "nothing to check: the case has no partition op")
  | s0 :: _ =>
  match sig.findIdx? (· ≠ s0) with
  | some i => (false, s!"chunking: partition {i} gives {sig[i]?.getD []} but partition 0 gives {s0}")
  | none =>
  -- 2. parse/serialize round trip of the index bytes
  let bytesLine := w.find? (·.head? = some "bytes")
  let rtLine := w.find? (·.head? = some "roundtrip")
  let rtErr : Option String :=
    if s0.head? ≠ some "ok" then none else
    match bytesLine, rtLine with
    | some [_, h], some [_, st, len, f, same] =>
      let b := unhex h
      if [toString b.length, toString (fnv b).toNat] ≠ s0.drop 1 then some "chunking: bytes line does not match the part hash"
      else if st ≠ "ok" then some "roundtrip: parse_symindex_file rejects the creator's bytes"
      else if [len, f] ≠ s0.drop 1 then some "roundtrip: serialize(parse(bytes)) differs from bytes"
      else if same ≠ "same" then some "roundtrip: parsed fields differ from the layout decoding"
      else none
    | _, _ => some "roundtrip: missing bytes/roundtrip line"
  match rtErr with
  | some e => (false, e)
  | none =>
  -- 3. stored index vs self-built index
  let selfL := impl.filter (fun l => l.startsWith "selfmap" || l.startsWith "look" || l.startsWith "frame"
    || l.startsWith "iter")
  let storedL := impl.filter (fun l => l.startsWith "storedmap" || l.startsWith "slook" || l.startsWith "sframe"
    || l.startsWith "siter")
  let strip (l : String) : String :=
    if l.startsWith "storedmap" then "selfmap" ++ (l.drop 9).toString
    else (l.drop 1).toString
  if selfL ≠ storedL.map strip then
    let i := (selfL.zip (storedL.map strip)).findIdx? (fun (a, b) => a ≠ b)
    (false, s!"stored-vs-self: the map with the stored index answers differently (first difference at line {i.getD 0}: {selfL[i.getD 0]?.getD ""} vs {storedL[i.getD 0]?.getD ""})")
  else
  -- 3b. damaged stored indexes are ignored; the index wholesym writes for a local `.sym` file is the index
  --     of the text (the one every partition gave), an existing `.symindex` is left alone, and the maps
  --     built that way answer like the self-indexing map
  let selfNorm := selfL.map fun l => if l.startsWith "selfmap" then "map" ++ (l.drop 7).toString else l
  let firstDiff (a b : List String) : String :=
    match (a.zip b).find? (fun (x, y) => x ≠ y) with
    | some (x, y) => s!"{x} vs {y}"
    | none => s!"{a.length} vs {b.length} lines"
  let xErr := firstSome (fun ((k, e) : Nat × String × List UInt8) =>
      let got := mapLinesOf impl s!"x{k}"
      if mustReject e.1 && got ≠ selfNorm then
        some s!"stored-bad: stored index {k} ({e.1}, {e.2.length} bytes) must be ignored but the map differs from the self-indexing one ({firstDiff selfNorm got})"
      else none) ((List.range c.stored.length).zip c.stored)
  match xErr with
  | some e => (false, e)
  | none =>
  let notBp := impl.any (·.startsWith "selfmap err:notbreakpad")
  let wErr := firstSome (fun ((k, e) : Nat × Option (String × List UInt8)) =>
      let got := mapLinesOf impl s!"w{k}"
      let idx := ((w.find? (·.head? = some s!"w{k}index")).getD []).drop 1
      match e with
      | none =>
        let expectIdx := if !notBp && s0.head? = some "ok" then s0.drop 1 else ["absent"]
        if idx ≠ expectIdx then some s!"wholesym: the .symindex written for the local file is {idx}, the index of the text is {expectIdx}"
        else if got ≠ selfNorm then some s!"wholesym: the map over the local file differs from the self-indexing one ({firstDiff selfNorm got})"
        else none
      | some (kind, b) =>
        if idx ≠ [toString b.length, toString (fnv b).toNat] then some s!"wholesym: the existing .symindex ({kind}) was changed to {idx}"
        else if mustReject kind && got ≠ selfNorm then
          some s!"wholesym: existing .symindex ({kind}) must be ignored but the map differs from the self-indexing one ({firstDiff selfNorm got})"
        else none) ((List.range c.ws.length).zip c.ws)
  match wErr with
  | some e => (false, e)
  | none =>
  -- 4. agreement with a direct reading of the abstract records; only for files the generator declares
  --    well-formed and that start with a MODULE record (a shrunk case may have lost it)
  let startsWithModule := match c.lines.head? with
    | some t => (match t.r with | .module .. => true | _ => false)
    | none => false
  if !c.reading || !startsWithModule then (true, "ok") else
  if s0.head? ≠ some "ok" then (false, "index-reading: no index for a well-formed file") else
  let syms := specSyms c.text.length c.lines
  let files := specFiles c.lines
  let origins := specOrigins c.lines
  let gotSyms := w.filterMap fun l => match l with
    | ["sym", a, k, n, o] => some (nat! a, nat! k, nat! n, nat! o)
    | _ => none
  let gotTbl (t : String) := w.filterMap fun l => match l with
    | [t', i, n, o] => if t' = t then some (nat! i, nat! n, nat! o) else none
    | _ => none
  let modinfo := w.find? (·.head? = some "modinfo")
  if modinfo ≠ some ["modinfo", hexOf (specModInfo c.lines)] then (false, "index-reading: module info block") else
  if !strictlyAscending (gotSyms.map (·.1)) then (false, "index-reading: symbol addresses not strictly ascending") else
  if !keySetEq (gotSyms.map (·.1)) (syms.map (·.addr)) then (false, "index-reading: symbol address set") else
  match gotSyms.find? (fun g => !syms.any (fun s => (s.addr, s.kind, s.len, s.off) = g)) with
  | some g => (false, s!"index-reading: symbol entry {g} is not the extent of any record")
  | none =>
  let chkTbl (name : String) (spec : List (Nat × Nat × Nat × List UInt8)) : Option String :=
    let got := gotTbl name
    if !strictlyAscending (got.map (·.1)) then some s!"index-reading: {name} indexes not strictly ascending"
    else if !keySetEq (got.map (·.1)) (spec.map (·.1)) then some s!"index-reading: {name} index set"
    else match got.find? (fun g => !spec.any (fun s => (s.1, s.2.1, s.2.2.1) = g)) with
      | some g => some s!"index-reading: {name} entry {g} is not the extent of any record"
      | none => none
  match chkTbl "file" files, chkTbl "origin" origins with
  | some e, _ => (false, e)
  | _, some e => (false, e)
  | none, none =>
  if !(impl.any (·.startsWith "selfmap ok")) then (false, "reading: no symbol map for a well-formed file") else
  let looks := splitLooks "" impl []
  if looks.map (·.addr) ≠ c.lookups then (false, "reading: lookup lines do not match the lookup ops") else
  -- every lookup is judged; a failure that is not the known line-gap deviation is reported first, and the
  -- lookups at addresses without that deviation are still compared with `BPS.readDirectly` below, so that the
  -- known finding cannot mask another failure in the same case
  let verdicts := looks.map fun lo => (lo, checkLookup syms files origins lo)
  let errs := verdicts.filterMap (·.2)
  match errs.find? (fun e => !e.startsWith "reading:line-gap") with
  | some e => (false, e)
  | none =>
    let gapErr := errs.head?
    let sound := verdicts.filterMap fun (lo, e) => if e.isNone then some lo else none
    -- iter_symbols: every symbol of the index, ascending, with the name of a record at that address
    let iterL := w.filter (·.head? = some "iter")
    let nIter := (c.actions.filter (·.isNone)).length
    let expectA := (List.replicate nIter (gotSyms.map (·.1))).flatten
    let iterOk := iterL.length = expectA.length && (iterL.zip expectA).all fun (l, a) =>
      match l with
      | [_, a', n] => nat! a' = a && syms.any (fun s => s.addr = a && hexOf s.name = n)
      | _ => false
    if !iterOk then (false, s!"reading:iter iter_symbols does not list the symbols of the text in ascending order ({iterL.length} lines for {expectA.length} symbols)") else
    -- when the text is literally `BPS.render` of the records and the keys are distinct, the answers must
    -- be exactly those of `BPS.readDirectly`, the specification of theorems C10_reading / C10_reading_at
    let fin (msg : String) : Bool × String := match gapErr with | some e => (false, e) | none => (true, msg)
    match toSymFile c with
    | none => fin "ok"
    | some sf =>
      if BPS.render sf = c.text && nodupNat (BPS.symAddrs sf.lines) && nodupNat (BPS.fileIdxs sf.lines)
          && nodupNat (BPS.originIdxs sf.lines) then
        match checkExact sf sound with
        | some e => (false, e)
        | none => fin "ok exact"
      else fin "ok"

end C10
