import SamplyModel.Proto
import SamplyModel.Model.BreakpadIndex
/-!
Line protocol for C10 (all numbers decimal; `<hex>` lower-case hex, `-` = empty).

ops
    family <name>
    reading <0|1>
    l <hex> <kind> <fields…>       one line of the .sym text (bytes incl. terminator) + the abstract record it renders:
        module <os> <arch> <id> <name> | info <rest> | file <idx> <name> | origin <idx> <name>
        public <m> <addr> <psize> <name> | func <m> <addr> <size> <psize> <name>
        line <addr> <size> <line> <file> | inline <depth> <callLine> <callFile> <origin> (<addr> <size>)+
        stack | junk
    rep <count> <hex> junk         the bytes repeated
    tiebreak <sym|file|origin> <key> <offset>
    part <cut>*  |  partsize <n>   partitions of the text (the first one is `part` = one chunk)
    lookup <addr>*

out
    part <i> <ok|err|panic> <len> <fnv>
    bytes <hex> / hdr … / modinfo <hex> / file … / origin … / sym <addr> <kind> <len> <offset>
    roundtrip <ok|err> <reserLen> <reserFnv> <same|diff>
    selfmap <ok <debugid>|err:notbreakpad|err:nomodule|panic>, look …, frame …
    storedmap …, slook …, sframe …

The model uses only `l`/`rep` (text bytes), `tiebreak`, `part`/`partsize`, `lookup`. The judge uses the
abstract records and the implementation's output, never the model's mechanism (see `judge`).
-/
namespace C10
open Proto BP

/-! ### parsing the ops -/

def hexNib (c : Char) : Nat :=
  if '0' ≤ c ∧ c ≤ '9' then c.toNat - 48
  else if 'a' ≤ c ∧ c ≤ 'f' then c.toNat - 87
  else if 'A' ≤ c ∧ c ≤ 'F' then c.toNat - 55
  else 0

/-- tail-recursive hex decoder (the lines can be very long) -/
def unhexInto (acc : Array UInt8) (s : String) : Array UInt8 :=
  if s = "-" then acc else
  let rec go (cs : List Char) (acc : Array UInt8) : Array UInt8 :=
    match cs with
    | a :: b :: rest => go rest (acc.push (UInt8.ofNat (hexNib a * 16 + hexNib b)))
    | _ => acc
  go s.toList acc

def unhex (s : String) : List UInt8 := (unhexInto #[] s).toList

def hexOf (bs : List UInt8) : String :=
  if bs.isEmpty then "-" else
  String.ofList (bs.foldr (fun b acc => hexNibble (b.toNat / 16) :: hexNibble (b.toNat % 16) :: acc) [])

inductive PartOp
  | cuts (cs : List Nat)
  | size (n : Nat)

/-- abstract record of one text line, as printed by the generator -/
inductive Rec
  | module (os arch id name : List UInt8)
  | info (rest : List UInt8)
  | file (idx : Nat) (name : List UInt8)
  | origin (idx : Nat) (name : List UInt8)
  | pub (m : Bool) (addr psize : Nat) (name : List UInt8)
  | func (m : Bool) (addr size psize : Nat) (name : List UInt8)
  | line (addr size line file : Nat)
  | inline (depth callLine callFile origin : Nat) (ranges : List (Nat × Nat))
  | stack
  | junk

/-- one text line: offset, raw bytes (with terminator), abstract record -/
structure TLine where
  off : Nat
  raw : List UInt8
  r : Rec

structure Case where
  family : String
  reading : Bool
  text : List UInt8
  lines : List TLine
  ties : List (String × Nat × Nat)
  parts : List PartOp
  lookups : List Nat

def pairs : List Nat → List (Nat × Nat)
  | a :: b :: rest => (a, b) :: pairs rest
  | _ => []

def parseRec (ws : List String) : Rec :=
  match ws with
  | ["module", os, arch, id, name] => .module (unhex os) (unhex arch) (unhex id) (unhex name)
  | ["info", r] => .info (unhex r)
  | ["file", i, n] => .file (nat! i) (unhex n)
  | ["origin", i, n] => .origin (nat! i) (unhex n)
  | ["public", m, a, p, n] => .pub (m = "1") (nat! a) (nat! p) (unhex n)
  | ["func", m, a, s, p, n] => .func (m = "1") (nat! a) (nat! s) (nat! p) (unhex n)
  | ["line", a, s, l, f] => .line (nat! a) (nat! s) (nat! l) (nat! f)
  | "inline" :: d :: cl :: cf :: o :: rest => .inline (nat! d) (nat! cl) (nat! cf) (nat! o) (pairs (rest.map nat!))
  | ["stack"] => .stack
  | _ => .junk

structure PState where
  family : String := ""
  reading : Bool := false
  text : Array UInt8 := #[]
  lines : Array TLine := #[]
  ties : Array (String × Nat × Nat) := #[]
  parts : Array PartOp := #[]
  lookups : Array Nat := #[]

def parseOp (st : PState) (l : String) : PState :=
  match words l with
  | ["family", f] => { st with family := f }
  | ["reading", r] => { st with reading := r = "1" }
  | "l" :: h :: rest =>
    let raw := unhexInto #[] h
    { st with lines := st.lines.push ⟨st.text.size, raw.toList, parseRec rest⟩, text := st.text ++ raw }
  | "rep" :: n :: h :: _ =>
    let raw := unhexInto #[] h
    let rec go (k : Nat) (t : Array UInt8) : Array UInt8 :=
      match k with
      | 0 => t
      | k + 1 => go k (t ++ raw)
    { st with text := go (nat! n) st.text }
  | ["tiebreak", t, k, o] => { st with ties := st.ties.push (t, nat! k, nat! o) }
  | "part" :: cs => { st with parts := st.parts.push (.cuts (cs.map nat!)) }
  | ["partsize", n] => { st with parts := st.parts.push (.size (nat! n)) }
  | "lookup" :: as => { st with lookups := st.lookups ++ (as.map nat!).toArray }
  | _ => st

def parseCase (ls : List String) : Case :=
  let st := ls.foldl parseOp {}
  ⟨st.family, st.reading, st.text.toList, st.lines.toList, st.ties.toList, st.parts.toList, st.lookups.toList⟩

def pickOf (ties : List (String × Nat × Nat)) : Pick :=
  let f (t : String) (k : Nat) : Nat :=
    match ties.find? (fun e => e.1 = t ∧ e.2.1 = k) with
    | some e => e.2.2
    | none => 0
  ⟨f "sym", f "file", f "origin"⟩

/-- chunks of a `part` op: cuts clamped to the length and made non-decreasing -/
def cutChunks (text : List UInt8) (cuts : List Nat) : List (List UInt8) :=
  let len := text.length
  let rec go (rest : List UInt8) (pos : Nat) (cuts : List Nat) : List (List UInt8) :=
    match cuts with
    | [] => [rest]
    | c :: cs =>
      let c := max pos (min c len)
      rest.take (c - pos) :: go (rest.drop (c - pos)) c cs
  go text 0 cuts

def chunksFor (text : List UInt8) : PartOp → List (List UInt8)
  | .cuts cs => cutChunks text cs
  | .size n => chunksOf (max n 1) text.length text

/-! ### printing -/

def fnv (bs : List UInt8) : UInt64 :=
  bs.foldl (fun h b => (h ^^^ b.toUInt64) * 0x100000001b3) 0xcbf29ce484222325

def showOutcome (i : Nat) : Outcome → String
  | .panic => s!"part {i} panic 0 0"
  | .err => s!"part {i} err 0 0"
  | .ok b => s!"part {i} ok {b.length} {(fnv b).toNat}"

def optHex : Option (List UInt8) → String
  | none => "none"
  | some b => hexOf b

def showFrames (tag : String) (fs : List Frame) : List String :=
  fs.map fun f => s!"{tag} {optHex f.function} {optHex f.file} {optNat f.line}"

def showLook (p : String) (a : Nat) : Look → List String
  | .panic => [s!"{p}look {a} panic"]
  | .none => [s!"{p}look {a} none"]
  | .found r =>
    let n := match r.frames with | none => "none" | some fs => toString fs.length
    s!"{p}look {a} sym {r.symAddr} {optNat r.size} {hexOf r.name} {n}"
      :: showFrames (p ++ "frame") (r.frames.getD [])

def upperHexByte (b : UInt8) : UInt8 := if 97 ≤ b.toNat ∧ b.toNat ≤ 102 then b - 32 else b

def lowerHexNat (n : Nat) : String := String.ofList (Nat.toDigits 16 n)

/-- `DebugId::breakpad()` display of the id token of the MODULE line (debugid-0.8.0 lib.rs:378-390) -/
def debugIdString (id : List UInt8) : String :=
  let k := if 9 ≤ id.length ∧ id.length ≤ 16 then 8 else 32
  String.ofList (((id.take k).map upperHexByte).map (fun b => Char.ofNat b.toNat)) ++ lowerHexNat (hexValue (id.drop k))

def showMap (p : String) (text : List UInt8) (lookups : List Nat) : MapOutcome → List String
  | .panic => [s!"{p}map panic"]
  | .notBreakpad => [s!"{p}map err:notbreakpad"]
  | .noModule => [s!"{p}map err:nomodule"]
  | .ok ix =>
    let id := match deriveModule ix.moduleInfo with | some m => debugIdString m.id | none => "?"
    let pre := if p = "self" then "" else "s"
    s!"{p}map ok {id}" :: lookups.flatMap fun a => showLook pre a (lookup text ix a)

def showIndex (bytes : List UInt8) : List String :=
  match parseSymindex bytes with
  | none =>
    -- cannot happen for bytes the creator produced (C10_roundtrip); print what a decoder would see
    [s!"bytes {hexOf bytes}", "undecodable", "roundtrip err 0 0 diff"]
  | some ix =>
    let h := match decHeader (bytes.take 48) with | some h => h | none => layout ix
    let re := serialize ix
    [s!"bytes {hexOf bytes}",
     s!"hdr {h.version} {h.miOff} {h.miLen} {h.fileCount} {h.fileOff} {h.originCount} {h.originOff} {h.symCount} {h.addrOff} {h.entOff}",
     s!"modinfo {hexOf ix.moduleInfo}"]
    ++ ix.files.map (fun e => s!"file {e.index} {e.lineLen} {e.offset}")
    ++ ix.origins.map (fun e => s!"origin {e.index} {e.lineLen} {e.offset}")
    ++ (ix.addrs.zip ix.entries).map (fun (a, e) => s!"sym {a} {e.kind} {e.len} {e.offset}")
    ++ [if serializeSafe ix then s!"roundtrip ok {re.length} {(fnv re).toNat} same" else "roundtrip panic 0 0 diff"]

def model (ls : List String) : List String :=
  let c := parseCase ls
  let pick := pickOf c.ties
  let outs := c.parts.map fun p => index pick (chunksFor c.text p)
  let partLines := (List.range outs.length).zip outs |>.map fun (i, o) => showOutcome i o
  let ixLines := match outs.head? with
    | some (.ok b) => showIndex b
    | _ => []
  let stored := match outs.getLast? with
    | some (.ok b) => some b
    | _ => none
  partLines ++ ixLines
    ++ showMap "self" c.text c.lookups (mapSelf pick c.text)
    ++ showMap "stored" c.text c.lookups (mapStored pick c.text stored)

def judge (_ops _impl : List String) : Bool × String := (true, "todo")

end C10
