import SamplyModel.Proto
import SamplyModel.Model.SymbolList
import SamplyModel.Model.BreakpadLookup
import SamplyModel.Model.JitDumpIndex
import SamplyModel.Model.ObjectFile
/-!
Line protocol for C05 (symbol lookup).

First op line: `kind obj | bp | jit | fixture <tag> <path>`.

`kind obj` — an ELF64 object as the harness writes it (harness/src/gen/elf_syms.rs):
    seg <off> <vaddr> <filesz> [<memsz>]             PT_LOAD program headers, in order
    ehpcrel <sh_addr>                                `.eh_frame` is written with two `zR` CIEs and pc-relative sdata4
                                                     pointers at section address sh_addr (the FDEs are the `fde` lines)
    sec <t|x|d|n> <addr> <size> <off>                sections in order (index = 1-based position):
                                                     t PROGBITS+AX, x NOBITS+AX, d PROGBITS+WA, n NOBITS+WA
    sym <s|d> <f|i|n|o> <N|u|a> <value> <size> <namehex|!> <demangledhex>
                                                     .symtab / .dynsym symbol; type FUNC/IFUNC/NOTYPE/OBJECT;
                                                     st_shndx N / UNDEF / ABS; `!` = st_name outside the string table;
                                                     last field = `demangle_any(name)` (oracle value)
    entry <addr>                                     e_entry
    fde <initial> <len>                              one FDE of .eh_frame (absolute pointers)
`kind bp` — a Breakpad `.sym` file:   func <addr> <size> <namehex|!>  |  pub <addr> <namehex|!>   (`!` = not UTF-8)
`kind jit` — a jitdump file:          load <codelen> <namehex>  |  other <bodylen>  |  dbg <n> (JIT_CODE_DEBUG_INFO with n
                                      line entries)  |  be (big-endian file)  |  cut <k> (the last k bytes are missing)
all kinds:  q <r|s|o> <addr> <rel|none|xwf>          a lookup; third field = the relative address this lookup
                                                     address stands for according to the generator
                                                     (`none`: it stands for none; `xwf`: outside the hypotheses)
`kind fixture`: q <form> <addr> <claim> :: <answer recorded when the case was generated>      (PDB, fat Mach-O)
`kind fxobj <tag> <path>` — a repository fixture (ELF / Mach-O / PE) with what `object` presents of it, read by the harness:
    felf <0|1> | fobjbase <n> | fentry <n> | fexports-none | fexp <addr> <namehex>
    fseg <namehex|-> <addr> <fileoff> <filesize>     segments in order
    fsec <index> <T|U|O> <0|1> <addr> <size> <off|-> <fsize>   sections in order; kind Text / UninitializedData / other; SHF_EXECINSTR
    fsym <s|d> <t|l|o> <sect|-> <addr> <size> <namehex|!>     symbols with a non-zero address; kind Text / Label / other
    feh | ffde <initial> <len>                       ELF: `.eh_frame` is readable; its FDEs (harness's own parser)
    fpdata <hex>                                     PE: bytes of `.pdata`
    fstartsraw <hex> | funwind-present | funwind <a>*   Mach-O: LC_FUNCTION_STARTS bytes; `__unwind_info` function starts (own parser)
    dem <rawhex> <demhex>                            oracle values of `demangle_any` (absent = unchanged)
    output: count <n> / itsum <len> <sum of addresses mod 2^64> <sum of name lengths> / a … ; nb … ; nx … per query

output:  `panic` alone if loading panics, else
    count <symbol_count>
    it <addr> <namehex> <demangledhex>               `iter_symbols()` (generated kinds)
    a <form> <addr> <ans>{ | <ans>}[ ; nb …; nx …]   per `q`: the distinct answers over all passes;
                                                     ans = none | panic | <start> <size|none> <namehex>

How `object` presents an ELF file to `SymbolList::new` (symbol kind from `st_info`, `section_index()` from
`st_shndx`, `exports()` = defined dynamic symbols, section kind from type/flags, the address base of
`relative_address_base`) is restated in `descOf` — this is the part of the trusted base named
"`object`'s parsing".
-/
namespace C05
open Proto SymLookup

def hexName (s : String) : Name := hexBytes s

def showOpt : Option Nat → String
  | none => "none"
  | some n => toString n

def showAns : Out SymInfo → String
  | .panic => "panic"
  | .miss => "none"
  | .hit r => s!"{r.start} {showOpt r.size} {bytesHex r.name}"

inductive Claim where
  | rel (a : Nat)
  | none
  | xwf
deriving DecidableEq

structure Query where
  form : String
  addr : Nat
  claim : Claim
  recorded : String := ""

def parseClaim (s : String) : Option Claim :=
  if s = "none" then some .none else if s = "xwf" then some .xwf else s.toNat?.map .rel

def parseQuery (l : String) : Option Query :=
  match l.splitOn " :: " with
  | q :: rest =>
    match words q with
    | ["q", f, a, c] => do
      let a ← a.toNat?
      let c ← parseClaim c
      if f = "r" ∨ f = "s" ∨ f = "o" then pure ⟨f, a, c, " :: ".intercalate rest⟩ else none
    | _ => none
  | [] => none

def Query.toAddr (q : Query) : Addr :=
  if q.form = "r" then .rel q.addr else if q.form = "s" then .svma q.addr else .fileOffset q.addr

def queriesOf (ls : List String) : List Query := ls.filterMap parseQuery

/-! ### kind obj -/

structure RawSym where
  dyn : Bool
  typ : String
  shndx : Option Nat          -- none = UNDEF/ABS
  undef : Bool
  value : Nat
  size : Nat
  name : Option Name
  dem : Name

structure ObjOps where
  segs : List (Nat × Nat × Nat) := []           -- off vaddr filesz
  secs : List (String × Nat × Nat × Nat) := []  -- kind addr size off
  syms : List RawSym := []
  entry : Nat := 0
  fdes : List (Nat × Nat) := []

def parseObjLine (o : ObjOps) (l : String) : ObjOps :=
  match words l with
  | ["seg", a, b, c] => { o with segs := o.segs ++ [(nat! a, nat! b, nat! c)] }
  -- fifth field: `p_memsz` (> `p_filesz`); `object` reports the file range (offset, `p_filesz`), the code never reads it
  | ["seg", a, b, c, _] => { o with segs := o.segs ++ [(nat! a, nat! b, nat! c)] }
  | ["sec", k, a, b, c] => { o with secs := o.secs ++ [(k, nat! a, nat! b, nat! c)] }
  | ["sym", t, ty, sh, v, sz, nm, dm] =>
    let r : RawSym := {
      dyn := t = "d", typ := ty, shndx := sh.toNat?, undef := sh = "u", value := nat! v, size := nat! sz,
      name := if nm = "!" then none else some (hexName nm), dem := hexName dm }
    { o with syms := o.syms ++ [r] }
  | ["entry", a] => { o with entry := nat! a }
  | ["fde", a, b] => { o with fdes := o.fdes ++ [(nat! a, nat! b)] }
  | _ => o

def parseObj (ls : List String) : ObjOps := ls.foldl parseObjLine {}

def zipIdx1 {α : Type} (l : List α) : List (Nat × α) := (List.range l.length).zip l |>.map fun p => (p.1 + 1, p.2)

def RawSym.toObjSym (s : RawSym) : SymList.ObjSym where
  addr := s.value
  size := s.size
  kind := if s.typ = "f" ∨ s.typ = "i" then .text else .other   -- STT_NOTYPE is `SymbolKind::Unknown`
  sect := s.shndx
  name := s.name

/-- `ObjectSymbol::is_definition` for ELF -/
def RawSym.isDefinition (s : RawSym) : Bool :=
  s.shndx.isSome && (if s.typ = "n" then s.size ≠ 0 else s.typ = "f" ∨ s.typ = "o")

/-- the `fde.initial_address() + fde.len()` of elf.rs:508 does not overflow `u64` -/
def fdeSafe (o : ObjOps) : Bool := o.fdes.all fun f => decide (f.1 + f.2 < U64)

def descOf (o : ObjOps) : SymList.Desc :=
  let base := match o.segs with
    | (_, v, _) :: _ => v
    | [] => 0
  let dyn := o.syms.filter (·.dyn)
  let defs := dyn.filter (·.isDefinition)
  { base := base
    execSections := (zipIdx1 o.secs).filterMap fun p => if p.2.1 = "t" ∨ p.2.1 = "x" then some p.1 else none
    symbols := (o.syms.filter (!·.dyn)).map (·.toObjSym)
    dynSymbols := dyn.map (·.toObjSym)
    exports := if defs.all (·.name.isSome) then some (defs.map fun s => (s.value, s.name.getD [])) else none
    -- FDE-REBASE: elf.rs:508 pushes `fde.initial_address() as u32` (an SVMA, not rebased to the image base)
    funcStarts := if o.fdes.isEmpty then none else some (o.fdes.map fun f => f.1 % U32)
    entry := o.entry
    textSections := o.secs.filterMap fun s => if s.1 = "t" then some (s.2.1, s.2.2.1) else none
    funcEnds := if o.fdes.isEmpty then none else some (o.fdes.map fun f => (f.1 + f.2) % U32) }

def rangesOf (o : ObjOps) : List SymList.Range :=
  if o.segs.isEmpty then
    o.secs.filterMap fun s => if s.1 = "t" ∨ s.1 = "d" then some ⟨s.2.1, s.2.2.2, s.2.2.1⟩ else none
  else o.segs.map fun s => ⟨s.2.1, s.1, s.2.2⟩

def demangleOf (o : ObjOps) (n : Name) : Name :=
  match o.syms.find? (fun s => s.name = some n) with
  | some s => s.dem
  | none => n

def modelObj (ls : List String) : List String :=
  let o := parseObj ls
  let d := descOf o
  if !(fdeSafe o) || !(SymList.buildSafe d) then ["panic"] else
  let m : SymList.ObjMap := ⟨SymList.build d, d.base, rangesOf o⟩
  let dem := demangleOf o
  [s!"count {SymList.symbolCount m.entries}"]
  ++ (SymList.iterSymbols m.entries).map (fun p => s!"it {p.1} {bytesHex p.2} {bytesHex (dem p.2)}")
  ++ (queriesOf ls).map fun q => s!"a {q.form} {q.addr} {showAns (SymList.lookupSync dem (fun s => s + 1 == U64) m q.toAddr)}"

/-! ### kind bp -/

def parseBpLine (l : String) : Option Breakpad.Rec :=
  match words l with
  | ["func", a, s, n] => some ⟨.func, nat! a, nat! s, if n = "!" then none else some (hexName n)⟩
  | ["pub", a, n] => some ⟨.public_, nat! a, 0, if n = "!" then none else some (hexName n)⟩
  | _ => none

def modelBp (ls : List String) : List String :=
  let recs := ls.filterMap parseBpLine
  let f := Breakpad.fileOf recs
  let ix := Breakpad.buildIndex recs
  [s!"count {ix.length}"]
  ++ (Breakpad.iterSymbols f ix).map (fun p => s!"it {p.1} {bytesHex p.2} {bytesHex p.2}")
  ++ (queriesOf ls).map fun q => s!"a {q.form} {q.addr} {showAns (Breakpad.lookup f ix q.toAddr)}"

/-! ### kind jit -/

/-- file layout of the records: header 40 bytes; record header 16 bytes; a JIT_CODE_LOAD body is 40 bytes of
fixed fields, the NUL-terminated name, the code bytes -/
def jitRecSize (l : String) : Option Nat :=
  match words l with
  | ["load", len, nm] => some (16 + 40 + (hexName nm).length + 1 + nat! len)
  | ["other", len] => some (16 + nat! len)
  | ["dbg", n] => some (16 + 16 + 21 * nat! n)
  | _ => none

/-- `cut <k>`: the last k bytes of the file are missing. `from_reader` (jitdump.rs:71-111) stops at the first record
that is not completely there (`next_record()` / `skip_next_record()` / `next_record_header()` return nothing), so
exactly the record lines that lie completely inside the file count; other lines are kept. -/
def jitKept (ls : List String) : List String :=
  let total := 40 + (ls.filterMap jitRecSize).foldl (· + ·) 0
  let cut := (ls.findSome? fun l => match words l with | ["cut", k] => k.toNat? | _ => none).getD 0
  let limit := total - cut
  let rec go (ls : List String) (off : Nat) (alive : Bool) : List String :=
    match ls with
    | [] => []
    | l :: rest =>
      match jitRecSize l with
      | none => l :: go rest off alive
      | some sz => if alive && off + sz ≤ limit then l :: go rest (off + sz) true else go rest off false
  go ls 40 true

def jitEntriesAll (ls : List String) : List JitDump.Entry :=
  let rec go (ls : List String) (off : Nat) (acc : List JitDump.Entry) : List JitDump.Entry :=
    match ls with
    | [] => acc.reverse
    | l :: rest =>
      match words l with
      | ["load", len, nm] =>
        let name := hexName nm
        let codeOff := off + 16 + 40 + name.length + 1
        go rest (codeOff + nat! len) (⟨codeOff, nat! len, some name⟩ :: acc)
      | ["other", len] => go rest (off + 16 + nat! len) acc
      -- JIT_CODE_DEBUG_INFO (jitdump.rs:96-103): remembered for the next load's frames, no index entry
      | ["dbg", n] => go rest (off + 16 + 16 + 21 * nat! n) acc
      | _ => go rest off acc
  go ls 40 []

def jitEntries (ls : List String) : List JitDump.Entry := jitEntriesAll (jitKept ls)

/-- the record stream and the file length for the model's `from_reader` (header 40 bytes) -/
def jitRecsOfOps (ls : List String) : List JitDump.Rec :=
  ls.filterMap fun l =>
    match words l with
    | ["load", len, nm] => let name := hexName nm; some (.load name.length (nat! len) (some name))
    | ["other", len] => some (.other (16 + nat! len))
    | ["dbg", n] => some (.debugInfo (16 + 16 + 21 * nat! n))
    | _ => none

def jitFileLen (ls : List String) : Nat :=
  40 + ((jitRecsOfOps ls).map (·.size)).foldl (· + ·) 0
    - (ls.findSome? fun l => match words l with | ["cut", k] => k.toNat? | _ => none).getD 0

def modelJit (ls : List String) : List String :=
  match JitDump.buildIndex (JitDump.entriesFrom (jitFileLen ls) 40 (jitRecsOfOps ls)) with
  | none => ["panic"]
  | some ix =>
    [s!"count {ix.rels.length}"]
    ++ (JitDump.iterSymbols ix).map (fun p => s!"it {p.1} {bytesHex p.2} {bytesHex p.2}")
    ++ (queriesOf ls).map fun q => s!"a {q.form} {q.addr} {showAns (JitDump.lookup ix q.toAddr)}"

/-! ### kind fixture: no abstract description; the "model" is the answer recorded at generation time, so the
comparison checks that a fresh load gives the recorded answers; the property itself is decided by the judge -/

def modelFixture (ls : List String) : List String :=
  (queriesOf ls).map fun q => s!"a {q.form} {q.addr} {q.recorded}"

/-! ### kind fxobj: a fixture with the `object` presentation of the file: the model builds the symbol list -/

structure FxOps where
  isElf : Bool := false
  objBase : Nat := 0
  entry : Nat := 0
  segs : List ObjFile.Segment := []          -- reversed while parsing
  secs : List ObjFile.Section := []
  syms : List SymList.ObjSym := []
  dyns : List SymList.ObjSym := []
  exports : Option (List (Nat × Name)) := some []
  eh : Bool := false
  fdes : List (Nat × Nat) := []
  pdata : Option (List UInt8) := none
  startsRaw : Option (List UInt8) := none
  unwind : Option (List Nat) := none
  dem : List (Name × Name) := []
  tag : String := ""

def parseFxLine (o : FxOps) (l : String) : FxOps :=
  match words l with
  | ["felf", b] => { o with isElf := b = "1" }
  | ["fobjbase", n] => { o with objBase := nat! n }
  | ["fentry", n] => { o with entry := nat! n }
  | ["fexports-none"] => { o with exports := none }
  | ["fexp", a, n] => { o with exports := o.exports.map fun l => (nat! a, hexName n) :: l }
  | ["fseg", n, a, off, sz] =>
    { o with segs := ⟨if n = "-" then none else some (hexName n), nat! a, nat! off, nat! sz⟩ :: o.segs }
  | ["fsec", i, k, x, a, sz, off, fsz] =>
    let kind : ObjFile.SecKind := if k = "T" then .text else if k = "U" then .uninit else .other
    { o with secs := ⟨nat! i, kind, x = "1", nat! a, nat! sz, off.toNat?.map fun f => (f, nat! fsz)⟩ :: o.secs }
  | ["fsym", t, k, sect, a, sz, n] =>
    let kind : SymList.SymKind := if k = "t" then .text else if k = "l" then .label else .other
    let sym : SymList.ObjSym := ⟨nat! a, nat! sz, kind, sect.toNat?, if n = "!" then none else some (hexName n)⟩
    if t = "d" then { o with dyns := sym :: o.dyns } else { o with syms := sym :: o.syms }
  | ["feh"] => { o with eh := true }
  | ["ffde", a, b] => { o with fdes := (nat! a, nat! b) :: o.fdes }
  | ["fpdata", h] => { o with pdata := some (hexBytes h) }
  | ["fpdata"] => { o with pdata := some [] }
  | ["fstartsraw", h] => { o with startsRaw := some (hexBytes h) }
  | ["fstartsraw"] => { o with startsRaw := some [] }
  | ["funwind-present"] => { o with unwind := some (o.unwind.getD []) }
  | "funwind" :: rest => { o with unwind := some (o.unwind.getD [] ++ rest.map (nat! ·)) }
  | ["dem", r, d] => { o with dem := (hexName r, hexName d) :: o.dem }
  | _ => o

def FxOps.pres (o : FxOps) : ObjFile.Pres where
  isElf := o.isElf
  objBase := o.objBase
  segments := o.segs.reverse
  sections := o.secs.reverse
  symbols := o.syms.reverse
  dynSymbols := o.dyns.reverse
  exports := o.exports.map (·.reverse)
  entry := o.entry
  funcs :=
    if o.tag = "pe" then .pe o.pdata
    else if o.tag = "macho" ∨ o.tag = "dsym" then .macho o.startsRaw o.unwind
    else .elf (if o.eh then some o.fdes.reverse else none)

def parseFx (tag : String) (ls : List String) : FxOps := ls.foldl parseFxLine { tag := tag }

def FxOps.demangle (o : FxOps) (n : Name) : Name :=
  match o.dem.find? (fun p => p.1 == n) with
  | some p => p.2
  | none => n

/-- the `nb … ; nx …` suffix the harness prints: the enumerated entry with the greatest start `≤` the claimed relative
address, and the next enumerated start -/
def fxNeighbourhood (dem : Name → Name) (en : List (Nat × Name)) (claim : Claim) : String :=
  match claim with
  | .rel a =>
    let g := en.foldl (fun (acc : Option (Nat × Name)) e => if e.1 ≤ a then some e else acc) none
    let nx := match en.find? (fun e => a < e.1) with
      | some e => toString e.1
      | none => "none"
    match g with
    | none => s!"nb - ; nx {nx}"
    | some e => s!"nb {e.1} {bytesHex e.2} {bytesHex (dem e.2)} ; nx {nx}"
  | _ => "nb - ; nx none"

def isDescLine (l : String) : Bool := (l.startsWith "f" && !l.startsWith "fsum ") || l.startsWith "dem "

/-- checksum over the description lines (the same function is in harness/src/gen/objpres.rs): a case whose
description was altered (by the shrinker) is not a description of the file any more; both sides answer `bad-op` -/
def descHash (ls : List String) : Nat :=
  ls.foldl (fun h l =>
    if isDescLine l then ((l.foldl (fun h c => (h * 31 + c.toNat) % 2305843009213693951) h) * 31 + 10) % 2305843009213693951
    else h) 7

def fsumOk (ls : List String) : Bool :=
  match ls.findSome? (fun l => match words l with | ["fsum", n] => n.toNat? | _ => none) with
  | some n => n == descHash ls
  | none => false

def modelFxobj (tag : String) (ls : List String) : List String :=
  if !fsumOk ls then ["bad-op"] else
  let o := parseFx tag ls
  match ObjFile.mapOf o.pres with
  | none => ["panic"]
  | some m =>
    let dem := o.demangle
    let en := SymList.iterSymbols m.entries
    [s!"count {SymList.symbolCount m.entries}",
     s!"itsum {en.length} {(en.foldl (fun acc e => acc + e.1) 0) % U64} {en.foldl (fun acc e => acc + e.2.length) 0}"]
    ++ (queriesOf ls).map fun q =>
      s!"a {q.form} {q.addr} {showAns (SymList.lookupSync dem (fun s => s + 1 == U64) m q.toAddr)} ; {fxNeighbourhood dem en q.claim}"

def model (ls : List String) : List String :=
  match ls with
  | k :: rest =>
    match words k with
    | ["kind", "obj"] => modelObj rest
    | ["kind", "bp"] => modelBp rest
    | ["kind", "jit"] => modelJit rest
    | "kind" :: "fixture" :: _ => modelFixture rest
    | "kind" :: "fxobj" :: tag :: _ => modelFxobj tag rest
    | ["kind", "census"] => rest
    | _ => ["bad-op"]
  | [] => ["bad-op"]

/-! ### judge: the statement of C05 evaluated on the implementation's own output

Reference = the enumeration the implementation printed (`it` lines, or the `nb`/`nx` neighbourhood of each
query for fixtures) and the generator's claim which relative address each lookup address stands for. For the generated kinds the
enumeration itself is checked against the description (`judgeEnum`: the best named candidate per address, in
the order symbol table, dynamic symbols, exports, unwind-table placeholders, entry point) and no answer may
extend across a known function / text-section end (`judgeExtent`). Nothing of the sort / de-duplication /
search of `SymList` / `Breakpad` / `JitDump` is used. -/

structure EnumItem where
  addr : Nat
  raw : String
  dem : String

def parseAns (s : String) : Option (Out (Nat × Option Nat × String)) :=
  match words s with
  | ["none"] => some .miss
  | ["panic"] => some .panic
  | [st, sz, nm] => do
    let st ← st.toNat?
    let sz ← if sz = "none" then some none else sz.toNat?.map some
    pure (.hit (st, sz, nm))
  | _ => none

structure AnsLine where
  form : String
  addr : Nat
  answers : List String
  /-- enumeration entries with the greatest start `≤` the claimed relative address (fixtures) -/
  nb : Option (List EnumItem)
  /-- next enumerated start above the claimed relative address (fixtures) -/
  nx : Option Nat := none

def parseNb (s : String) : Option (List EnumItem) :=
  match words s with
  | ["nb", "-"] => some []
  | "nb" :: a :: rest =>
    match a.toNat? with
    | none => none
    | some a =>
      let rec pairs : List String → List EnumItem
        | r :: d :: t => ⟨a, r, d⟩ :: pairs t
        | _ => []
      some (pairs rest)
  | _ => none

def parseAnsLine (l : String) : Option AnsLine :=
  match l.splitOn " ; " with
  | main :: extra =>
    match words main with
    | "a" :: f :: a :: rest =>
      match a.toNat? with
      | none => none
      | some a =>
        let answers := (" ".intercalate rest).splitOn " | "
        let nb := match extra with
          | n :: _ => parseNb n
          | [] => none
        let nx := match extra with
          | _ :: x :: _ => (match words x with | ["nx", v] => v.toNat? | _ => none)
          | _ => none
        some ⟨f, a, answers, nb, nx⟩
    | _ => none
  | [] => none

def parseIt (l : String) : Option EnumItem :=
  match words l with
  | ["it", a, r, d] => a.toNat?.map fun a => ⟨a, r, d⟩
  | _ => none

/-- greatest enumerated start `≤ a` -/
def greatestLE (en : List EnumItem) (a : Nat) : Option Nat :=
  en.foldl (fun acc e => if e.addr ≤ a then (match acc with | none => some e.addr | some m => some (max m e.addr)) else acc) none

def judgeQuery (checkNames : Bool) (en : List EnumItem) (q : Query) (al : AnsLine) : Option String :=
  if al.form ≠ q.form ∨ al.addr ≠ q.addr then some s!"answer line does not belong to query {q.form} {q.addr}" else
  match al.answers with
  | [one] =>
    match parseAns one with
    | none => some s!"unparsable answer '{one}'"
    | some .panic =>
      if q.claim = .xwf then none else some s!"lookup {q.form} {q.addr} panicked"
    | some .miss => none
    | some (.hit (start, size, name)) =>
      match q.claim with
      | .xwf => none
      | .none => some s!"lookup {q.form} {q.addr} stands for no relative address but answered {start}"
      | .rel a =>
        let en := match al.nb with
          | some nb => nb
          | none => en
        if ¬ start ≤ a then some s!"[contains] start {start} > address {a} ({q.form} {q.addr})" else
        match size with
        | some n => if ¬ a < start + n then some s!"[contains] {a} not below {start}+{n} ({q.form} {q.addr})" else chk a start name en
        | none => chk a start name en
  | _ => some s!"[repeat] lookup {q.form} {q.addr} gave different answers: {al.answers}"
where
  chk (a start : Nat) (name : String) (en : List EnumItem) : Option String :=
    match greatestLE en a with
    | none => some s!"[greatest] answer {start} for {a} but the enumeration has no start <= {a}"
    | some g =>
      if g ≠ start then some s!"[greatest] answer start {start} for {a}, enumeration's greatest start is {g}" else
      if checkNames ∧ ¬ en.any (fun e => e.addr = start ∧ e.dem = name) then
        some s!"[name] answer name {name} at {start} is not the demangled name of the enumerated entry" else none


/-! #### what the description itself says (generated kinds): which symbols the enumeration must list, and where
functions / text sections end. Computed from the op lines only (no sort, no de-duplication, no search). -/

def relOf (base a : Nat) : Option Nat := if base ≤ a ∧ a - base < U32 then some (a - base) else none

def ObjOps.base (o : ObjOps) : Nat :=
  match o.segs with
  | (_, v, _) :: _ => v
  | [] => 0

def ObjOps.execIdx (o : ObjOps) : List Nat :=
  (zipIdx1 o.secs).filterMap fun p => if p.2.1 = "t" ∨ p.2.1 = "x" then some p.1 else none

/-- a function symbol with an address, in an executable section -/
def ObjOps.funcSym (o : ObjOps) (s : RawSym) : Bool :=
  s.value ≠ 0 && (s.typ = "f" || s.typ = "i") && (match s.shndx with
    | some i => o.execIdx.contains i
    | none => false)

/-- the named candidates for each relative address, best first: symbol table, dynamic symbol table, exports,
`fun_<addr>` placeholders of the unwind table, the entry point -/
def objCandidates (o : ObjOps) : List (Nat × Option Name) :=
  let base := o.base
  let tab (dyn : Bool) : List (Nat × Option Name) :=
    (o.syms.filter fun s => s.dyn == dyn && o.funcSym s).filterMap fun s => (relOf base s.value).map (·, s.name)
  let defs := o.syms.filter fun s => s.dyn && s.isDefinition
  let exports : List (Nat × Option Name) :=
    if defs.all (·.name.isSome) then defs.map fun s => ((s.value - base) % U32, s.name) else []
  -- FDE-REBASE: the placeholders sit where the code puts them (SVMA as u32), see notes/C05.md finding 1
  let starts : List (Nat × Option Name) := o.fdes.map fun f => (f.1 % U32, some (SymList.synthName (f.1 % U32)))
  let entry : List (Nat × Option Name) :=
    if base ≤ o.entry then [((o.entry - base) % U32, some SymList.entryPointName)] else []
  tab false ++ tab true ++ exports ++ starts ++ entry

/-- one line per address in ascending order: the best candidate's name (nothing if it has no readable name) -/
def bestPerAddress (cands : List (Nat × Option Name)) : List (Nat × Name) :=
  let addrs := ((cands.map (·.1)).eraseDups).mergeSort (fun a b => a ≤ b)
  addrs.filterMap fun x =>
    match cands.find? (fun c => c.1 == x) with
    | some (_, some n) => some (x, n)
    | _ => none

/-- relative addresses at which the file says a function or a text section ends -/
def objKnownEnds (o : ObjOps) : List Nat :=
  let base := o.base
  let endOf (a size : Nat) : Option Nat := if a + size < U64 then relOf base (a + size) else none
  (o.syms.filter fun s => !s.dyn && o.funcSym s && s.size ≠ 0 && s.name.isSome).filterMap (fun s => endOf s.value s.size)
  ++ (o.secs.filter fun s => s.1 = "t").filterMap (fun s => endOf s.2.1 s.2.2.1)
  -- FDE-REBASE: only files with base 0, where SVMA and relative address coincide
  ++ (if base = 0 then o.fdes.filterMap (fun f => if f.1 + f.2 < U32 then some (f.1 + f.2) else none) else [])

def jitExpectedEnum (ls : List String) : List (Nat × Name) :=
  let rec go (ls : List String) (cum : Nat) (acc : List (Nat × Name)) : List (Nat × Name) :=
    match ls with
    | [] => acc.reverse
    | l :: rest =>
      match words l with
      | ["load", len, nm] => go rest (cum + nat! len) ((cum, hexName nm) :: acc)
      | _ => go rest cum acc
  go ls 0 []

def bpCandidates (ls : List String) : List (Nat × Option Name) :=
  ls.filterMap fun l =>
    match words l with
    | ["func", a, _, n] => some (nat! a, if n = "!" then none else some (hexName n))
    | ["pub", a, n] => some (nat! a, if n = "!" then none else some (hexName n))
    | _ => none

def showEnum (l : List (Nat × Name)) : List String := l.map fun p => s!"{p.1} {bytesHex p.2}"

/-- the implementation's enumeration must be the one the description prescribes -/
def judgeEnum (kind : String) (o : ObjOps) (rest : List String) (en : List EnumItem) : Option String :=
  let expected : Option (List (Nat × Name)) :=
    if kind = "obj" then some (bestPerAddress (objCandidates o))
    else if kind = "bp" then some (bestPerAddress (bpCandidates rest))
    else if kind = "jit" then some (jitExpectedEnum (jitKept rest))
    else none
  match expected with
  | none => none
  | some ex =>
    let got := en.map fun e => s!"{e.addr} {e.raw}"
    let want := showEnum ex
    if got = want then none else
      match (got.zip want).find? (fun p => p.1 ≠ p.2) with
      | some p => some s!"[enum] enumeration lists '{p.1}' where the file prescribes '{p.2}'"
      | none => some s!"[enum] enumeration has {got.length} entries, the file prescribes {want.length}"

/-- the answered range does not reach into the next enumerated symbol (object files, jitdump; a Breakpad FUNC
and a PDB procedure report the size their file states) -/
def judgeOverlap (en : List EnumItem) (al : AnsLine) : Option String :=
  match al.answers with
  | [one] =>
    match parseAns one with
    | some (.hit (start, some n, _)) =>
      match al.nb with
      | some _ =>
        match al.nx with
        | some x => if x < start + n then some s!"[overlap] answer {start}+{n} for {al.form} {al.addr} reaches past the next symbol at {x}" else none
        | none => none
      | none =>
        match en.find? (fun e => start < e.addr ∧ e.addr < start + n) with
        | some e => some s!"[overlap] answer {start}+{n} for {al.form} {al.addr} reaches past the next symbol at {e.addr}"
        | none => none
    | _ => none
  | _ => none

/-- Breakpad: a FUNC answer carries the size of its record, a PUBLIC answer the distance to the next symbol
address (nothing if it is the last); jitdump: the answer is a record of the file with its code length -/
def bpRecsOf (rest : List String) : List (Nat × Option Nat) :=
  rest.filterMap fun l =>
    match words l with
    | ["func", a, sz, _] => some (nat! a, some (nat! sz))
    | ["pub", a, _] => some (nat! a, none)
    | _ => none

def jitRecsOf (rest : List String) : List (Nat × Nat × String) :=
  let en := jitExpectedEnum rest
  let lens := rest.filterMap fun l =>
    match words l with
    | ["load", len, _] => some (nat! len)
    | _ => none
  (en.zip lens).map fun p => (p.1.1, p.2, bytesHex p.1.2)

def judgeRecord (kind : String) (recs : List (Nat × Option Nat)) (jrecs : List (Nat × Nat × String)) (al : AnsLine) :
    Option String :=
  match al.answers with
  | [one] =>
    match parseAns one with
    | some (.hit (start, size, name)) =>
      if kind = "bp" then
        match recs.find? (fun r => r.1 = start) with
        | none => some s!"[record] answer start {start} is no record of the file"
        | some (_, some sz) => if size = some sz then none else some s!"[record] FUNC at {start} has size {sz}, answered {size}"
        | some (_, none) =>
          let next := (recs.map (·.1)).foldl (fun acc a => if start < a then (match acc with | none => some a | some m => some (min m a)) else acc) none
          let want := next.map (· - start)
          if size = want then none else some s!"[record] PUBLIC at {start}: size should be {want}, answered {size}"
      else if kind = "jit" then
        if jrecs.any (fun p => p.1 = start ∧ some p.2.1 = size ∧ p.2.2 = name ∧ 0 < p.2.1) then none
        else some s!"[record] answer {start} {size} {name} is no code record of the file"
      else none
    | _ => none
  | _ => none

/-- no answer may extend across an address at which the file says a function or text section ends -/
def judgeExtent (ends : List Nat) (al : AnsLine) : Option String :=
  match al.answers with
  | [one] =>
    match parseAns one with
    | some (.hit (start, some n, _)) =>
      match ends.find? (fun e => start < e ∧ e < start + n) with
      | some e => some s!"[extent] answer {start}+{n} for {al.form} {al.addr} extends across the known end {e}"
      | none => none
    | _ => none
  | _ => none

/-! #### completeness: an unanswered lookup must be justified by the file (no spurious miss)

Object files: every address the file prescribes an entry at (named or unnamed candidate, end of a text section, end of
a sized function symbol of the symbol table, FDE end); a miss at `a` is justified iff no enumerated symbol starts
at or before `a`, or some prescribed entry lies in `(g, a]` (`g` = greatest enumerated start `≤ a`: that entry is then
an end marker or an unreadable name), or no prescribed entry lies above `a` (`g` is the last entry: its end is unknown). -/

def objEntryAddrs (o : ObjOps) : List Nat :=
  let base := o.base
  let endOf (a size : Nat) : Option Nat := if a + size < U64 then relOf base (a + size) else none
  (objCandidates o).map (·.1)
  ++ (o.secs.filter fun s => s.1 = "t").filterMap (fun s => endOf s.2.1 s.2.2.1)
  ++ (o.syms.filter fun s => !s.dyn && (s.typ = "f" || s.typ = "i") && s.value ≠ 0 && s.size ≠ 0).filterMap
      (fun s => endOf s.value s.size)
  -- FDE-REBASE: where the code puts them
  ++ o.fdes.map (fun f => (f.1 + f.2) % U32)

def missJustifiedObj (addrs : List Nat) (g : Option Nat) (a : Nat) : Bool :=
  match g with
  | none => true
  | some g => addrs.any (fun m => g < m && m ≤ a) || !(addrs.any fun m => a < m)

/-- Breakpad: the records at the greatest record address `≤ a`; a miss is justified iff there is none, or one of
them is unreadable, or one is a FUNC whose range ends at or before `a` -/
def missJustifiedBp (rest : List String) (a : Nat) : Bool :=
  let recs : List (Nat × Option Nat × Bool) := rest.filterMap fun l =>
    match words l with
    | ["func", x, sz, n] => some (nat! x, some (nat! sz), n != "!")
    | ["pub", x, n] => some (nat! x, none, n != "!")
    | _ => none
  let g := recs.foldl (fun acc r => if r.1 ≤ a then (match acc with | none => some r.1 | some m => some (max m r.1)) else acc) none
  match g with
  | none => true
  | some g => (recs.filter fun r => r.1 = g).any fun r =>
      !r.2.2 || (match r.2.1 with | some sz => g + sz ≤ a | none => false)

/-- jitdump: a miss is justified iff the relative address is a code byte of no record -/
def missJustifiedJit (jrecs : List (Nat × Nat × String)) (a : Nat) : Bool :=
  !(jrecs.any fun r => r.1 ≤ a && a < r.1 + r.2.1)

def judgeComplete (kind : String) (fixtureObj : Bool) (objAddrs : List Nat) (rest : List String)
    (jrecs : List (Nat × Nat × String)) (en : List EnumItem) (q : Query) (al : AnsLine) : Option String :=
  match al.answers, q.claim with
  | [one], .rel a =>
    if parseAns one ≠ some .miss then none else
    let bad : Bool :=
      if kind = "obj" then !(missJustifiedObj objAddrs (greatestLE en a) a)
      else if kind = "fxobj" then
        !(missJustifiedObj objAddrs (match al.nb with | some (e :: _) => some e.addr | _ => none) a)
      else if kind = "bp" then !(missJustifiedBp rest a)
      else if kind = "jit" then !(missJustifiedJit jrecs a)
      else if fixtureObj then
        -- fixtures (object kinds): a lookup exactly at an enumerated start that is not the last one
        (match al.nb, al.nx with
         | some (e :: _), some _ => e.addr = a
         | _, _ => false)
      else false
    if bad then some s!"[complete] lookup {q.form} {q.addr} (relative address {a}) answered nothing, the file prescribes a symbol there"
    else none
  | _, _ => none

/-- which relative address a lookup address stands for, from the description (generated kinds); fixtures:
the claim on the query line, computed by the harness from the file's program headers -/
def claimFrom (base : Nat) (ranges : List SymList.Range) (q : Query) : Claim :=
  let ofSvma (s : Nat) : Claim :=
    if s + 1 = U64 then .xwf else
    match relOf base s with
    | some r => .rel r
    | none => .none
  if q.form = "r" then
    (if U64 ≤ base + q.addr then .none else if base + q.addr + 1 = U64 then .xwf else .rel q.addr)
  else if q.form = "s" then ofSvma q.addr
  else
    let rec go : List SymList.Range → Claim
      | [] => .none
      | r :: rs =>
        if r.fileOffset ≤ q.addr then
          if U64 ≤ r.fileOffset + r.size then .xwf
          else if q.addr < r.fileOffset + r.size then
            (if U64 ≤ r.svma + (q.addr - r.fileOffset) then .none else ofSvma (r.svma + (q.addr - r.fileOffset)))
          else go rs
        else go rs
    go ranges

def objClaim (o : ObjOps) (q : Query) : Claim := claimFrom o.base (rangesOf o) q

def jitClaim (entries : List JitDump.Entry) (q : Query) : Claim :=
  if q.form = "r" then .rel q.addr else if q.form = "s" then .none else
  let rec go : List JitDump.Entry → Nat → Claim
    | [], _ => .none
    | e :: es, cum =>
      if e.codeOff ≤ q.addr ∧ q.addr < e.codeOff + e.len then .rel (cum + (q.addr - e.codeOff)) else go es (cum + e.len)
  go entries 0

def claimOf (kind : String) (o : ObjOps) (jes : List JitDump.Entry) (q : Query) : Claim :=
  if kind = "obj" then objClaim o q
  else if kind = "jit" then jitClaim jes q
  else if kind = "bp" then (if q.form = "r" then .rel q.addr else .none)
  else q.claim

/-- loading is outside the hypotheses: an exported (defined dynamic) symbol below the base, or an FDE whose
end does not fit `u64` -/
def loadXwf (kind : String) (o : ObjOps) : Bool :=
  if kind = "obj" then
    let defs := o.syms.filter fun s => s.dyn && s.isDefinition
    !(fdeSafe o) || (defs.all (·.name.isSome) && defs.any fun s => s.value < o.base)
  else false

/-! #### fixtures with a description (`kind fxobj`): what the presentation prescribes, computed declaratively -/

/-- the candidates for each relative address, best first (symbol table, dynamic symbols, exports, placeholders for
the function starts of the unwind tables, entry point); `none` = unreadable name -/
def descCandidates (d : SymList.Desc) : List (Nat × Option Name) :=
  let keep (s : SymList.ObjSym) : Bool :=
    s.addr ≠ 0 && (s.kind = .text || (s.kind = .label && s.size ≠ 0)) &&
      (match s.sect with | some i => d.execSections.contains i | none => false)
  let tab (l : List SymList.ObjSym) : List (Nat × Option Name) :=
    (l.filter keep).filterMap fun s => (relOf d.base s.addr).map (·, s.name)
  tab d.symbols ++ tab d.dynSymbols
  ++ (match d.exports with | some xs => xs.map fun x => ((x.1 - d.base) % U32, some x.2) | none => [])
  ++ (match d.funcStarts with | some xs => xs.map fun a => (a, some (SymList.synthName a)) | none => [])
  ++ (if d.base ≤ d.entry then [((d.entry - d.base) % U32, some SymList.entryPointName)] else [])

/-- every relative address the file prescribes an entry at: the candidates and the end markers -/
def descEntryAddrs (d : SymList.Desc) : List Nat :=
  let endOf (a size : Nat) : Option Nat := if a + size < U64 then relOf d.base (a + size) else none
  (descCandidates d).map (·.1)
  ++ d.textSections.filterMap (fun s => endOf s.1 s.2)
  ++ (d.symbols.filter fun s => s.kind = .text && s.addr ≠ 0 && s.size ≠ 0).filterMap (fun s => endOf s.addr s.size)
  ++ (match d.funcEnds with | some xs => xs | none => [])

/-- an answered symbol must be the best named candidate the file has at its start, and may not extend across any
address at which the file prescribes another entry -/
def judgeFxAnswer (cands : List (Nat × Option Name)) (addrs : List Nat) (al : AnsLine) : Option String :=
  match al.answers with
  | [one] =>
    match parseAns one with
    | some (.hit (start, size, _)) =>
      let raw := match al.nb with
        | some (e :: _) => if e.addr = start then some e.raw else none
        | _ => none
      match cands.find? (fun c => c.1 == start) with
      | none => some s!"[enum] answer start {start} for {al.form} {al.addr}: the file has no symbol candidate there"
      | some (_, none) => some s!"[enum] answer start {start} for {al.form} {al.addr}: the best candidate there has no readable name"
      | some (_, some n) =>
        if raw ≠ some (bytesHex n) then
          some s!"[enum] at {start} the enumeration lists {raw}, the file prescribes {bytesHex n}"
        else match size with
          | some sz =>
            (match addrs.find? (fun m => start < m && m < start + sz) with
             | some m => some s!"[extent] answer {start}+{sz} for {al.form} {al.addr} extends across the prescribed entry at {m}"
             | none => none)
          | none => some s!"[extent] answer at {start} reports no size"
    | _ => none
  | _ => none

/-- floors of the fixture census: (tag, loaded at least, presented to the model at least) -/
def censusFloors : List (String × Nat × Nat) :=
  [("elf", 18, 18), ("macho", 11, 11), ("pe", 7, 7), ("pdb", 2, 0), ("dsym", 1, 1)]

def judgeCensus (impl : List String) : Bool × String :=
  let get (key tag : String) : Nat :=
    (impl.findSome? fun l => match words l with
      | [k, t, n] => if k = key ∧ t = tag then n.toNat? else none
      | _ => none).getD 0
  match censusFloors.find? (fun f => get "loaded" f.1 < f.2.1 ∨ get "modelled" f.1 < f.2.2) with
  | some f => (false, s!"[census] fixtures of kind {f.1}: loaded {get "loaded" f.1} (floor {f.2.1}), modelled {get "modelled" f.1} (floor {f.2.2})")
  | none =>
    match impl.find? (fun l => l.startsWith "load-panic ") with
    | some l => (false, s!"[census] {l}")
    | none => (true, "ok")

def judgeFxobj (tag : String) (rest impl : List String) : Bool × String :=
  if !fsumOk rest then (true, "ok (the description does not match its checksum: not a generated case)") else
  let o := parseFx tag rest
  let p := o.pres
  match ObjFile.descOf p with
  | none => if impl = ["panic"] then (true, "ok") else (false, "[load-panic] the function tables overflow but loading did not panic")
  | some d =>
    if impl = ["panic"] then
      (if SymList.buildSafe d then (false, "[load-panic] loading panicked") else (true, "ok"))
    else
    let base := d.base
    let ranges := ObjFile.rangesOf p
    let qs := (queriesOf rest).map fun q => { q with claim := claimFrom base ranges q }
    -- the harness's claim on the query line is only used for the neighbourhood it prints; it must be the judge's
    match ((queriesOf rest).zip qs).find? (fun pq => pq.1.claim ≠ pq.2.claim) with
    | some pq => (false, s!"harness claim for {pq.1.form} {pq.1.addr} differs from the judge's")
    | none =>
    let als := impl.filterMap parseAnsLine
    if als.length ≠ qs.length then (false, s!"{als.length} answer lines for {qs.length} queries") else
    let cands := descCandidates d
    let addrs := descEntryAddrs d
    match (qs.zip als).findSome? (fun pq =>
        (((judgeQuery true [] pq.1 pq.2).orElse fun _ => judgeFxAnswer cands addrs pq.2).orElse fun _ =>
          judgeOverlap [] pq.2).orElse fun _ => judgeComplete "fxobj" false addrs [] [] [] pq.1 pq.2) with
    | some why => (false, why)
    | none =>
      let claimed := (qs.zip als).filterMap fun pq =>
        match pq.1.claim with
        | .rel a => some (a, pq.1, pq.2.answers)
        | _ => none
      let rec agree : List (Nat × Query × List String) → Option String
        | [] => none
        | (a, q, ans) :: rest =>
          match rest.find? (fun r => r.1 = a ∧ r.2.2 ≠ ans) with
          | some r => some s!"[forms] relative address {a}: {q.form} {q.addr} answers {ans}, {r.2.1.form} {r.2.1.addr} answers {r.2.2}"
          | none => agree rest
      match agree claimed with
      | some why => (false, why)
      | none => (true, "ok")

def judge (ops impl : List String) : Bool × String :=
  match ops with
  | [] => (false, "bad-op")
  | k :: rest =>
    let kw := words k
    if kw = ["kind", "census"] then judgeCensus impl else
    if kw.take 2 = ["kind", "desc-selfcheck-failed"] then
      (false, "[selfcheck] the generator produced a fixture description that does not survive the ops file") else
    if kw.take 2 = ["kind", "fxobj"] then judgeFxobj (kw.getD 2 "") rest impl else
    let fixture := kw.take 2 = ["kind", "fixture"]
    let checkNames := !(fixture ∧ kw.getD 2 "" = "pdb")
    let kind := kw.getD 1 ""
    let o : ObjOps := if kind = "obj" then parseObj rest else {}
    let jes := if kind = "jit" then jitEntries rest else []
    let qs := (queriesOf rest).map fun q => { q with claim := claimOf kind o jes q }
    if impl = ["panic"] then
      (if loadXwf kind o then (true, "ok") else (false, "[load-panic] loading panicked"))
    else
    let en := impl.filterMap parseIt
    let als := impl.filterMap parseAnsLine
    if als.length ≠ qs.length then (false, s!"{als.length} answer lines for {qs.length} queries") else
    let ends := if kind = "obj" then objKnownEnds o else []
    let bpRecs := if kind = "bp" then bpRecsOf rest else []
    let jitRecs := if kind = "jit" then jitRecsOf (jitKept rest) else []
    match judgeEnum kind o rest en with
    | some why => (false, why)
    | none =>
    let objAddrs := if kind = "obj" then objEntryAddrs o else []
    let fixtureObj := fixture && ["elf", "macho", "pe", "dsym"].contains (kw.getD 2 "")
    match (qs.zip als).findSome? (fun p => ((judgeQuery checkNames en p.1 p.2).orElse fun _ => judgeExtent ends p.2).orElse fun _ =>
        (((if kind = "bp" ∨ (fixture ∧ kw.getD 2 "" = "pdb") then none else judgeOverlap en p.2).orElse fun _ =>
          judgeRecord kind bpRecs jitRecs p.2).orElse fun _ =>
          judgeComplete kind fixtureObj objAddrs rest jitRecs en p.1 p.2)) with
    | some why => (false, why)
    | none =>
      -- address forms: all lookups that stand for the same relative address have the same answer
      let claimed := (qs.zip als).filterMap fun p =>
        match p.1.claim with
        | .rel a => some (a, p.1, p.2.answers)
        | _ => none
      let rec agree : List (Nat × Query × List String) → Option String
        | [] => none
        | (a, q, ans) :: rest =>
          match rest.find? (fun r => r.1 = a ∧ r.2.2 ≠ ans) with
          | some r => some s!"[forms] relative address {a}: {q.form} {q.addr} answers {ans}, {r.2.1.form} {r.2.1.addr} answers {r.2.2}"
          | none => agree rest
      match agree claimed with
      | some why => (false, why)
      | none => (true, "ok")

end C05
