import SamplyModel.Proto
import SamplyModel.Model.ChunkCache
import SamplyModel.Model.ChunkCacheShared
/-!
Line protocol for C13.

ops:  `file <len> <seed> <pat> <period> <badLo> <badHi>`   (first line: the file, by generator, and the
                                                            byte range on which the source fails)
      `read <offset> <size>` | `until <lo> <hi> <delim>` | `into <offset> <size>`
      the shared.rs layer (Model/ChunkCacheShared.lean):
      `entire`                                   `FileContentsWrapper::read_entire_data`
      `wread <offset> <size>` | `wuntil <lo> <hi> <delim>`     `<&FileContentsWrapper as ReadRef>::…`
      `vread <base> <k> <s1> <z1> … <sk> <zk> <offset> <size>`  `RangeReadRef::read_bytes_at` on the view
      `vuntil <base> <k> <s1> <z1> … <sk> <zk> <lo> <hi> <delim>`   `<base>` = `full` (`full_range()`) or
                                                 `r:<start>:<size>` (`range(start, size)`), followed by `k`
                                                 nested `make_subrange(s_i, z_i)` calls
      `t <k> <op…>`   the same operations issued by thread `k` of a group of concurrent threads
                      (a maximal run of consecutive `t` lines is one concurrent section; the model executes
                      it in listing order — by `C13_history_independent` every interleaving gives the same
                      outcomes)
      `srcmode <k>`   from now on the byte source is unfaithful (excluded point of `Faithful`): a request that ends
                      exactly at EOF is answered with success but `k` bytes too few (`k > 0`, at most the request)
                      or `-k` zero bytes too many (`k < 0`); `srcmode 0` restores the faithful source. The cache
                      panics (`assert!`, cache.rs:67) when it plans such a buffer; `read_bytes_into` hands the
                      wrong-sized answer through. Output line: `srcmode`.
      `sync`          after a concurrent section: the harness reports whether two of the section's threads
                      were ever inside the byte source of this cache at the same time (`into` calls excepted,
                      they bypass the cache). The code holds the buffer-manager mutex from planning a read to
                      inserting the buffer (cache.rs:55-75), which is what makes "listing order" a faithful
                      model of every schedule; the model therefore always answers `sync overlap=0`.
out:  one line per op: `ok <len> <hex>` (len ≤ 40) | `ok <len> h:<fnv1a-64>` | `err:<kind>` | `panic`
      (`err:readref` = the `Err(())` of the `ReadRef` impls)
      (a panic ends the case); `sync overlap=<0|1>` for a `sync` line

The file is never printed: byte `i` is `genByte g i`, computed identically by the harness
(`harness/src/bin/c13.rs::gen_byte`).
-/
namespace C13
open CC Proto

structure Gen where
  len : Nat
  seed : UInt64
  pat : Nat
  /-- `max period 1` -/
  period : UInt64
  badLo : Nat
  badHi : Nat

def mix (seed i : UInt64) : UInt64 :=
  let z := seed + i * 0x9E3779B97F4A7C15
  let z := (z ^^^ (z >>> 30)) * 0xBF58476D1CE4E5B9
  let z := (z ^^^ (z >>> 27)) * 0x94D049BB133111EB
  z ^^^ (z >>> 31)

/-- byte `i` of the generated file.
pat 0: pseudo-random bytes; pat 1: a zero byte exactly at `i ≡ seed (mod period)`, non-zero elsewhere;
pat 2: zero bytes at pseudo-random positions of density `1/period`, non-zero elsewhere; otherwise `i mod 251`. -/
def genByte (g : Gen) (i : Nat) : UInt8 :=
  let i64 := i.toUInt64
  let seed := g.seed
  let h := mix seed i64
  let nz : UInt8 := ((h >>> 8) % 255 + 1).toUInt8
  let p := g.period
  match g.pat with
  | 0 => (h >>> 56).toUInt8
  | 1 => if i64 % p = seed % p then 0 else nz
  | 2 => if (h >>> 24) % p = 0 then 0 else nz
  | _ => (i64 % 251).toUInt8

/-- the file's bytes `[o, o+n)` — this *is* the definition of the file -/
def fileSlice (g : Gen) (o n : Nat) : List UInt8 :=
  let rec go (k : Nat) (acc : List UInt8) : List UInt8 :=
    match k with
    | 0 => acc
    | k + 1 => go k (genByte g (o + k) :: acc)
  go n []

def hitsBad (g : Gen) (o n : Nat) : Bool := decide (0 < n) && decide (o < g.badHi) && decide (g.badLo < o + n)

/-- the byte source of the harness: fails out of bounds and on requests touching the bad range -/
def src (g : Gen) (o n : Nat) : Option (List UInt8) :=
  if g.len < o + n then none else if hitsBad g o n then none else some (fileSlice g o n)

def parseGen (l : String) : Option Gen :=
  match words l with
  | ["file", a, b, c, d, e, f] => do
    pure ⟨← a.toNat?, (← b.toNat?).toUInt64, ← c.toNat?, (max (← d.toNat?) 1).toUInt64, ← e.toNat?, ← f.toNat?⟩
  | _ => none

def parseOpWords : List String → Option Op
  | ["read", o, n] => do pure (.read (← o.toNat?) (← n.toNat?))
  | ["until", lo, hi, d] => do pure (.until_ ⟨← lo.toNat?, ← hi.toNat?⟩ (UInt8.ofNat (← d.toNat?)))
  | ["into", o, n] => do pure (.into (← o.toNat?) (← n.toNat?))
  | _ => none

def parseBase (b : String) : Option (Option (Nat × Nat)) :=
  if b = "full" then some none else
  match b.splitOn ":" with
  | ["r", s, z] => do pure (some (← s.toNat?, ← z.toNat?))
  | _ => none

/-- `2k` numbers as `k` pairs, and the rest -/
def takePairs : Nat → List String → Option (List (Nat × Nat) × List String)
  | 0, ws => some ([], ws)
  | k + 1, a :: b :: ws => do
    let x ← a.toNat?
    let y ← b.toNat?
    let (ps, rest) ← takePairs k ws
    pure ((x, y) :: ps, rest)
  | _, _ => none

def parseXOpWords : List String → Option XOp
  | ["entire"] => some (.view .entire)
  | ["wread", o, n] => do pure (.view (.wread (← o.toNat?) (← n.toNat?)))
  | ["wuntil", lo, hi, d] => do pure (.view (.wuntil ⟨← lo.toNat?, ← hi.toNat?⟩ (UInt8.ofNat (← d.toNat?))))
  | "vread" :: b :: k :: rest => do
    let base ← parseBase b
    let (subs, rest) ← takePairs (← k.toNat?) rest
    match rest with
    | [o, n] => pure (.view (.vread base subs (← o.toNat?) (← n.toNat?)))
    | _ => none
  | "vuntil" :: b :: k :: rest => do
    let base ← parseBase b
    let (subs, rest) ← takePairs (← k.toNat?) rest
    match rest with
    | [lo, hi, d] => pure (.view (.vuntil base subs ⟨← lo.toNat?, ← hi.toNat?⟩ (UInt8.ofNat (← d.toNat?))))
    | _ => none
  | ws => (parseOpWords ws).map .base

/-- an op line -/
inductive Line
  | sync
  | srcmode (k : Int)
  /-- a call, with (`true`) or without the `t <k>` prefix -/
  | call (inThread : Bool) (op : XOp)

def parseInt (s : String) : Option Int :=
  if s.startsWith "-" then (s.drop 1).toNat?.map fun n => - (Int.ofNat n) else s.toNat?.map Int.ofNat

def parseOp (l : String) : Option Line :=
  match words l with
  | ["sync"] => some .sync
  | ["srcmode", k] => (parseInt k).map .srcmode
  | "t" :: _ :: rest => (parseXOpWords rest).map (.call true)
  | ws => (parseXOpWords ws).map (.call false)

def parse (ls : List String) : Option (Gen × List Line) :=
  match ls with
  | l :: rest => do
    let g ← parseGen l
    let ops ← rest.mapM parseOp
    pure (g, ops)
  | [] => none

/-- the harness's source in mode `k` (see `srcmode`) -/
def srcMode (g : Gen) (k : Int) (o n : Nat) : Option (List UInt8) :=
  match src g o n with
  | none => none
  | some bs =>
    if k = 0 ∨ o + n ≠ g.len ∨ n = 0 then some bs
    else if 0 < k then some (bs.take (n - min k.toNat n))
    else some (bs ++ List.replicate (-k).toNat 0)

def fnv (bs : List UInt8) : UInt64 :=
  bs.foldl (fun h b => (h ^^^ b.toUInt64) * 0x100000001b3) 0xcbf29ce484222325

def hex64 (x : UInt64) : String :=
  String.ofList ((List.range 16).map fun k => hexNibble ((x >>> (UInt64.ofNat (60 - 4 * k))).toNat % 16))

def showBytes (bs : List UInt8) : String :=
  if bs.length ≤ 40 then s!"ok {bs.length} {bytesHex bs}" else s!"ok {bs.length} h:{hex64 (fnv bs)}"

def showErr : Err → String
  | .overflow => "err:overflow"
  | .oob => "err:oob"
  | .badRange => "err:badrange"
  | .noDelim => "err:nodelim"
  | .source => "err:source"
  | .discarded => "err:readref"

def showOut : Out (List UInt8) → String
  | .ok bs => showBytes bs
  | .err e => showErr e
  | .panic => "panic"

/-- requests that would make both sides materialise more than 16 MiB are not executed (never generated;
guards replays against hanging): an in-bounds read/into of more than `2^24` bytes -/
def tooLarge (g : Gen) : Op → Bool
  | .read o n => decide (16777216 < n) && decide (o + n ≤ g.len)
  | .into o n => decide (16777216 < n) && decide (o + n ≤ g.len)
  | .until_ _ _ => false

def xTooLarge (g : Gen) : XOp → Bool
  | .base op => tooLarge g op
  | .view .entire => decide (16777216 < g.len)
  | .view (.wread o n) => tooLarge g (.read o n)
  | .view (.vread base subs o n) => tooLarge g (.read (viewStart base subs + o) n)
  | .view _ => false

def model (ls : List String) : List String :=
  match parse ls with
  | none => ["bad-op"]
  | some (g, ops) =>
    let rec go (k : Int) (st : St) (ops : List Line) (acc : List String) : List String :=
      match ops with
      | [] => acc.reverse
      | .sync :: rest => go k st rest ("sync overlap=0" :: acc)
      | .srcmode k' :: rest => go k' st rest ("srcmode" :: acc)
      | .call _ op :: rest =>
        if xTooLarge g op then go k st rest ("skip:too-large" :: acc) else
        match xstep ⟨realChunk, srcMode g k⟩ st op with
        | (_, .panic) => ("panic" :: acc).reverse
        | (st', out) => go k st' rest (showOut out :: acc)
    go 0 (St.init g.len) ops []

/-! ### The judge: C13's statement evaluated on the implementation's own output, from the file alone. -/

def U64 : Nat := 18446744073709551616

/-- does the bad range meet the chunk-rounded hull of `[lo, hi)` (the only requests whose failure may be
blamed on the source)? -/
def badInHull (g : Gen) (lo hi : Nat) : Bool :=
  let a := lo / realChunk * realChunk
  let b := min ((hi + realChunk - 1) / realChunk * realChunk) g.len
  hitsBad g a (b - a)

/-- distance from `lo` to the first `d`, searching `F[lo, lo+m)` byte by byte -/
def firstDelim (g : Gen) (lo : Nat) (d : UInt8) (m : Nat) : Option Nat :=
  let rec go (k fuel : Nat) : Option Nat :=
    match fuel with
    | 0 => none
    | fuel + 1 => if genByte g (lo + k) = d then some k else go (k + 1) fuel
  go 0 m

inductive Verdict
  | good
  | bad (why : String)

def isErr (o : String) : Bool := o.startsWith "err:"

/-- Byte ranges that an earlier call of this case returned successfully (each lies inside one buffer whose
bytes the deterministic source delivered): a later request inside one of them needs nothing from the source
that the source has not delivered before, so it must not fail with the source's error. -/
def inOk (okRanges : List (Nat × Nat)) (lo hi : Nat) : Bool :=
  okRanges.any fun r => decide (r.1 ≤ lo) && decide (hi ≤ r.2)

/-- judge one outcome line against the file. `view`: the call went through a `ReadRef` impl of shared.rs,
which reduces every error to `Err(())` (`err:readref`), so the kind of an error cannot be checked there.
`okRanges` is only consulted to reject a source error (`[]` inside thread sections, where the listing order
is not the execution order). -/
def judgeOp (g : Gen) (view : Bool) (okRanges : List (Nat × Nat)) (op : Op) (o : String) : Verdict :=
  let isSrc := o = "err:source" ∨ (view ∧ o = "err:readref")
  let isNoDelim := o = "err:nodelim" ∨ (view ∧ o = "err:readref")
  if tooLarge g op then (if o = "skip:too-large" then .good else .bad s!"unexpected {o} for a skipped request") else
  if o = "panic" then
    -- excluded point of the theorems (`F.length + chunk < 2^64`): tagged so that it can be told apart
    (if U64 ≤ g.len + realChunk then .bad "[file-within-one-chunk-of-2^64] implementation panicked"
     else .bad "implementation panicked") else
  if o.startsWith "clobbered" then
    .bad "read_bytes_into did not append to the caller's buffer: the bytes already in it were lost" else
  if !(isErr o || o.startsWith "ok ") then .bad s!"unparsable output {o}" else
  if view ∧ isErr o ∧ o ≠ "err:readref" then .bad s!"a ReadRef impl reported {o} instead of Err(())" else
  if !view ∧ o = "err:readref" then .bad s!"unexpected {o} from a FileContents method" else
  match op with
  | .read off n =>
    if n = 0 then
      if o = "ok 0 -" then .good
      else if isErr o ∧ g.len < off then .good
      else .bad s!"empty read at {off} gave {o}"
    else if g.len < off + n ∨ U64 ≤ off + n then
      if isErr o then .good else .bad s!"out-of-bounds read {off}+{n} of a {g.len}-byte file did not fail: {o}"
    else
      let want := showBytes (fileSlice g off n)
      if o = want then .good
      else if o.startsWith "ok " then .bad s!"read {off}+{n} returned wrong bytes: {o}, file has {want}"
      else if isSrc ∧ badInHull g off (off + n) then
        if inOk okRanges off (off + n) then
          .bad s!"read {off}+{n} failed with the source's error although an earlier call returned these bytes (nothing had to be read)"
        else .good
      else .bad s!"in-bounds read {off}+{n} failed with {o} although the source does not fail there"
  | .until_ r d =>
    if r.hi < r.lo ∨ g.len < r.hi then
      if isErr o then .good else .bad s!"ill-formed/out-of-bounds delimited read {r.lo}..{r.hi} did not fail: {o}"
    else
      let m := min (r.hi - r.lo) 4096
      let srcOk := isSrc ∧ badInHull g r.lo (r.lo + m) ∧ !(inOk okRanges r.lo (r.lo + m))
      match firstDelim g r.lo d m with
      | some k =>
        let want := showBytes (fileSlice g r.lo k)
        if o = want then .good
        else if o.startsWith "ok " then .bad s!"until {r.lo}..{r.hi} d={d} returned {o}, file has {want}"
        else if srcOk then .good
        else .bad s!"until {r.lo}..{r.hi} d={d} failed with {o} although the delimiter is at +{k} and the source does not fail there (or the window was returned before)"
      | none =>
        if o.startsWith "ok " then .bad s!"until {r.lo}..{r.hi} d={d} returned {o} although no delimiter lies in range/limit"
        else if isNoDelim then .good
        else if srcOk then .good
        else .bad s!"until {r.lo}..{r.hi} d={d}: unexpected {o}"
  | .into off n =>
    if g.len < off + n ∨ hitsBad g off n then
      if isErr o then .good else .bad s!"into {off}+{n} must fail (source fails there): {o}"
    else
      let want := showBytes (fileSlice g off n)
      if o = want then .good else .bad s!"into {off}+{n} gave {o}, file has {want}"

def baseStart : Option (Nat × Nat) → Nat
  | none => 0
  | some (s, _) => s

/-- where a view starts (specification side): the starts added up, and — since the repair 989a9c95 — capped at
`u64::MAX` by every `make_subrange`; a view that would start at `2^64` or beyond therefore starts at
`u64::MAX`, where every non-empty read must fail cleanly -/
def sumStarts (start : Nat) (subs : List (Nat × Nat)) : Nat :=
  subs.foldl (fun a p => min (a + p.1) (U64 - 1)) start

/-- judge a call of either layer: a view call is the file-level call at the shifted offset (the view's sizes
do not restrict it — shared.rs never consults `range_size`), with opaque errors; a shifted offset or a
`make_subrange` start beyond `u64` must fail cleanly. -/
def judgeX (g : Gen) (okRanges : List (Nat × Nat)) (op : XOp) (o : String) : Verdict :=
  match op with
  | .base op => judgeOp g false okRanges op o
  | .view .entire =>
    if decide (16777216 < g.len) then (if o = "skip:too-large" then .good else .bad s!"unexpected {o} for a skipped request")
    else if g.len = 0 then (if o = "ok 0 -" then .good else .bad s!"read_entire_data of an empty file gave {o}")
    else judgeOp g false okRanges (.read 0 g.len) o
  | .view (.wread off n) => judgeOp g true okRanges (.read off n) o
  | .view (.wuntil r d) => judgeOp g true okRanges (.until_ r d) o
  | .view (.vread base subs off n) =>
    let s := sumStarts (baseStart base) subs
    if U64 ≤ s + off then
      (if o = "err:readref" then .good else .bad s!"view read at an offset overflowing u64 gave {o}")
    else judgeOp g true okRanges (.read (s + off) n) o
  | .view (.vuntil base subs r d) =>
    let s := sumStarts (baseStart base) subs
    judgeOp g true okRanges (.until_ ⟨s + r.lo, s + r.hi⟩ d) o

/-- the byte range a successful outcome proves to be cached -/
def okRangeOf (g : Gen) (op : XOp) (o : String) : Option (Nat × Nat) :=
  if !(o.startsWith "ok ") then none else
  let len := ((words o).getD 1 "0").toNat?.getD 0
  let rd (off n : Nat) : Option (Nat × Nat) := if n = 0 then none else some (off, off + n)
  let un (lo : Nat) : Option (Nat × Nat) := some (lo, lo + len + 1)
  match op with
  | .base (.read off n) => rd off n
  | .base (.until_ r _) => un r.lo
  | .base (.into _ _) => none
  | .view .entire => rd 0 g.len
  | .view (.wread off n) => rd off n
  | .view (.wuntil r _) => un r.lo
  | .view (.vread base subs off n) => rd (sumStarts (baseStart base) subs + off) n
  | .view (.vuntil base subs r _) => un (sumStarts (baseStart base) subs + r.lo)

/-- the cache-level request behind a call (for the unfaithful-source clause) -/
def xUnder (g : Gen) : XOp → Op
  | .base op => op
  | .view v => v.under g.len

/-- may this call have to read a buffer that ends at EOF (chunk-rounded hull of the request reaches EOF)? -/
def hullReachesEof (g : Gen) : Op → Bool
  | .read o n => decide (0 < n) && decide (o + n ≤ g.len) && decide (g.len ≤ (o + n + realChunk - 1) / realChunk * realChunk)
  | .until_ r _ =>
    let m := min (r.hi - r.lo) 4096
    decide (0 < m) && decide (r.hi ≤ g.len) && decide (g.len ≤ (r.lo + m + realChunk - 1) / realChunk * realChunk)
  | .into o n => decide (0 < n) && decide (o + n = g.len)

def isInto : Op → Bool
  | .into _ _ => true
  | _ => false

def judge (ops impl : List String) : Bool × String :=
  match parse ops with
  | none => (false, "bad-op")
  | some (g, opl) =>
    if impl.length ≠ opl.length ∧ impl.getLast? ≠ some "panic" then (false, "wrong number of output lines") else
    -- every outcome against the file; and equal requests must have equal outcomes (history independence)
    let rec go (k : Int) (opl : List Line) (outs : List String) (seen : List (XOp × String))
        (okR : List (Nat × Nat)) : Bool × String :=
      match opl, outs with
      | [], [] => (true, "ok")
      -- a `sync` line reports on the schedule, not on the bytes: nothing of the statement to judge
      | .sync :: os, o :: rest => if o.startsWith "sync" then go k os rest seen okR else (false, s!"unparsable output {o}")
      | .srcmode k' :: os, o :: rest => if o = "srcmode" then go k' os rest seen okR else (false, s!"unparsable output {o}")
      | .call inThread op :: os, o :: rest =>
        -- the statement's hypothesis (the source delivers what it claims) is violated by the harness on
        -- purpose: a call that may have to fetch the buffer ending at EOF may panic (FileByteSource contract),
        -- `read_bytes_into` hands the wrong-sized answer through; everything else is judged as usual
        if k ≠ 0 ∧ hullReachesEof g (xUnder g op) ∧ (o = "panic" ∨ isInto (xUnder g op)) then
          (if o = "panic" then (true, "ok") else go k os rest seen okR)   -- a panic ends the case
        else
        match judgeX g (if inThread then [] else okR) op o with
        | .bad why => (false, why)
        | .good =>
          let okR := match okRangeOf g op o with | some r => r :: okR | none => okR
          -- a failure of the byte source carries no information about the cache (a delimited read may
          -- legitimately succeed from the string cache where a fresh cache would have to read a buffer the
          -- source refuses): only outcomes not blamed on the source are compared
          if o = "err:source" ∨ (o = "err:readref" ∧ g.badLo < g.badHi) then go k os rest seen okR else
          match seen.find? (fun e => e.1 == op) with
          | some (_, o') =>
            if o' = o then go k os rest seen okR
            else (false, s!"history-dependent: the same request gave {o'} earlier and {o} now")
          | none => go k os rest ((op, o) :: seen) okR
      | _, _ => (false, "length mismatch")
    go 0 opl impl [] []

end C13
