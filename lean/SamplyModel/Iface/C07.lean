import SamplyModel.Proto
import SamplyModel.Model.SymbolicateFront
/-!
Line protocol for C07 (`/symbolicate/v5`).

ops (strings are hex-encoded UTF-8, `-` = empty string, `none` = absent):

    world <entry>*                        line 1: the symbol files the harness serves (ignored here)
    form jobs|single|both                 line 2: with / without the `jobs` wrapper; `both` = the first `job`
                                          block is the top-level memoryMap/stacks, the others are the `jobs` list
    spell <k> / warm <k>                  how the harness spells the JSON body / which request it sends first on
                                          the same symbol manager (no meaning for model and judge: ignored)
    job                                   starts a job
    mod <debugName> <breakpadId>          one memory-map entry of the current job
    stack <moduleIndex>,<address>*        one stack of the current job (JSON integers, may be negative / huge)
    lib <debugName> <breakpadId> ok | err <ErrorName>                       oracle: load result of the library
          (`err InvalidBreakpadId` = the harness's own `DebugId::from_breakpad` refused the id, nothing was
          loaded; model and judge decide id syntax themselves and only cross-check this verdict)
    addr <debugName> <breakpadId> <a> none                                  oracle: direct lookup of address a
    addr <debugName> <breakpadId> <a> sym <start> <size|none> <name> <none|avail|ext> <frame>*
          frame = <function|none>;<rawPath|none>;<mappedPath|none>;<line|none>   (innermost first;
          kind `ext` + no frame tokens = lookup_external found nothing, written `extnone`)

out (implementation and model):

    error parse | error bad-index | error other:<hex> | panic | incomplete-oracle | bad-op | id-syntax-mismatch
    result <j> / found <key> <true|false> (sorted) / merr <key> <ErrorName,…> (sorted) / stack <s> <n> /
    frame <frame> <module_offset> <module> none
    frame <frame> <module_offset> <module> sym <function> <function_offset> <function_size|none> <file|none> <line|none> <#inlines>
    inl <function|none> <file|none> <line|none>
-/
namespace C07
open Sym Proto

def unhex (s : String) : String :=
  match String.fromUTF8? ⟨(hexBytes s).toArray⟩ with
  | some t => t
  | none => ""

def hexOf (s : String) : String := bytesHex s.toUTF8.toList

def optHex : Option String → String
  | none => "none"
  | some s => hexOf s

def parseOptStr (t : String) : Option String := if t = "none" then none else some (unhex t)

abbrev LibKey := String × Option DebugId

def libKey (name id : String) : LibKey := (name, toDebugIdChars id.toList)

/-- oracle tables as written in the ops -/
structure Ops where
  form : Option String := none
  /-- jobs in reverse order; memory map and stacks of each job in reverse order -/
  jobsRev : List RawJob := []
  /-- keyed by what the loader is given: debug name + parsed `DebugId` (`none` = malformed id) -/
  libs : List (LibKey × Option String) := []
  addrs : List ((Nat × LibKey) × Option AddrInfo) := []
  bad : Bool := false

def parseFrameTok (t : String) : Option Frame :=
  match t.splitOn ";" with
  | [fn, raw, mapped, line] =>
    let fp : Option FilePath := if raw = "none" then none else some ⟨unhex raw, parseOptStr mapped⟩
    if line = "none" then some ⟨parseOptStr fn, fp, none⟩
    else match line.toNat? with
      | some n => some ⟨parseOptStr fn, fp, some n⟩
      | none => none
  | _ => none

def parsePair (t : String) : Option (Int × Int) :=
  match t.splitOn "," with
  | [a, b] =>
    match a.toInt?, b.toInt? with
    | some x, some y => some (x, y)
    | _, _ => none
  | _ => none

def stepOp (st : Ops) (l : String) : Ops :=
  match words l with
  | "world" :: _ => st
  | ["form", f] => { st with form := some f }
  | ["spell", _] => st
  | ["warm", _] => st
  | ["job"] => { st with jobsRev := ⟨[], []⟩ :: st.jobsRev }
  | ["mod", n, i] =>
    match st.jobsRev with
    | j :: rest => { st with jobsRev := { j with memoryMap := ⟨unhex n, unhex i⟩ :: j.memoryMap } :: rest }
    | [] => { st with bad := true }
  | "stack" :: toks =>
    match st.jobsRev, toks.mapM parsePair with
    | j :: rest, some ps => { st with jobsRev := { j with stacks := ps :: j.stacks } :: rest }
    | _, _ => { st with bad := true }
  | ["lib", n, i, "ok"] => { st with libs := (libKey (unhex n) (unhex i), none) :: st.libs }
  | ["lib", n, i, "err", e] => { st with libs := (libKey (unhex n) (unhex i), some e) :: st.libs }
  | ["addr", n, i, a, "none"] =>
    match a.toNat? with
    | some a => { st with addrs := ((a, libKey (unhex n) (unhex i)), none) :: st.addrs }
    | none => { st with bad := true }
  | "addr" :: n :: i :: a :: "sym" :: sa :: sz :: nm :: kind :: ftoks =>
    match a.toNat?, sa.toNat?, ftoks.mapM parseFrameTok with
    | some a, some sa, some frames =>
      let size? : Option (Option Nat) := if sz = "none" then some none else sz.toNat?.map some
      let fr? : Option FramesResult :=
        if kind = "none" then some .none
        else if kind = "avail" then some (.available frames)
        else if kind = "ext" then some (.external (some frames))
        else if kind = "extnone" then some (.external none)
        else none
      match size?, fr? with
      | some size, some fr =>
        { st with addrs := ((a, libKey (unhex n) (unhex i)), some ⟨sa, size, unhex nm, fr⟩) :: st.addrs }
      | _, _ => { st with bad := true }
    | _, _, _ => { st with bad := true }
  | [] => st
  | _ => { st with bad := true }

def parseOps (ls : List String) : Ops := ls.foldl stepOp {}

def Ops.raw (o : Ops) : Option RawBody :=
  let jobs := o.jobsRev.reverse.map fun j => (⟨j.memoryMap.reverse, j.stacks.reverse⟩ : RawJob)
  match o.form, jobs with
  | some "jobs", js => some ⟨some js, none⟩
  | some "single", [j] => some ⟨none, some j⟩
  | some "both", j :: js => some ⟨some js, some j⟩
  | _, _ => none

/-- the loader part of the oracle: what the `lib` / `addr` lines say for (debug name, `DebugId`) -/
def Ops.load (o : Ops) : Load := fun name d =>
  match alookup o.libs (name, some d) with
  | some (some e) => .error ⟨e, ""⟩
  | _ => .ok fun a =>
    match alookup o.addrs (a, name, some d) with
    | some r => r
    | none => none

/-- the model's oracle: `to_debug_id` (modelled) in front of the loader table -/
def Ops.look (o : Ops) : Look := lookOf o.load

/-- the judge's reference, from the specification side: a malformed id (declarative `BreakpadIdOk`) is
`InvalidBreakpadId`, a well-formed one is looked up under the `DebugId` its digits denote -/
def Ops.specLook (o : Ops) : Look := fun lib =>
  if BreakpadIdOk lib.breakpadId.toList then o.load lib.debugName (breakpadIdValue lib.breakpadId.toList)
  else .error (invalidBreakpadId lib.breakpadId)

/-- the harness's `DebugId::from_breakpad` (+ nil test) and the modelled `to_debug_id` disagree on some id:
a `lib … err InvalidBreakpadId` line for an id the model parses -/
def Ops.idMismatch (o : Ops) : Bool :=
  o.libs.any fun (k, st) => k.2.isSome && st == some "InvalidBreakpadId"

/-- every (library, address) pair the request asks for has an oracle entry -/
def Ops.complete (o : Ops) (req : Request) : Bool :=
  req.jobs.all fun job => job.stacks.all fun st => st.all fun fr =>
    match job.memoryMap[fr.moduleIndex]? with
    | none => true
    | some lib =>
      match toDebugIdChars lib.breakpadId.toList with
      | none => true
      | some d =>
        match alookup o.libs (lib.debugName, some d) with
        | none => false
        | some (some _) => true
        | some none => (alookup o.addrs (fr.address, lib.debugName, some d)).isSome

/-! ### printing a response -/

def showFrame (rf : RespFrame) : List String :=
  let head := s!"frame {rf.frame} {rf.moduleOffset} {hexOf rf.module}"
  match rf.symbol with
  | none => [head ++ " none"]
  | some sym =>
    let d : DebugInfo := match sym.debugInfo with
      | none => ⟨none, none, []⟩
      | some d => d
    (head ++ s!" sym {hexOf sym.function} {sym.functionOffset} {optNat sym.functionSize} {optHex d.file} {optNat d.line} {d.inlines.length}")
      :: d.inlines.map fun f => s!"inl {optHex f.function} {optHex f.file} {optNat f.line}"

def insertSortedBy (key : α → String) (x : α) : List α → List α
  | [] => [x]
  | y :: rest => if key x < key y then x :: y :: rest else y :: insertSortedBy key x rest

def sortBy (key : α → String) (l : List α) : List α := l.foldl (fun acc x => insertSortedBy key x acc) []

def showResult (j : Nat) (r : JobResult) : List String :=
  let found := (sortBy (fun p => hexOf p.1) r.foundModules).map fun (k, b) =>
    s!"found {hexOf k} {if b then "true" else "false"}"
  let merr := (sortBy (fun p => hexOf p.1) r.moduleErrors).map fun (k, es) =>
    s!"merr {hexOf k} {",".intercalate (es.map (·.name))}"
  let rec stacks (s : Nat) : List (List RespFrame) → List String
    | [] => []
    | st :: rest => (s!"stack {s} {st.length}" :: st.flatMap showFrame) ++ stacks (s + 1) rest
  (s!"result {j}" :: found) ++ merr ++ stacks 0 r.stacks

def showResponse (resp : Response) : List String :=
  let rec go (j : Nat) : List JobResult → List String
    | [] => []
    | r :: rest => showResult j r ++ go (j + 1) rest
  go 0 resp.results

def showFail : Fail → List String
  | .panic _ => ["panic"]
  | .parse => ["error parse"]
  | .badModuleIndex => ["error bad-index"]

def model (ls : List String) : List String :=
  let o := parseOps ls
  if o.bad then ["bad-op"] else
  match o.raw with
  | none => ["bad-op"]
  | some raw =>
    match decodeBody raw with
    | none => ["error parse"]
    | some req =>
      if o.idMismatch then ["id-syntax-mismatch"] else
      if decide (AllIndicesValid req) && !o.complete req then ["incomplete-oracle"] else
      match queryApi o.look id req with
      | .ok resp => showResponse resp
      | .error e => showFail e

/-! ### the judge: the property statement evaluated on the implementation's own output -/

structure IResult where
  found : List (String × String) := []
  merr : List (String × String) := []
  /-- stacks → frames → the `frame` line followed by its `inl` lines; everything reversed while parsing -/
  stacks : List (List (List String)) := []

/-- parse the implementation's output into results (reversed at every level) -/
def parseImpl (ls : List String) : Option (List IResult) :=
  let step (acc : Option (List IResult)) (l : String) : Option (List IResult) :=
    match acc with
    | none => none
    | some rs =>
      match words l, rs with
      | "result" :: _, _ => some ({} :: rs)
      | ["found", k, v], r :: rest => some ({ r with found := (k, v) :: r.found } :: rest)
      | ["merr", k, v], r :: rest => some ({ r with merr := (k, v) :: r.merr } :: rest)
      | "stack" :: _, r :: rest => some ({ r with stacks := [] :: r.stacks } :: rest)
      | "frame" :: _, r :: rest =>
        match r.stacks with
        | st :: sts => some ({ r with stacks := ([l] :: st) :: sts } :: rest)
        | [] => none
      | "inl" :: _, r :: rest =>
        match r.stacks with
        | (fl :: st) :: sts => some ({ r with stacks := ((l :: fl) :: st) :: sts } :: rest)
        | _ => none
      | _, _ => none
  match ls.foldl step (some []) with
  | none => none
  | some rs => some (rs.reverse.map fun r =>
      { found := r.found.reverse, merr := r.merr.reverse,
        stacks := r.stacks.reverse.map fun st => st.reverse.map fun fl => fl.reverse })

/-- the libraries with a requested address on which the oracle breaks the lookup contract (decidable form of
`¬ OracleOk`): symbol start above the address, or an empty debug-info frame list -/
def contractBreakers (look : Look) (req : Request) : List Lib :=
  (req.jobs.flatMap fun job => job.stacks.flatMap fun st => st.filterMap fun fr =>
    match job.memoryMap[fr.moduleIndex]? with
    | none => none
    | some lib =>
      match look lib with
      | .error _ => none
      | .ok f =>
        match f fr.address with
        | none => none
        | some info =>
          if decide (info.symAddr ≤ fr.address) && decide (info.frames.resolved ≠ some []) then none
          else some lib).eraseDups

/-- is `lib` served by a synthetic (table-driven) symbol map of the world line? (`DebugId::from_breakpad`
does not distinguish upper / lower case hex digits, so neither does this) -/
def isSynthetic (ops : List String) (lib : Lib) : Bool :=
  match ops with
  | w :: _ =>
    (words w).any fun t =>
      match t.splitOn ":" with
      | "syn" :: n :: i :: _ =>
        unhex n = lib.debugName && (toDebugIdChars (unhex i).toList).isSome &&
          toDebugIdChars (unhex i).toList == toDebugIdChars lib.breakpadId.toList
      | _ => false
  | [] => false

def judgeFrames (look : Look) (job : Job) (j s : Nat) : Nat → List ReqFrame → List (List String) → Bool × String
  | _, [], [] => (true, "ok")
  | i, fr :: rest, got :: grest =>
    match job.memoryMap[fr.moduleIndex]? with
    | none => (false, "shape: request frame with invalid module index in a response")
    | some lib =>
      -- the frame the property statement prescribes: echo + what the direct lookup yields
      let want := showFrame ⟨i, fr.address, lib.debugName, directSymbol look lib fr.address⟩
      if got = want then judgeFrames look job j s (i + 1) rest grest
      else
        let tag := match got, want with
          | g :: _, w :: _ =>
            if (words g).take 4 ≠ (words w).take 4 then "shape" else "truthful"
          | _, _ => "shape"
        (false, s!"{tag}: job {j} stack {s} frame {i}: got [{" | ".intercalate got}] want [{" | ".intercalate want}]")
  | i, _, _ => (false, s!"shape: job {j} stack {s}: wrong number of frames (differs at {i})")

def judgeStacks (look : Look) (job : Job) (j : Nat) : Nat → List (List ReqFrame) → List (List (List String)) → Bool × String
  | _, [], [] => (true, "ok")
  | s, st :: rest, got :: grest =>
    match judgeFrames look job j s 0 st got with
    | (true, _) => judgeStacks look job j (s + 1) rest grest
    | r => r
  | s, _, _ => (false, s!"shape: job {j}: wrong number of stacks (differs at {s})")

/-- `found_modules` / `module_errors` of one job against the request and the oracle -/
def judgeModules (look : Look) (req : Request) (job : Job) (j : Nat) (r : IResult) : Bool × String :=
  let reqLibs := job.memoryMap.filter (requestedB req)
  let keys := (reqLibs.map moduleKey).eraseDups
  let bad := keys.filterMap fun k =>
    let libs := reqLibs.filter (fun l => moduleKey l = k)
    let statuses := libs.map fun l => isOk (look l)
    let errNames := libs.filterMap fun l => match look l with | .error e => some e.name | .ok _ => none
    match alookup r.found (hexOf k) with
    | none => some s!"isolation: job {j}: requested module {k} missing from found_modules"
    | some v =>
      if ¬ ((v = "true" ∧ statuses.contains true) ∨ (v = "false" ∧ statuses.contains false)) then
        some s!"isolation: job {j}: found_modules[{k}] = {v} but the direct load says {statuses}"
      else
        match alookup r.merr (hexOf k) with
        | none =>
          if statuses.contains false then some s!"isolation: job {j}: module {k} failed to load but has no module_errors entry"
          else none
        | some names =>
          if ¬ statuses.contains false then some s!"isolation: job {j}: module_errors entry for loaded module {k}"
          else if ¬ errNames.contains names then
            some s!"isolation: job {j}: module_errors[{k}] = {names}, the direct load failed with {errNames}"
          else none
  let extra := (r.found.map (·.1) ++ r.merr.map (·.1)).filter fun hk => ¬ (keys.map hexOf).contains hk
  match bad, extra with
  | b :: _, _ => (false, b)
  | [], e :: _ => (false, s!"isolation: job {j}: entry for key {unhex e} which no requested memory-map entry has")
  | [], [] =>
    if r.found.length ≠ (r.found.map (·.1)).eraseDups.length then (false, s!"isolation: job {j}: duplicate found_modules key")
    else (true, "ok")

def judgeJobs (look : Look) (req : Request) : Nat → List Job → List IResult → Bool × String
  | _, [], [] => (true, "ok")
  | j, job :: rest, r :: rrest =>
    match judgeStacks look job j 0 job.stacks r.stacks with
    | (true, _) =>
      match judgeModules look req job j r with
      | (true, _) => judgeJobs look req (j + 1) rest rrest
      | x => x
    | x => x
  | j, _, _ => (false, s!"shape: wrong number of results (differs at {j})")

def judge (ops impl : List String) : Bool × String :=
  let o := parseOps ops
  if o.bad then (true, "skipped: malformed ops") else
  match o.raw with
  | none => (true, "skipped: malformed ops")
  | some raw =>
    if impl.contains "stale-oracle" then
      (false, "stale-oracle: the oracle lines of the ops are not what the direct lookups return now") else
    if o.idMismatch then
      (false, "id-syntax: DebugId::from_breakpad refused an id that the specification calls well-formed") else
    match decodeBody raw with
    | none =>
      if impl = ["error parse"] then (true, "ok")
      else (false, s!"bad-index: a frame number does not fit u32, want [error parse], got [{" | ".intercalate (impl.take 3)}]")
    | some req =>
      if ¬ decide (AllIndicesValid req) then
        if impl = ["error bad-index"] then (true, "ok")
        else (false, s!"bad-index: a module index is outside its memory map, want [error bad-index], got [{" | ".intercalate (impl.take 3)}]")
      else if !o.complete req then (true, "skipped: oracle incomplete for this request")
      else if !(contractBreakers o.specLook req).isEmpty then
        -- excluded point of C07_total. Only a synthetic symbol map may do that (model and code are then
        -- compared on `panic`); a real symbol file doing it makes the API panic on a well-formed request.
        if (contractBreakers o.specLook req).all (isSynthetic ops) then
          (true, "skipped: a synthetic symbol map breaks the lookup contract (excluded point)")
        else (false, "no-panic: the direct lookup of a real symbol file reports a symbol start above the address or an empty frame list; the implementation cannot answer this frame")
      else if impl.contains "panic" then (false, "no-panic: implementation panicked")
      else match impl with
        | l :: _ =>
          if (words l).head? = some "error" then (false, s!"shape: well-formed request answered with [{l}]")
          else match parseImpl impl with
            | none => (false, "shape: unparsable implementation output")
            | some rs => judgeJobs o.specLook req 0 req.jobs rs
        | [] =>
          -- no output lines = a response without results
          judgeJobs o.specLook req 0 req.jobs []

end C07
