import SamplyModel.Proto
import SamplyModel.Model.SampleTable
/-!
Line protocol for C04.

ops (one thread, one counter, calls in the given order; the two tables are independent):

    add <t_ns> <none|k> <cpu_ns> <weight>      Profile::add_sample(thread, t, stack k, CpuDelta::from_nanos(cpu_ns), weight)
    merge <t_ns> <weight>                      Profile::add_sample_same_stack_zero_cpu(thread, t, weight)
    addc <t_ns> <value> <n>                    Profile::add_counter_sample(counter, t, value as f64, n)

out (from `serde_json::to_value(&profile)`; times are the running sums of the deltas recovered as integer ns):

    len <length> <#stack> <#timeDeltas> <#weight> <#threadCPUDelta>
    deltas <d>*                                 signed integer ns, `nan` for a non-finite / non-numeric entry
    row <time> <none|k> <weight> <cpu_us>       in output order; rows of equal time sorted (tie groups are multisets)
    clen <length> <#count> <#number> <#timeDeltas>
    cdeltas <d>*
    crow <time> <count> <number>
  or a single line
    panic op <j>        the j-th (0-based) thread call (add/merge) panicked
    panic serialize     serialization panicked
-/
namespace C04
open STab Proto

inductive Line
  | t (op : Op)
  | c (op : COp)

def parseStack (s : String) : Option (Option Nat) :=
  if s = "none" then some none else s.toNat?.map some

def parseLine (l : String) : Option Line :=
  match words l with
  | ["add", t, st, c, w] => do
    let t ← t.toNat?; let st ← parseStack st; let c ← c.toNat?; let w ← w.toInt?
    pure (.t (.add t st c w))
  | ["merge", t, w] => do
    let t ← t.toNat?; let w ← w.toInt?
    pure (.t (.merge t w))
  | ["addc", t, v, n] => do
    let t ← t.toNat?; let v ← v.toInt?; let n ← n.toNat?
    pure (.c ⟨t, v, n⟩)
  | _ => none

def parse (ls : List String) : Option (List Op × List COp) := do
  let lines ← ls.mapM parseLine
  let tops := lines.filterMap fun | .t op => some op | _ => none
  let cops := lines.filterMap fun | .c op => some op | _ => none
  pure (tops, cops)

def showStack : Option Nat → String
  | none => "none"
  | some k => toString k

def stackKey : Option Nat → Nat
  | none => 0
  | some k => k + 1

def joinWords (tag : String) (ws : List String) : String :=
  ws.foldl (fun acc w => acc ++ " " ++ w) tag

/-- canonical order: by time, ties by (stack, weight, cpu) -/
def rowLe (a b : LRow) : Bool :=
  if a.t ≠ b.t then a.t < b.t
  else if stackKey a.stack ≠ stackKey b.stack then stackKey a.stack < stackKey b.stack
  else if a.w ≠ b.w then a.w < b.w
  else a.cpu ≤ b.cpu

def crowLe (a b : CRow) : Bool :=
  if a.t ≠ b.t then a.t < b.t
  else if a.value ≠ b.value then a.value < b.value
  else a.n ≤ b.n

def showOut (o : Out) : List String :=
  let ts := runningSums 0 o.deltas
  let rows := (mkRows ts o.stack o.cpu o.weight).mergeSort rowLe
  [s!"len {ts.length} {o.stack.length} {o.deltas.length} {o.weight.length} {o.cpu.length}",
   joinWords "deltas" (o.deltas.map toString)]
  ++ rows.map fun r => s!"row {r.t} {showStack r.stack} {r.w} {r.cpu}"

def showCOut (o : COut) : List String :=
  let ts := runningSums 0 o.deltas
  let rows := (mkCRows ts o.count o.number).mergeSort crowLe
  [s!"clen {ts.length} {o.count.length} {o.number.length} {o.deltas.length}",
   joinWords "cdeltas" (o.deltas.map toString)]
  ++ rows.map fun r => s!"crow {r.t} {r.value} {r.n}"

def model (ls : List String) : List String :=
  match parse ls with
  | none => ["bad-op"]
  | some (tops, cops) =>
    match run tops with
    | none =>
      match panicIndexFrom Thread.new 0 tops with
      | some j => [s!"panic op {j}"]
      | none => ["panic op ?"]
    | some th =>
      match th.samples.serialize, (runC cops).serialize with
      | some o, some co => showOut o ++ showCOut co
      | _, _ => ["panic serialize"]

/-! ### Judge: the property statement (`STab.specB`, `STab.specCB`) on the implementation's own output -/

def parseDeltas (ws : List String) : Option (List Int) := ws.mapM (·.toInt?)

def intSums (acc : Int) : List Int → List Int
  | [] => []
  | d :: ds => (acc + d) :: intSums (acc + d) ds

structure Parsed where
  lens : List Nat := []
  deltas : Option (List Int) := none
  rows : List (Int × Option Nat × Int × Nat) := []
  clens : List Nat := []
  cdeltas : Option (List Int) := none
  crows : List (Int × Int × Nat) := []
  bad : Option String := none

def parseImpl (impl : List String) : Parsed :=
  impl.foldl (fun (p : Parsed) l =>
    match words l with
    | "len" :: ws => { p with lens := ws.map nat! }
    | "deltas" :: ws => { p with deltas := parseDeltas ws, bad := if (parseDeltas ws).isNone then some "chronological: a time delta is not a finite number" else p.bad }
    | ["row", t, st, w, c] =>
      match t.toInt?, parseStack st, w.toInt?, c.toNat? with
      | some t, some st, some w, some c => { p with rows := p.rows ++ [(t, st, w, c)] }
      | _, _, _, _ => { p with bad := some s!"unreadable row: {l}" }
    | "clen" :: ws => { p with clens := ws.map nat! }
    | "cdeltas" :: ws => { p with cdeltas := parseDeltas ws, bad := if (parseDeltas ws).isNone then some "chronological: a counter time delta is not a finite number" else p.bad }
    | ["crow", t, v, n] =>
      match t.toInt?, v.toInt?, n.toNat? with
      | some t, some v, some n => { p with crows := p.crows ++ [(t, v, n)] }
      | _, _, _ => { p with bad := some s!"unreadable counter row: {l}" }
    | _ => { p with bad := some s!"unexpected output line: {l}" }) {}

def allEq (l : List Nat) : Bool :=
  match l with
  | [] => false
  | x :: xs => xs.all (· == x)

/-- explanation of a `specB` failure, conjunct by conjunct -/
def explain (ops : List Op) (o : Obs) : String :=
  if !(o.deltas.all fun d => decide (0 ≤ d)) then "chronological: negative time delta (times decrease)" else
  let n : Out := ⟨o.stack, o.deltas.map Int.toNat, o.weight, o.cpu⟩
  let ts := runningSums 0 n.deltas
  if !(mkRows ts n.stack n.cpu n.weight).isPerm (logical ops) then
    s!"lossless: serialized rows are not the added samples (as a multiset): expected {(logical ops).length} rows {repr ((logical ops).mergeSort rowLe)}"
  else if o.weight.sum ≠ (ops.map Op.weight).sum then
    s!"totals: weight {o.weight.sum} ≠ {(ops.map Op.weight).sum}"
  else if o.cpu.sum ≠ (ops.map Op.cpuMicros).sum then
    s!"totals: cpu {o.cpu.sum} ≠ {(ops.map Op.cpuMicros).sum}"
  else "table not rectangular"

def explainC (ops : List COp) (o : CObs) : String :=
  if !(o.deltas.all fun d => decide (0 ≤ d)) then "chronological: negative counter time delta" else
  let ts := runningSums 0 (o.deltas.map Int.toNat)
  if !(mkCRows ts o.count o.number).isPerm (logicalC ops) then
    "lossless: serialized counter rows are not the added counter samples (as a multiset)"
  else "totals: counter sums differ"

def judge (ops impl : List String) : Bool × String :=
  match parse ops with
  | none => (false, "bad-op")
  | some (tops, cops) =>
    match impl with
    | [] => (false, "no output")
    | first :: _ =>
      if first.startsWith "panic" then
        -- a panic is acceptable only at the excluded point: a merged weight that does not fit `i32`
        match firstOverflow tops with
        | some j =>
          if first = s!"panic op {j}" then (true, "ok (excluded point: merged weight exceeds i32)")
          else (false, s!"implementation panicked ({first}) but the i32 weight overflow is at thread call {j}")
        | none => (false, s!"implementation panicked: {first}")
      else
        let p := parseImpl impl
        match p.bad, p.deltas, p.cdeltas with
        | some why, _, _ => (false, why)
        | none, some ds, some cds =>
          if !(allEq p.lens) ∨ p.lens.length ≠ 5 then (false, s!"ragged sample table: lengths {p.lens}")
          else if !(allEq p.clens) ∨ p.clens.length ≠ 4 then (false, s!"ragged counter table: lengths {p.clens}")
          else if p.rows.length ≠ ds.length ∨ p.crows.length ≠ cds.length then (false, "row count differs from length")
          else if p.lens.head? ≠ some ds.length ∨ p.clens.head? ≠ some cds.length then (false, "length field differs from column length")
          else if p.rows.map (·.1) ≠ intSums 0 ds ∨ p.crows.map (·.1) ≠ intSums 0 cds then
            (false, "harness inconsistency: row times are not the running sums of the deltas")
          else
            let o : Obs := ⟨p.rows.map (·.2.1), ds, p.rows.map (·.2.2.1), p.rows.map (·.2.2.2)⟩
            let co : CObs := ⟨p.crows.map (·.2.1), p.crows.map (·.2.2), cds⟩
            if !specB tops o then (false, explain tops o)
            else if !specCB cops co then (false, explainC cops co)
            else (true, "ok")
        | _, _, _ => (false, "missing deltas / cdeltas line")

end C04
