import SamplyModel.Proto
import SamplyModel.Model.SampleTable
import SamplyModel.Model.SampleTableProfile
/-!
Line protocol for C04.

The profile of every case: process 0 with threads 0 and 1 (in this order), process 1 with thread 2, counters 0 and 1
(`C04.procs`, `C04.nCounters`; the harness creates the same layout, after a decoy process / thread / counter).

ops (calls in the given order; `@<i>` names the thread / counter, no suffix = thread 0 / counter 0):

    add[@i] <t_ns> <none|k> <cpu_ns> <weight>   Profile::add_sample(thread i, t, stack k, CpuDelta::from_nanos(cpu_ns), weight)
    merge[@i] <t_ns> <weight>                   Profile::add_sample_same_stack_zero_cpu(thread i, t, weight)
    alloc@<i> <t_ns> <none|k> <addr> <size>     Profile::add_allocation_sample(thread i, t, stack k of thread i, addr, size)
    marker@<i> <t_ns> <none|k>                  Profile::add_marker(thread i, Instant(t), …) + set_marker_stack(…, stack k)
    wtype@<i> <0|1|2>                           Profile::set_thread_samples_weight_type(thread i, Samples|TracingMs|Bytes)
    addc[@j] <t_ns> <value> <n>                 Profile::add_counter_sample(counter j, t, value, n)
    ser                                         serde_json::to_value(&profile), then the history goes on

`<value>` is an `f64`: an integer, `-0.0`, or `f<16 hex digits>` = the IEEE-754 bit pattern.

out: for every `ser` and once more at the end (`serde_json::to_value(&profile)`), a block

    snap <k>
    t<i> len <length> <#stack> <#timeDeltas> <#weight> <#threadCPUDelta>
    t<i> deltas <d>*                               signed integer ns, `nan` for a non-finite / non-numeric entry
    t<i> row <time> <none|k> <weight> <cpu_us>     in output order; rows of equal time sorted (tie groups are multisets)
    t<i> meta <weightType 0|1|2> <number of markers>
    t<i> allocs <length> <#time> <#weight> <#stack> <#memoryAddress> <#threadId>      only when nativeAllocations exists
    t<i> arow <time_ns> <none|k> <addr> <size>     in stored order
    c<j> clen <length> <#count> <#number> <#timeDeltas>
    c<j> cdeltas <d>*
    c<j> crow <time> <count> <number>              count: integer | -0.0 | f<bits> | null
    t<i> empty  /  c<j> empty                      short for an all-empty table (`len 0 0 0 0 0`, no deltas, `meta 0 0`, no allocs)
  or a single line
    panic op <j>        the j-th (0-based) op line panicked
    panic serialize     a serialization panicked
-/
namespace C04
open STab STabP Proto

/-- thread `i` lives in process `procs[i]` -/
def procs : List Nat := [0, 0, 1]
def nThreads : Nat := procs.length
def nCounters : Nat := 2

/-! ### `f64` tokens -/

/-- the canonical token of the `f64` with bit pattern `b` -/
def cvalOfBits (b0 : Nat) : CVal :=
  let b := b0 % 18446744073709551616
  let neg := b / 9223372036854775808 == 1
  let e := (b / 4503599627370496) % 2048
  let m := b % 4503599627370496
  if e == 0 then (if m == 0 then (if neg then .negZero else .int 0) else .bits b)
  else if e == 2047 then .bits b
  else
    let sig := 4503599627370496 + m
    if e ≥ 1075 then
      if e == 1075 ∨ (e == 1076 ∧ m == 0) then
        let v : Int := Int.ofNat (sig * 2 ^ (e - 1075))
        .int (if neg then -v else v)
      else .bits b
    else
      let d := 2 ^ (1075 - e)
      if sig % d == 0 then
        let v : Int := Int.ofNat (sig / d)
        .int (if neg then -v else v)
      else .bits b

def parseHex (s : String) : Option Nat :=
  s.toList.foldl (fun acc c => match acc, hexDigit? c with
    | some a, some d => some (a * 16 + d)
    | _, _ => none) (some 0)

def parseCVal (s : String) : Option CVal :=
  if s = "-0.0" then some .negZero
  else if s = "null" then some .null
  else if s.startsWith "f" then (parseHex (s.drop 1).toString).map cvalOfBits
  else s.toInt?.map .int

def hex16 (n : Nat) : String :=
  String.ofList ((List.range 16).reverse.map fun k => hexNibble ((n / 16 ^ k) % 16))

def showCVal : CVal → String
  | .int v => toString v
  | .negZero => "-0.0"
  | .bits b => "f" ++ hex16 b
  | .null => "null"

/-! ### ops -/

def parseStack (s : String) : Option (Option Nat) :=
  if s = "none" then some none else s.toNat?.map some

/-- `add@2` ↦ (`add`, 2); `add` ↦ (`add`, 0) -/
def splitTarget (w : String) : Option (String × Nat) :=
  match w.splitOn "@" with
  | [a] => some (a, 0)
  | [a, i] => i.toNat?.map fun i => (a, i)
  | _ => none

def parseLine (l : String) : Option POp :=
  match words l with
  | [] => none
  | w :: rest =>
    match splitTarget w with
    | none => none
    | some (tag, i) =>
      match tag, rest with
      | "add", [t, st, c, w] => do
        let t ← t.toNat?; let st ← parseStack st; let c ← c.toNat?; let w ← w.toInt?
        if i < nThreads then pure (.sample i (.add t st c w)) else none
      | "merge", [t, w] => do
        let t ← t.toNat?; let w ← w.toInt?
        if i < nThreads then pure (.sample i (.merge t w)) else none
      | "alloc", [t, st, a, sz] => do
        let t ← t.toNat?; let st ← parseStack st; let a ← a.toNat?; let sz ← sz.toInt?
        if i < nThreads then pure (.alloc i t st a sz) else none
      | "marker", [t, st] => do
        let _ ← t.toNat?; let _ ← parseStack st
        if i < nThreads then pure (.marker i) else none
      | "wtype", [k] => do
        let k ← k.toNat?
        if i < nThreads ∧ k < 3 then pure (.wtype i k) else none
      | "addc", [t, v, n] => do
        let t ← t.toNat?; let v ← parseCVal v; let n ← n.toNat?
        if i < nCounters then pure (.counter i ⟨t, v, n⟩) else none
      | "ser", [] => if w = "ser" then some .ser else none
      | _, _ => none

def parse (ls : List String) : Option (List POp) := ls.mapM parseLine

def showStack : Option Nat → String
  | none => "none"
  | some k => toString k

def stackKey : Option Nat → Nat
  | none => 0
  | some k => k + 1

def joinWords (tag : String) (ws : List String) : String :=
  ws.foldl (fun acc w => acc ++ " " ++ w) tag

/-- canonical order: by time, ties by (stack, weight, cpu) -/
def rowLe (a b : LRow) : Bool :=
  if a.t ≠ b.t then a.t < b.t
  else if stackKey a.stack ≠ stackKey b.stack then stackKey a.stack < stackKey b.stack
  else if a.w ≠ b.w then a.w < b.w
  else a.cpu ≤ b.cpu

def cvalKey : CVal → Nat × Int
  | .int v => (0, v)
  | .negZero => (1, 0)
  | .bits b => (2, Int.ofNat b)
  | .null => (3, 0)

def crowLe (a b : CRow) : Bool :=
  if a.t ≠ b.t then a.t < b.t
  else if (cvalKey a.value).1 ≠ (cvalKey b.value).1 then (cvalKey a.value).1 < (cvalKey b.value).1
  else if (cvalKey a.value).2 ≠ (cvalKey b.value).2 then (cvalKey a.value).2 < (cvalKey b.value).2
  else a.n ≤ b.n

def showOut (o : Out) : List String :=
  let ts := runningSums 0 o.deltas
  let rows := (mkRows ts o.stack o.cpu o.weight).mergeSort rowLe
  [s!"len {ts.length} {o.stack.length} {o.deltas.length} {o.weight.length} {o.cpu.length}",
   joinWords "deltas" (o.deltas.map toString)]
  ++ rows.map fun r => s!"row {r.t} {showStack r.stack} {r.w} {r.cpu}"

/-- an empty counter table is printed as the single line `empty` (= `clen 0 0 0 0`, `cdeltas`) -/
def showCOut (o : COut) : List String :=
  if o.count.isEmpty ∧ o.number.isEmpty ∧ o.deltas.isEmpty then ["empty"] else
  let ts := runningSums 0 o.deltas
  let rows := (mkCRows ts o.count o.number).mergeSort crowLe
  [s!"clen {ts.length} {o.count.length} {o.number.length} {o.deltas.length}",
   joinWords "cdeltas" (o.deltas.map toString)]
  ++ rows.map fun r => s!"crow {r.t} {showCVal r.value} {r.n}"

def zip4 : List Nat → List (Option Nat) → List Nat → List Int → List (Nat × Option Nat × Nat × Int)
  | t :: ts, s :: ss, a :: as, z :: zs => (t, s, a, z) :: zip4 ts ss as zs
  | _, _, _, _ => []

def showAllocs (a : AllocTable) : List String :=
  let n := a.time.length
  [s!"allocs {n} {a.time.length} {a.size.length} {a.stack.length} {a.addr.length} {n}"]
  ++ (zip4 a.time a.stack a.addr a.size).map fun (t, s, ad, z) => s!"arow {t} {showStack s} {ad} {z}"

/-- a thread nothing has happened to is printed as the single line `empty` (= `len 0 0 0 0 0`, `deltas`, `meta 0 0`, no
`allocs`) -/
def showTSnap (t : TSnap) : List String :=
  if t.samples.stack.isEmpty ∧ t.samples.deltas.isEmpty ∧ t.samples.weight.isEmpty ∧ t.samples.cpu.isEmpty
      ∧ t.wtype = 0 ∧ t.markers = 0 ∧ t.allocs.isNone then ["empty"]
  else
    showOut t.samples ++ [s!"meta {t.wtype} {t.markers}"] ++
      (match t.allocs with | none => [] | some a => showAllocs a)

def prefixed (p : String) (ls : List String) : List String := ls.map fun l => p ++ " " ++ l

def showSnap (k : Nat) (s : PSnap) : List String :=
  [s!"snap {k}"]
  ++ (s.threads.zipIdx.flatMap fun (t, i) => prefixed s!"t{i}" (showTSnap t))
  ++ (s.counters.zipIdx.flatMap fun (c, j) => prefixed s!"c{j}" (showCOut c))

def model (ls : List String) : List String :=
  match parse ls with
  | none => ["bad-op"]
  | some ops =>
    let st0 := PState.init procs nCounters
    match snapsFrom st0 ops with
    | some snaps => snaps.zipIdx.flatMap fun (s, k) => showSnap k s
    | none =>
      match panicIndexP st0 0 ops with
      | some j => [s!"panic op {j}"]
      | none => ["panic serialize"]

/-! ### Judge: the property statement (`STab.specB`, `STab.specCB`) on every snapshot of the implementation's own
output, each against the calls made before it; plus the frame clauses (weight type, marker count, allocation
samples) -/

def parseDeltas (ws : List String) : Option (List Int) := ws.mapM (·.toInt?)

def intSums (acc : Int) : List Int → List Int
  | [] => []
  | d :: ds => (acc + d) :: intSums (acc + d) ds

structure Parsed where
  lens : List Nat := []
  deltas : Option (List Int) := none
  rows : List (Int × Option Nat × Int × Nat) := []
  clens : List Nat := []
  cdeltas : Option (List Int) := none
  crows : List (Int × CVal × Nat) := []
  metas : List (List String) := []
  allocs : List (List Nat) := []
  arows : List (Nat × Option Nat × Nat × Int) := []
  bad : Option String := none

def parseImpl (impl : List (List String)) : Parsed :=
  impl.foldl (fun (p : Parsed) lw =>
    match lw with
    | "len" :: ws => { p with lens := ws.map nat! }
    | "deltas" :: ws => { p with deltas := parseDeltas ws, bad := if (parseDeltas ws).isNone then some "chronological: a time delta is not a finite number" else p.bad }
    | ["row", t, st, w, c] =>
      match t.toInt?, parseStack st, w.toInt?, c.toNat? with
      | some t, some st, some w, some c => { p with rows := p.rows ++ [(t, st, w, c)] }
      | _, _, _, _ => { p with bad := some s!"unreadable row: {joinWords "" lw}" }
    | "clen" :: ws => { p with clens := ws.map nat! }
    | "cdeltas" :: ws => { p with cdeltas := parseDeltas ws, bad := if (parseDeltas ws).isNone then some "chronological: a counter time delta is not a finite number" else p.bad }
    | ["crow", t, v, n] =>
      match t.toInt?, parseCVal v, n.toNat? with
      | some t, some v, some n => { p with crows := p.crows ++ [(t, v, n)] }
      | _, _, _ => { p with bad := some s!"unreadable counter row: {joinWords "" lw}" }
    | "meta" :: ws => { p with metas := p.metas ++ [ws] }
    | "allocs" :: ws => { p with allocs := p.allocs ++ [ws.map nat!] }
    | ["arow", t, st, a, z] =>
      match t.toNat?, parseStack st, a.toNat?, z.toInt? with
      | some t, some st, some a, some z => { p with arows := p.arows ++ [(t, st, a, z)] }
      | _, _, _, _ => { p with bad := some s!"unreadable allocation row: {joinWords "" lw}" }
    | _ => { p with bad := some s!"unexpected output line: {joinWords "" lw}" }) {}

def allEq (l : List Nat) : Bool :=
  match l with
  | [] => false
  | x :: xs => xs.all (· == x)

/-- explanation of a `specB` failure, conjunct by conjunct -/
def explain (ops : List Op) (o : Obs) : String :=
  if !(o.deltas.all fun d => decide (0 ≤ d)) then "chronological: negative time delta (times decrease)" else
  let n : Out := ⟨o.stack, o.deltas.map Int.toNat, o.weight, o.cpu⟩
  let ts := runningSums 0 n.deltas
  if !(mkRows ts n.stack n.cpu n.weight).isPerm (logical ops) then
    s!"lossless: serialized rows are not the added samples (as a multiset): expected {(logical ops).length} rows {repr ((logical ops).mergeSort rowLe)}"
  else if o.weight.sum ≠ (ops.map Op.weight).sum then
    s!"totals: weight {o.weight.sum} ≠ {(ops.map Op.weight).sum}"
  else if o.cpu.sum ≠ (ops.map Op.cpuMicros).sum then
    s!"totals: cpu {o.cpu.sum} ≠ {(ops.map Op.cpuMicros).sum}"
  else "table not rectangular"

def explainC (ops : List COp) (o : CObs) : String :=
  if !(o.deltas.all fun d => decide (0 ≤ d)) then "chronological: negative counter time delta" else
  let ts := runningSums 0 (o.deltas.map Int.toNat)
  if !(mkCRows ts o.count o.number).isPerm (logicalC ops) then
    "lossless: serialized counter rows are not the added counter samples (as a multiset)"
  else "totals: counter sums differ"

/-- the weight type a thread must show: the last one set (default `samples`) -/
def wtypeOf (i : Nat) (ops : List POp) : Nat :=
  ops.foldl (fun acc op => match op with | .wtype j k => if j = i then k else acc | _ => acc) 0

def markersOf (i : Nat) (ops : List POp) : Nat :=
  (ops.filter fun op => match op with | .marker j => j == i | _ => false).length

/-- one thread of one snapshot against the calls made before the snapshot; `none` = fine -/
def judgeThread (i : Nat) (pre : List POp) (lines0 : List (List String)) : Option String :=
  let lines := if lines0 = [["empty"]] then [["len", "0", "0", "0", "0", "0"], ["deltas"], ["meta", "0", "0"]] else lines0
  let p := parseImpl lines
  match p.bad, p.deltas with
  | some why, _ => some why
  | none, none => some "missing deltas line"
  | none, some ds =>
    if !(allEq p.lens) ∨ p.lens.length ≠ 5 then some s!"ragged sample table: lengths {p.lens}"
    else if p.rows.length ≠ ds.length then some "row count differs from length"
    else if p.lens.head? ≠ some ds.length then some "length field differs from column length"
    else if p.rows.map (·.1) ≠ intSums 0 ds then
      some "harness inconsistency: row times are not the running sums of the deltas"
    else
      let o : Obs := ⟨p.rows.map (·.2.1), ds, p.rows.map (·.2.2.1), p.rows.map (·.2.2.2)⟩
      let tops := threadOps i pre
      if !specB tops o then some (explain tops o)
      else if p.metas ≠ [[toString (wtypeOf i pre), toString (markersOf i pre)]] then
        some s!"frame: weight type / marker count {p.metas} ≠ {wtypeOf i pre} {markersOf i pre}"
      else
        let want := allocRowsOf procs i pre
        if want.isEmpty then
          if p.allocs.isEmpty ∧ p.arows.isEmpty then none
          else some "frame: a nativeAllocations table although no allocation sample was routed to this thread"
        else if p.allocs ≠ [List.replicate 6 want.length] then
          some s!"frame: ragged / wrong-length nativeAllocations table {p.allocs}, expected {want.length} rows"
        else if p.arows ≠ want then some "frame: nativeAllocations rows are not the allocation calls in call order"
        else none

def judgeCounter (j : Nat) (pre : List POp) (lines0 : List (List String)) : Option String :=
  let lines := if lines0 = [["empty"]] then [["clen", "0", "0", "0", "0"], ["cdeltas"]] else lines0
  let p := parseImpl lines
  match p.bad, p.cdeltas with
  | some why, _ => some why
  | none, none => some "missing cdeltas line"
  | none, some cds =>
    if !(allEq p.clens) ∨ p.clens.length ≠ 4 then some s!"ragged counter table: lengths {p.clens}"
    else if p.crows.length ≠ cds.length then some "row count differs from length"
    else if p.clens.head? ≠ some cds.length then some "length field differs from column length"
    else if p.crows.map (·.1) ≠ intSums 0 cds then
      some "harness inconsistency: row times are not the running sums of the deltas"
    else
      let co : CObs := ⟨p.crows.map (·.2.1), p.crows.map (·.2.2), cds⟩
      let cops := counterOps j pre
      if !specCB cops co then some (explainC cops co) else none

/-- split the output into snapshot blocks (the lines after each `snap` line) -/
def splitSnaps (impl : List String) : List (List String) :=
  let (cur, acc) := impl.foldl (fun (st : Option (List String) × List (List String)) l =>
    if (words l).head? = some "snap" then
      (some [], match st.1 with | some c => st.2 ++ [c] | none => st.2)
    else (st.1.map (· ++ [l]), st.2)) (none, [])
  match cur with
  | some c => acc ++ [c]
  | none => acc

/-- the lines of slot `tag` (e.g. `t1`), split into words, without the tag -/
def slotLines (tag : String) (block : List (List String)) : List (List String) :=
  block.filterMap fun
    | w :: rest => if w = tag then some rest else none
    | [] => none

def knownTags : List String :=
  (List.range nThreads).map (fun i => s!"t{i}") ++ (List.range nCounters).map (fun j => s!"c{j}")

def judgeSnap (k : Nat) (ops : List POp) (block0 : List String) : Option String :=
  let pre := prefixAt k ops
  let block := block0.map words
  if block.any (fun | w :: _ => !knownTags.contains w | [] => true) then
    some s!"snapshot {k}: unexpected output line"
  else
    let tr := (List.range nThreads).findSome? fun i =>
      (judgeThread i pre (slotLines s!"t{i}" block)).map fun why => s!"snapshot {k} thread {i}: {why}"
    match tr with
    | some why => some why
    | none =>
      (List.range nCounters).findSome? fun j =>
        (judgeCounter j pre (slotLines s!"c{j}" block)).map fun why => s!"snapshot {k} counter {j}: {why}"

def judge (opLines impl : List String) : Bool × String :=
  match parse opLines with
  | none => (false, "bad-op")
  | some ops =>
    match impl with
    | [] => (false, "no output")
    | first :: _ =>
      if first.startsWith "panic" then
        -- a panic is acceptable only at the excluded point: a merged weight that does not fit `i32`
        match firstOverflowP nThreads ops with
        | some j =>
          if first = s!"panic op {j}" then (true, "ok (excluded point: merged weight exceeds i32)")
          else (false, s!"implementation panicked ({first}) but the i32 weight overflow is at call {j}")
        | none => (false, s!"implementation panicked: {first}")
      else if (words first).head? ≠ some "snap" then (false, s!"unexpected output line: {first}")
      else
        let blocks := splitSnaps impl
        if blocks.length ≠ serCount ops + 1 then
          (false, s!"{blocks.length} snapshots for {serCount ops} ser calls + the final serialization")
        else
          match blocks.zipIdx.findSome? fun (b, k) => judgeSnap k ops b with
          | some why => (false, why)
          | none => (true, "ok")

end C04
