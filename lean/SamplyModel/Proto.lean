/-!
Line protocol shared by the model driver (`Driver.lean`) and the Rust harness.

A stream is a sequence of blocks

    case <n>
    <line>*
    end

`splitCases` turns the stream into `(n, lines)` pairs. For the judge the harness output of a case
is appended to the operation lines after a line `impl`.
Core Lean only: this file is linked into the `samply_model` executable.
-/
namespace Proto

def words (s : String) : List String :=
  (s.trimAscii.toString.splitOn " ").filter (· ≠ "")

def nat! (s : String) : Nat := s.toNat?.getD 0

def int? (s : String) : Option Int := s.toInt?

def hexDigit? (c : Char) : Option Nat :=
  if '0' ≤ c ∧ c ≤ '9' then some (c.toNat - '0'.toNat)
  else if 'a' ≤ c ∧ c ≤ 'f' then some (c.toNat - 'a'.toNat + 10)
  else if 'A' ≤ c ∧ c ≤ 'F' then some (c.toNat - 'A'.toNat + 10)
  else none

/-- decode a hex string ("4d4f", "-" = empty) into bytes -/
def hexBytes (s : String) : List UInt8 :=
  let rec go : List Char → List UInt8
    | a :: b :: rest =>
      match hexDigit? a, hexDigit? b with
      | some x, some y => (UInt8.ofNat (x * 16 + y)) :: go rest
      | _, _ => []
    | _ => []
  if s = "-" then [] else go s.toList

def hexNibble (n : Nat) : Char :=
  if n < 10 then Char.ofNat ('0'.toNat + n) else Char.ofNat ('a'.toNat + (n - 10))

def bytesHex (bs : List UInt8) : String :=
  if bs.isEmpty then "-" else
  String.ofList (bs.flatMap fun b => [hexNibble (b.toNat / 16), hexNibble (b.toNat % 16)])

structure Case where
  n : String
  lines : List String

/-- split a stream of lines into cases -/
def splitCases (ls : List String) : List Case :=
  let rec go (ls : List String) (cur : Option (String × List String)) (acc : List Case) : List Case :=
    match ls with
    | [] => acc.reverse
    | l :: rest =>
      let l' := l.trimAscii.toString
      match cur with
      | none =>
        match words l' with
        | "case" :: n :: _ => go rest (some (n, [])) acc
        | _ => go rest none acc
      | some (n, body) =>
        if l' = "end" then go rest none (⟨n, body.reverse⟩ :: acc)
        else go rest (some (n, l' :: body)) acc
  go ls none []

/-- split the lines of a judge case at the `impl` separator -/
def splitImpl (ls : List String) : List String × List String :=
  let ops := ls.takeWhile (· ≠ "impl")
  let out := (ls.dropWhile (· ≠ "impl")).drop 1
  (ops, out)

def optNat (o : Option Nat) : String :=
  match o with
  | none => "none"
  | some n => toString n

def parseOptNat (s : String) : Option Nat := if s = "none" then none else s.toNat?

end Proto
