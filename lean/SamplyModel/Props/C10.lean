import SamplyModel.Lemmas.BreakpadCreator
/-!
# C10 — the Breakpad symbol index is independent of chunking and agrees with the .sym text
(preliminary)
-/
open BP

/-- Feeding the bytes of a `.sym` file to the incremental index builder in ANY partition into chunks
(including empty chunks, 1-byte chunks, cuts between `\r` and `\n`) gives the same outcome — the same
index bytes, the same error, the same panic — as feeding them as one chunk. -/
theorem C10_chunk_independent (pick : Pick) (chunks : List (List UInt8)) :
    index pick chunks = index pick [chunks.flatten] :=
  index_chunk_independent pick chunks
