import SamplyModel.Lemmas.BreakpadReading
import SamplyModel.Lemmas.BreakpadStored
import SamplyModel.Lemmas.BreakpadModuleId
/-!
# C10 — the Breakpad symbol index is independent of chunking and agrees with the .sym text

Models: `SamplyModel/Model/LineBuffer.lean` (`LineBuffer`), `SamplyModel/Model/BreakpadIndex.lean`
(line parsers, index creator, `.symindex` (de)serialization, FUNC block parser, `lookup_sync`, the symbol
maps with and without a stored index). `BP.index pick chunks` is the outcome (`ok bytes | err | panic`)
of feeding `chunks` in order to a fresh `BreakpadIndexCreator` and calling `finish`; `pick` is the oracle
for the survivor of `sort_unstable + dedup` among entries with equal keys (all theorems hold for every
`pick`).

All theorems quantify over ALL byte strings / chunk lists — no bound on sizes; the only size hypotheses
are the ones the Rust types impose (`u64` file offsets, `u32` index layout) and are stated explicitly.
Only property theorems (names `C10_*`) and non-vacuity examples live in this file.
-/
open BP BPS

/-- Feeding the bytes of a `.sym` file to the incremental index builder in ANY partition into chunks
(empty chunks, 1-byte chunks, cuts between `\r` and `\n`, …) gives the same outcome — the same index
bytes, the same error, the same panic — as feeding them as one chunk. -/
theorem C10_chunk_independent (pick : Pick) (chunks : List (List UInt8)) :
    index pick chunks = index pick [chunks.flatten] :=
  index_chunk_independent pick chunks

/-- Two partitions of the same byte stream give byte-identical index data. -/
theorem C10_chunk_independent_pair (pick : Pick) (c1 c2 : List (List UInt8))
    (h : c1.flatten = c2.flatten) : index pick c1 = index pick c2 := by
  rw [index_chunk_independent pick c1, index_chunk_independent pick c2, h]

/-- The line buffer's `assert!` / offset subtraction and the FUNC-block length subtraction never fail:
the creator can only panic inside `serialize_to_bytes`, and only when the index does not fit the `u32`
layout of the `.symindex` format (≥ 4 GiB). -/
theorem C10_no_panic (pick : Pick) (chunks : List (List UInt8)) (h : index pick chunks = .panic) :
    ∃ ix, preIndex pick chunks = .ix ix ∧ ¬ totalLen ix < pow32 := by
  obtain ⟨st, hc, _, he⟩ := preIndex_spec pick chunks.flatten
  unfold index at h
  rw [preIndex_chunk_independent] at h ⊢
  rw [he] at h ⊢
  cases hm : st.hasModule with
  | false => simp [hm, Pre.toOutcome] at h
  | true =>
    simp only [hm, if_true, Pre.toOutcome] at h ⊢
    refine ⟨_, rfl, ?_⟩
    intro hlt
    have hlen := (toIndex_sorted pick st _ hc).2.2.2
    have : serializeSafe (st.toIndex pick) = true := (serializeSafe_iff _).2 ⟨hlt, hlen⟩
    simp [this] at h

/-- Round trip: parsing the serialization of an index gives back that index, and serializing the parse
result reproduces the bytes. Hypotheses: the fields fit their serialized widths and the module-info block
has a parseable MODULE line (`Index.ok`), and the whole index fits the `u32` layout (`serializeSafe`,
i.e. `serialize_to_bytes` does not panic). -/
theorem C10_roundtrip (ix : Index) (hok : ix.ok) (hs : serializeSafe ix = true) :
    parseSymindex (serialize ix) = some ix ∧
    ∀ ix', parseSymindex (serialize ix) = some ix' → serialize ix' = serialize ix := by
  have h := parse_serialize ix hok hs
  refine ⟨h, ?_⟩
  intro ix' h'
  rw [h] at h'
  cases h'
  rfl

/-- Every index the creator can produce, from any text shorter than 2^64 bytes in any chunking, satisfies
the hypotheses of the round trip: its bytes parse back (so `make_symbol_map`'s `unwrap` cannot panic),
re-serializing the parsed index reproduces them byte for byte, the symbol addresses and the FILE /
INLINE_ORIGIN indexes are strictly ascending (what the binary searches of the lookup rely on) and the two
symbol arrays have the same length. -/
theorem C10_creator_roundtrip (pick : Pick) (chunks : List (List UInt8)) (bytes : List UInt8)
    (hlen : chunks.flatten.length < pow64) (h : index pick chunks = .ok bytes) :
    ∃ ix, parseSymindex bytes = some ix ∧ serialize ix = bytes ∧
      ix.addrs.Pairwise (· < ·) ∧ (ix.files.map (·.index)).Pairwise (· < ·) ∧
      (ix.origins.map (·.index)).Pairwise (· < ·) ∧ ix.addrs.length = ix.entries.length := by
  obtain ⟨st, hc, _, he⟩ := index_spec pick chunks
  rw [he] at h
  cases hm : st.hasModule with
  | false => simp [hm] at h
  | true =>
    simp only [hm, if_true] at h
    by_cases hs : serializeSafe (st.toIndex pick) = true
    · simp only [hs, if_true, Outcome.ok.injEq] at h
      subst h
      have hok := toIndex_ok pick st _ hc hlen hm
      exact ⟨_, parse_serialize _ hok hs, rfl, toIndex_sorted pick st _ hc⟩
    · simp [hs] at h

/-- The self-indexing map is a function of the whole text (its 1 MiB reads are one particular chunking),
and it never hits the `unwrap` of `make_symbol_map` for a text shorter than 2^64 bytes. -/
theorem C10_self_map_no_unwrap_panic (pick : Pick) (text : List UInt8) (hlen : text.length < pow64)
    (h : mapSelf pick text = .panic) : index pick [text] = .panic := by
  rw [mapSelf_eq] at h
  split at h
  · cases h
  · cases hi : index pick [text] with
    | panic => rfl
    | err => simp [hi] at h
    | ok bytes =>
      simp only [hi] at h
      obtain ⟨ix, hp, _⟩ := C10_creator_roundtrip pick [text] bytes (by simpa using hlen) hi
      simp [hp] at h

/-- A symbol map that is handed a stored index built from the same text — in any chunking, e.g. the
chunks of the download — is the same map as the one that indexes the file itself (in 1 MiB reads): same
parsed index, hence the same answer to every lookup. (Since fix 3f61c23c the stored index is used only if
its MODULE line is the beginning of the text; whether this index passes that test or is rebuilt, the
result is the same map. `C10_own_index_accepted` shows that for a well-formed file it does pass.) -/
theorem C10_stored_eq_self_built (pick : Pick) (text : List UInt8) (chunks : List (List UInt8))
    (bytes : List UInt8) (hflat : chunks.flatten = text) (hidx : index pick chunks = .ok bytes) :
    mapStored pick text (some bytes) = mapSelf pick text :=
  mapStored_eq_mapSelf pick text chunks bytes hflat hidx

/-- Without a stored index, or with one that does not parse, the map falls back to indexing the file. -/
theorem C10_stored_fallback (pick : Pick) (text : List UInt8) (stored : Option (List UInt8))
    (h : stored.bind parseSymindex = none) : mapStored pick text stored = mapSelf pick text := by
  unfold mapStored
  rw [h]
  unfold mapSelf
  split <;> rfl

/-- **A stored index of another file is ignored** (fixes 3f61c23c + d2664d76). If the stored bytes parse but
the MODULE line they carry (first line of the module-info block) is empty, or is not the beginning of the
`.sym` text — another debug id, another name, another letter case, one byte more, anything —, or the debug
id the parsed index reports (taken from the LAST MODULE line of the block) is not the id that first line
states, the map is exactly the self-indexing map: a stale, foreign or doctored `.symindex` cannot influence
any lookup nor the reported debug id. Holds for ALL byte strings `b` and texts. -/
theorem C10_foreign_stored_ignored (pick : Pick) (text b : List UInt8) (ix : Index)
    (hp : parseSymindex b = some ix)
    (hm : ¬ (storedModuleLine ix ≠ [] ∧ storedModuleLine ix <+: text ∧ storedIdAgrees ix = true)) :
    mapStored pick text (some b) = mapSelf pick text := by
  apply mapStored_mismatch pick text b ix hp
  cases h : storedMatches text ix with
  | false => rfl
  | true => exact absurd ((storedMatches_iff text ix).1 h) hm

/-- … and the complete description of `make_index_storage`: the stored index is used if and only if it
parses, its non-empty MODULE line is the beginning of the text and the id it reports is the id of that line;
in every other case (absent, unparsable, truncated, foreign, second MODULE line with another id) the map
is the self-indexing one. -/
theorem C10_stored_used_iff (pick : Pick) (text : List UInt8) (stored : Option (List UInt8))
    (hb : (tag tMODULE_ text).isSome = true) :
    (∀ ix, stored.bind parseSymindex = some ix → storedModuleLine ix ≠ [] → storedModuleLine ix <+: text →
        storedIdAgrees ix = true → mapStored pick text stored = .ok ix) ∧
    ((∀ ix, stored.bind parseSymindex = some ix →
        ¬ (storedModuleLine ix ≠ [] ∧ storedModuleLine ix <+: text ∧ storedIdAgrees ix = true)) →
        mapStored pick text stored = mapSelf pick text) := by
  have hn : (tag tMODULE_ text).isNone = false := by
    cases h : tag tMODULE_ text <;> simp_all
  refine ⟨?_, ?_⟩
  · intro ix hp h1 h2 h3
    unfold mapStored
    simp [hn, hp, (storedMatches_iff text ix).2 ⟨h1, h2, h3⟩]
  · intro h
    cases hp : stored.bind parseSymindex with
    | none => exact C10_stored_fallback pick text stored hp
    | some ix =>
      have hm : storedMatches text ix = false := by
        cases h' : storedMatches text ix with
        | false => rfl
        | true => exact absurd ((storedMatches_iff text ix).1 h') (h ix hp)
      unfold mapStored
      simp [hn, hp, hm]

/-- **Whenever a stored index is used, the debug id the map reports is the id stated at the beginning of the
text** (fix d2664d76): the stored first line `m` is a non-empty prefix of the text without `\n`, it parses as
a MODULE record, and the id of the parsed index (`index.debug_id`, from the LAST MODULE line of the block)
is the `DebugId` of `m`'s id token. -/
theorem C10_stored_used_reports_own_id (pick : Pick) (text : List UInt8) (stored : Option (List UInt8))
    (ix : Index) (hb : (tag tMODULE_ text).isSome = true) (hp : stored.bind parseSymindex = some ix)
    (hu : mapStored pick text stored = .ok ix) (hself : mapSelf pick text ≠ .ok ix) :
    storedModuleLine ix ≠ [] ∧ storedModuleLine ix <+: text ∧ (10 : UInt8) ∉ storedModuleLine ix ∧
    ∃ v, indexDebugId ix = some v ∧ debugIdOfModuleLine (storedModuleLine ix) = some v := by
  have hn : (tag tMODULE_ text).isNone = false := by
    cases h : tag tMODULE_ text <;> simp_all
  have hm : storedMatches text ix = true := by
    cases h : storedMatches text ix with
    | true => rfl
    | false =>
      exfalso
      unfold mapStored at hu
      simp only [hn, Bool.false_eq_true, if_false, hp, h] at hu
      exact hself hu
  obtain ⟨h1, h2, h3⟩ := (storedMatches_iff text ix).1 hm
  obtain ⟨v, hv1, hv2⟩ := (storedIdAgrees_iff ix).1 h3
  refine ⟨h1, h2, ?_, v, hv2, hv1⟩
  unfold storedModuleLine
  intro hmem
  have := mem_takeWhile_true _ _ _ hmem
  simp at this

/-- … and that id is the id stated by the text's WHOLE first line (`BP.firstLine text`: the bytes before the
first `\n`, trailing CRs stripped — what the creator hands to `module_line`), whenever that line parses as a
MODULE record — also when the stored MODULE line is only a proper prefix of it (the prefix test of fix
3f61c23c): the id token lies before the name and is delimited by blanks inside the stored line
(`moduleLine_append_id`). So a stored index that is used never makes the map report another build than the
one the `.sym` file itself names. -/
theorem C10_stored_used_reports_first_line_id (pick : Pick) (text : List UInt8) (stored : Option (List UInt8))
    (ix : Index) (hb : (tag tMODULE_ text).isSome = true) (hp : stored.bind parseSymindex = some ix)
    (hu : mapStored pick text stored = .ok ix) (hself : mapSelf pick text ≠ .ok ix)
    (hfl : (moduleLine (firstLine text)).isSome = true) :
    indexDebugId ix = debugIdOfModuleLine (firstLine text) := by
  obtain ⟨_, hpre, hnl, v, hv1, hv2⟩ := C10_stored_used_reports_own_id pick text stored ix hb hp hu hself
  rw [hv1, ← hv2]
  unfold debugIdOfModuleLine at hv2 ⊢
  cases hm : moduleLine (storedModuleLine ix) with
  | none => rw [hm] at hv2; cases hv2
  | some r =>
    cases hf : moduleLine (firstLine text) with
    | none => rw [hf] at hfl; cases hfl
    | some r' =>
      have := moduleLine_prefix_firstLine_id _ text r r' hpre hnl hm hf
      simp [this]

/-- Every index the creator writes (any text below 2^64 bytes, any chunking) reports the id of the first line
of its module-info block, and that line parses as a MODULE record — so the new test never rejects an index
because of its id, and `C10_stored_eq_self_built` is not vacuous on that account. -/
theorem C10_creator_index_id_agrees (pick : Pick) (chunks : List (List UInt8)) (bytes : List UInt8)
    (hlen : chunks.flatten.length < pow64) (h : index pick chunks = .ok bytes) :
    ∃ ix, parseSymindex bytes = some ix ∧ storedIdAgrees ix = true ∧
      (moduleLine (storedModuleLine ix)).isSome = true := by
  obtain ⟨st, hc, _, he⟩ := index_spec pick chunks
  rw [he] at h
  cases hm : st.hasModule with
  | false => simp [hm] at h
  | true =>
    simp only [hm, if_true] at h
    by_cases hs : serializeSafe (st.toIndex pick) = true
    · simp only [hs, if_true, Outcome.ok.injEq] at h
      subst h
      have hok := toIndex_ok pick st _ hc hlen hm
      have hsh : ModShape (st.toIndex pick).moduleInfo := hc.module hm
      exact ⟨_, parse_serialize _ hok hs, storedIdAgrees_of_shape _ hsh⟩
    · simp [hs] at h

/-- **A half-written `.symindex` is never accepted.** Every proper prefix of a serialized index (any index
`serialize_to_bytes` can write without panicking) is rejected by `parse_symindex_file`: the last table ends
exactly at the end of the file and every table is bounds-checked. -/
theorem C10_truncated_index_rejected (ix : Index) (hs : serializeSafe ix = true) (n : Nat)
    (hn : n < (serialize ix).length) : parseSymindex ((serialize ix).take n) = none :=
  parse_truncated ix hs n hn

/-- … hence a symbol map that is offered a truncated copy of an index the creator produced (from any text,
in any chunking — it need not even be the index of this text) behaves exactly like the self-indexing map. -/
theorem C10_truncated_stored_ignored (pick : Pick) (text : List UInt8) (chunks : List (List UInt8))
    (bytes : List UInt8) (h : index pick chunks = .ok bytes) (n : Nat) (hn : n < bytes.length) :
    mapStored pick text (some (bytes.take n)) = mapSelf pick text := by
  obtain ⟨st, _, _, he⟩ := index_spec pick chunks
  rw [he] at h
  have hrej : parseSymindex (bytes.take n) = none := by
    cases hm : st.hasModule with
    | false => simp [hm] at h
    | true =>
      simp only [hm, if_true] at h
      by_cases hs : serializeSafe (st.toIndex pick) = true
      · simp only [hs, if_true, Outcome.ok.injEq] at h
        subst h
        exact parse_truncated _ hs n hn
      · simp [hs] at h
  exact C10_stored_fallback pick text (some (bytes.take n)) (by simpa using hrej)

/-- A lookup through ANY index that `parse_symindex_file` accepts — the index of another file, a corrupted
one — cannot hit the out-of-range `symbol_entries[index]` (the two symbol arrays of a parsed index have the
length the header announces); offsets that point outside the text give "not found". -/
theorem C10_parsed_index_lookup_no_panic (bs : List UInt8) (ix : Index) (h : parseSymindex bs = some ix)
    (text : List UInt8) (a : Nat) : lookup text ix a ≠ .panic :=
  lookup_parsed_no_panic bs ix h text a

/-- **The two index builders of wholesym** (`parse_sym_file_into_index`: 2 MiB `read`s of the `.sym` file,
breakpad.rs:267-290; the download consumer: one `consume` per `read` of the response body,
breakpad.rs:163-171 + downloader.rs:326-344) compute the index of the whole text, whatever lengths the
reads return (`lens`: oracle for short reads). -/
theorem C10_wholesym_index (pick : Pick) (lens : List Nat) (text : List UInt8) :
    wsIndex pick lens text = index pick [text] :=
  wsIndex_eq pick lens text

/-- A local `.sym` file under wholesym with a symindex cache directory and no `.symindex` yet: the map is
the self-indexing map, and the `.symindex` written is the index of the text (no file when the text has no
MODULE line). -/
theorem C10_wholesym_local_fresh (pick : Pick) (lens : List Nat) (text : List UInt8) :
    (wsLocalMap pick lens text none).1 = mapSelf pick text ∧
    ((tag tMODULE_ text).isSome = true →
      (wsLocalMap pick lens text none).2 =
        match index pick [text] with | .ok b => .file b | .err => .absent | .panic => .panic) := by
  unfold wsLocalMap
  by_cases hm : (tag tMODULE_ text).isNone = true
  · refine ⟨?_, ?_⟩
    · simp only [hm, if_true]; unfold mapSelf; simp [hm]
    · intro h; cases ht : tag tMODULE_ text <;> simp_all
  · simp only [hm, Bool.false_eq_true, if_false, wsEnsureSymindex, wsIndex_eq]
    cases hi : index pick [text] with
    | panic =>
      refine ⟨?_, fun _ => rfl⟩
      simp only
      rw [mapSelf_eq]; simp [hm, hi]
    | err => exact ⟨C10_stored_fallback pick text none rfl, fun _ => rfl⟩
    | ok b =>
      refine ⟨?_, fun _ => rfl⟩
      exact mapStored_eq_mapSelf pick text [text] b (by simp) hi

/-- An existing `.symindex` that does not parse (empty, truncated, wrong magic, …) is left alone and
ignored: the map is the self-indexing one. (`ensure_symindex` reuses whatever file is there; the
validation happens in `make_index_storage`.) -/
theorem C10_wholesym_local_stale_rejected (pick : Pick) (lens : List Nat) (text b : List UInt8)
    (h : parseSymindex b = none) :
    wsLocalMap pick lens text (some b) = (mapSelf pick text, .file b) := by
  unfold wsLocalMap
  by_cases hm : (tag tMODULE_ text).isNone = true
  · simp only [hm, if_true]; unfold mapSelf; simp [hm]
  · simp only [hm, Bool.false_eq_true, if_false, wsEnsureSymindex]
    rw [C10_stored_fallback pick text (some b) (by simpa using h)]

/-- The stored index of a well-formed file passes the MODULE-line test of the repaired `make_index_storage`
(its module-info block begins with the MODULE line of the text, CRs stripped, which is the beginning of the
text), so it is USED — not merely equal in effect to re-indexing: any mixture of `\n` / `\r\n` / `\r\r\n`
after the MODULE line, with or without INFO records. -/
theorem C10_own_index_accepted (s : SymFile) (h : WFIndex s) :
    storedModuleLine (specIndex s) = s.moduleLine ∧ storedMatches (render s) (specIndex s) = true :=
  ⟨storedModuleLine_spec s h, storedMatches_render s h⟩

/-- An existing `.symindex` that parses but belongs to another file (its MODULE line is not the beginning of
this `.sym` file) is left alone on disk and ignored by the map (fix 3f61c23c). -/
theorem C10_wholesym_local_stale_foreign_ignored (pick : Pick) (lens : List Nat) (text b : List UInt8)
    (ix : Index) (hp : parseSymindex b = some ix)
    (hm : ¬ (storedModuleLine ix ≠ [] ∧ storedModuleLine ix <+: text ∧ storedIdAgrees ix = true)) :
    wsLocalMap pick lens text (some b) = (mapSelf pick text, .file b) := by
  unfold wsLocalMap
  by_cases ht : (tag tMODULE_ text).isNone = true
  · simp only [ht, if_true]; unfold mapSelf; simp [ht]
  · simp only [ht, Bool.false_eq_true, if_false, wsEnsureSymindex]
    rw [C10_foreign_stored_ignored pick text b ix hp hm]

/-- `MODULE a b 0123456789ab c\nPUBLIC 1000 0 new\n` -/
def C10_staleText : List UInt8 := [77, 79, 68, 85, 76, 69, 32, 97, 32, 98, 32, 48, 49, 50, 51, 52, 53, 54, 55, 56, 57, 97, 98, 32, 99, 10, 80, 85, 66, 76, 73, 67, 32, 49, 48, 48, 48, 32, 48, 32, 110, 101, 119, 10]

/-- the index of ANOTHER file, `MODULE x y 0123456789ab old\nPUBLIC 2000 0 q\n`: one PUBLIC symbol 0x2000,
line of 15 bytes at offset 28 -/
def C10_staleIndex : Index :=
  ⟨[77, 79, 68, 85, 76, 69, 32, 120, 32, 121, 32, 48, 49, 50, 51, 52, 53, 54, 55, 56, 57, 97, 98, 32, 111, 108, 100],
   [], [], [8192], [⟨0, 15, 28⟩]⟩

/-- Before fix 3f61c23c (`mapStoredLegacy`) a `.symindex` left over from another `.sym` file was used as
it was: the map over `C10_staleText` held the foreign index, and the lookup of 0x1000 — the PUBLIC record
`new` of the text — found nothing. The repaired `make_index_storage` sees that the stored MODULE line is
not the beginning of the text, re-indexes, and the lookup finds `new`. -/
theorem C10_legacy_counterexample_stale_symindex :
    mapStoredLegacy Pick.first C10_staleText (some (serialize C10_staleIndex)) = .ok C10_staleIndex ∧
    lookup C10_staleText C10_staleIndex 4096 = .none ∧
    storedMatches C10_staleText C10_staleIndex = false ∧
    mapStored Pick.first C10_staleText (some (serialize C10_staleIndex)) = mapSelf Pick.first C10_staleText ∧
    ∃ ix, mapSelf Pick.first C10_staleText = .ok ix ∧
      lookup C10_staleText ix 4096 = .found ⟨4096, none, [110, 101, 119], none⟩ := by
  have hok : ∀ (mi : List UInt8) (a : Nat) (e : SymEntry), (10 : UInt8) ∉ mi → (moduleLine mi).isSome = true →
      a < pow32 → e.ok → Index.ok ⟨mi, [], [], [a], [e]⟩ := by
    intro mi a e h10 hm ha he
    refine ⟨by simp, by simp, by simpa using ha, by simpa using he, ?_⟩
    exact deriveModule_of_shape mi ⟨mi, [], by simp [LB.joinNl], h10, by simp, hm⟩
  have hp : parseSymindex (serialize C10_staleIndex) = some C10_staleIndex :=
    parse_serialize _ (hok _ _ _ (by decide) (by decide) (by decide) ⟨by decide, by decide, by decide⟩) (by decide)
  have hsingle : ∀ (gt : Nat → Bool) (x : Nat), bsearchLE gt [x] = if gt x then none else some 0 := by
    intro gt x
    unfold bsearchLE
    rw [bsearchBase]
    simp
  refine ⟨?_, ?_, by decide, mapStored_mismatch Pick.first C10_staleText _ _ hp (by decide), ?_⟩
  · unfold mapStoredLegacy
    rw [show (some (serialize C10_staleIndex)).bind parseSymindex = some C10_staleIndex from hp]
    decide
  · unfold lookup
    simp only [C10_staleIndex, hsingle]
    decide
  · have hi : index Pick.first [C10_staleText] = .ok (serialize ⟨[77, 79, 68, 85, 76, 69, 32, 97, 32, 98, 32, 48, 49, 50, 51, 52, 53, 54, 55, 56, 57, 97, 98, 32, 99],
        [], [], [4096], [⟨0, 17, 26⟩]⟩) := by
      unfold index
      rw [preIndex_eq_spec]
      decide
    have hp2 := parse_serialize _ (hok [77, 79, 68, 85, 76, 69, 32, 97, 32, 98, 32, 48, 49, 50, 51, 52, 53, 54, 55, 56, 57, 97, 98, 32, 99]
      4096 ⟨0, 17, 26⟩ (by decide) (by decide) (by decide) ⟨by decide, by decide, by decide⟩) (by decide)
    refine ⟨⟨[77, 79, 68, 85, 76, 69, 32, 97, 32, 98, 32, 48, 49, 50, 51, 52, 53, 54, 55, 56, 57, 97, 98, 32, 99],
        [], [], [4096], [⟨0, 17, 26⟩]⟩, ?_, ?_⟩
    · rw [mapSelf_eq, hi]
      simp only [hp2]
      decide
    · unfold lookup
      simp only [hsingle]
      decide

/-- a doctored index for `C10_staleText`: the module-info block is the text's own MODULE line followed by a
second MODULE line with another debug id (`…89ac`); the tables are the right ones -/
def C10_twoModuleIndex : Index :=
  ⟨[77, 79, 68, 85, 76, 69, 32, 97, 32, 98, 32, 48, 49, 50, 51, 52, 53, 54, 55, 56, 57, 97, 98, 32, 99, 10, 77, 79, 68, 85, 76, 69, 32, 97, 32, 98, 32, 48, 49, 50, 51, 52, 53, 54, 55, 56, 57, 97, 99, 32, 99],
   [], [], [4096], [⟨0, 17, 26⟩]⟩

set_option maxRecDepth 8192 in
/-- **Witness against the first-line-only rule of fix 3f61c23c** (`mapStoredFirstLineOnly`): the first stored
line is the beginning of the text, so the doctored index was used — but `parse_symindex_file` takes the id
from the LAST MODULE line, and the map reported build `0123456789ac` while serving the text of build
`0123456789ab`. With fix d2664d76 (`mapStored`) the id test fails and the map is the self-indexing one. -/
theorem C10_counterexample_two_module_lines :
    mapStoredFirstLineOnly Pick.first C10_staleText (some (serialize C10_twoModuleIndex)) = .ok C10_twoModuleIndex ∧
    indexDebugId C10_twoModuleIndex = some (debugIdValue [48, 49, 50, 51, 52, 53, 54, 55, 56, 57, 97, 99]) ∧
    debugIdOfModuleLine (storedModuleLine C10_twoModuleIndex)
      = some (debugIdValue [48, 49, 50, 51, 52, 53, 54, 55, 56, 57, 97, 98]) ∧
    debugIdValue [48, 49, 50, 51, 52, 53, 54, 55, 56, 57, 97, 99] ≠ debugIdValue [48, 49, 50, 51, 52, 53, 54, 55, 56, 57, 97, 98] ∧
    storedMatches C10_staleText C10_twoModuleIndex = false ∧
    mapStored Pick.first C10_staleText (some (serialize C10_twoModuleIndex)) = mapSelf Pick.first C10_staleText := by
  have hd : deriveModule C10_twoModuleIndex.moduleInfo
      = some ⟨[97], [98], [48, 49, 50, 51, 52, 53, 54, 55, 56, 57, 97, 99], [99]⟩ := by
    unfold deriveModule moduleInfoLines
    rw [LB.consume_eq_bytewise _ _ LB.inv_init]
    decide
  have hok : Index.ok C10_twoModuleIndex :=
    ⟨by simp [C10_twoModuleIndex], by simp [C10_twoModuleIndex], by simp [C10_twoModuleIndex, pow32],
     by simp [C10_twoModuleIndex, SymEntry.ok, pow32, pow64], by rw [hd]; rfl⟩
  have hp : parseSymindex (serialize C10_twoModuleIndex) = some C10_twoModuleIndex :=
    parse_serialize _ hok (by decide)
  have hid : indexDebugId C10_twoModuleIndex = some (debugIdValue [48, 49, 50, 51, 52, 53, 54, 55, 56, 57, 97, 99]) := by
    unfold indexDebugId; rw [hd]; rfl
  have hfirst : debugIdOfModuleLine (storedModuleLine C10_twoModuleIndex)
      = some (debugIdValue [48, 49, 50, 51, 52, 53, 54, 55, 56, 57, 97, 98]) := by decide
  have hne : debugIdValue [48, 49, 50, 51, 52, 53, 54, 55, 56, 57, 97, 99] ≠ debugIdValue [48, 49, 50, 51, 52, 53, 54, 55, 56, 57, 97, 98] := by
    decide
  have hm : storedMatches C10_staleText C10_twoModuleIndex = false := by
    unfold storedMatches storedIdAgrees
    rw [hid, hfirst]
    have : (debugIdValue [48, 49, 50, 51, 52, 53, 54, 55, 56, 57, 97, 98] == debugIdValue [48, 49, 50, 51, 52, 53, 54, 55, 56, 57, 97, 99]) = false := by
      decide
    simp [this]
  refine ⟨?_, hid, hfirst, hne, hm, mapStored_mismatch Pick.first C10_staleText _ _ hp hm⟩
  unfold mapStoredFirstLineOnly
  rw [show (some (serialize C10_twoModuleIndex)).bind parseSymindex = some C10_twoModuleIndex from hp]
  decide

/-- Before fix c4b9d51a an `INLINE_ORIGIN` record inside a FUNC block made the whole block unparseable
(every lookup in that function returned nothing); the repaired parser skips it. -/
theorem C10_legacy_counterexample_origin_in_func :
    parseBodyLegacy (splitLines ([49, 48, 48, 48, 32, 50, 48, 32, 49, 32, 48, 10, 73, 78, 76, 73, 78, 69, 95, 79, 82, 73, 71, 73, 78, 32, 48, 32, 103, 10] : List UInt8)) = none ∧
    (parseBody (splitLines ([49, 48, 48, 48, 32, 50, 48, 32, 49, 32, 48, 10, 73, 78, 76, 73, 78, 69, 95, 79, 82, 73, 71, 73, 78, 32, 48, 32, 103, 10] : List UInt8))).isSome = true := by
  decide

/-- Agreement with the text, index part. For every well-formed abstract file `s` (`BPS.WFIndex`: a MODULE line
the grammar accepts; INFO / FILE / INLINE_ORIGIN / PUBLIC / FUNC / line / INLINE / STACK records in ANY
order with fields in range, names without line breaks; distinct symbol addresses, FILE ids and
INLINE_ORIGIN ids; any mixture of `\n`, `\r\n`, `\r\r\n` terminators; with or without final newline;
shorter than 4 GiB) and every partition of its rendered text into chunks, the creator computes exactly
`BPS.specIndex s`: the module-info block is the MODULE line plus the INFO lines, every FILE /
INLINE_ORIGIN entry carries the offset and (CR-stripped) length of its line, every PUBLIC entry the
offset and length of its line, every FUNC entry the offset of its line and the distance to the next
PUBLIC / FUNC / INFO / STACK line (or the end of the file), all sorted by key. The offsets and lengths
of `specIndex` are defined by arithmetic on the rendered line lengths only. -/
theorem C10_reading_index (pick : Pick) (s : SymFile) (h : WFIndex s) (chunks : List (List UInt8))
    (hflat : chunks.flatten = render s) :
    preIndex pick chunks = .ix (specIndex s) ∧
    index pick chunks = (if serializeSafe (specIndex s) then .ok (serialize (specIndex s)) else .panic) ∧
    (specIndex s).addrs.Pairwise (· < ·) := by
  refine ⟨?_, index_render pick s h chunks hflat, (specIndex_ok s h).2.1⟩
  rw [preIndex_chunk_independent, hflat]
  exact preIndex_render pick s h

/-- … and the symbol map built over the file (with or without that index stored separately) holds
exactly `specIndex s`. -/
theorem C10_reading_index_map (pick : Pick) (s : SymFile) (h : WFIndex s)
    (hm : (tag tMODULE_ s.moduleLine).isSome = true) (hs : serializeSafe (specIndex s) = true)
    (chunks : List (List UInt8)) (hflat : chunks.flatten = render s) :
    mapSelf pick (render s) = .ok (specIndex s) ∧
    mapStored pick (render s) (some (serialize (specIndex s))) = .ok (specIndex s) := by
  have h1 := mapSelf_render pick s h hm hs
  refine ⟨h1, ?_⟩
  rw [← h1]
  apply mapStored_eq_mapSelf pick (render s) chunks _ hflat
  rw [index_render pick s h chunks hflat, hs]
  rfl

/-- **Agreement with a straightforward reading of the text.** For every well-formed abstract file `s`
(`BPS.WF`: `WFIndex` — records of every kind in any order, fields in range, sane names, distinct symbol
addresses / FILE ids / INLINE_ORIGIN ids, any mixture of line terminators, with or without final newline,
below 4 GiB — plus, per FUNC block: inline ranges non-empty, below 2^32 and non-overlapping per depth;
line records ascending, contiguous and reaching the end of the function), every partition of its rendered
text into chunks and every address `a`:

* the self-indexing symbol map and the map that is handed the index built from those chunks are the same
  map (they hold the specification index), and
* its answer to the lookup of `a` — found or not, symbol address, size, name, and the frames: inline call
  chain with caller file / line per level and the file and line of the covering line record — is exactly
  `BPS.readDirectly s a`, which looks only at the abstract records (greatest symbol address ≤ a; FUNC
  covers `[addr, addr+size)`, PUBLIC reaches to the next symbol; per depth the INLINE record with a range
  covering `a`; the line record covering `a`; FILE / INLINE_ORIGIN names by id).

`serializeSafe (specIndex s)` = the index fits the 4 GiB `.symindex` layout; `tMODULE_` = the file starts
with the seven bytes `MODULE ` (what `is_breakpad_file` tests). -/
theorem C10_reading (pick : Pick) (s : SymFile) (h : WF s)
    (hm : (tag tMODULE_ s.moduleLine).isSome = true) (hs : serializeSafe (specIndex s) = true)
    (chunks : List (List UInt8)) (hflat : chunks.flatten = render s) (a : Nat) :
    ∃ ix, mapSelf pick (render s) = .ok ix ∧
      (∀ bytes, index pick chunks = .ok bytes → mapStored pick (render s) (some bytes) = .ok ix) ∧
      lookup (render s) ix a = readDirectly s a := by
  refine ⟨specIndex s, mapSelf_render pick s h.index hm hs, ?_, lookup_render s h a⟩
  intro bytes hb
  rw [mapStored_eq_mapSelf pick (render s) chunks bytes hflat hb]
  exact mapSelf_render pick s h.index hm hs

/-- **Agreement with the text, pointwise in the address** (strengthens `C10_reading`: `WF s → WFAt s a`
for every `a`, see `C10_wf_implies_wfAt`). For the lookup of `a` only what concerns `a` is demanded
(`BPS.WFAt`): the index part `WFIndex`, and — for the FUNC record whose range contains `a`, if any — line
records ascending and non-overlapping, `a` covered by one of them or lying before all of them, and every
inline range covering `a` ending below 2^32 and separated from the other ranges of its depth. Gaps between
line records elsewhere in the function, anything in other functions, overlapping inline ranges away from
`a` do not matter. The excluded addresses are exactly those of the known finding C10-line-gap (a line
record starts at or below `a` but none covers it) and inline ranges that overlap at `a` itself. -/
theorem C10_reading_at (pick : Pick) (s : SymFile) (a : Nat) (h : WFAt s a)
    (hm : (tag tMODULE_ s.moduleLine).isSome = true) (hs : serializeSafe (specIndex s) = true)
    (chunks : List (List UInt8)) (hflat : chunks.flatten = render s) :
    ∃ ix, mapSelf pick (render s) = .ok ix ∧
      (∀ bytes, index pick chunks = .ok bytes → mapStored pick (render s) (some bytes) = .ok ix) ∧
      (wsLocalMap pick [] (render s) none).1 = .ok ix ∧
      lookup (render s) ix a = readDirectly s a := by
  refine ⟨specIndex s, mapSelf_render pick s h.index hm hs, ?_, ?_, lookup_render_at s a h⟩
  · intro bytes hb
    rw [mapStored_eq_mapSelf pick (render s) chunks bytes hflat hb]
    exact mapSelf_render pick s h.index hm hs
  · rw [(C10_wholesym_local_fresh pick [] (render s)).1]
    exact mapSelf_render pick s h.index hm hs

/-- the file-wide hypothesis of `C10_reading` implies the pointwise one at every address -/
theorem C10_wf_implies_wfAt (s : SymFile) (h : WF s) (a : Nat) : WFAt s a := wfAt_of_wf s h a

/-- The lookup never hits the out-of-range index of `symbol_entries[index]` on a map the creator built. -/
theorem C10_reading_no_panic (s : SymFile) (h : WF s) (a : Nat) :
    lookup (render s) (specIndex s) a ≠ .panic := by
  rw [lookup_render s h a]
  unfold readDirectly
  simp only
  split
  · simp
  · split
    · simp
    · split <;> simp

/-! ### Non-vacuity -/

/-- `MODULE a b 0123456789ab c\nFUNC 1000 20 0 f\n1000 20 1 0\nINLINE_ORIGIN 0 g\n` -/
def C10_exampleText : List UInt8 := [77, 79, 68, 85, 76, 69, 32, 97, 32, 98, 32, 48, 49, 50, 51, 52, 53, 54, 55, 56, 57, 97, 98, 32, 99, 10, 70, 85, 78, 67, 32, 49, 48, 48, 48, 32, 50, 48, 32, 48, 32, 102, 10, 49, 48, 48, 48, 32, 50, 48, 32, 49, 32, 48, 10, 73, 78, 76, 73, 78, 69, 95, 79, 82, 73, 71, 73, 78, 32, 48, 32, 103, 10]

/-- the example text is indexed without error: one FUNC symbol, one INLINE_ORIGIN entry, 112 index bytes -/
example : (match index Pick.first [C10_exampleText] with | .ok b => b.length | _ => 0) = 112 := by
  unfold index
  rw [preIndex_eq_spec]
  decide

/-- a small abstract file: `FILE 0 a.c\r`, `FUNC 1000 20 0 f`, `1000 20 7 0`, `PUBLIC 2000 0 p` after a
MODULE line, final newline -/
def C10_exampleFile : SymFile :=
  { moduleLine := [77, 79, 68, 85, 76, 69, 32, 76, 105, 110, 117, 120, 32, 120, 56, 54, 95, 54, 52, 32, 66, 69, 52, 69, 57, 55, 54, 67, 51, 50, 53, 50, 52, 54, 69, 69, 57, 68, 54, 66, 55, 56, 52, 55, 65, 54, 55, 48, 66, 50, 65, 57, 48, 32, 120]
    moduleCrs := 0
    lines := [⟨.file 0 [97, 46, 99], 1⟩, ⟨.func false 4096 32 0 [102], 0⟩, ⟨.line 4096 32 7 0, 0⟩,
              ⟨.pub false 8192 0 [112], 0⟩]
    finalNl := true }

theorem C10_exampleFile_wf : WFIndex C10_exampleFile := by
  have hn : ∀ (b : UInt8), isSpTab b = false → NoLeadSp [b] := by
    intro b hb c r h; cases h; exact hb
  have hn3 : NoLeadSp ([97, 46, 99] : List UInt8) := by
    intro c r h; cases h; decide
  constructor
  · decide
  · decide
  · decide
  · intro l hl
    simp only [C10_exampleFile, List.mem_cons, List.not_mem_nil, or_false] at hl
    rcases hl with rfl | rfl | rfl | rfl
    · exact ⟨by decide, ⟨by decide, by decide, hn3, by decide⟩⟩
    · exact ⟨by decide, by decide, by decide, ⟨by decide, by decide, hn _ (by decide), by decide⟩⟩
    · exact ⟨by decide, by decide, by decide, by decide⟩
    · exact ⟨by decide, by decide, ⟨by decide, by decide, hn _ (by decide), by decide⟩⟩
  · decide
  · decide
  · decide
  · decide

/-- its index: FILE entry (0, 10, 56); symbols 0x1000 (FUNC, block 29 bytes at 68) and 0x2000 (PUBLIC) -/
example : (specIndex C10_exampleFile).files = [⟨0, 10, 56⟩] ∧
    (specIndex C10_exampleFile).addrs = [4096, 8192] ∧
    (specIndex C10_exampleFile).entries = [⟨1, 29, 68⟩, ⟨0, 15, 97⟩] := by decide

theorem C10_exampleFile_wf_full : WF C10_exampleFile := by
  refine ⟨C10_exampleFile_wf, ?_⟩
  intro r hr size hsz
  simp only [C10_exampleFile, readSyms, List.mem_cons, List.not_mem_nil, or_false] at hr
  rcases hr with rfl | rfl
  · simp only [Option.some.injEq] at hsz
    subst hsz
    refine ⟨⟨by simp [inlineesOf, List.takeWhile, Rec.isCloser], by simp [inlineesOf, List.takeWhile, Rec.isCloser]⟩, ?_⟩
    simp [linesOf, List.takeWhile, Rec.isCloser, LinesOK]
  · simp at hsz

/-- the direct reading of the example: 0x1004 lies in `f`, line 7 of `a.c`; 0x2005 in the PUBLIC `p`;
0x1020 (first byte after `f`) and 0xfff in nothing -/
example : readDirectly C10_exampleFile 4100
      = .found ⟨4096, some 32, [102], some [⟨some [102], some [97, 46, 99], some 7⟩]⟩ ∧
    readDirectly C10_exampleFile 8197 = .found ⟨8192, none, [112], none⟩ ∧
    readDirectly C10_exampleFile 4128 = .none ∧ readDirectly C10_exampleFile 4095 = .none := by decide

/-- a file with a gap between line records: `FUNC 1000 20 0 f`, `1000 8 7 0`, `1010 10 9 0` (nothing covers
0x1008..0x100f). It is not `WF` (the line records are not contiguous) … -/
def C10_gapFile : SymFile :=
  { moduleLine := [77, 79, 68, 85, 76, 69, 32, 76, 105, 110, 117, 120, 32, 120, 56, 54, 95, 54, 52, 32, 66, 69, 52, 69, 57, 55, 54, 67, 51, 50, 53, 50, 52, 54, 69, 69, 57, 68, 54, 66, 55, 56, 52, 55, 65, 54, 55, 48, 66, 50, 65, 57, 48, 32, 120]
    moduleCrs := 0
    lines := [⟨.file 0 [97, 46, 99], 1⟩, ⟨.func false 4096 32 0 [102], 0⟩, ⟨.line 4096 8 7 0, 0⟩,
              ⟨.line 4112 16 9 0, 0⟩, ⟨.pub false 8192 0 [112], 0⟩]
    finalNl := true }

set_option maxRecDepth 4096 in
theorem C10_gapFile_wf : WFIndex C10_gapFile := by
  have hn : ∀ (b : UInt8), isSpTab b = false → NoLeadSp [b] := by
    intro b hb c r h; cases h; exact hb
  have hn3 : NoLeadSp ([97, 46, 99] : List UInt8) := by
    intro c r h; cases h; decide
  constructor
  · decide
  · decide
  · decide
  · intro l hl
    simp only [C10_gapFile, List.mem_cons, List.not_mem_nil, or_false] at hl
    rcases hl with rfl | rfl | rfl | rfl | rfl
    · exact ⟨by decide, ⟨by decide, by decide, hn3, by decide⟩⟩
    · exact ⟨by decide, by decide, by decide, ⟨by decide, by decide, hn _ (by decide), by decide⟩⟩
    · exact ⟨by decide, by decide, by decide, by decide⟩
    · exact ⟨by decide, by decide, by decide, by decide⟩
    · exact ⟨by decide, by decide, ⟨by decide, by decide, hn _ (by decide), by decide⟩⟩
  · decide
  · decide
  · decide
  · decide

theorem C10_gapFile_not_wf : ¬ WF C10_gapFile := by
  intro h
  have := (h.bodies ⟨4096, some 32, [102], [.line 4096 8 7 0, .line 4112 16 9 0]⟩
    (by simp [C10_gapFile, readSyms, List.takeWhile, Rec.isCloser]) 32 rfl).2
  simp [linesOf, LinesOK] at this

/-- … but it is well-formed at every address a line record covers, e.g. 0x1004 and 0x1015 (so
`C10_reading_at` speaks about these lookups, `C10_reading` does not) -/
theorem C10_gapFile_wfAt (a : Nat) (ha : (4096 ≤ a ∧ a < 4104) ∨ (4112 ≤ a ∧ a < 4128)) : WFAt C10_gapFile a := by
  refine ⟨C10_gapFile_wf, ?_⟩
  intro r hr size hsz _ _
  simp only [C10_gapFile, readSyms, List.mem_cons, List.not_mem_nil, or_false] at hr
  rcases hr with rfl | rfl
  · refine ⟨⟨by simp [inlineesOf, List.takeWhile, Rec.isCloser], by simp [inlineesOf, List.takeWhile, Rec.isCloser]⟩, ?_, ?_⟩
    · simp [linesOf, List.takeWhile, Rec.isCloser, LinesAsc]
    · left
      simp only [linesOf, List.takeWhile, Rec.isCloser, List.map, Bool.not_false, Bool.not_true]
      rcases ha with h | h
      · exact ⟨⟨4096, 8, 0, 7⟩, by simp, by simp; omega, by simp; omega⟩
      · exact ⟨⟨4112, 16, 0, 9⟩, by simp, by simp; omega, by simp; omega⟩
  · simp at hsz

example : readDirectly C10_gapFile 4100
      = .found ⟨4096, some 32, [102], some [⟨some [102], some [97, 46, 99], some 7⟩]⟩ ∧
    readDirectly C10_gapFile 4117
      = .found ⟨4096, some 32, [102], some [⟨some [102], some [97, 46, 99], some 9⟩]⟩ := by decide
