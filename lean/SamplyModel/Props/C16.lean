import SamplyModel.Lemmas.FileCreationRetry
import SamplyModel.Lemmas.DownloadWrite
import SamplyModel.Lemmas.FileCreationAsync
import SamplyModel.Lemmas.FileCreationRepaired
import SamplyModel.Lemmas.DownloadCompose
import SamplyModel.Lemmas.FileCreationOnce
/-!
# C16 — cache files appear atomically: complete or not at all

Model: `SamplyModel/Model/FileCreation.lean` (follows `wholesym/src/file_creation.rs`, statement by
statement): a transition system `FC.next` over any number of concurrent creators of one destination and the
shared directory (`dest`, `dest.part`, `dest.lock` as names bound to inodes, flock owner per inode).
`FC.Reachable pl s` = `s` is reachable from the empty directory by **any** sequence of actions of **any**
creators: progress steps in any interleaving, failing operations (`Act.fail`), killed processes
(`Act.crash`, at every program point) and dropped futures (`Act.cancel`, at the await points).
`pl p` is the complete payload creator `p`'s write callback produces, chunk by chunk.

All theorems quantify over every reachable state; there is no bound on the number of creators, on the
schedule, or on the number and position of faults. They are corollaries of one inductive invariant
(`FC.Inv`, `FC.inv_reachable` in `Lemmas/FileCreation.lean`).

Assumptions (properties of the model, not proved about the OS): POSIX semantics of `flock` (per open file
description, released on close/death), atomic `rename`, `unlink` removing the name only; nobody outside the
modelled creators touches the three names — in particular nobody deletes `dest`; `metadata(dest)` answers
truthfully. Tokio scheduling and real kill timing are explored by the harness, not proved.
Only property theorems (names `C16_*`) and non-vacuity examples live in this file.
-/
open FC

/-- **Atomicity.** At every instant the final path either does not exist or holds the complete payload of
the one creator that executed the rename — never a partial file. -/
theorem C16_atomic (pl : Pid → Content) (s : State) (h : Reachable pl s) :
    (s.destContent = none ∧ s.winners = []) ∨
    ∃ w, s.destContent = some (pl w) ∧ s.winners = [w] := by
  rcases (inv_reachable h).destOk with ⟨hd, hw⟩ | ⟨w, j, hd, hc, hw⟩
  · left; simp [State.destContent, hd, hw]
  · right; exact ⟨w, by simp [State.destContent, hd, hc], hw⟩

/-- **Key lemma.** The lock *name* is only ever unlinked while the destination exists. -/
theorem C16_lock_unlinked_only_when_dest_exists (pl : Pid → Content) (s s' : State) (a : Act)
    (h : Reachable pl s) (hn : next pl s a = some s')
    (h1 : s.lockName ≠ none) (h2 : s'.lockName = none) : s.dest ≠ none := by
  have hinv := inv_reachable h
  have hI := hinv.saw a.pid
  have hH := hinv.after a.pid
  have hG := hinv.destOk
  cases a with
  | step p =>
    simp only [next, stepP] at hn
    split at hn <;> (try split at hn) <;>
      first
        | (injection hn with hn; subst hn; simp_all [sawDest, afterRename, Act.pid]; done)
        | (injection hn with hn; subst hn; grind [sawDest, afterRename, Act.pid])
        | simp at hn
  | fail p =>
    simp only [next, failP] at hn
    split at hn <;> first | (injection hn with hn; subst hn; simp_all) | simp at hn
  | crash p =>
    simp only [next, crashP] at hn
    split at hn
    · simp at hn
    · split at hn <;> (injection hn with hn; subst hn; simp_all)
  | cancel p =>
    simp only [next, cancelP] at hn
    split at hn <;> first | (injection hn with hn; subst hn; simp_all) | simp at hn

/-- … therefore, while the destination is absent, every creator that has the lock file open has it open
on the *same* inode (the one the name still denotes), -/
theorem C16_same_lock_inode (pl : Pid → Content) (s : State) (h : Reachable pl s) (hd : s.dest = none)
    (p q : Pid) (i i' : Inode) (hp : lockFd (s.pc p) = some i) (hq : lockFd (s.pc q) = some i') :
    i = i' ∧ s.lockName = some i := by
  have e1 := (inv_reachable h).sameInode hd p i hp
  have e2 := (inv_reachable h).sameInode hd q i' hq
  rw [e1] at e2
  exact ⟨Option.some.inj e2, e1⟩

/-- **Mutual exclusion.** At most one creator is between "saw the destination absent under the lock" and
the rename (or the removal of the temp file on failure); and nobody is there once the destination exists. -/
theorem C16_mutex (pl : Pid → Content) (s : State) (h : Reachable pl s) (p q : Pid)
    (hp : inCS (s.pc p) = true) (hq : inCS (s.pc q) = true) : p = q ∧ s.dest = none :=
  ⟨(inv_reachable h).mutex hp hq, (inv_reachable h).dest_none_of_inCS hp⟩

/-- The temp file belongs to its single writer: while creator `p` is inside its write callback with `k`
chunks written, `dest.part` is exactly the first `k` chunks of `p`'s payload (nobody truncates or renames
it under `p`), and when the callback has returned `Ok` it is the complete payload. -/
theorem C16_part_is_writers (pl : Pid → Content) (s : State) (h : Reachable pl s) (p : Pid) :
    (∀ i j k, s.pc p = .writing i j k → s.part = some j ∧ s.content j = (pl p).take k) ∧
    (∀ i, s.pc p = .wroteOk i → ∃ j, s.part = some j ∧ s.content j = pl p) :=
  ⟨(inv_reachable h).writing p, (inv_reachable h).wrote p⟩

/-- **At most once.** The rename is executed at most once in any history (creators that were killed after
it included), and at most one creator returns "created". -/
theorem C16_at_most_once (pl : Pid → Content) (s : State) (h : Reachable pl s) :
    s.winners.length ≤ 1 ∧
    ∀ p q, s.pc p = .doneCreated → s.pc q = .doneCreated → p = q := by
  have hinv := inv_reachable h
  constructor
  · rcases hinv.destOk with ⟨_, hw⟩ | ⟨w, j, _, _, hw⟩ <;> simp [hw]
  · intro p q hp hq
    have a1 := hinv.after p (by simp [hp, afterRename])
    have a2 := hinv.after q (by simp [hq, afterRename])
    rw [a1] at a2
    simpa using a2

/-- **Every success sees the complete file.** A creator that returned `Ok` — through its own rename
(`doneCreated`) or through the existing-file handler (`doneExisting`; also while that handler runs,
`exUnlinked`) — finds a complete payload at the final path; the one that created it finds its own. -/
theorem C16_success_sees_complete (pl : Pid → Content) (s : State) (h : Reachable pl s) (p : Pid) :
    (s.pc p = .doneCreated → s.destContent = some (pl p)) ∧
    (s.pc p = .doneExisting ∨ s.pc p = .exUnlinked → ∃ w, s.destContent = some (pl w)) := by
  have hinv := inv_reachable h
  constructor
  · intro hp
    have a1 := hinv.after p (by simp [hp, afterRename])
    rcases hinv.destOk with ⟨_, hw⟩ | ⟨w, j, hd, hc, hw⟩
    · rw [hw] at a1; simp at a1
    · rw [hw] at a1
      have : w = p := by simpa using a1
      subst this
      simp [State.destContent, hd, hc]
  · intro hp
    have hd := hinv.saw p (by rcases hp with hp | hp <;> simp [hp, sawDest])
    rcases hinv.destOk with ⟨hd', _⟩ | ⟨w, j, hd', hc, _⟩
    · exact absurd hd' hd
    · exact ⟨w, by simp [State.destContent, hd', hc]⟩

/-- **Stability.** Once the destination holds a complete payload no later action of anybody changes it
(so what a successful caller saw stays true). -/
theorem C16_dest_stable (pl : Pid → Content) (s s' : State) (a : Act) (h : Reachable pl s)
    (hn : next pl s a = some s') (c : Content) (hc : s.destContent = some c) :
    s'.destContent = some c := by
  have hinv := inv_reachable h
  have hD := hinv.noCS
  cases a with
  | step p =>
    simp only [next, stepP] at hn
    split at hn <;> (try split at hn) <;>
      first
        | (injection hn with hn; subst hn; simpa [State.destContent] using hc)
        | (injection hn with hn; subst hn; simp [State.destContent] at hc ⊢
           obtain ⟨j, hj, hcj⟩ := hc
           have := hD (by simp [hj]) p
           simp_all [inCS]; done)
        | simp at hn
  | fail p =>
    simp only [next, failP] at hn
    split at hn <;>
      first | (injection hn with hn; subst hn; simpa [State.destContent] using hc) | simp at hn
  | crash p =>
    simp only [next, crashP] at hn
    split at hn
    · simp at hn
    · split at hn <;> (injection hn with hn; subst hn; simpa [State.destContent] using hc)
  | cancel p =>
    simp only [next, cancelP] at hn
    split at hn <;>
      first | (injection hn with hn; subst hn; simpa [State.destContent] using hc) | simp at hn

/-- A creator that is finished, has failed, was killed or was cancelled holds no lock. -/
theorem C16_quiet_holds_no_lock (pl : Pid → Content) (s : State) (h : Reachable pl s) (p : Pid)
    (hq : quiet (s.pc p) = true) (i : Inode) : s.holder i ≠ some p := by
  intro hh
  have := (inv_reachable h).holdB p i hh
  rw [quiet_holds hq] at this
  simp at this

/-- **Retry.** From *any* reachable state in which no creator is live — every creator is finished, failed,
killed, not started, or a cancelled waiter whose detached flock thread is still blocked (`passive`; this
includes every state with all creators `quiet`) — whatever earlier attempts left
behind (a `.lock` file, a partial `.part` file, or a complete destination), a fresh creator `p` whose
operations all succeed runs to completion on its own: if the destination was absent it returns "created"
and the destination holds exactly `p`'s complete payload; if it was present `p` returns through the
existing-file handler and the destination is unchanged. A failed or killed attempt never blocks a later one. -/
theorem C16_retry (pl : Pid → Content) (s : State) (h : Reachable pl s)
    (hquiet : ∀ q, passive (s.pc q) = true) (p : Pid) (hp : s.pc p = .idle) :
    ∃ n s', run pl s (List.replicate n (Act.step p)) = some s' ∧
      ((s.dest = none ∧ s'.pc p = .doneCreated ∧ s'.destContent = some (pl p)) ∨
       (s.dest ≠ none ∧ s'.pc p = .doneExisting ∧ s'.destContent = s.destContent)) := by
  have hinv := inv_reachable h
  have hsolo : Solo pl p s.dest s :=
    { inv := hinv, others := fun q _ => hquiet q, track := by simp [hp, onTrack],
      destNone := fun hd _ => hd, destSame := fun j hj => hj }
  obtain ⟨n, s', hrun, hs', hfin⟩ := solo_progress _ s hsolo (Nat.le_refl _)
  refine ⟨n, s', hrun, ?_⟩
  have htr := hs'.track
  cases hd : s.dest with
  | none =>
    left
    rw [hd] at htr
    have hpc : s'.pc p = .doneCreated := by
      cases hpc : s'.pc p <;> simp [hpc, finished, onTrack] at hfin htr ⊢
    refine ⟨rfl, hpc, ?_⟩
    have a1 := hs'.inv.after p (by simp [hpc, afterRename])
    rcases hs'.inv.destOk with ⟨_, hw⟩ | ⟨w, j, hd', hc, hw⟩
    · rw [hw] at a1; simp at a1
    · rw [hw] at a1
      have : w = p := by simpa using a1
      subst this
      simp [State.destContent, hd', hc]
  | some j =>
    right
    rw [hd] at htr
    have hpc : s'.pc p = .doneExisting := by
      cases hpc : s'.pc p <;> simp [hpc, finished, onTrack] at hfin htr ⊢
    refine ⟨by simp, hpc, ?_⟩
    have hsame := hs'.destSame j hd
    -- the destination inode is the same; its contents are unchanged by `C16_dest_stable` along the run
    have key : ∀ (m : Nat) (t t' : State), Reachable pl t →
        run pl t (List.replicate m (Act.step p)) = some t' →
        ∀ c, t.destContent = some c → t'.destContent = some c := by
      intro m
      induction m with
      | zero => intro t t' _ hr c hc; simp [run] at hr; subst hr; exact hc
      | succ m ih =>
        intro t t' ht hr c hc
        simp only [List.replicate_succ, run] at hr
        split at hr
        · rename_i t1 h1
          exact ih t1 t' (Reachable.step _ ht h1) hr c (C16_dest_stable pl t t1 _ ht h1 c hc)
        · simp at hr
    have hc0 : s.destContent = some (s.content j) := by simp [State.destContent, hd]
    rw [key n s s' h hrun _ hc0, hc0]

/-! ### Sensitivity witness: why the lock file must not be removed on the failure path

`FC.nextUnlinkOnFail` differs from the model of the real code only in also unlinking `dest.lock` when a
failed attempt drops its lock (what file_creation.rs:67-69 says must not be done). Three creators suffice
to put a file at the final path that is nobody's payload: 0 fails while 1 waits on the old lock inode;
1 then writes under the old inode while 2 — which found no lock name and made a new inode — truncates and
writes the same temp file; 1's rename publishes the mixture. The invariant above is therefore not a
triviality of the state space. -/

def C16_payload : Pid → Content
  | 0 => [1, 2]
  | 1 => [10, 20]
  | 2 => [30, 40, 50]
  | _ => [7]

def C16_badSchedule : List Act :=
  [.step 0, .step 0, .step 0, .step 0,      -- 0: open lock, flock, stat (absent), open temp
   .step 1, .step 1,                         -- 1: open lock (same inode), try-lock fails, waits
   .fail 0, .step 0, .step 0,                -- 0: callback fails, unlink temp, close lock (+ unlink lock in the variant)
   .step 1, .step 1, .step 1, .step 1,       -- 1: gets the old inode's lock, stat (absent), open temp, writes 10
   .step 2, .step 2, .step 2, .step 2, .step 2,  -- 2: NEW lock inode, flock, stat (absent), truncates temp, writes 30
   .step 1, .step 1, .step 1]                -- 1: writes 20, closes, renames

theorem C16_unlink_lock_on_failure_breaks_atomicity :
    (runUnlinkOnFail C16_payload State.init C16_badSchedule).bind State.destContent = some [30, 20] := by
  decide

/-- under the real protocol the same schedule is not even executable: creator 2 opens the *same* lock inode
and its blocking `flock` is not enabled while creator 1 holds it -/
example : (run C16_payload State.init C16_badSchedule).isNone = true := by decide

/-! ### Non-vacuity: concrete reachable histories with concurrency, a failure, a kill, a cancellation -/

/-- 0 is killed mid-write while 1 waits; 1 then creates the file; 2 arrives late and finds it;
3 fails before, 4 is cancelled while waiting -/
def C16_goodSchedule : List Act :=
  [.step 3, .step 3, .step 3, .step 3, .step 3, .fail 3, .step 3, .step 3,   -- 3: writes one chunk, fails, cleans up
   .step 0, .step 0, .step 0, .step 0, .step 0,                              -- 0: … writes 1
   .step 1, .step 1, .step 4, .step 4,                                       -- 1 and 4 wait on the lock
   .cancel 4,                                                                -- 4's future is dropped
   .crash 0,                                                                 -- 0 is killed; `.part` = [1] stays
   .step 1, .step 1, .step 1, .step 1, .step 1, .step 1, .step 1, .step 1, .step 1,  -- 1 creates [10, 20]
   .step 4, .step 4,                                                         -- 4's detached flock thread gets and drops the lock
   .step 2, .step 2, .step 2, .step 2, .step 2, .step 2]                     -- 2 finds the file

example : ((run C16_payload State.init C16_goodSchedule).map fun s =>
    (s.destContent, s.winners, s.part, s.lockName)) = some (some [10, 20], [1], none, none) := by
  decide

example : ((run C16_payload State.init C16_goodSchedule).map fun s =>
    (s.pc 0, s.pc 1, s.pc 2, s.pc 3, s.pc 4)) =
    some (.dead, .doneCreated, .doneExisting, .doneErr .callback, .dead) := by
  decide

/-- the hypotheses of `C16_retry` are satisfiable by a state with leftovers: after 0 was killed mid-write
(partial `.part`, `.lock` present) a fresh creator 5 … -/
example : ((run C16_payload State.init
    [.step 0, .step 0, .step 0, .step 0, .step 0, .crash 0]).map fun s =>
    (s.destContent, s.part.map s.content, s.lockName, s.pc 0, s.pc 5)) =
    some (none, some [1], some 0, .dead, .idle) := by decide


/-- … and by a state in which a cancelled waiter's detached flock thread is still blocked (4 is `zombieWait`)
after the lock holder 0 was killed mid-write: everybody is `passive`, nobody `quiet`-only -/
example : ((run C16_payload State.init
    [.step 0, .step 0, .step 0, .step 0, .step 0, .step 4, .step 4, .cancel 4, .crash 0]).map fun s =>
    (s.pc 0, s.pc 4, s.pc 5, passive (s.pc 0) && passive (s.pc 4) && passive (s.pc 5), quiet (s.pc 4))) =
    some (.dead, .zombieWait 0, .idle, true, false) := by decide


/-! ## The download call site (`wholesym/src/downloader.rs:322-347`)

`create_file_cleanly` renames `dest.part` onto `dest` exactly when the write callback returns `Ok`
(`C16_atomic`, `C16_success_sees_complete` speak about "the complete payload the callback produces"). For the
downloader's callback over `tokio::fs::File` — whose write errors surface only on the *next* operation — the
following theorems say that `Ok` is returned only if every piece of the stream was read and every write,
including the last one, succeeded, and that the file then holds exactly the downloaded bytes. -/

/-- The callback returns `Ok` iff the stream delivered all its pieces and every started write succeeded. -/
theorem C16_download_callback_ok_iff (env : DL.Env) (stream : List (Option (List UInt8))) :
    (∃ n, (DL.run env true stream).1 = .ok n) ↔
      (DL.allRead stream = true ∧ ∀ k, k < stream.length → env.disk k = true) := by
  constructor
  · rintro ⟨n, hn⟩
    have h := DL.callback_ok stream {} n (DL.run env true stream).2 (by rw [← hn]; rfl)
    exact ⟨h.2.1, fun k hk => h.2.2.1 k (Nat.zero_le _) (by simpa using hk)⟩
  · rintro ⟨h1, h2⟩
    have h := DL.callback_all_good (env := env) true stream {} (by simp) h1
      (fun k _ hk => h2 k (by simpa using hk))
    exact ⟨_, h.1⟩

/-- When the callback returns `Ok n`, the `.part` file holds exactly the bytes the stream delivered and `n`
is their number: what gets renamed onto the final path is the complete download. -/
theorem C16_download_callback_ok_complete (env : DL.Env) (stream : List (Option (List UInt8))) (n : Nat)
    (h : (DL.run env true stream).1 = .ok n) :
    (DL.run env true stream).2.file = DL.payload stream ∧ n = (DL.payload stream).length := by
  have h' := DL.callback_ok stream {} n (DL.run env true stream).2 (by rw [← h]; rfl)
  exact ⟨by simpa using h'.2.2.2.1, by simpa using h'.2.2.2.2⟩

/-- Sensitivity witness (seeded change C16-2): without the trailing `flush` a failure of the LAST write is
never observed — the callback returns `Ok` over a truncated `.part` file, which `create_file_cleanly` then
renames onto the final path. -/
theorem C16_download_without_flush_loses_last_error :
    ∃ (env : DL.Env) (stream : List (Option (List UInt8))) (n : Nat),
      (DL.run env false stream).1 = .ok n ∧ (DL.run env false stream).2.file ≠ DL.payload stream ∧
      (DL.run env true stream).1 = .diskWrite :=
  ⟨⟨fun k => k != 1, fun _ => 1⟩, [some [1, 2], some [3, 4]], 4, by decide, by decide, by decide⟩

/-- non-vacuity: a two-piece download with healthy disk satisfies the right-hand side of the iff -/
example : (DL.run ⟨fun _ => true, fun _ => 0⟩ true [some [1, 2], some [3]]).1 = .ok 3 := by decide


/-! ## The callbacks as they are: writes deferred to tokio's blocking pool (`Model/FileCreationAsync.lean`)

Both real callbacks wrap the temp file in a `tokio::fs::File`; a write is handed to the blocking pool and
is executed later, and dropping the file does not wait for it. `FCA.next joinOnDrop` keeps the protocol
state of `FC` and adds the real inode contents and the queue of writes not yet executed;
`joinOnDrop = false` is the code as it is. -/

/-- Whatever the blocking pool does with the deferred writes, the PROTOCOL state (program counters, the
three names, flock owners, winners) of the deferred-write system is a reachable state of `FC`: hence
`C16_mutex`, `C16_at_most_once`, `C16_same_lock_inode`, `C16_lock_unlinked_only_when_dest_exists`,
`C16_quiet_holds_no_lock` hold for the real callbacks as well (both values of `joinOnDrop`). -/
theorem C16_async_protocol_is_FC (m : Bool) (pl : Pid → Content) (s : FCA.State)
    (h : FCA.Reachable m pl s) : Reachable pl s.base :=
  FCA.base_reachable h

/-- … e.g. mutual exclusion and at-most-one rename for the deferred-write system -/
theorem C16_async_mutex_once (m : Bool) (pl : Pid → Content) (s : FCA.State) (h : FCA.Reachable m pl s) :
    (∀ p q, inCS (s.base.pc p) = true → inCS (s.base.pc q) = true → p = q ∧ s.base.dest = none) ∧
    s.base.winners.length ≤ 1 :=
  ⟨fun p q hp hq => C16_mutex pl s.base (FCA.base_reachable h) p q hp hq,
   (C16_at_most_once pl s.base (FCA.base_reachable h)).1⟩

/-- creator 0 hands its first chunk to the blocking pool and is cancelled (`flush().await` /
`stream.read().await` dropped): lock released, write still queued. Creator 2 then creates the file —
lock, stat, `open(.part, O_TRUNC)` on the SAME inode, three writes, flush, rename, unlock — and returns
"created". Then the pool executes creator 0's write. -/
def C16_stragglerSchedule : List FCA.Act :=
  [.base (.step 0), .base (.step 0), .base (.step 0), .base (.step 0),   -- 0: lock file, flock, stat, open .part
   .base (.step 0),                                                       -- 0: write_all [1] -> queued
   .base (.cancel 0),                                                     -- 0: future dropped
   .base (.step 2), .base (.step 2), .base (.step 2), .base (.step 2),   -- 2: lock file, flock, stat, open .part
   .base (.step 2), .base (.step 2), .base (.step 2), .base (.step 2),   -- 2: 30, 40, 50, flush
   .base (.step 2), .base (.step 2), .base (.step 2)]                     -- 2: rename, close lock, unlink lock

/-- **Repaired finding C16-cancel-inflight-write: counterexample for the code BEFORE the repair**
(`FCA.nextLegacy`: no drop guard, `dest.part` stays after a cancellation inside the callback). After creator
2 has returned "created" with its complete payload `[30, 40, 50]` at the final path, the write that the
cancelled creator 0 left in the blocking pool is executed on the published inode; the final path then
holds `[1, 40, 50]`, nobody's payload. -/
theorem C16_legacy_counterexample_cancel_inflight_write :
    ((FCA.runLegacy C16_payload FCA.State.init C16_stragglerSchedule).map fun s =>
        (s.base.pc 2, s.destDisk, s.inflight.length)) = some (.doneCreated, some [30, 40, 50], 1) ∧
    ((FCA.runLegacy C16_payload FCA.State.init (C16_stragglerSchedule ++ [.land 0])).map fun s =>
        (s.base.pc 2, s.destDisk)) = some (.doneCreated, some [1, 40, 50]) := by
  decide

/-- with `joinOnDrop = true` the same cancellation leaves nothing queued -/
example : ((FCA.run true C16_payload FCA.State.init (C16_stragglerSchedule.take 6)).map fun s =>
    (s.base.pc 0, s.inflight.length)) = some (.dead, 0) := by decide

/-! ### The repaired code (`FCA.next false` over the repaired `FC.cancelP`, reachability `FCA.ReachableR`)

A future dropped inside the write callback now unlinks `dest.part` before `locked_file` is closed. Queued
writes are NOT waited for: they may land at any later time — on an inode that no name refers to any more
and that no later creator can obtain, because `open(.part, O_CREAT|O_TRUNC)` of an absent name allocates a
fresh inode (`nextInode`). `FCA.ReachableR` = every schedule of any number of creators and of the blocking
pool, all faults, kills at every program point, cancellations at all three await points; its only side
condition (`FCA.allowedR`): the ignored `remove_file(.part)` of the ERROR path does not fail while that
creator still has a write queued. -/

/-- **Orphaned queued writes are harmless.** In every reachable state of the repaired system: the bytes really
at the final path are the protocol model's; a callback that returned `Ok` has its complete payload in the temp
file; every creator has at most one write queued; and a queued write whose owner is no longer inside the
critical section targets an inode that neither `dest.part` nor the final path refers to. -/
theorem C16_async_repaired_disk_is_model (pl : Pid → Content) (s : FCA.State)
    (h : FCA.ReachableR pl s) :
    s.destDisk = s.base.destContent ∧
    (∀ p i, s.base.pc p = .wroteOk i → s.partDisk = some (pl p)) ∧
    (s.inflight.map (·.owner)).Nodup ∧
    (∀ w, w ∈ s.inflight → inCS (s.base.pc w.owner) = false →
      s.base.part ≠ some w.inode ∧ s.base.dest ≠ some w.inode) := by
  have hB := FCA.binv_reachable h
  have hI := inv_reachable (FCA.base_reachable (FCA.reachableR_reachable h))
  refine ⟨?_, ?_, hB.b5, ?_⟩
  · cases hd : s.base.dest with
    | none => simp [FCA.State.destDisk, State.destContent, hd]
    | some j => simp [FCA.State.destDisk, State.destContent, hd, hB.b4 j hd]
  · intro p i hp
    obtain ⟨j, hj, _⟩ := hI.wrote p i hp
    simp [FCA.State.partDisk, hj, (hB.b3 p i hp).2 j hj]
  · intro w hw hcs
    rcases hB.b1 w hw with h1 | h1 | ⟨_, h2, h3⟩
    · obtain ⟨i, j, k, hh⟩ := FCA.isWritingPC_eq h1
      rw [hh] at hcs; simp [inCS] at hcs
    · have := FCA.isFailedPC_inCS h1
      rw [hcs] at this; simp at this
    · exact ⟨h2, h3⟩

/-- **Atomicity of the repaired code, real bytes, every pool schedule**: the final path does not exist or holds
the complete payload of the one creator that renamed (at most one winner), -/
theorem C16_async_repaired_atomic (pl : Pid → Content) (s : FCA.State) (h : FCA.ReachableR pl s) :
    ((s.destDisk = none ∧ s.base.winners = []) ∨
      ∃ w, s.destDisk = some (pl w) ∧ s.base.winners = [w]) ∧ s.base.winners.length ≤ 1 := by
  have hbase := FCA.base_reachable (FCA.reachableR_reachable h)
  rw [(C16_async_repaired_disk_is_model pl s h).1]
  exact ⟨C16_atomic pl s.base hbase, (C16_at_most_once pl s.base hbase).1⟩

/-- every success sees the complete file in the real bytes, -/
theorem C16_async_repaired_success_sees_complete (pl : Pid → Content) (s : FCA.State)
    (h : FCA.ReachableR pl s) (p : Pid) :
    (s.base.pc p = .doneCreated → s.destDisk = some (pl p)) ∧
    (s.base.pc p = .doneExisting ∨ s.base.pc p = .exUnlinked → ∃ w, s.destDisk = some (pl w)) := by
  rw [(C16_async_repaired_disk_is_model pl s h).1]
  exact C16_success_sees_complete pl s.base (FCA.base_reachable (FCA.reachableR_reachable h)) p

/-- and no later transition — of a creator or of the blocking pool, in particular no `land` of a write that a
cancelled creator left behind — changes a complete final file. This is the statement that
`C16_legacy_counterexample_cancel_inflight_write` refutes for the code before the repair. -/
theorem C16_async_repaired_dest_stable (pl : Pid → Content) (s s' : FCA.State) (a : FCA.Act)
    (h : FCA.ReachableR pl s) (hal : FCA.allowedR s a) (hn : FCA.next false pl s a = some s') (c : Content)
    (hc : s.destDisk = some c) : s'.destDisk = some c := by
  have h' : FCA.ReachableR pl s' := FCA.ReachableR.step a h hal hn
  rw [(C16_async_repaired_disk_is_model pl s h).1] at hc
  rw [(C16_async_repaired_disk_is_model pl s' h').1]
  rcases FCA.next_base hn with hb | ⟨a', hb⟩
  · rw [hb]; exact hc
  · exact C16_dest_stable pl s.base s'.base a' (FCA.base_reachable (FCA.reachableR_reachable h)) hb c hc

/-- non-vacuity of `ReachableR`: creator 0 is cancelled inside its callback with its write still queued; the
name `dest.part` is gone, the write is an orphan -/
example : ∃ s, FCA.ReachableR C16_payload s ∧ s.base.pc 0 = .dead ∧ s.base.part = none ∧
    s.inflight = [⟨0, 1, 0, 1⟩] := by
  have step := @FCA.ReachableR.step C16_payload
  refine ⟨_, step (.base (.cancel 0)) (step (.base (.step 0)) (step (.base (.step 0))
    (step (.base (.step 0)) (step (.base (.step 0)) (step (.base (.step 0)) FCA.ReachableR.init
    trivial rfl) trivial rfl) trivial rfl) trivial rfl) trivial rfl) trivial rfl, by decide, by decide, by decide⟩

/-- **Deferred writes are harmless when a dropped callback waits for its write** (`joinOnDrop = true`: a
callback that writes synchronously through the `std::fs::File` it is given, or one that joins / flushes its
`tokio::fs::File` before it is dropped). In every reachable state — any number of creators, every schedule
of creators and of the blocking pool, every fault, kill and cancellation — the bytes really at the final
path are the ones the protocol model accounts for, a callback that returned `Ok` has its complete payload
in the temp file, and at most one write is ever queued. -/
theorem C16_async_join_on_drop_disk_is_model (pl : Pid → Content) (s : FCA.State)
    (h : FCA.Reachable true pl s) :
    s.destDisk = s.base.destContent ∧
    (∀ p i, s.base.pc p = .wroteOk i → s.partDisk = some (pl p)) ∧
    s.inflight.length ≤ 1 := by
  have hA := FCA.ainv_reachable h
  have hI := inv_reachable (FCA.base_reachable h)
  refine ⟨?_, ?_, hA.fl1⟩
  · cases hd : s.base.dest with
    | none => simp [FCA.State.destDisk, State.destContent, hd]
    | some j => simp [FCA.State.destDisk, State.destContent, hd, hA.dst j hd]
  · intro p i hp
    obtain ⟨j, hj, _⟩ := hI.wrote p i hp
    simp [FCA.State.partDisk, hj, hA.ok p i hp j hj]

/-- … hence atomicity of the real bytes: the final path does not exist or holds the complete payload of the
one creator that renamed, -/
theorem C16_async_join_on_drop_atomic (pl : Pid → Content) (s : FCA.State) (h : FCA.Reachable true pl s) :
    (s.destDisk = none ∧ s.base.winners = []) ∨
    ∃ w, s.destDisk = some (pl w) ∧ s.base.winners = [w] := by
  rw [(C16_async_join_on_drop_disk_is_model pl s h).1]
  exact C16_atomic pl s.base (FCA.base_reachable h)

/-- every success sees the complete file in the real bytes, -/
theorem C16_async_join_on_drop_success_sees_complete (pl : Pid → Content) (s : FCA.State)
    (h : FCA.Reachable true pl s) (p : Pid) :
    (s.base.pc p = .doneCreated → s.destDisk = some (pl p)) ∧
    (s.base.pc p = .doneExisting ∨ s.base.pc p = .exUnlinked → ∃ w, s.destDisk = some (pl w)) := by
  rw [(C16_async_join_on_drop_disk_is_model pl s h).1]
  exact C16_success_sees_complete pl s.base (FCA.base_reachable h) p

/-- and no later transition — of a creator or of the blocking pool — changes a complete final file. The
finding above is exactly the failure of this statement for `joinOnDrop = false`. -/
theorem C16_async_join_on_drop_dest_stable (pl : Pid → Content) (s s' : FCA.State) (a : FCA.Act)
    (h : FCA.Reachable true pl s) (hn : FCA.next true pl s a = some s') (c : Content)
    (hc : s.destDisk = some c) : s'.destDisk = some c := by
  have h' : FCA.Reachable true pl s' := FCA.Reachable.step a h hn
  rw [(C16_async_join_on_drop_disk_is_model pl s h).1] at hc
  rw [(C16_async_join_on_drop_disk_is_model pl s' h').1]
  rcases FCA.next_base hn with hb | ⟨a', hb⟩
  · rw [hb]; exact hc
  · exact C16_dest_stable pl s.base s'.base a' (FCA.base_reachable h) hb c hc

/-- **The code as it is, away from the finding.** On every history of the deferred-write system of the real
code (`joinOnDrop = false`; any creators, schedules of creators and blocking pool, faults, kills,
cancellations at all three await points) in which no write is in flight at the moments a callback is dropped
or returns an error (`FCA.ReachableQD`), the real bytes at the final path are absent or the complete payload of
the one creator that renamed, and equal the protocol model's. So the ONLY way the real callbacks can violate
atomicity is the one of `C16_legacy_counterexample_cancel_inflight_write`: a write still queued when the
`tokio::fs::File` is dropped inside the callback. -/
theorem C16_async_as_is_atomic_unless_write_in_flight_at_drop (pl : Pid → Content) (s : FCA.State)
    (h : FCA.ReachableQD pl s) :
    s.destDisk = s.base.destContent ∧
    ((s.destDisk = none ∧ s.base.winners = []) ∨ ∃ w, s.destDisk = some (pl w) ∧ s.base.winners = [w]) ∧
    (∀ p, s.base.pc p = .doneCreated → s.destDisk = some (pl p)) :=
  have h' := FCA.reachableQD_true h
  ⟨(C16_async_join_on_drop_disk_is_model pl s h').1, C16_async_join_on_drop_atomic pl s h',
   fun p => (C16_async_join_on_drop_success_sees_complete pl s h' p).1⟩

/-- non-vacuity of `ReachableQD`: a cancellation inside the callback AFTER the queued write has been executed -/
example : ∃ s, FCA.ReachableQD C16_payload s ∧ s.base.pc 0 = .dead ∧ s.base.part = none ∧ s.inflight = [] := by
  have step := @FCA.ReachableQD.step C16_payload
  refine ⟨_, step (.base (.cancel 0)) (step (.land 0) (step (.base (.step 0)) (step (.base (.step 0))
    (step (.base (.step 0)) (step (.base (.step 0)) (step (.base (.step 0)) FCA.ReachableQD.init
    (by decide) rfl) (by decide) rfl) (by decide) rfl) (by decide) rfl) (by decide) rfl) (by decide) rfl)
    (by decide) rfl, by decide, by decide, by decide⟩

/-- non-vacuity: a `joinOnDrop = true` history with a write still queued, a cancellation and a second creator -/
example : ((FCA.run true C16_payload FCA.State.init
    [.base (.step 0), .base (.step 0), .base (.step 0), .base (.step 0), .base (.step 0),
     .base (.step 0)]).map fun s => (s.inflight.length, s.partDisk)) = some (1, some [1]) := by decide


/-! ## The download callback composed with the protocol (`DL` ∘ `FC`)

`FC` abstracts a write callback as "append chunks of `pl p`; `Ok` only after the last one; `Err` anywhere".
For the downloader's callback this is a theorem: with bytes as chunks (`FC.enc`) and
`pl p = enc (DL.payload stream)`, every run of `DL.run` — any stream, any disk — is a run of `FC`. -/

/-- **The download callback is a writer of the protocol model.** Entered with the temp file open
(`writing i j 0`), whatever the stream delivers and whichever writes fail, the callback's effect on the
temp file is `n` chunk writes of `FC` (`n` bytes of `p`'s payload = the bytes of the stream); if it returns
`Ok` then `n` is the whole payload and the next `FC` step is "callback returned Ok" (`wroteOk`); otherwise
`FC`'s `fail p` ("callback returned Err") is enabled. -/
theorem C16_download_callback_is_fc_writer (env : DL.Env) (stream : List (Option (List UInt8)))
    (pl : Pid → Content) (p : Pid) (hpl : pl p = enc (DL.payload stream))
    (s : State) (i j : Inode) (hs : s.pc p = .writing i j 0) :
    ∃ n s', run pl s (List.replicate n (Act.step p)) = some s' ∧ s'.pc p = .writing i j n ∧
      s'.content j = s.content j ++ enc (DL.run env true stream).2.file ∧
      s'.part = s.part ∧ s'.dest = s.dest ∧ (∀ q, q ≠ p → s'.pc q = s.pc q) ∧
      ((∃ m, (DL.run env true stream).1 = .ok m) →
          n = (pl p).length ∧ ∃ s'', next pl s' (.step p) = some s'' ∧ s''.pc p = .wroteOk i ∧
            s''.content = s'.content) ∧
      ∃ s'', next pl s' (.fail p) = some s'' ∧ s''.pc p = .failed i .callback ∧ s''.content = s'.content := by
  obtain ⟨k, hk⟩ := DL.callback_file_prefix (env := env) true stream {}
  have hfile : (DL.run env true stream).2.file = (DL.payload stream).take k := by
    simpa [DL.run] using hk
  let n := min k (DL.payload stream).length
  have hlen : (pl p).length = (DL.payload stream).length := by simp [hpl, enc]
  have htk : (DL.payload stream).take k = (DL.payload stream).take n := by
    rw [List.take_eq_take_iff]; simp [n]
  obtain ⟨s', hr, hp, hc, hpart, hdest, _, hoth⟩ :=
    run_writes (pl := pl) (p := p) (i := i) (j := j) n 0 s hs (by rw [hlen]; simp [n]; exact Nat.min_le_right _ _)
  refine ⟨n, s', hr, by simpa using hp, ?_, hpart, hdest, hoth, ?_, ?_⟩
  · rw [hc, hfile, htk, hpl]
    simp [enc, List.map_take]
  · rintro ⟨m, hm⟩
    have h' := DL.callback_ok stream {} m (DL.run env true stream).2 (by rw [← hm]; rfl)
    have hfull : (DL.run env true stream).2.file = DL.payload stream := by simpa using h'.2.2.2.1
    have hn : n = (pl p).length := by
      have := congrArg List.length (hfile.symm.trans hfull)
      rw [htk] at this
      simp at this
      omega
    refine ⟨hn, ?_⟩
    have hnone : (pl p)[n]? = none := by simp [hn]
    have hp' : s'.pc p = .writing i j n := by simpa using hp
    cases hx : next pl s' (.step p) with
    | none => simp [next, stepP, hp', hnone] at hx
    | some s'' =>
      simp [next, stepP, hp', hnone] at hx
      subst hx
      exact ⟨_, rfl, by simp [upd], rfl⟩
  · have hp' : s'.pc p = .writing i j n := by simpa using hp
    cases hx : next pl s' (.fail p) with
    | none => simp [next, failP, hp'] at hx
    | some s'' =>
      simp [next, failP, hp'] at hx
      subst hx
      exact ⟨_, rfl, by simp [upd], rfl⟩

/-- **End to end for the downloader.** With every creator's payload the bytes of its download stream, in
every reachable state of the protocol the final path is absent or holds exactly the bytes of the stream of
the one creator that renamed — the file at the final path IS the download. -/
theorem C16_download_dest_is_stream (stream : Pid → List (Option (List UInt8))) (s : State)
    (h : Reachable (fun p => enc (DL.payload (stream p))) s) (c : Content)
    (hc : s.destContent = some c) :
    ∃ w, s.winners = [w] ∧ c = enc (DL.payload (stream w)) := by
  rcases C16_atomic _ s h with ⟨hn, _⟩ | ⟨w, hw, hwin⟩
  · rw [hn] at hc; simp at hc
  · rw [hw] at hc
    exact ⟨w, hwin, (Option.some.inj hc).symm⟩

/-- non-vacuity: a download whose second write fails on disk is a writer that stops after the bytes of the
first piece and is refused `Ok` -/
example : (DL.run ⟨fun k => k != 1, fun _ => 0⟩ true [some [1, 2], some [3, 4], some [5]]).1 = .diskWrite ∧
    (DL.run ⟨fun k => k != 1, fun _ => 0⟩ true [some [1, 2], some [3, 4], some [5]]).2.file = [1, 2] := by
  decide


/-! ## "The contents are written successfully at most once", counted in write callbacks

`C16_at_most_once` counts renames. The statement of C16 (and the judge: `writes_ok`) counts write callbacks
that returned `Ok` (`okWrites`, a ghost list extended by the transition `writing → wroteOk`). The two differ
exactly by the attempts that were lost between `Ok` and the rename (`lost`: the creator was killed at
that point, or its rename failed). -/

/-- **At most one successful write, up to lost attempts.** In every reachable state the number of write
callbacks that have returned `Ok` is at most one more than the number of attempts lost after their `Ok`
(killed before the rename / rename failed): each `Ok` was renamed (at most one ever), lost, or is the single
one about to be renamed. In particular, while no attempt has been lost that way — no kill between `Ok` and
rename, no rename error — the contents have been written successfully at most once. -/
theorem C16_written_at_most_once (pl : Pid → Content) (s : State) (h : Reachable pl s) :
    s.okWrites.length = s.winners.length + s.lost.length + (if s.okAt.isSome then 1 else 0) ∧
    s.okWrites.length ≤ 1 + s.lost.length ∧
    (s.lost = [] → s.okWrites.length ≤ 1) := by
  have hinv := inv_reachable h
  have ho := oinv_reachable h
  have key : s.winners.length + (if s.okAt.isSome then 1 else 0) ≤ 1 := by
    cases hok : s.okAt with
    | none => rcases hinv.destOk with ⟨_, hw⟩ | ⟨w, j, _, _, hw⟩ <;> simp [hw]
    | some q =>
      have hcs := (isWroteOk_eq (ho.k2 q hok)).1
      have hd := hinv.dest_none_of_inCS hcs
      rcases hinv.destOk with ⟨_, hw⟩ | ⟨w, j, hd', _, _⟩
      · simp [hw]
      · rw [hd] at hd'; simp at hd'
  have k3 := ho.k3
  refine ⟨k3, by omega, ?_⟩
  intro hl
  rw [hl] at k3
  simp at k3
  omega

/-- non-vacuity of the `lost` case: creator 0's rename fails after a good write, creator 1 then writes
successfully as well — two `Ok`s, one lost, one renamed -/
example : ((run C16_payload State.init
    [.step 0, .step 0, .step 0, .step 0, .step 0, .step 0, .step 0, .fail 0, .step 0, .step 0,
     .step 1, .step 1, .step 1, .step 1, .step 1, .step 1, .step 1, .step 1]).map fun s =>
    (s.okWrites, s.lost, s.winners, s.pc 0)) = some ([1, 0], [0], [1], .doneErr .rename) := by decide
