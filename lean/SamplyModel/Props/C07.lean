import SamplyModel.Lemmas.SymbolicateD
import SamplyModel.Lemmas.SymbolicateE
import SamplyModel.Lemmas.SymbolicateF
/-!
# C07 — `/symbolicate/v5` answers every requested frame, in request shape, truthfully

Model: `SamplyModel/Model/Symbolicate.lean` (follows `samply-api/src/symbolicate/{mod,looked_up_addresses,
request_json,response_json}.rs` and `api_file_path.rs`). `Sym.queryApi look extOrder req` is
`SymbolicateApi::query_api` on a parsed request; `Sym.handle` additionally contains serde's `u32` checks.

Everything samply-symbols does is the oracle `look : Lib → Except Err (Nat → Option AddrInfo)`
(`to_debug_id` + `load_symbol_map` per library, `lookup_sync` + `lookup_external` per address); all theorems
hold for **every** oracle, every request (any number of jobs, stacks, frames, any memory maps — repeated,
unknown, malformed-id, unused entries are just particular `Lib` values / oracle answers) and every
rearrangement `extOrder` of the external-address list (`ExtOrderOk`: same elements; the model does not look
into the `sort_unstable_by` key).

Only property theorems (names `C07_*`) and non-vacuity examples live in this file.
-/
open Sym

/-- **Shape.** Whenever the answer is a response (not an error), it has one result per job, one stack per
requested stack, one frame per requested frame, in the same order, and the frame at position `(j, s, i)`
echoes its position `i`, the requested module offset and the `debugName` of the memory-map entry the request
frame points to. -/
theorem C07_shape (look : Look) (extOrder) (hext : ExtOrderOk extOrder) (req : Request) (resp : Response)
    (h : queryApi look extOrder req = .ok resp) :
    SameShape req resp ∧
    ∀ j s i job fr, req.frameAt j s i = some (job, fr) →
      ∃ rf lib, resp.frameAt j s i = some rf ∧ job.memoryMap[fr.moduleIndex]? = some lib ∧
        rf.frame = i ∧ rf.moduleOffset = fr.address ∧ rf.module = lib.debugName := by
  rcases queryApi_cases look extOrder hext req with ⟨_, he⟩ | ⟨hv, table, ht, he⟩
  · rw [he] at h; simp at h
  · rw [he] at h
    obtain ⟨s1, s2⟩ := createResponse_frames ht hv h
    refine ⟨s1, fun j s i job fr hfa => ?_⟩
    obtain ⟨lib, l1, l2⟩ := s2 j s i job fr hfa
    exact ⟨_, lib, l2, l1, rfl, rfl, rfl⟩

/-- **Truthfulness.** Whenever the answer is a response, the frame at `(j, s, i)` — requesting address `a` of
library `lib` — carries symbol information exactly when a direct lookup of `(lib, a)` yields it, with equal
values:

* the library fails to load, or `lookup_sync` finds nothing ⇒ no `function` (nor anything else);
* otherwise `function_offset + symbol start = a`, `function_size` is the symbol's size;
* without (resolved) debug-info frames: `function` is the symbol-table name, no `file`/`line`/`inlines`;
* with debug-info frames `fs` (innermost first): `function` is the **outermost** frame's function name when
  it has one, else the symbol-table name; `file` (through `to_api_file_path`) and `line` come from the
  outermost frame, a line number `0` is omitted; `inlines` are the other frames in order, innermost first. -/
theorem C07_truthful (look : Look) (extOrder) (hext : ExtOrderOk extOrder) (req : Request) (resp : Response)
    (h : queryApi look extOrder req = .ok resp)
    (j s i : Nat) (job : Job) (fr : ReqFrame) (rf : RespFrame) (lib : Lib)
    (hreq : req.frameAt j s i = some (job, fr)) (hresp : resp.frameAt j s i = some rf)
    (hlib : job.memoryMap[fr.moduleIndex]? = some lib) :
    match look lib with
    | .error _ => rf.symbol = none
    | .ok f =>
      match f fr.address with
      | none => rf.symbol = none
      | some info =>
        ∃ sym, rf.symbol = some sym ∧
          sym.functionOffset + info.symAddr = fr.address ∧
          sym.functionSize = info.symSize ∧
          match info.frames.resolved with
          | none => sym.function = info.symName ∧ sym.debugInfo = none
          | some fs =>
            ∃ outer, fs.getLast? = some outer ∧
              sym.function = (match outer.function with | some n => n | none => info.symName) ∧
              sym.debugInfo = some
                { file := outer.filePath.map apiFilePath
                  line := nonZero outer.line
                  inlines := fs.dropLast.map fun fi =>
                    { function := fi.function, file := fi.filePath.map apiFilePath, line := nonZero fi.line } } := by
  rcases queryApi_cases look extOrder hext req with ⟨_, he⟩ | ⟨hv, table, ht, he⟩
  · rw [he] at h; simp at h
  · rw [he] at h
    obtain ⟨_, s2⟩ := createResponse_frames ht hv h
    obtain ⟨lib', l1, l2⟩ := s2 j s i job fr hreq
    rw [hlib] at l1
    simp only [Option.some.injEq] at l1
    subst l1
    rw [hresp] at l2
    simp only [Option.some.injEq] at l2
    subst l2
    simp only
    -- the frame did not make `create_response` panic, so the subtraction and `split_last` succeeded
    have hnp : ∀ f info, look lib = .ok f → f fr.address = some info →
        info.symAddr ≤ fr.address ∧ info.frames.resolved ≠ some [] := by
      intro f info hl hf
      apply Classical.byContradiction
      intro hn
      have hbad : fr.address < info.symAddr ∨ info.frames.resolved = some [] := by
        by_cases h1 : fr.address < info.symAddr
        · exact Or.inl h1
        · by_cases h2 : info.frames.resolved = some []
          · exact Or.inr h2
          · exact absurd ⟨by omega, h2⟩ hn
      -- then `frameOutcome` is an error, and so is the whole response
      have hreqA := requestedAddr_of_frameAt hreq hlib
      obtain ⟨hj, st, hs, hi⟩ := frameAt_some hreq
      have hfo : ∃ e, frameOutcome look lib fr.address = .error e := by
        unfold frameOutcome finalEntry
        simp only [hl, hf]
        cases hres : info.frames.resolved with
        | none =>
          rcases hbad with hb | hb
          · simp [symbolOfResult, symOnly, hb]
          · rw [hres] at hb; simp at hb
        | some fs =>
          rcases hbad with hb | hb
          · simp [symbolOfResult, withFrames, hb]
          · rw [hres] at hb
            simp only [Option.some.injEq] at hb
            subst hb
            by_cases hlt : fr.address < info.symAddr <;> simp [symbolOfResult, withFrames, hlt]
      obtain ⟨e, hfo⟩ := hfo
      -- contradiction with `createResponse = ok`
      unfold createResponse at h
      cases hr : resultsForJobs table req.jobs with
      | error e' => simp [hr] at h
      | ok rs =>
        obtain ⟨_, r2⟩ := resultsForJobs_ok hr
        obtain ⟨res, _, q2⟩ := r2 j job hj
        unfold resultForJob at q2
        simp only at q2
        cases hst : responseStacks job.memoryMap
            (scanMemoryMap table job.memoryMap 0 JobTables.empty).byIndex job.stacks with
        | error e' => simp [hst] at q2
        | ok stacks =>
          obtain ⟨_, t2⟩ := responseStacks_ok hst
          obtain ⟨rst, _, u2⟩ := t2 s st hs
          obtain ⟨_, v2⟩ := responseStack_ok u2
          obtain ⟨rf', _, w2⟩ := v2 i fr hi
          rw [responseFrame_eq ht hlib hreqA, hfo] at w2
          simp at w2
    unfold directSymbol
    cases hl : look lib with
    | error e => simp
    | ok f =>
      simp only
      cases hf : f fr.address with
      | none => simp
      | some info =>
        simp only
        obtain ⟨n1, n2⟩ := hnp f info hl hf
        refine ⟨_, rfl, by simp only; omega, rfl, ?_⟩
        cases hres : info.frames.resolved with
        | none => simp [reportedFunction, hres]
        | some fs =>
          simp only
          cases hlast : fs.getLast? with
          | none =>
            have : fs = [] := by simpa using hlast
            subst this
            exact absurd hres n2
          | some outer =>
            refine ⟨outer, rfl, ?_, ?_⟩
            · simp only [reportedFunction, hres, outerFunctionName, hlast, nameOr]
              cases outer.function <;> rfl
            · simp only [debugInfoOfFrames, hlast, debugInfoFrom]
              rfl

/-- **The file paths a response reports** (interface to C09, `/source/v1`): for a frame whose lookup yields
`info`, the reported `file` and `inlines[].file` values are exactly the `to_api_file_path` images of the
source files the debug info of that lookup names. -/
theorem C07_reported_files (look : Look) (extOrder) (hext : ExtOrderOk extOrder) (req : Request) (resp : Response)
    (h : queryApi look extOrder req = .ok resp)
    (j s i : Nat) (job : Job) (fr : ReqFrame) (rf : RespFrame) (lib : Lib)
    (hreq : req.frameAt j s i = some (job, fr)) (hresp : resp.frameAt j s i = some rf)
    (hlib : job.memoryMap[fr.moduleIndex]? = some lib)
    (f : Nat → Option AddrInfo) (info : AddrInfo) (hl : look lib = .ok f) (hf : f fr.address = some info) :
    ∃ sym, rf.symbol = some sym ∧
      ∀ p, p ∈ sym.reportedFiles ↔ ∃ fp ∈ info.filePaths, apiFilePath fp = p := by
  have ht := C07_truthful look extOrder hext req resp h j s i job fr rf lib hreq hresp hlib
  rw [hl] at ht
  simp only [hf] at ht
  obtain ⟨sym, hs, _, _, hm⟩ := ht
  have hne : info.frames.resolved ≠ some [] := by
    intro hres
    rw [hres] at hm
    obtain ⟨outer, ho, _⟩ := hm
    simp at ho
  rcases queryApi_cases look extOrder hext req with ⟨_, he⟩ | ⟨hv, table, htab, he⟩
  · rw [he] at h; simp at h
  · rw [he] at h
    obtain ⟨_, s2⟩ := createResponse_frames htab hv h
    obtain ⟨lib', l1, l2⟩ := s2 j s i job fr hreq
    rw [hlib] at l1
    simp only [Option.some.injEq] at l1
    subst l1
    rw [hresp] at l2
    simp only [Option.some.injEq] at l2
    subst l2
    simp only at hs
    exact ⟨sym, hs, reportedFiles_directSymbol hl hf hs hne⟩

/-- **Isolation, part 1: a library that cannot be loaded is reported as not found, with its error.**
If `lib` is in the job's memory map, some frame of the request refers to it, and its load fails with `e`,
then (the job's memory map having no *other* entry with the same `"name/id"` key) `found_modules` maps its
key to `false` and `module_errors` maps it to `[e]`; and every frame that refers to it carries no symbol. -/
theorem C07_isolation_reported (look : Look) (extOrder) (hext : ExtOrderOk extOrder) (req : Request)
    (resp : Response) (h : queryApi look extOrder req = .ok resp)
    (j : Nat) (job : Job) (res : JobResult) (hj : req.jobs[j]? = some job) (hres : resp.results[j]? = some res)
    (hkeys : KeysInjective job) (lib : Lib) (hmem : lib ∈ job.memoryMap) (hreq : Requested req lib)
    (e : Err) (hfail : look lib = .error e) :
    alookup res.foundModules (moduleKey lib) = some false ∧
    alookup res.moduleErrors (moduleKey lib) = some [e] := by
  rcases queryApi_cases look extOrder hext req with ⟨_, he⟩ | ⟨hv, table, ht, he⟩
  · rw [he] at h; simp at h
  · rw [he] at h
    obtain ⟨m1, m2, m3, m4⟩ := createResponse_modules ht h j job res hj hres
    constructor
    · cases hf : alookup res.foundModules (moduleKey lib) with
      | none => exact absurd hreq ((m2 _).mp hf lib hmem rfl)
      | some b =>
        obtain ⟨lib', hm', hk', _, hb⟩ := m1 _ b hf
        have := hkeys lib' hm' lib hmem hk'
        subst this
        rw [hfail] at hb
        simp only [isOk] at hb
        rw [← hb]
    · cases hf : alookup res.moduleErrors (moduleKey lib) with
      | none =>
        have := (m4 _).mp hf lib hmem rfl hreq
        rw [hfail] at this; simp [isOk] at this
      | some es =>
        obtain ⟨lib', hm', hk', _, e', he', hes⟩ := m3 _ es hf
        have := hkeys lib' hm' lib hmem hk'
        subst this
        rw [hfail] at he'
        simp only [Except.error.injEq] at he'
        subst he'; rw [hes]

/-- **`found_modules` / `module_errors` in general** (no assumption on key collisions): an entry of
`found_modules` is the load status of a requested memory-map entry with that key, a key is absent exactly
when no requested memory-map entry has it (unused modules are not reported); an entry of `module_errors` is
the error of a requested entry with that key, and is absent exactly when all of them loaded. -/
theorem C07_found_modules (look : Look) (extOrder) (hext : ExtOrderOk extOrder) (req : Request)
    (resp : Response) (h : queryApi look extOrder req = .ok resp)
    (j : Nat) (job : Job) (res : JobResult) (hj : req.jobs[j]? = some job) (hres : resp.results[j]? = some res) :
    (∀ k b, alookup res.foundModules k = some b →
      ∃ lib ∈ job.memoryMap, moduleKey lib = k ∧ Requested req lib ∧ isOk (look lib) = b) ∧
    (∀ k, alookup res.foundModules k = none ↔
      ∀ lib ∈ job.memoryMap, moduleKey lib = k → ¬ Requested req lib) ∧
    (∀ k es, alookup res.moduleErrors k = some es →
      ∃ lib ∈ job.memoryMap, moduleKey lib = k ∧ Requested req lib ∧ ∃ e, look lib = .error e ∧ es = [e]) ∧
    (∀ k, alookup res.moduleErrors k = none ↔
      ∀ lib ∈ job.memoryMap, moduleKey lib = k → Requested req lib → isOk (look lib) = true) := by
  rcases queryApi_cases look extOrder hext req with ⟨_, he⟩ | ⟨hv, table, ht, he⟩
  · rw [he] at h; simp at h
  · rw [he] at h
    exact createResponse_modules ht h j job res hj hres

/-- **Isolation, part 2: a failing (or otherwise different) library does not change any frame of another
library.** If two oracles agree on every library except `bad`, then every response frame whose request frame
refers to a library other than `bad` is identical in both answers. -/
theorem C07_isolation (look look' : Look) (extOrder) (hext : ExtOrderOk extOrder) (req : Request)
    (resp resp' : Response) (bad : Lib) (hagree : ∀ lib, lib ≠ bad → look lib = look' lib)
    (h : queryApi look extOrder req = .ok resp) (h' : queryApi look' extOrder req = .ok resp')
    (j s i : Nat) (job : Job) (fr : ReqFrame) (lib : Lib)
    (hreq : req.frameAt j s i = some (job, fr)) (hlib : job.memoryMap[fr.moduleIndex]? = some lib)
    (hne : lib ≠ bad) :
    resp.frameAt j s i = resp'.frameAt j s i := by
  rcases queryApi_cases look extOrder hext req with ⟨_, he⟩ | ⟨hv, table, ht, he⟩
  · rw [he] at h; simp at h
  rcases queryApi_cases look' extOrder hext req with ⟨_, he'⟩ | ⟨_, table', ht', he'⟩
  · rw [he'] at h'; simp at h'
  rw [he] at h
  rw [he'] at h'
  obtain ⟨_, s2⟩ := createResponse_frames ht hv h
  obtain ⟨_, s2'⟩ := createResponse_frames ht' hv h'
  obtain ⟨l, l1, l2⟩ := s2 j s i job fr hreq
  obtain ⟨l', l1', l2'⟩ := s2' j s i job fr hreq
  rw [hlib] at l1 l1'
  simp only [Option.some.injEq] at l1 l1'
  subst l1; subst l1'
  rw [l2, l2']
  simp only [directSymbol, hagree lib hne]

/-- **Bad module index ⇒ the whole answer is the error.** If any frame of any stack of any job has a module
index outside its job's memory map, the answer is `Malformed request JSON: Stack frame module index beyond
the memoryMap` — never a response, never a panic — whatever the other jobs contain; and conversely that
error is only ever produced for such a request. -/
theorem C07_bad_index (look : Look) (extOrder) (hext : ExtOrderOk extOrder) (req : Request) :
    queryApi look extOrder req = .error .badModuleIndex ↔ ¬ AllIndicesValid req := by
  rcases queryApi_cases look extOrder hext req with ⟨hn, he⟩ | ⟨hv, table, ht, he⟩
  · exact ⟨fun _ => hn, fun _ => he⟩
  · constructor
    · intro h
      rw [he] at h
      obtain ⟨⟨site, hs⟩, _⟩ := createResponse_error ht hv h
      simp at hs
    · intro hn; exact absurd hv hn

/-- The same at the level of the JSON numbers: a module index or an address that does not fit `u32`
(negative, or `≥ 2^32`) anywhere makes the whole answer the parse error. -/
theorem C07_bad_index_unrepresentable (look : Look) (extOrder) (raw : RawRequest)
    (job : RawJob) (hjob : job ∈ raw.jobs) (st : List (Int × Int)) (hst : st ∈ job.stacks)
    (p : Int × Int) (hp : p ∈ st) (hbad : p.1 < 0 ∨ 4294967296 ≤ p.1 ∨ p.2 < 0 ∨ 4294967296 ≤ p.2) :
    handle look extOrder raw = .error .parse := by
  unfold handle
  have : decode raw = none :=
    (decode_none_iff raw).mpr ⟨job, hjob, st, hst, p, hp, (decodeFrame_none_iff p).mpr hbad⟩
  rw [this]

/-- **No unwrap panic.** The only way the model — which has a `panic` outcome at every `unwrap`, `expect`,
slice index and `u32` subtraction of the Rust code — can panic is the oracle breaking the lookup contract on
a *requested* (library, address) pair: a symbol start above the looked-up address (C05 `contains` excludes
it) or an empty debug-info frame list. In particular the two `get_mut(&address).unwrap()` of
`LookedUpAddresses`, the `symbol_map.get(&frame.address).unwrap()` and `memory_map[frame.module_index]` of
`create_response` never fire, for any request and any oracle. -/
theorem C07_no_unwrap_panic (look : Look) (extOrder) (hext : ExtOrderOk extOrder) (req : Request)
    (site : String) (h : queryApi look extOrder req = .error (.panic site)) :
    ∃ lib a f info, RequestedAddr req lib a ∧ look lib = .ok f ∧ f a = some info ∧
      (a < info.symAddr ∨ info.frames.resolved = some []) := by
  rcases queryApi_cases look extOrder hext req with ⟨_, he⟩ | ⟨hv, table, ht, he⟩
  · rw [he] at h; simp at h
  · rw [he] at h
    exact (createResponse_error ht hv h).2

/-- **Totality.** With an oracle that respects the lookup contract on the requested pairs (`OracleOk`), every
request with valid module indices gets a response, and no request at all panics. -/
theorem C07_total (look : Look) (extOrder) (hext : ExtOrderOk extOrder) (req : Request)
    (hor : OracleOk look req) :
    (AllIndicesValid req → ∃ resp, queryApi look extOrder req = .ok resp) ∧
    (∀ site, queryApi look extOrder req ≠ .error (.panic site)) := by
  have hnp : ∀ site, queryApi look extOrder req ≠ .error (.panic site) := by
    intro site h
    obtain ⟨lib, a, f, info, h1, h2, h3, h4⟩ := C07_no_unwrap_panic look extOrder hext req site h
    obtain ⟨o1, o2⟩ := hor lib a f info h1 h2 h3
    rcases h4 with h4 | h4
    · omega
    · exact o2 h4
  refine ⟨fun hv => ?_, hnp⟩
  cases hq : queryApi look extOrder req with
  | ok resp => exact ⟨resp, rfl⟩
  | error e =>
    exfalso
    cases e with
    | panic site => exact hnp site hq
    | parse =>
      rcases queryApi_cases look extOrder hext req with ⟨hn, _⟩ | ⟨_, table, ht, he⟩
      · exact hn hv
      · rw [he] at hq
        obtain ⟨⟨site, hs⟩, _⟩ := createResponse_error ht hv hq
        simp at hs
    | badModuleIndex => exact ((C07_bad_index look extOrder hext req).mp hq) hv

/-- The `BTreeMap` invariant of the model's address tables: whatever `symbolicate_requested_addresses_for_lib`
returns for a library that loads has strictly increasing keys, holds exactly the requested addresses, and
each entry is what the direct lookup of that address determines. -/
theorem C07_address_table (look : Look) (extOrder) (hext : ExtOrderOk extOrder) (lib : Lib)
    (addresses : List Nat) (f : Nat → Option AddrInfo) (hl : look lib = .ok f) :
    ∃ tbl, symbolicateLib look extOrder lib addresses = .ok (.ok tbl) ∧ keysSorted tbl ∧
      ∀ x, btGet tbl x = if x ∈ addresses then some (finalEntry f x) else none := by
  obtain ⟨r, h1, h2⟩ := symbolicateLib_spec look extOrder hext lib addresses
  rw [hl] at h2
  obtain ⟨tbl, rfl, t2, t3⟩ := h2
  exact ⟨tbl, h1, t2, t3⟩

/-- What `addresses.sort_unstable(); addresses.dedup();` (mod.rs:75-76) achieves: the addresses handed to
`lookup_sync` are strictly increasing (each once) and are exactly the requested ones. -/
theorem C07_lookup_order (addresses : List Nat) :
    (dedupAdj (sortNat addresses)).Pairwise (· < ·) ∧
    ∀ x, x ∈ dedupAdj (sortNat addresses) ↔ x ∈ addresses :=
  ⟨strictSorted_dedupAdj _ (sorted_sortNat addresses), mem_sortDedup addresses⟩

/-- …and that this is all it achieves: running the lookup passes over **any** list with the same elements
(unsorted, with repetitions) gives the same load error or a table that answers every `get` identically —
the response cannot depend on the sort / dedup (they only save repeated lookups). -/
theorem C07_sort_dedup_unobservable (look : Look) (extOrder) (hext : ExtOrderOk extOrder) (lib : Lib)
    (addresses addrs' : List Nat) (hsame : ∀ x, x ∈ addrs' ↔ x ∈ addresses) :
    ∃ r r', symbolicateLib look extOrder lib addresses = .ok r ∧
      lookupAddresses look extOrder lib addrs' = .ok r' ∧
      match r, r' with
      | .error e, .error e' => e = e'
      | .ok t, .ok t' => ∀ x, btGet t x = btGet t' x
      | _, _ => False := by
  obtain ⟨r, h1, h2⟩ := symbolicateLib_spec look extOrder hext lib addresses
  obtain ⟨r', h1', h2'⟩ := lookupAddresses_spec look extOrder hext lib addrs'
  refine ⟨r, r', h1, h1', ?_⟩
  cases hl : look lib with
  | error e =>
    rw [hl] at h2 h2'
    subst h2; subst h2'
    rfl
  | ok f =>
    rw [hl] at h2 h2'
    obtain ⟨t, rfl, _, t3⟩ := h2
    obtain ⟨t', rfl, _, t3'⟩ := h2'
    intro x
    rw [t3, t3']
    by_cases hx : x ∈ addresses
    · rw [if_pos hx, if_pos ((hsame x).mpr hx)]
    · rw [if_neg hx, if_neg (fun h => hx ((hsame x).mp h))]

/-! ### The front end: `to_debug_id` and the untagged request enum (improvement round)

`lookOf load` is what mod.rs:78-92 makes of the loader `load : debugName → DebugId → …`; every theorem above
holds for it (they hold for every `look`). The theorems below are about the part that was the harness's
business in the first round: which ids are rejected before anything is loaded, and which of the two request
forms a body denotes. -/

/-- **`to_debug_id` accepts exactly the well-formed breakpad ids** (declarative `BreakpadIdOk`: ASCII; 32 hex
digits + a hexadecimal `u32` age, or the 9–16 character PDB 2.0 form; not nil; no `-` at position 8) and
yields the `DebugId` the digits denote; every other string is `InvalidBreakpadId`. The left side follows the
Rust code (digit loops with `checked_mul`/`checked_add`, `get(..8)`, `get(..32)`, the `-` test). -/
theorem C07_debug_id_syntax (id : String) :
    toDebugId id =
      if BreakpadIdOk id.toList = true then .ok (breakpadIdValue id.toList)
      else .error (invalidBreakpadId id) := by
  unfold toDebugId
  rw [toDebugIdChars_spec]
  by_cases h : BreakpadIdOk id.toList = true <;> simp [h]

/-- **A malformed id is reported, never loaded.** For every loader: a requested memory-map entry whose id is
not a well-formed breakpad id has `found_modules[key] = false`, `module_errors[key] = [InvalidBreakpadId]`
(the job's keys being injective), and every frame that refers to it carries no symbol. -/
theorem C07_invalid_id (load : Load) (extOrder) (hext : ExtOrderOk extOrder) (req : Request)
    (resp : Response) (h : queryApi (lookOf load) extOrder req = .ok resp)
    (j : Nat) (job : Job) (res : JobResult) (hj : req.jobs[j]? = some job) (hres : resp.results[j]? = some res)
    (hkeys : KeysInjective job) (lib : Lib) (hmem : lib ∈ job.memoryMap) (hreq : Requested req lib)
    (hbad : BreakpadIdOk lib.breakpadId.toList = false) :
    alookup res.foundModules (moduleKey lib) = some false ∧
    alookup res.moduleErrors (moduleKey lib) = some [invalidBreakpadId lib.breakpadId] ∧
    ∀ s i fr rf, req.frameAt j s i = some (job, fr) → resp.frameAt j s i = some rf →
      job.memoryMap[fr.moduleIndex]? = some lib → rf.symbol = none := by
  have hl : lookOf load lib = .error (invalidBreakpadId lib.breakpadId) := by
    unfold lookOf
    rw [C07_debug_id_syntax, hbad]
    simp
  obtain ⟨a, b⟩ := C07_isolation_reported (lookOf load) extOrder hext req resp h j job res hj hres hkeys lib
    hmem hreq _ hl
  refine ⟨a, b, fun s i fr rf hfa hra hlib => ?_⟩
  have := C07_truthful (lookOf load) extOrder hext req resp h j s i job fr rf lib hfa hra hlib
  rw [hl] at this
  exact this

/-- **The loader is consulted with (debug name, `DebugId`) only, and only for well-formed ids**: two loaders
that agree wherever `to_debug_id` succeeds give the same answer to every request. -/
theorem C07_loader_interface (load load' : Load) (extOrder) (req : Request)
    (hagree : ∀ (lib : Lib) d, toDebugId lib.breakpadId = .ok d → load lib.debugName d = load' lib.debugName d) :
    queryApi (lookOf load) extOrder req = queryApi (lookOf load') extOrder req := by
  have : lookOf load = lookOf load' := by
    funext lib
    unfold lookOf
    cases hd : toDebugId lib.breakpadId with
    | error e => rfl
    | ok d => exact hagree lib d hd
  rw [this]

/-- **Two spellings of one id are one library for the lookups**: memory-map entries with the same debug name
whose well-formed ids denote the same `DebugId` (upper / lower case digits, leading zeros or `+` in the age)
get the same direct lookups from every loader, hence (by `C07_truthful`) identical symbols at equal
addresses. -/
theorem C07_id_spelling (load : Load) (l1 l2 : Lib) (hn : l1.debugName = l2.debugName)
    (h1 : BreakpadIdOk l1.breakpadId.toList = true) (h2 : BreakpadIdOk l2.breakpadId.toList = true)
    (hv : breakpadIdValue l1.breakpadId.toList = breakpadIdValue l2.breakpadId.toList) :
    lookOf load l1 = lookOf load l2 ∧ ∀ a, directSymbol (lookOf load) l1 a = directSymbol (lookOf load) l2 a := by
  have : lookOf load l1 = lookOf load l2 := by
    unfold lookOf
    rw [C07_debug_id_syntax, C07_debug_id_syntax, h1, h2, hv, hn]
    simp
  refine ⟨this, fun a => ?_⟩
  unfold directSymbol
  rw [this]

/-- **Which request a body denotes** (serde's untagged enum, request_json.rs:3-8): a `jobs` key whose jobs
decode wins, whatever else the object has at top level; otherwise — no `jobs` key, or some number in it
that is not a `u32` — the top-level `memoryMap`/`stacks` job is answered if it decodes; otherwise the parse
error. -/
theorem C07_body_forms (load : Load) (extOrder) (b : RawBody) :
    (∀ js, b.jobs.bind decodeJobs = some js →
      handleBody load extOrder b = queryApi (lookOf load) extOrder (.withJobsList js)) ∧
    (b.jobs.bind decodeJobs = none → ∀ j, b.top.bind decodeJob = some j →
      handleBody load extOrder b = queryApi (lookOf load) extOrder (.justOneJob j)) ∧
    (b.jobs.bind decodeJobs = none → b.top.bind decodeJob = none →
      handleBody load extOrder b = .error .parse) := by
  refine ⟨fun js h => ?_, fun h j hj => ?_, fun h hj => ?_⟩
  · simp [handleBody, decodeBody, h]
  · simp [handleBody, decodeBody, h, hj]
  · simp [handleBody, decodeBody, h, hj]

/-- `C07_bad_index_unrepresentable` for bodies: when every form that is present contains a number that does
not fit `u32`, the answer is the parse error (a form that is absent cannot rescue the request). -/
theorem C07_body_unrepresentable (load : Load) (extOrder) (b : RawBody)
    (hjobs : ∀ js, b.jobs = some js → ∃ job ∈ js, ∃ st ∈ job.stacks, ∃ p ∈ st,
      p.1 < 0 ∨ 4294967296 ≤ p.1 ∨ p.2 < 0 ∨ 4294967296 ≤ p.2)
    (htop : ∀ job, b.top = some job → ∃ st ∈ job.stacks, ∃ p ∈ st,
      p.1 < 0 ∨ 4294967296 ≤ p.1 ∨ p.2 < 0 ∨ 4294967296 ≤ p.2) :
    handleBody load extOrder b = .error .parse := by
  have h1 : b.jobs.bind decodeJobs = none := by
    cases hb : b.jobs with
    | none => rfl
    | some js =>
      obtain ⟨job, hj, st, hs, p, hp, hbad⟩ := hjobs js hb
      simp only [Option.bind_some]
      exact (decodeJobs_none_iff js).mpr ⟨job, hj, st, hs, p, hp, (decodeFrame_none_iff p).mpr hbad⟩
  have h2 : b.top.bind decodeJob = none := by
    cases hb : b.top with
    | none => rfl
    | some job =>
      obtain ⟨st, hs, p, hp, hbad⟩ := htop job hb
      simp only [Option.bind_some]
      exact (decodeJob_none_iff job).mpr ⟨st, hs, p, hp, (decodeFrame_none_iff p).mpr hbad⟩
  exact (C07_body_forms load extOrder b).2.2 h1 h2

/-- the first-round request type is the special case of a body with exactly one of the two forms -/
theorem C07_body_of_request (load : Load) (extOrder) (raw : RawRequest) :
    handleBody load extOrder raw.body = handle (lookOf load) extOrder raw := by
  cases raw with
  | withJobsList js =>
    simp only [handleBody, decodeBody, RawRequest.body, handle, decode, Option.bind_some]
    cases decodeJobs js <;> simp
  | justOneJob j =>
    simp only [handleBody, decodeBody, RawRequest.body, handle, decode, Option.bind_none, Option.bind_some]
    cases decodeJob j <;> simp

/-- **Totality over the symbol maps of C05.** The half `symAddr ≤ address` of `OracleOk` (the guard of the
`u32` subtraction at mod.rs:232) is no assumption when the oracle function of every requested library that
loads reports the symbols of a map modelled for C05 — an object file's symbol list (ELF / Mach-O / PE), a
Breakpad index, a jitdump index, under the hypotheses of C05's `contains` theorems (`SymSource.WellFormed`):
it is `C05_contains_{obj,bp,jit}`. What remains assumed is the non-empty frame list. Then every request with
valid indices is answered, nothing panics, and every symbolicated frame lies inside the function it names:
`function_offset < function_size` whenever a size is reported. -/
theorem C07_total_over_C05 (look : Look) (extOrder) (hext : ExtOrderOk extOrder) (req : Request)
    (hsrc : ∀ lib f, Requested req lib → look lib = .ok f →
      ∃ src : SymSource, src.WellFormed ∧ SymbolsFrom f src)
    (hframes : ∀ lib a f info, RequestedAddr req lib a → look lib = .ok f → f a = some info →
      info.frames.resolved ≠ some []) :
    OracleOk look req ∧
    (AllIndicesValid req → ∃ resp, queryApi look extOrder req = .ok resp) ∧
    (∀ site, queryApi look extOrder req ≠ .error (.panic site)) ∧
    (∀ resp, queryApi look extOrder req = .ok resp →
      ∀ j s i job fr rf sym, req.frameAt j s i = some (job, fr) → resp.frameAt j s i = some rf →
        rf.symbol = some sym → ∀ n, sym.functionSize = some n → sym.functionOffset < n) := by
  have hor : OracleOk look req := by
    intro lib a f info hra hl hf
    obtain ⟨src, hwf, hfrom⟩ := hsrc lib f ⟨a, hra⟩ hl
    obtain ⟨r, hr, hs, _⟩ := hfrom a info hf
    have := (symbolAt_contains src hwf a r hr).1
    exact ⟨by omega, hframes lib a f info hra hl hf⟩
  obtain ⟨t1, t2⟩ := C07_total look extOrder hext req hor
  refine ⟨hor, t1, t2, ?_⟩
  intro resp h j s i job fr rf sym hfa hra hsym n hn
  obtain ⟨_, sh⟩ := C07_shape look extOrder hext req resp h
  obtain ⟨rf', lib, hrf', hlib, _⟩ := sh j s i job fr hfa
  have htr := C07_truthful look extOrder hext req resp h j s i job fr rf lib hfa hra hlib
  have hreqA := requestedAddr_of_frameAt hfa hlib
  cases hl : look lib with
  | error e => rw [hl] at htr; simp only at htr; rw [hsym] at htr; simp at htr
  | ok f =>
    rw [hl] at htr
    simp only at htr
    cases hf : f fr.address with
    | none => rw [hf] at htr; simp only at htr; rw [hsym] at htr; simp at htr
    | some info =>
      rw [hf] at htr
      simp only at htr
      obtain ⟨sym', hs', hoff, hsize, _⟩ := htr
      rw [hsym] at hs'
      injection hs' with hs'
      subst hs'
      obtain ⟨src, hwf, hfrom⟩ := hsrc lib f ⟨fr.address, hreqA⟩ hl
      obtain ⟨r, hr, hstart, hsz⟩ := hfrom fr.address info hf
      have hc := (symbolAt_contains src hwf fr.address r hr).2 n (by rw [← hsz, ← hsize, hn])
      omega

/-! ### Non-vacuity

A request with the `jobs` wrapper and two jobs that share one library (at different module indices), an
unknown library, an unused entry, an empty stack and a duplicated address; an oracle with a function that
has an inlined call (two debug-info frames, the outer one with another name than the symbol table and line
0), a symbol without debug info, a gap, and a library that fails to load. The hypotheses of the theorems
hold, and the model computes the expected response. -/

def C07_libA : Lib := ⟨"a.so", "AA"⟩
def C07_libB : Lib := ⟨"b.pdb", "not-an-id"⟩
def C07_libU : Lib := ⟨"unused", "00"⟩

def C07_req : Request := .withJobsList
  [ ⟨[C07_libA, C07_libB, C07_libU], [[⟨0, 0x1010⟩, ⟨1, 7⟩, ⟨0, 0x1010⟩], [], [⟨0, 0x2004⟩]]⟩,
    ⟨[C07_libB, C07_libA], [[⟨1, 0x1fff⟩, ⟨1, 0x1010⟩]]⟩ ]

def C07_look : Look := fun lib =>
  if lib = C07_libA then .ok fun a =>
    if 0x1000 ≤ a ∧ a < 0x1100 then
      some ⟨0x1000, some 0x100, "_Zmain", .available
        [⟨some "inlined()", some ⟨"/src/inl.h", some "hg:repo:inl.h:rev"⟩, some 12⟩,
         ⟨some "main()", some ⟨"/src/main.c", none⟩, some 0⟩]⟩
    else if 0x2000 ≤ a ∧ a < 0x2010 then some ⟨0x2000, none, "public_sym", .none⟩
    else none
  else .error ⟨"InvalidBreakpadId", "Invalid breakpad ID not-an-id"⟩

example : ExtOrderOk id := fun _ _ => Iff.rfl

example : AllIndicesValid C07_req := by decide

example : OracleOk C07_look C07_req := by
  intro lib a f info _ hl hf
  unfold C07_look at hl
  split at hl
  · simp only [Except.ok.injEq] at hl
    subst hl
    simp only at hf
    split at hf
    · simp only [Option.some.injEq] at hf; subst hf
      exact ⟨by simp only; omega, by simp [FramesResult.resolved]⟩
    · split at hf
      · simp only [Option.some.injEq] at hf; subst hf
        exact ⟨by simp only; omega, by simp [FramesResult.resolved]⟩
      · simp at hf
  · simp at hl

example : (queryApi C07_look id C07_req).toOption.map (fun r => r.results.map (·.stacks)) = some
    [ [ [ ⟨0, 0x1010, "a.so", some ⟨"main()", 0x10, some 0x100,
            some ⟨some "/src/main.c", none, [⟨some "inlined()", some "hg:repo:inl.h:rev", some 12⟩]⟩⟩⟩,
          ⟨1, 7, "b.pdb", none⟩,
          ⟨2, 0x1010, "a.so", some ⟨"main()", 0x10, some 0x100,
            some ⟨some "/src/main.c", none, [⟨some "inlined()", some "hg:repo:inl.h:rev", some 12⟩]⟩⟩⟩ ],
        [],
        [ ⟨0, 0x2004, "a.so", some ⟨"public_sym", 4, none, none⟩⟩ ] ],
      [ [ ⟨0, 0x1fff, "a.so", none⟩,
          ⟨1, 0x1010, "a.so", some ⟨"main()", 0x10, some 0x100,
            some ⟨some "/src/main.c", none, [⟨some "inlined()", some "hg:repo:inl.h:rev", some 12⟩]⟩⟩⟩ ] ] ] := by
  decide

example : (queryApi C07_look id C07_req).toOption.map (fun r => r.results.map (·.foundModules)) = some
    [ [("a.so/AA", true), ("b.pdb/not-an-id", false)], [("b.pdb/not-an-id", false), ("a.so/AA", true)] ] := by
  decide

/-- a module index one past the memory map in the *second* job: the whole answer is the error -/
example : failOf (queryApi C07_look id (.withJobsList
    [⟨[C07_libA], [[⟨0, 0x1010⟩]]⟩, ⟨[C07_libA, C07_libB], [[⟨0, 1⟩], [⟨2, 1⟩]]⟩])) = some .badModuleIndex := by
  decide

/-- the excluded point of `C07_total`: an oracle that puts the symbol start above the address makes the
model (like the Rust code's `frame.address - symbol_address`) panic -/
example : failOf (queryApi (fun _ => .ok fun _ => some ⟨0x20, none, "f", .none⟩) id
    (.justOneJob ⟨[C07_libA], [[⟨0, 0x10⟩]]⟩)) = some (.panic "mod.rs:232 attempt to subtract with overflow") := by
  decide

/-! #### non-vacuity of the front-end theorems (ids as character lists; the kernel evaluates the parser) -/

/-- a 33-character id, the same in lower case with a three-digit age, a PDB 2.0 id -/
example : toDebugIdChars ("DFB8E43AF2423D73A453AEB6A777EF75a".toList) =
    some ⟨false, 0xDFB8E43AF2423D73A453AEB6A777EF75, 10⟩ := by decide
example : toDebugIdChars ("dfb8e43af2423d73a453aeb6a777ef7500A".toList) =
    some ⟨false, 0xDFB8E43AF2423D73A453AEB6A777EF75, 10⟩ := by decide
example : toDebugIdChars ("4C4C4F571".toList) = some ⟨true, 0x4C4C4F57 * 2 ^ 96, 1⟩ := by decide
/-- rejected: 31 digits + age, no age, nil, hyphenated, age above `u32`, a `-` age -/
example : toDebugIdChars ("0123456789ABCDEF0123456789ABCDE1".toList) = none := by decide
example : toDebugIdChars ("0123456789ABCDEF0123456789ABCDEF".toList) = none := by decide
example : toDebugIdChars ("000000000000000000000000000000000".toList) = none := by decide
example : toDebugIdChars ("DFB8E43A-F242-3D73-A453-AEB6A777EF75-a".toList) = none := by decide
example : toDebugIdChars ("DFB8E43AF2423D73A453AEB6A777EF75100000000".toList) = none := by decide
example : toDebugIdChars ("DFB8E43AF2423D73A453AEB6A777EF75-1".toList) = none := by decide
example : BreakpadIdOk ("dfb8e43af2423d73a453aeb6a777ef75+0a".toList) = true := by decide

/-- `jobs` wins over a top-level job; a `jobs` list with a negative number falls through to the top-level job -/
example : (decodeBody ⟨some [⟨[C07_libA], [[(0, 5)]]⟩, ⟨[], []⟩], some ⟨[C07_libB], [[(0, 7)]]⟩⟩).map Request.jobs =
    some [⟨[C07_libA], [[⟨0, 5⟩]]⟩, ⟨[], []⟩] := by decide
example : (decodeBody ⟨some [⟨[C07_libA], [[(0, -5)]]⟩, ⟨[], []⟩], some ⟨[C07_libB], [[(0, 7)]]⟩⟩).map Request.jobs =
    some [⟨[C07_libB], [[⟨0, 7⟩]]⟩] := by decide

/-- the hypothesis `SymbolsFrom` of `C07_total_over_C05` is met by the oracle function read off any modelled
symbol map (here without debug info), and jitdump / Breakpad / object sources are well-formed under C05's
own hypotheses (an empty Breakpad index is the trivial instance) -/
example (src : SymSource) :
    SymbolsFrom (fun a => match src.symbolAt a with
      | .hit r => some ⟨r.start, r.size, "f", .none⟩
      | _ => none) src := by
  intro a info h
  simp only at h
  split at h
  · next r hr =>
    injection h with h
    subst h
    exact ⟨r, hr, rfl, rfl⟩
  · simp at h

example (f : Breakpad.File) : (SymSource.breakpad f []).WellFormed := List.Pairwise.nil
