import SamplyModel.Lemmas.Candidates
import SamplyModel.Lemmas.CandidateFiles
/-!
# C06 — symbols and binaries are only ever served from files of the requested build

Model: `SamplyModel/Model/Candidates.lean` (follows `samply-symbols/src/lib.rs` `load_symbol_map` /
`load_binary`, `macho.rs` `get_fat_archive_member`, `elf.rs` debuglink / supplementary file handling,
`windows.rs` PDB-of-a-PE handling). A candidate file is described by what the real parsers report when it
is loaded on its own (`Load.ok info | unreadable | unparsable`, fat archives by their member list); the
theorems hold for every such description, every number and every order of candidates, every type `ι` of
identifier atoms and every native-architecture preference list.

`SymMatches native req c` / `BinMatches native r c`  (Lemmas) say "candidate `c` is a file of the requested
build": loaded the way the loop loads it, it reports the requested debug id (resp. for binaries the requested
debug id if one was requested, else the requested code id).

Only property theorems (names `C06_*`) and non-vacuity examples live in this file.
-/
open Cand

variable {ι : Type} [DecidableEq ι]

/-! ### symbol maps -/

/-- A symbol map that is handed out reports exactly the requested debug id, it is what loading candidate
number `k` yields, and no earlier candidate was a file of the requested build. -/
theorem C06_symbol_map (native : List ι) (req : DebugId ι) (cs : List (Candidate ι (SymInfo ι))) (k : Nat)
    (m : SymInfo ι) (h : loadSymbolMap native (some req) cs = .ok k m) :
    m.debugId = req ∧ ∃ c, cs[k]? = some c ∧ c.load native (some (.debugId req)) = .ok m ∧
      ∀ j, j < k → ∀ c', cs[j]? = some c' → ¬ SymMatches native req c' := by
  simp only [loadSymbolMap] at h
  cases hs : symLoop native req 0 cs with
  | inl r =>
    obtain ⟨k', m'⟩ := r
    rw [hs] at h
    cases h
    obtain ⟨h1, _, c, h3, h4, h5⟩ := symLoop_inl native req cs 0 k m hs
    exact ⟨h1, c, by simpa using h3, h4, by simpa using h5⟩
  | inr es =>
    rw [hs] at h
    rcases es with _ | ⟨e, _ | ⟨e2, es⟩⟩ <;> simp at h

/-- If no candidate is a file of the requested build (each one fails to load or reports another id), the
request fails: there is no fallback to a mismatching file. -/
theorem C06_no_fallback (native : List ι) (req : DebugId ι) (cs : List (Candidate ι (SymInfo ι)))
    (h : ∀ c ∈ cs, ∀ m, c.load native (some (.debugId req)) = .ok m → m.debugId ≠ req) :
    ∀ k m, loadSymbolMap native (some req) cs ≠ .ok k m := by
  intro k m hk
  obtain ⟨c, hc, m', hm', hid⟩ := (loadSymbolMap_ok_iff native req cs).1 ⟨k, m, hk⟩
  exact h c hc m' hm' hid

/-- Conversely the request succeeds as soon as one candidate is a file of the requested build, wherever it
stands in the list and whatever surrounds it. -/
theorem C06_finds_match (native : List ι) (req : DebugId ι) (cs : List (Candidate ι (SymInfo ι)))
    (h : ∃ c ∈ cs, SymMatches native req c) : ∃ k m, loadSymbolMap native (some req) cs = .ok k m :=
  (loadSymbolMap_ok_iff native req cs).2 h

/-- Every failing candidate contributes exactly one recorded error: on failure the error list is as long as
the candidate list (nothing is skipped silently). -/
theorem C06_errors_accumulate (native : List ι) (req : DebugId ι) (cs : List (Candidate ι (SymInfo ι)))
    (es : List (Err ι)) (h : loadSymbolMap native (some req) cs = .noneOk es) : es.length = cs.length := by
  simp only [loadSymbolMap] at h
  cases hs : symLoop native req 0 cs with
  | inl r => rw [hs] at h; cases h
  | inr es' =>
    rw [hs] at h
    have := (symLoop_inr native req cs 0 es' hs).1
    rcases es' with _ | ⟨e, _ | ⟨e2, es'⟩⟩ <;> simp at h
    subst h; exact this

/-- The order in which the candidates are offered decides neither *whether* the request succeeds nor *which
id* a successful request reports (it is the requested one for every permutation). -/
theorem C06_order_independent (native : List ι) (req : DebugId ι) (cs cs' : List (Candidate ι (SymInfo ι)))
    (hp : cs.Perm cs') :
    ((∃ k m, loadSymbolMap native (some req) cs = .ok k m) ↔ (∃ k m, loadSymbolMap native (some req) cs' = .ok k m))
    ∧ (∀ k m, loadSymbolMap native (some req) cs' = .ok k m → m.debugId = req) := by
  refine ⟨?_, fun k m h => (C06_symbol_map native req cs' k m h).1⟩
  rw [loadSymbolMap_ok_iff, loadSymbolMap_ok_iff]
  constructor
  · rintro ⟨c, hc, hm⟩; exact ⟨c, hp.mem_iff.1 hc, hm⟩
  · rintro ⟨c, hc, hm⟩; exact ⟨c, hp.mem_iff.2 hc, hm⟩

/-! ### binaries -/

/-- A binary that is handed out carries the requested debug id — or, when none was requested, the requested
code id — and is what loading one of the candidates yields. -/
theorem C06_binary (native : List ι) (r : BinReq ι) (cs : List (Candidate ι (BinInfo ι))) (m : BinInfo ι)
    (h : loadBinary native r cs = .ok m) :
    (match r.debugId with
     | some d => m.debugId = some d
     | none => ∃ c, r.codeId = some c ∧ m.codeId = some c)
    ∧ ∃ c ∈ cs, c.load native r.disamb = .ok m := by
  simp only [loadBinary] at h
  split at h
  · cases h
  · obtain ⟨hacc, hc⟩ := binLoop_ok native r cs none m h
    refine ⟨?_, hc⟩
    simp only [BinReq.Accepts] at hacc
    cases hd : r.debugId with
    | some d => simpa [hd] using hacc
    | none =>
      cases hcode : r.codeId with
      | some c => simp [hd, hcode] at hacc ⊢; exact hacc
      | none => simp [hd, hcode] at hacc

/-- No candidate carries the requested identity ⇒ the request fails (with the last recorded error, or
"no candidates"); never a mismatching binary, never the `panic!` of lib.rs:456. -/
theorem C06_binary_no_fallback (native : List ι) (r : BinReq ι) (cs : List (Candidate ι (BinInfo ι)))
    (h : ∀ c ∈ cs, ¬ BinMatches native r c) :
    loadBinary native r cs = .notEnoughInfo ∨ loadBinary native r cs = .noCandidates
      ∨ ∃ e, loadBinary native r cs = .lastErr e := by
  simp only [loadBinary]
  split
  · exact .inl rfl
  · rename_i hg
    have hid : r.debugId.isSome ∨ r.codeId.isSome := by
      cases hc : r.codeId <;> cases hd : r.debugId <;> simp [hc, hd] at hg ⊢
    rcases binLoop_not_ok native r cs none hid h with h' | ⟨h', _, _⟩
    · exact .inr (.inr h')
    · exact .inr (.inl h')

/-- The `panic!` branch of `load_binary` is unreachable. -/
theorem C06_binary_no_panic (native : List ι) (r : BinReq ι) (cs : List (Candidate ι (BinInfo ι))) :
    loadBinary native r cs ≠ .panic := by
  intro hp
  by_cases h : ∃ c ∈ cs, BinMatches native r c
  · simp only [loadBinary] at hp
    split at hp
    · cases hp
    · obtain ⟨m, hm⟩ := binLoop_finds native r cs none h
      rw [hm] at hp; cases hp
  · have h' : ∀ c ∈ cs, ¬ BinMatches native r c := fun c hc hm => h ⟨c, hc, hm⟩
    rcases C06_binary_no_fallback native r cs h' with h1 | h1 | ⟨e, h1⟩ <;> rw [h1] at hp <;> cases hp

/-- Whether a binary request succeeds does not depend on the order of the candidates, and for every order a
successful request carries the requested identity. -/
theorem C06_binary_order_independent (native : List ι) (r : BinReq ι) (cs cs' : List (Candidate ι (BinInfo ι)))
    (hp : cs.Perm cs') :
    ((∃ m, loadBinary native r cs = .ok m) ↔ (∃ m, loadBinary native r cs' = .ok m))
    ∧ (∀ m, loadBinary native r cs' = .ok m → r.Accepts m) := by
  have key : ∀ l : List (Candidate ι (BinInfo ι)),
      (∃ m, loadBinary native r l = .ok m) ↔
        (¬ (r.codeId.isNone && (!r.hasDebugName || r.debugId.isNone)) = true ∧ ∃ c ∈ l, BinMatches native r c) := by
    intro l
    simp only [loadBinary]
    constructor
    · rintro ⟨m, hm⟩
      split at hm
      · cases hm
      · rename_i hg
        obtain ⟨hacc, c, hc, hl⟩ := binLoop_ok native r l none m hm
        exact ⟨hg, c, hc, m, hl, hacc⟩
    · rintro ⟨hg, hc⟩
      rw [if_neg hg]
      exact binLoop_finds native r l none hc
  refine ⟨?_, ?_⟩
  · rw [key, key]
    constructor
    · rintro ⟨hg, c, hc, hm⟩; exact ⟨hg, c, hp.mem_iff.1 hc, hm⟩
    · rintro ⟨hg, c, hc, hm⟩; exact ⟨hg, c, hp.mem_iff.2 hc, hm⟩
  · intro m hm
    simp only [loadBinary] at hm
    split at hm
    · cases hm
    · exact (binLoop_ok native r cs' none m hm).1

/-! ### fat archives -/

/-- The member selected for a debug-id request is a member of the archive whose `LC_UUID` is the requested id. -/
theorem C06_fat_member {α : Type} (native : List ι) (req : DebugId ι) (ms : List (Member ι α)) (m : Member ι α)
    (h : fatMember native (some (.debugId req)) ms = .ok m) :
    m ∈ ms ∧ m.uuid.map DebugId.ofUuid = some req := by
  obtain ⟨hm, s, hs, _⟩ := fatMember_some_ok native (.debugId req) ms m h
  refine ⟨hm, ?_⟩
  simp only [Member.score] at hs
  split at hs
  · assumption
  · cases hs

/-- For every disambiguator the selected member is a member that matches it with the least score
(`min_by_key`); without a disambiguator only a one-member archive is resolved. -/
theorem C06_fat_member_best {α : Type} (native : List ι) (d : Disamb ι) (ms : List (Member ι α)) (m : Member ι α)
    (h : fatMember native (some d) ms = .ok m) :
    m ∈ ms ∧ ∃ s, m.score native d = some s ∧ ∀ m' ∈ ms, ∀ s', m'.score native d = some s' → s ≤ s' :=
  fatMember_some_ok native d ms m h

/-- A member with the requested UUID exists ⇒ the selection succeeds (it does not depend on the member order). -/
theorem C06_fat_member_found {α : Type} (native : List ι) (req : DebugId ι) (ms : List (Member ι α)) (m : Member ι α)
    (hm : m ∈ ms) (hu : m.uuid.map DebugId.ofUuid = some req) :
    ∃ m', fatMember native (some (.debugId req)) ms = .ok m' :=
  fatMember_some_isOk native (.debugId req) ms m 0 hm (by simp [Member.score, hu])

/-! ### companion files -/

/-- A `.gnu_debuglink` target is used only if it could be read and its CRC is the one stated in the section. -/
theorem C06_debuglink {β : Type} (link : Option Nat) (hasId : Bool) (cs : List (DlCand β)) (p : β)
    (h : debugLink link hasId cs = some p) :
    ∃ wanted, link = some wanted ∧ ∃ c ∈ cs, c.payload = p ∧ c.readable = true ∧ c.crc = wanted := by
  simp only [debugLink] at h
  split at h
  · rename_i wanted
    obtain ⟨c, hc, h1, h2, h3, _⟩ := debugLinkLoop_some wanted cs p h
    exact ⟨wanted, rfl, c, hc, h1, h2, h3⟩
  · cases h

/-- No candidate with the stated CRC ⇒ no companion is used at all. -/
theorem C06_debuglink_no_fallback {β : Type} (wanted : Nat) (hasId : Bool) (cs : List (DlCand β))
    (h : ∀ c ∈ cs, c.readable = false ∨ c.crc ≠ wanted) : debugLink (some wanted) hasId cs = none := by
  cases hasId with
  | false => rfl
  | true =>
    simp only [debugLink]
    exact debugLinkLoop_none wanted cs fun c hc => by
      rcases h c hc with h1 | h1
      · exact .inl h1
      · exact .inr (.inl h1)

/-- A supplementary debug file is used only if it could be read, is an object file and carries the build id
stated in `.gnu_debugaltlink`. -/
theorem C06_supplementary {β : Type} (link : Option ι) (cs : List (SupCand ι β)) (p : β)
    (h : supplementary link cs = some p) :
    ∃ wanted, link = some wanted ∧ ∃ c ∈ cs, c.payload = p ∧ c.readable = true ∧ c.buildId = some wanted := by
  simp only [supplementary] at h
  split at h
  · rename_i wanted
    obtain ⟨c, hc, h1, h2, _, h4⟩ := supplementaryLoop_some wanted cs p h
    exact ⟨wanted, rfl, c, hc, h1, h2, h4⟩
  · cases h

theorem C06_supplementary_no_fallback {β : Type} (wanted : ι) (cs : List (SupCand ι β))
    (h : ∀ c ∈ cs, c.readable = false ∨ c.buildId ≠ some wanted) : supplementary (some wanted) cs = none := by
  simp only [supplementary]
  exact supplementaryLoop_none wanted cs fun c hc => by
    rcases h c hc with h1 | h1
    · exact .inl h1
    · exact .inr (.inr h1)

/-- The PDB named by a PE binary is used only if it loads and reports the binary's own debug id. -/
theorem C06_pdb_companion {β : Type} (binId : DebugId ι) (pdb : Load (SymInfo ι)) (payload p : β)
    (h : pdbCompanion binId pdb payload = some p) : ∃ m, pdb = .ok m ∧ m.debugId = binId ∧ p = payload := by
  simp only [pdbCompanion] at h
  split at h
  · rename_i m
    split at h
    · rename_i heq; cases h; exact ⟨m, rfl, heq, rfl⟩
    · cases h
  · cases h

/-! ### improvement round: the CRC as a function of the file's bytes (elf.rs:181-200) -/

/-- `compute_debug_link_crc_of_file_contents` hashes every byte of the file exactly once, in order: for every
streaming hasher (`step`), every chunk size > 0 and every file that does not end within `chunk` bytes of 2^64,
the chunked loop yields the hash of the whole byte string. -/
theorem C06_crc_covers_file {σ : Type} (step : σ → UInt8 → σ) (init : σ) (chunk : Nat) (hc : 0 < chunk)
    (bytes : List UInt8) (hsz : bytes.length + chunk ≤ 2 ^ 64) :
    crcChunked step init chunk bytes = .ok (bytes.foldl step init) := by
  rcases crcChunked_spec step init chunk hc bytes with h | ⟨_, h⟩
  · exact h
  · omega

/-- Without the size hypothesis: whenever the loop yields a hash at all, it is the hash of the whole file; the
only other outcome is the `u64` overflow of `offset` (a file within `chunk` bytes of 2^64). -/
theorem C06_crc_sound {σ : Type} (step : σ → UInt8 → σ) (init : σ) (chunk : Nat) (hc : 0 < chunk)
    (bytes : List UInt8) :
    (∀ s, crcChunked step init chunk bytes = .ok s → s = bytes.foldl step init)
    ∧ crcChunked step init chunk bytes ≠ .fuel := by
  rcases crcChunked_spec step init chunk hc bytes with h | ⟨h, _⟩
  · rw [h]; exact ⟨fun s hs => (by cases hs; rfl), (by simp)⟩
  · rw [h]; exact ⟨fun s hs => (by cases hs), (by simp)⟩

/-- The result does not depend on the chunk size. -/
theorem C06_crc_chunk_independent {σ : Type} (step : σ → UInt8 → σ) (init : σ) (c₁ c₂ : Nat) (h₁ : 0 < c₁)
    (h₂ : 0 < c₂) (bytes : List UInt8) (hs₁ : bytes.length + c₁ ≤ 2 ^ 64) (hs₂ : bytes.length + c₂ ≤ 2 ^ 64) :
    crcChunked step init c₁ bytes = crcChunked step init c₂ bytes := by
  rw [C06_crc_covers_file step init c₁ h₁ bytes hs₁, C06_crc_covers_file step init c₂ h₂ bytes hs₂]

/-- `C06_debuglink` on file contents: a `.gnu_debuglink` target is used only if it could be read and the hash
*of all of its bytes* is the one stated in the section. -/
theorem C06_debuglink_bytes {σ β : Type} (h : Hasher σ) (chunk : Nat) (hc : 0 < chunk) (link : Option Nat)
    (hasId : Bool) (fs : List (DlFile β)) (p : β) (hu : debugLinkFiles h chunk link hasId fs = .used p) :
    ∃ wanted, link = some wanted ∧ hasId = true ∧
      ∃ f ∈ fs, f.payload = p ∧ ∃ b, f.bytes = some b ∧ h.whole b = wanted := by
  simp only [debugLinkFiles] at hu
  split at hu
  · rename_i wanted
    obtain ⟨f, hf, h1, _, b, hb, hw⟩ := debugLinkFilesLoop_used h chunk hc wanted fs p hu
    exact ⟨wanted, rfl, rfl, f, hf, h1, b, hb, hw⟩
  · cases hu

/-- Every byte-level corruption that changes the hash is refused: if no readable candidate's bytes hash to the
stated value, no companion is used. -/
theorem C06_debuglink_bytes_no_fallback {σ β : Type} (h : Hasher σ) (chunk : Nat) (hc : 0 < chunk) (wanted : Nat)
    (hasId : Bool) (fs : List (DlFile β)) (hn : ∀ f ∈ fs, ∀ b, f.bytes = some b → h.whole b ≠ wanted) :
    ∀ p, debugLinkFiles h chunk (some wanted) hasId fs ≠ .used p := by
  intro p hu
  obtain ⟨w, hw, _, f, hf, _, b, hb, hh⟩ := C06_debuglink_bytes h chunk hc (some wanted) hasId fs p hu
  cases hw
  exact hn f hf b hb hh

/-- The byte-level loop refines `debugLink` (the model the driver runs, with the whole-file hash as a field), and
does not panic, for files that do not end within `chunk` bytes of 2^64. -/
theorem C06_debuglink_bytes_refines {σ β : Type} (h : Hasher σ) (chunk : Nat) (hc : 0 < chunk) (link : Option Nat)
    (hasId : Bool) (fs : List (DlFile β))
    (hsz : ∀ f ∈ fs, ∀ b, f.bytes = some b → b.length + chunk ≤ 2 ^ 64) :
    debugLinkFiles h chunk link hasId fs
      = (match debugLink link hasId (fs.map (DlFile.toCand h)) with
        | some p => .used p
        | none => .notUsed)
    ∧ debugLinkFiles h chunk link hasId fs ≠ .panic := by
  have key : debugLinkFiles h chunk link hasId fs
      = (match debugLink link hasId (fs.map (DlFile.toCand h)) with
        | some p => .used p
        | none => .notUsed) := by
    cases link with
    | none => cases hasId <;> rfl
    | some wanted =>
      cases hasId with
      | false => rfl
      | true => exact debugLinkFilesLoop_refines h chunk hc wanted fs hsz
  refine ⟨key, ?_⟩
  rw [key]
  split <;> simp

/-! ### the `.symindex` sidecar of a Breakpad candidate (lib.rs:611-624, breakpad/symbol_map.rs:62-84, repaired by 3f61c23c) -/

/-- What `load_symbol_map` guarantees for Breakpad candidates with sidecars: the id that the map *reports* is the
requested one and it is the reported id of candidate `k`; the lookups are served from candidate `k`'s own text. -/
theorem C06_symindex_reported (parseId : List UInt8 → Option (DebugId ι)) (utf8 : List UInt8 → Bool) (native : List ι)
    (req : DebugId ι) (cs : List BpCand) (k : Nat) (m : SymInfo ι) (b : Option (DebugId ι))
    (h : loadSymbolMapBp parseId utf8 native (some req) cs = (.ok k m, b)) :
    m.debugId = req ∧ ∃ c, cs[k]? = some c ∧ c.reported parseId utf8 = some req ∧ b = c.own parseId := by
  simp only [loadSymbolMapBp, loadSymbolMapBpBy] at h
  split at h
  · rename_i k' m' hk
    simp only [Prod.mk.injEq, SymOut.ok.injEq] at h
    obtain ⟨⟨rfl, rfl⟩, hb⟩ := h
    obtain ⟨h1, c, hc, hl, _⟩ := C06_symbol_map native req _ k' m' hk
    rw [List.getElem?_map] at hc
    cases hck : cs[k']? with
    | none => simp [hck] at hc
    | some c0 =>
      simp only [hck, Option.map_some, Option.some.injEq] at hc
      subst hc
      simp only [BpCand.toCandidateOf] at hl
      cases hr : c0.reportedIf parseId utf8 (c0.sidecarUsed parseId utf8) with
      | none => simp [hr, Candidate.load, Load.toExcept] at hl
      | some d =>
        simp only [hr, Candidate.load, Load.toExcept, Except.ok.injEq] at hl
        subst hl
        refine ⟨h1, c0, rfl, by rw [BpCand.reported, hr]; exact congrArg some h1, ?_⟩
        rw [← hb, hck]; rfl
  · rename_i hne
    simp only [Prod.mk.injEq] at h
    exact absurd h.1 (hne k m)

/-- A symbol map that is handed out serves its lookups from a `.sym` file of the requested build — for EVERY sidecar:
every module-info byte string (any number of MODULE lines, INFO lines, garbage, non-UTF-8), every `.sym` head, every id
parser and UTF-8 predicate. A sidecar is used only if the first line of its module info is the beginning of the `.sym`
file *and* states the id the index reports (the id of the LAST MODULE line of the module info); the `.sym`'s own first line
then states that id too (`BpCand.own_eq_sideReported_of_used`, which rests on `idToken_append`). -/
theorem C06_symindex_consistent (parseId : List UInt8 → Option (DebugId ι)) (utf8 : List UInt8 → Bool) (native : List ι)
    (req : DebugId ι) (cs : List BpCand) (k : Nat) (m : SymInfo ι) (b : Option (DebugId ι))
    (h : loadSymbolMapBp parseId utf8 native (some req) cs = (.ok k m, b)) : b = some req := by
  obtain ⟨_, c, _, hr, hb⟩ := C06_symindex_reported parseId utf8 native req cs k m b h
  rw [hb]
  simp only [BpCand.reported, BpCand.reportedIf] at hr
  split at hr
  · rename_i hu
    rw [BpCand.own_eq_sideReported_of_used parseId utf8 c hu]; exact hr
  · exact lineId_some parseId utf8 _ req hr

/-- Completeness of the comparison: a sidecar whose module info is one MODULE line (plus lines that are no MODULE
records) equal to the `.sym`'s first line is used — stated through the two ids: first line = the `.sym`'s first line,
and the index reports what that line states. -/
theorem C06_symindex_same_line_used (parseId : List UInt8 → Option (DebugId ι)) (utf8 : List UInt8 → Bool)
    (c : BpCand) (info : List UInt8) (r : DebugId ι) (hs : c.side = .ok info)
    (hne : firstLine info ≠ []) (heq : firstLine info = firstLine c.head)
    (hrep : moduleInfoId parseId utf8 info = some r) (hfirst : lineId parseId utf8 (firstLine info) = some r) :
    c.sidecarUsed parseId utf8 = true := by
  have hpre : c.head.take (firstLine c.head).length = firstLine c.head := by
    simp only [firstLine]
    generalize c.head = l
    induction l with
    | nil => rfl
    | cons a l ih =>
      simp only [List.takeWhile_cons]
      split
      · simp [ih]
      · rfl
  simp only [BpCand.sidecarUsed, BpCand.sideReported, BpCand.sideFirstId, hs, hrep, hfirst, Bool.and_eq_true,
    decide_eq_true_eq, and_true]
  refine ⟨by simpa using hne, ?_⟩
  rw [heq]; exact hpre

/-- Before the first repair (3f61c23c) every parsable sidecar was used: `x.sym` with `MODULE L x A g` next to a `.symindex`
whose module info is `MODULE L x B g` answers a request for build `B` with a map that reports `B` and serves the text
of build `A`. (Ids are the raw tokens here: `parseId t = some ⟨t, 0⟩`; every line counts as UTF-8.) -/
theorem C06_legacy_counterexample_stale_symindex :
    let parseId : List UInt8 → Option (DebugId (List UInt8)) := fun t => some ⟨t, 0⟩
    let symA : List UInt8 := [77, 79, 68, 85, 76, 69, 32, 76, 32, 120, 32, 65, 32, 103, 10, 70]
    let infoB : List UInt8 := [77, 79, 68, 85, 76, 69, 32, 76, 32, 120, 32, 66, 32, 103]
    loadSymbolMapBpLegacy parseId (fun _ => true) [] (some ⟨[66], 0⟩) [⟨symA, .ok infoB⟩] = (.ok 0 ⟨⟨[66], 0⟩⟩, some ⟨[65], 0⟩)
    ∧ loadSymbolMapBp parseId (fun _ => true) [] (some ⟨[66], 0⟩) [⟨symA, .ok infoB⟩]
        = (.single (.unmatched (some ⟨[65], 0⟩)), none) := by
  decide

/-- Under the rule of 3f61c23c alone (first line compared, reported id not): `x.sym` with `MODULE L x A g` next to a
`.symindex` whose module info is `MODULE L x A g\nMODULE L x B g` — the first line is the `.sym`'s, the index reports the
LAST MODULE line's id `B` — answers a request for `B` with a map that reports `B` and serves the text of build `A`.
With d2664d76 the sidecar is ignored and the request fails. -/
theorem C06_legacy_counterexample_two_module_lines :
    let parseId : List UInt8 → Option (DebugId (List UInt8)) := fun t => some ⟨t, 0⟩
    let lineA : List UInt8 := [77, 79, 68, 85, 76, 69, 32, 76, 32, 120, 32, 65, 32, 103]
    let lineB : List UInt8 := [77, 79, 68, 85, 76, 69, 32, 76, 32, 120, 32, 66, 32, 103]
    let symA : List UInt8 := lineA ++ [10, 70]
    loadSymbolMapBpFirstLineOnly parseId (fun _ => true) [] (some ⟨[66], 0⟩) [⟨symA, .ok (lineA ++ [10] ++ lineB)⟩]
        = (.ok 0 ⟨⟨[66], 0⟩⟩, some ⟨[65], 0⟩)
    ∧ loadSymbolMapBp parseId (fun _ => true) [] (some ⟨[66], 0⟩) [⟨symA, .ok (lineA ++ [10] ++ lineB)⟩]
        = (.single (.unmatched (some ⟨[65], 0⟩)), none) := by
  decide

/-! ### improvement round: dyld shared cache entry points (lib.rs:472-545) -/

/-- With a `DebugId` disambiguator, `load_binary_for_dyld_cache_image` / `load_symbol_map_for_dyld_cache_image`
return only a result that reports that id, and it comes from one of the caches. -/
theorem C06_dyld_by_id {α : Type} (idOf : α → Option (DebugId ι)) (req : DebugId ι) (caches : List (Load α)) (a : α)
    (h : loadForDyldCacheImage idOf (some (.debugId req)) caches = .ok a) :
    idOf a = some req ∧ .ok a ∈ caches := by
  obtain ⟨h1, h2⟩ := dyldLoop_ok idOf _ caches none a h
  exact ⟨h2 req rfl, h1⟩

theorem C06_dyld_no_fallback {α : Type} (idOf : α → Option (DebugId ι)) (req : DebugId ι) (caches : List (Load α))
    (h : ∀ a, .ok a ∈ caches → idOf a ≠ some req) :
    ∀ a, loadForDyldCacheImage idOf (some (.debugId req)) caches ≠ .ok a :=
  dyldLoop_none_match idOf req caches none h

/-- Documented gap of the code (not of the model): with an `Arch` disambiguator or none, the first cache that
contains the dylib is returned without any id check (lib.rs:501 / :540). -/
theorem C06_dyld_unchecked_without_id {α : Type} (idOf : α → Option (DebugId ι)) (d : Option (Disamb ι))
    (hd : ∀ r, d ≠ some (.debugId r)) (a : α) (rest : List (Load α)) :
    loadForDyldCacheImage idOf d (.ok a :: rest) = .ok a := by
  cases d with
  | none => rfl
  | some d' =>
    cases d' with
    | debugId r => exact absurd rfl (hd r)
    | arch _ => rfl
    | bestMatch _ => rfl
    | native => rfl

/-! ### Non-vacuity: concrete candidate lists (`ι := Nat`) on which hypotheses and conclusions are live -/

section
private def idA : DebugId Nat := ⟨0xA, 0⟩
private def idA1 : DebugId Nat := ⟨0xA, 1⟩
private def idB : DebugId Nat := ⟨0xB, 0⟩
private def fatAB : Candidate Nat (SymInfo Nat) :=
  .fat [⟨some 1, some 0xB, .ok ⟨idB⟩⟩, ⟨some 2, some 0xA, .ok ⟨idA⟩⟩]
private def exCands : List (Candidate Nat (SymInfo Nat)) :=
  [.single .unreadable, .single (.ok ⟨idB⟩), .single (.ok ⟨idA1⟩), .single .unparsable, fatAB, .single (.ok ⟨idA⟩)]

-- decoys first, the fat archive's second member is the first match
example : loadSymbolMap [] (some idA) exCands = .ok 4 ⟨idA⟩ := by decide
-- no match: all five errors are recorded, in order
example : loadSymbolMap [] (some idA) (exCands.take 4)
    = .noneOk [.open_, .unmatched (some idB), .unmatched (some idA1), .parse] := by decide
example : loadSymbolMap [] (some ⟨0xC, 0⟩) [fatAB] = .single .fatNoMatch := by decide
example : loadSymbolMap [] (some idA) ([] : List (Candidate Nat (SymInfo Nat))) = .noCandidates := by decide
-- binaries: debug id wins over code id; code id only when no debug id is requested
example : loadBinary [] ⟨true, some idA, some 7, none⟩
    [.single (.ok ⟨some idB, some 7⟩), .single (.ok ⟨some idA, some 8⟩)] = .ok ⟨some idA, some 8⟩ := by decide
example : loadBinary [] ⟨false, none, some 7, none⟩
    [.single (.ok ⟨some idA, some 8⟩), .single (.ok ⟨none, some 7⟩)] = .ok ⟨none, some 7⟩ := by decide
example : loadBinary [] ⟨false, none, some 7, none⟩
    [.single (.ok ⟨some idA, some 8⟩), .single .unreadable] = .lastErr .open_ := by decide
example : loadBinary [] ⟨false, some idA, none, none⟩ [.single (.ok ⟨some idA, some 8⟩)] = .notEnoughInfo := by decide
-- fat members: first least score
example : (fatMember [10, 11] (some .native)
    [(⟨some 11, none, .ok ()⟩ : Member Nat Unit), ⟨some 10, some 5, .ok ()⟩, ⟨some 10, some 6, .ok ()⟩]).toOption.map (·.uuid)
    = some (some 5) := by decide
-- companions
example : debugLink (some 99) true [⟨true, 98, true, "wrong"⟩, ⟨false, 99, true, "gone"⟩, ⟨true, 99, true, "right"⟩] = some "right" := by
  decide
example : supplementary (some 5) [⟨true, true, some 6, "wrong"⟩, ⟨true, true, none, "noid"⟩, ⟨true, true, some 5, "right"⟩] = some "right" := by
  decide
example : pdbCompanion idA (.ok ⟨idA1⟩) "pdb" = none ∧ pdbCompanion idA (.ok ⟨idA⟩) "pdb" = some "pdb" := by decide
-- CRC: chunked = whole on a concrete hasher (sum of bytes) with chunk sizes 1, 2, 3 and > length
example : crcChunked (fun (s : Nat) (b : UInt8) => s * 31 + b.toNat) 7 2 [1, 2, 3, 4, 5]
    = .ok ([1, 2, 3, 4, 5].foldl (fun (s : Nat) (b : UInt8) => s * 31 + b.toNat) 7) := by decide
example : crcChunked (fun (s : Nat) (b : UInt8) => s * 31 + b.toNat) 7 3 [1, 2, 3] = .ok ((7 * 31 + 1) * 31 * 31 + 2 * 31 + 3) := by decide
-- the standard check value of CRC-32: "123456789" ↦ 0xCBF43926
set_option maxRecDepth 100000 in
example : crc32.whole [0x31, 0x32, 0x33, 0x34, 0x35, 0x36, 0x37, 0x38, 0x39] = 0xCBF43926 := by decide
-- byte-level debuglink: the corrupted twin (last byte differs) is refused, the genuine file behind it is used
example : debugLinkFiles (⟨7, fun s b => s * 31 + b.toNat, id⟩ : Hasher Nat) 4 (some (((((7 * 31 + 1) * 31 + 2) * 31 + 3) * 31 + 4) * 31 + 5)) true
    [⟨some [1, 2, 3, 4, 6], true, "corrupt"⟩, ⟨none, true, "gone"⟩, ⟨some [1, 2, 3, 4, 5], true, "genuine"⟩] = .used "genuine" := by
  decide
-- sidecars: `MODULE L x A g` with its own index (used), with no / an unparsable index, and an index of build B (ignored)
private def pid : List UInt8 → Option (DebugId (List UInt8)) := fun t => some ⟨t, 0⟩
private def lineA : List UInt8 := [77, 79, 68, 85, 76, 69, 32, 76, 32, 120, 32, 65, 32, 103]
private def lineB : List UInt8 := [77, 79, 68, 85, 76, 69, 32, 76, 32, 120, 32, 66, 32, 103]
private def u8ok : List UInt8 → Bool := fun _ => true
example : loadSymbolMapBp pid u8ok [] (some ⟨[65], 0⟩) [⟨lineB ++ [10], .unreadable⟩, ⟨lineA ++ [10, 70], .ok (lineA ++ [10, 73])⟩]
    = (.ok 1 ⟨⟨[65], 0⟩⟩, some ⟨[65], 0⟩) := by decide
example : (⟨lineA ++ [10, 70], .ok (lineA ++ [10, 73])⟩ : BpCand).sidecarUsed pid u8ok = true
    ∧ (⟨lineA ++ [10, 70], .ok lineB⟩ : BpCand).sidecarUsed pid u8ok = false
    ∧ (⟨lineA ++ [10, 70], .unparsable⟩ : BpCand).sidecarUsed pid u8ok = false
    -- two MODULE lines: same id twice is fine, another id last is not, another id first does not even match the .sym
    ∧ (⟨lineA ++ [10, 70], .ok (lineA ++ [10] ++ lineA)⟩ : BpCand).sidecarUsed pid u8ok = true
    ∧ (⟨lineA ++ [10, 70], .ok (lineA ++ [10, 73, 10] ++ lineB)⟩ : BpCand).sidecarUsed pid u8ok = false
    ∧ (⟨lineA ++ [10, 70], .ok (lineB ++ [10] ++ lineA)⟩ : BpCand).sidecarUsed pid u8ok = false := by decide
example : moduleInfoId pid u8ok (lineA ++ [10, 73, 10] ++ lineB ++ [10]) = some ⟨[66], 0⟩ := by decide
example : loadSymbolMapBp pid u8ok [] (some ⟨[66], 0⟩) [⟨lineA ++ [10], .ok lineB⟩, ⟨lineB ++ [10], .ok lineA⟩, ⟨lineB ++ [10], .unparsable⟩]
    = (.ok 1 ⟨⟨[66], 0⟩⟩, some ⟨[66], 0⟩) := by decide
example : loadForDyldCacheImage (ι := Nat) (fun (x : Nat) => some ⟨x, 0⟩) (some (.debugId idA)) [.ok 0xB, .unreadable, .ok 0xA]
    = .ok 0xA := by decide
end
