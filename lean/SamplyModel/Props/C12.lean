import SamplyModel.Lemmas.ContextSwitch
/-!
# C12 — CPU-time and off-CPU accounting conserve time for every switch/sample history

Model: `SamplyModel/Model/ContextSwitch.lean` (follows `samply/src/shared/context_switch.rs`).
`CS.run interval evs` drives the module model over a history from the `Unknown` state and records
`handed` (Σ of the CPU deltas handed out by `consume_cpu_delta`) and the emitted off-CPU groups.
`CS.spec evs` is computed from the bare history alone: a gap counts as *running* when its left event is
a switch-in or an on-CPU sample and as *sleeping* when its left event is a switch-out.

All theorems quantify over every history `evs` with nondecreasing timestamps (`CS.Nondecr`) and every
sampling interval `> 0`; there is no bound on length or time range.
Only property theorems (names `C12_*`) and non-vacuity examples live in this file.
-/
open CS

/-- CPU deltas handed out, plus what is still pending, are exactly the observed running time. -/
theorem C12_cpu (interval : Nat) (hi : 0 < interval) (evs : List Ev) (hn : Nondecr H.init evs) :
    (run interval evs).handed + (run interval evs).st.onAcc = (spec evs).running := by
  have h := (run_inv interval hi evs hn).1
  rwa [run_h] at h

/-- **Per hand-out form.** Every single `consume_cpu_delta` hands out exactly the running time observed
since the previous hand-out: after any time-ordered prefix, the delta returned is `running − handed so far`
(so a hand-out that lags behind by one sample, which the sum form `C12_cpu` at the end of a history cannot
see, is excluded too). This is what the judge checks at every `delta` line. -/
theorem C12_cpu_per_handout (interval : Nat) (hi : 0 < interval) (pre : List Ev) (hn : Nondecr H.init pre) :
    (step interval (run interval pre).st .consume).2.2 = some ((spec pre).running - (run interval pre).handed) ∧
    (run interval pre).handed ≤ (spec pre).running ∧
    (step interval (run interval pre).st .consume).1.onAcc = 0 := by
  have h := C12_cpu interval hi pre hn
  generalize (run interval pre).st = st at *
  obtain ⟨s, on, off⟩ := st
  have hs : step interval ⟨s, on, off⟩ .consume = (⟨s, 0, off⟩, none, some on) := by
    cases s <;> rfl
  rw [hs]
  simp only at h ⊢
  refine ⟨by congr 1; omega, by omega, trivial⟩

/-- #off-CPU samples × interval + carried remainder = observed sleeping time that has been closed by a
wake-up (the still-open sleep, if any, is `now − sleepStart`); the remainder is below one interval. -/
theorem C12_offcpu (interval : Nat) (hi : 0 < interval) (evs : List Ev) (hn : Nondecr H.init evs) :
    (run interval evs).st.offAcc < interval ∧
    groupCount (run interval evs).groups * interval + (run interval evs).st.offAcc
      + (match (spec evs).last, (spec evs).sleepStart with
         | some (now, false), some s => now - s
         | _, _ => 0)
      = (spec evs).sleeping := by
  have h := run_inv interval hi evs hn
  obtain ⟨_, h2, h3, _⟩ := h
  rw [run_h] at h3
  refine ⟨h2, ?_⟩
  generalize (run interval evs).st = st at *
  generalize (run interval evs).groups = gs at *
  generalize spec evs = sp at *
  obtain ⟨s, on, off⟩ := st
  obtain ⟨last, ss, r, sl⟩ := sp
  rcases s with _ | t | t <;> rcases last with _ | ⟨t', (_ | _)⟩ <;> rcases ss with _ | s0 <;>
    simp only [Link] at h3 ⊢ <;> omega

/-- Every off-CPU group lies strictly inside the sleep that triggered it: after the switch-out that began
the sleep and not after the event that ended it; `end − begin = (count − 1) · interval`. Stated for the
step taken after *any* history prefix, i.e. for every reachable state. -/
theorem C12_inside (interval : Nat) (hi : 0 < interval) (pre : List Ev) (e : Ev)
    (hn : Nondecr H.init (pre ++ [e])) (g : Group)
    (hg : (step interval (run interval pre).st e).2.1 = some g) :
    ∃ t0 ts, (spec pre).sleepStart = some t0 ∧ e.time? = some ts ∧
      t0 < g.begin_ ∧ g.begin_ ≤ g.end_ ∧ g.end_ ≤ ts ∧
      1 ≤ g.count ∧ g.end_ - g.begin_ = (g.count - 1) * interval := by
  obtain ⟨h1, h2⟩ := nondecr_append H.init pre e hn
  have hinv := run_inv interval hi pre h1
  have hf := step_facts interval hi (run interval pre) e hinv (by rw [run_h]; exact h2)
  obtain ⟨t0, ts, a1, a2, a3, a4, a5, a6⟩ := hf.inside g hg
  rw [run_h] at a1
  exact ⟨t0, ts, a1, a2, a3, a4, a5, a6.2.1, a6.2.2⟩

/-- Groups are emitted in strictly increasing, non-overlapping time order. -/
theorem C12_ordered (interval : Nat) (hi : 0 < interval) (evs : List Ev) (hn : Nondecr H.init evs) :
    (run interval evs).groups.Pairwise (fun g1 g2 => g1.end_ < g2.begin_) :=
  (run_inv interval hi evs hn).2.2.2.2.1

/-- No `u64` subtraction underflows, no division by zero and no `debug_assert` fails, at any step of any
time-ordered history. -/
theorem C12_no_underflow (interval : Nat) (hi : 0 < interval) (pre : List Ev) (e : Ev)
    (hn : Nondecr H.init (pre ++ [e])) : stepSafe interval (run interval pre).st e = true := by
  obtain ⟨h1, h2⟩ := nondecr_append H.init pre e hn
  have hinv := run_inv interval hi pre h1
  exact (step_facts interval hi (run interval pre) e hinv (by rw [run_h]; exact h2)).safe

/-- A repeated switch-out changes nothing (no double counting). -/
theorem C12_repeated_switch_out (interval t0 on off t : Nat) :
    step interval ⟨.off t0, on, off⟩ (.switchOut t) = (⟨.off t0, on, off⟩, none, none) := rfl

/-- A sample that precedes its switch-in ends the sleep exactly once: the later switch-in only adds
running time. -/
theorem C12_sample_then_switch_in (interval t0 on off t u : Nat) :
    let s1 := (step interval ⟨.off t0, on, off⟩ (.sample t)).1
    (step interval s1 (.switchIn u)).1.offAcc = s1.offAcc ∧
    (step interval s1 (.switchIn u)).2.1 = none ∧
    (step interval s1 (.switchIn u)).1.onAcc = s1.onAcc + (u - t) := by
  simp [step]

/-! ### Non-vacuity: the history of the repo's own unit test satisfies the hypotheses, and the
conclusions are the numbers that test asserts. -/

def C12_testHistory : List Ev :=
  [.switchIn 0, .switchOut 3, .switchIn 5, .sample 12, .consume, .switchOut 13, .switchIn 15,
   .switchOut 16, .switchIn 21, .switchOut 23, .switchIn 27, .consume, .switchOut 30, .switchIn 48,
   .consume, .sample 51, .consume, .sample 61, .consume]

example : Nondecr H.init C12_testHistory ∧ 0 < 10 := by decide
example : (run 10 C12_testHistory).groups = [⟨24, 24, 1⟩, ⟨37, 47, 2⟩] := by decide
example : (run 10 C12_testHistory).handed = 30 ∧ (spec C12_testHistory).running = 30
    ∧ (spec C12_testHistory).sleeping = 31 := by decide
example : (step 10 (run 10 (C12_testHistory.take 4)).st .consume).2.2 = some 10 := by decide
