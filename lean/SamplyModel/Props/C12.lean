import SamplyModel.Lemmas.ContextSwitch
import SamplyModel.Lemmas.ConvCs
import SamplyModel.Lemmas.ConvCsRun
import SamplyModel.Lemmas.ConvCsViews
/-!
# C12 — CPU-time and off-CPU accounting conserve time for every switch/sample history

Model: `SamplyModel/Model/ContextSwitch.lean` (follows `samply/src/shared/context_switch.rs`).
`CS.run interval evs` drives the module model over a history from the `Unknown` state and records
`handed` (Σ of the CPU deltas handed out by `consume_cpu_delta`) and the emitted off-CPU groups.
`CS.spec evs` is computed from the bare history alone: a gap counts as *running* when its left event is
a switch-in or an on-CPU sample and as *sleeping* when its left event is a switch-out.

All theorems quantify over every history `evs` with nondecreasing timestamps (`CS.Nondecr`) and every
sampling interval `> 0`; there is no bound on length or time range.
Only property theorems (names `C12_*`) and non-vacuity examples live in this file.
-/
open CS

/-- CPU deltas handed out, plus what is still pending, are exactly the observed running time. -/
theorem C12_cpu (interval : Nat) (hi : 0 < interval) (evs : List Ev) (hn : Nondecr H.init evs) :
    (run interval evs).handed + (run interval evs).st.onAcc = (spec evs).running := by
  have h := (run_inv interval hi evs hn).1
  rwa [run_h] at h

/-- **Per hand-out form.** Every single `consume_cpu_delta` hands out exactly the running time observed
since the previous hand-out: after any time-ordered prefix, the delta returned is `running − handed so far`
(so a hand-out that lags behind by one sample, which the sum form `C12_cpu` at the end of a history cannot
see, is excluded too). This is what the judge checks at every `delta` line. -/
theorem C12_cpu_per_handout (interval : Nat) (hi : 0 < interval) (pre : List Ev) (hn : Nondecr H.init pre) :
    (step interval (run interval pre).st .consume).2.2 = some ((spec pre).running - (run interval pre).handed) ∧
    (run interval pre).handed ≤ (spec pre).running ∧
    (step interval (run interval pre).st .consume).1.onAcc = 0 := by
  have h := C12_cpu interval hi pre hn
  generalize (run interval pre).st = st at *
  obtain ⟨s, on, off⟩ := st
  have hs : step interval ⟨s, on, off⟩ .consume = (⟨s, 0, off⟩, none, some on) := by
    cases s <;> rfl
  rw [hs]
  simp only at h ⊢
  refine ⟨by congr 1; omega, by omega, trivial⟩

/-- #off-CPU samples × interval + carried remainder = observed sleeping time that has been closed by a
wake-up (the still-open sleep, if any, is `now − sleepStart`); the remainder is below one interval. -/
theorem C12_offcpu (interval : Nat) (hi : 0 < interval) (evs : List Ev) (hn : Nondecr H.init evs) :
    (run interval evs).st.offAcc < interval ∧
    groupCount (run interval evs).groups * interval + (run interval evs).st.offAcc
      + (match (spec evs).last, (spec evs).sleepStart with
         | some (now, false), some s => now - s
         | _, _ => 0)
      = (spec evs).sleeping := by
  have h := run_inv interval hi evs hn
  obtain ⟨_, h2, h3, _⟩ := h
  rw [run_h] at h3
  refine ⟨h2, ?_⟩
  generalize (run interval evs).st = st at *
  generalize (run interval evs).groups = gs at *
  generalize spec evs = sp at *
  obtain ⟨s, on, off⟩ := st
  obtain ⟨last, ss, r, sl⟩ := sp
  rcases s with _ | t | t <;> rcases last with _ | ⟨t', (_ | _)⟩ <;> rcases ss with _ | s0 <;>
    simp only [Link] at h3 ⊢ <;> omega

/-- Every off-CPU group lies strictly inside the sleep that triggered it: after the switch-out that began
the sleep and not after the event that ended it; `end − begin = (count − 1) · interval`. Stated for the
step taken after *any* history prefix, i.e. for every reachable state. -/
theorem C12_inside (interval : Nat) (hi : 0 < interval) (pre : List Ev) (e : Ev)
    (hn : Nondecr H.init (pre ++ [e])) (g : Group)
    (hg : (step interval (run interval pre).st e).2.1 = some g) :
    ∃ t0 ts, (spec pre).sleepStart = some t0 ∧ e.time? = some ts ∧
      t0 < g.begin_ ∧ g.begin_ ≤ g.end_ ∧ g.end_ ≤ ts ∧
      1 ≤ g.count ∧ g.end_ - g.begin_ = (g.count - 1) * interval := by
  obtain ⟨h1, h2⟩ := nondecr_append H.init pre e hn
  have hinv := run_inv interval hi pre h1
  have hf := step_facts interval hi (run interval pre) e hinv (by rw [run_h]; exact h2)
  obtain ⟨t0, ts, a1, a2, a3, a4, a5, a6⟩ := hf.inside g hg
  rw [run_h] at a1
  exact ⟨t0, ts, a1, a2, a3, a4, a5, a6.2.1, a6.2.2⟩

/-- Groups are emitted in strictly increasing, non-overlapping time order. -/
theorem C12_ordered (interval : Nat) (hi : 0 < interval) (evs : List Ev) (hn : Nondecr H.init evs) :
    (run interval evs).groups.Pairwise (fun g1 g2 => g1.end_ < g2.begin_) :=
  (run_inv interval hi evs hn).2.2.2.2.1

/-- No `u64` subtraction underflows, no division by zero and no `debug_assert` fails, at any step of any
time-ordered history. -/
theorem C12_no_underflow (interval : Nat) (hi : 0 < interval) (pre : List Ev) (e : Ev)
    (hn : Nondecr H.init (pre ++ [e])) : stepSafe interval (run interval pre).st e = true := by
  obtain ⟨h1, h2⟩ := nondecr_append H.init pre e hn
  have hinv := run_inv interval hi pre h1
  exact (step_facts interval hi (run interval pre) e hinv (by rw [run_h]; exact h2)).safe

/-- A repeated switch-out changes nothing (no double counting). -/
theorem C12_repeated_switch_out (interval t0 on off t : Nat) :
    step interval ⟨.off t0, on, off⟩ (.switchOut t) = (⟨.off t0, on, off⟩, none, none) := rfl

/-- A sample that precedes its switch-in ends the sleep exactly once: the later switch-in only adds
running time. -/
theorem C12_sample_then_switch_in (interval t0 on off t u : Nat) :
    let s1 := (step interval ⟨.off t0, on, off⟩ (.sample t)).1
    (step interval s1 (.switchIn u)).1.offAcc = s1.offAcc ∧
    (step interval s1 (.switchIn u)).2.1 = none ∧
    (step interval s1 (.switchIn u)).1.onAcc = s1.onAcc + (u - t) := by
  simp [step]

/-! ## Converter level (`linux_shared/converter.rs`: sample path :282-314, `handle_sched_switch_sample` :380-418,
`handle_context_switch` :838-872, `process_off_cpu_sample_group` :1811-1857)

Model: `Conv.wake`, `sampleThread`, `switchOutThread`, `schedThread`, `offCpuGroup` in `Model/Converter.lean`; `Conv.step`
looks the thread object up (`getByPid`, `getThread`) and applies exactly these functions to it
(`C12_conv_step_*`, by `rfl`). `Conv.threadRun s pid tid h rs` iterates them over the records `rs` of one thread
incarnation starting from a fresh `Thread`; `Conv.timed cfg rs` is the incarnation's bare history (accepted
samples, switch-ins, switch-outs; a `sched_switch` sample counts as switch-out only in `SchedSwitchAndSamples`
mode). The theorems below hold for every such list of records, any length, any interval > 0, in both modes
with an off-CPU indicator.

**The record-history form** (no theorem of this file is `_partial` any more): that in `Conv.run cfg rs` the thread
object bound to (pid, tid) between two records of the same incarnation is carried unchanged through the records of
other threads and through FORK / COMM / MMAP2 records is the binding invariant `Conv.thread_of_run`
(`Lemmas/ConvCsRun.lean`; the generalisation of `C01_dedup_refinement` from the field `lastTs` to
`context_switch_data` and `off_cpu_stack`, which live in the same `Thread` object and are reset by `Thread::new` at
the same places). It is stated below as `C12_conv_binding` and lifts the thread-level theorems to `C12_conv_cpu` /
`C12_conv_offcpu` (section "Converter level: `Conv.run cfg rs`"). The record-history form is also what the judge
`ConvJudge.judgeCs` evaluates on samply's output for every generated case. -/
open Conv

/-- `process_off_cpu_sample_group`: the samples made from a group of `count ≥ 1` units carry, together, weight
`count · off_cpu_weight_per_sample` (if `count − 1` fits an `i32`; otherwise the rest sample has weight 0, see
`C12_group_saturated`), the whole cpu delta (on the first sample; the rest sample has 0) and sit at the
converted begin (and, for `count > 1`, end) timestamps of the group. -/
theorem C12_group (s : Conv.St) (h : Nat) (g : Group) (c : Nat) (stk : List SFrame) (lbl : String) (pid tid : Nat)
    (hc : 1 ≤ g.count) (hsat : g.count - 1 < 2^31) :
    offWeight (offCpuGroup s h g c stk lbl pid tid) = g.count * s.cfg.offWeight ∧
    cpuSum (offCpuGroup s h g c stk lbl pid tid) = c ∧
    (offCpuGroup s h g c stk lbl pid tid).map (·.t) =
      (if g.count > 1 then [conv s g.begin_, conv s g.end_] else [conv s g.begin_]) ∧
    (offCpuGroup s h g c stk lbl pid tid).map (·.cpu) = (if g.count > 1 then [c, 0] else [c]) := by
  obtain ⟨a, b, d⟩ := offCpuGroup_sums s h g c stk lbl pid tid hc hsat
  refine ⟨a, b, d, ?_⟩
  unfold offCpuGroup
  split <;> rfl

/-- the excluded point of `C12_group`: a group of more than 2^31 units loses all but one unit of weight -/
theorem C12_group_saturated (s : Conv.St) (h : Nat) (g : Group) (c : Nat) (stk : List SFrame) (lbl : String)
    (pid tid : Nat) (hsat : 2^31 ≤ g.count - 1) :
    offWeight (offCpuGroup s h g c stk lbl pid tid) = s.cfg.offWeight := by
  have h1 : g.count > 1 := by omega
  have h2 : ¬ (g.count - 1 < 2^31) := by omega
  unfold offCpuGroup offWeight
  rw [if_pos h1]
  simp [i32OrZero, h2, List.filter_cons, USample.synth]

/-- `Conv.step` applies the thread-level functions to the thread object it looks up -/
theorem C12_conv_step_switchIn (s : Conv.St) (pid tid t : Nat) (h0 : tid ≠ 0) :
    Conv.step s (.switchIn pid tid t) =
      commitThread (getThread (getByPid s pid).1 (getByPid s pid).2 tid).1
        (getThread (getByPid s pid).1 (getByPid s pid).2 tid).2.1 tid
        (wake (getThread (getByPid s pid).1 (getByPid s pid).2 tid).1
          (getThread (getByPid s pid).1 (getByPid s pid).2 tid).2.2 (.switchIn t) pid tid) := by
  have e : Conv.step s (.switchIn pid tid t) = if tid = 0 then s else
      commitThread (getThread (getByPid s pid).1 (getByPid s pid).2 tid).1
        (getThread (getByPid s pid).1 (getByPid s pid).2 tid).2.1 tid
        (wake (getThread (getByPid s pid).1 (getByPid s pid).2 tid).1
          (getThread (getByPid s pid).1 (getByPid s pid).2 tid).2.2 (.switchIn t) pid tid) := rfl
  rw [e, if_neg h0]

theorem C12_conv_step_switchOut (s : Conv.St) (pid tid t : Nat) (h0 : tid ≠ 0) :
    Conv.step s (.switchOut pid tid t) =
      commitThread (getThread (getByPid s pid).1 (getByPid s pid).2 tid).1
        (getThread (getByPid s pid).1 (getByPid s pid).2 tid).2.1 tid
        (switchOutThread (getThread (getByPid s pid).1 (getByPid s pid).2 tid).1
          (getThread (getByPid s pid).1 (getByPid s pid).2 tid).2.2 t) := by
  have e : Conv.step s (.switchOut pid tid t) = if tid = 0 then s else
      commitThread (getThread (getByPid s pid).1 (getByPid s pid).2 tid).1
        (getThread (getByPid s pid).1 (getByPid s pid).2 tid).2.1 tid
        (switchOutThread (getThread (getByPid s pid).1 (getByPid s pid).2 tid).1
          (getThread (getByPid s pid).1 (getByPid s pid).2 tid).2.2 t) := rfl
  rw [e, if_neg h0]

/-- **CPU time, thread level.** For the records of one thread incarnation (time-ordered), in a mode with an
off-CPU indicator and an interval > 0: the cpu deltas attached to all samples emitted for the thread (on-CPU
samples and first samples of off-CPU groups; rest samples carry 0) plus what is still pending in the thread's
accumulator equal the running time of the incarnation's bare history — also when groups are dropped for lack
of a stored stack (the delta then stays pending and goes to the next sample) — and no checked arithmetic fails. -/
theorem C12_thread_cpu (s : Conv.St) (hi : 0 < s.cfg.interval) (hoc : s.cfg.offCpu.isSome = true) (pid tid h : Nat)
    (rs : List TRec) (ho : TOrdered s.cfg (none, H.init) rs) :
    cpuSum (threadRun s pid tid h rs).out + (threadRun s pid tid h rs).th.cs.onAcc
      = (spec (timed s.cfg rs)).running ∧ (threadRun s pid tid h rs).safe = true := by
  obtain ⟨_, hsafe, a, ainv, ast, ah, ahanded, _, _⟩ :=
    threadRun_inv s hi hoc pid tid rs _ (none, H.init) (tinv_init s hi h) ho
  refine ⟨?_, hsafe⟩
  have h1 := ainv.1
  rw [ahanded, ast, ah] at h1
  rw [← threadSpec_eq]
  exact h1

/-- **Off-CPU time, thread level**, with the dropped-group caveat as a proven characterisation: the units
(sample counts) of the groups that were turned into samples (`units`) plus the units of the groups dropped at a
wake-up without a stored off-CPU stack (`dropped`; `threadStep` adds to it exactly then) account, together with
the carried remainder (< interval) and the still open sleep, for the sleeping time of the incarnation's bare
history; and unless a group of more than 2^31 units occurred (`sat`, the `i32` saturation), the weights of the
emitted off-CPU samples add up to `units · off_cpu_weight_per_sample`. So sleeping time is lost from the profile
exactly through `dropped` (and through `sat`). -/
theorem C12_thread_offcpu (s : Conv.St) (hi : 0 < s.cfg.interval) (hoc : s.cfg.offCpu.isSome = true)
    (pid tid h : Nat) (rs : List TRec) (ho : TOrdered s.cfg (none, H.init) rs) :
    let r := threadRun s pid tid h rs
    r.th.cs.offAcc < s.cfg.interval ∧
    (r.units + r.dropped) * s.cfg.interval + r.th.cs.offAcc
      + (match (spec (timed s.cfg rs)).last, (spec (timed s.cfg rs)).sleepStart with
         | some (now, false), some s0 => now - s0
         | _, _ => 0)
      = (spec (timed s.cfg rs)).sleeping ∧
    (r.sat = false → offWeight r.out = r.units * s.cfg.offWeight) := by
  intro r
  have hinv := threadRun_inv s hi hoc pid tid rs _ (none, H.init) (tinv_init s hi h) ho
  have key := tinv_offcpu hinv
  rw [← threadSpec_eq]
  exact key

/-! ### Converter level: `Conv.run cfg rs`

The thread-level theorems above are about `threadRun` — the thread-level functions iterated over the records of
one thread incarnation. `Conv.thread_of_run` (`Lemmas/ConvCsRun.lean`, built on the observation lemmas of
`Lemmas/ConvObs.lean`) is the binding invariant that lifts them to whole conversions: along `Conv.run cfg rs` the
thread object bound to (pid, tid) is carried unchanged between the records of an incarnation — `lastTs`,
`context_switch_data` and `off_cpu_stack` are rewritten only by `commitThread` with the result of the thread-level
function on exactly that object (on-demand creation, renames, FORKs, MMAP2 records, `--reuse-threads` recycling and
the records of every other thread leave the triple alone), are reset to `Thread::new` defaults by the EXIT / EXEC
that ends the incarnation (its own, or its process's main thread's) — and the samples emitted for it are appended to
the buffer of its process, tagged with its tid.

Quantifier: every configuration and **every record history**. `curRecs cfg pid tid rs` are the records that reach
the thread object of (pid, tid) since the last EXIT / EXEC that ended an incarnation of it (`trecs` = all of them
when the history has no EXIT / EXEC: `C12_conv_no_cut`); the samples of the current incarnation are the *last*
samples buffered for (pid, tid) — an earlier incarnation of a non-main thread leaves its samples in front of them in
the same buffer, a main thread's EXIT / EXEC parks the whole buffer. Since the statement holds after every prefix of
a history, it covers every incarnation at the moment it ends. -/

/-- the samples `Conv.run cfg rs` holds for the current incarnation of thread (pid, tid), the thread's
context-switch data, and the thread run over the incarnation's own records -/
theorem C12_conv_binding (cfg : Config) (rs : List Conv.Rec) (pid tid : Nat) :
    (∃ old cur, threadBuf (Conv.run cfg rs) pid tid = old ++ cur ∧
      cur.map esamp = (threadRun (Conv.St.init cfg) pid tid 0 (curRecs cfg pid tid rs)).out.map esamp) ∧
    threadCs (Conv.run cfg rs) pid tid = (threadRun (Conv.St.init cfg) pid tid 0 (curRecs cfg pid tid rs)).th.cs ∧
    ((Conv.run cfg rs).bad = false →
      (threadRun (Conv.St.init cfg) pid tid 0 (curRecs cfg pid tid rs)).safe = true) := by
  have h := thread_of_run cfg rs pid tid
  refine ⟨?_, ?_, h.safe⟩
  · obtain ⟨olde, hold⟩ := h.buf
    obtain ⟨lo, lc, e1, e2⟩ := split_of_map_suffix esamp _ _ _ hold
    exact ⟨lo, lc, e1, e2⟩
  · unfold threadCs
    rw [h.tq]; rfl

/-- without EXIT / EXEC records the current incarnation is the thread's whole history -/
theorem C12_conv_no_cut (cfg : Config) (rs : List Conv.Rec) (hcut : ConvSpec.CsSpec.hasCut rs = false)
    (pid tid : Nat) : curRecs cfg pid tid rs = trecs cfg pid tid rs :=
  curRecs_nocut cfg pid tid rs hcut

/-- **CPU time, converter level.** For every configuration with an off-CPU indicator and an interval > 0, every
record history, and every thread (pid, tid) whose current incarnation's records are time-ordered: the cpu deltas of
the samples `Conv.run cfg rs` buffered for that incarnation (`cur`: the last samples buffered for the thread —
on-CPU samples and first samples of off-CPU groups; rest samples carry 0) plus what is still pending in the
thread's accumulator equal the running time of the incarnation's bare history. -/
theorem C12_conv_cpu (cfg : Config) (rs : List Conv.Rec) (hi : 0 < cfg.interval) (hoc : cfg.offCpu.isSome = true)
    (pid tid : Nat) (ho : TOrdered cfg (none, H.init) (curRecs cfg pid tid rs)) :
    ∃ old cur, threadBuf (Conv.run cfg rs) pid tid = old ++ cur ∧
      cpuSum cur + (threadCs (Conv.run cfg rs) pid tid).onAcc
        = (spec (timed cfg (curRecs cfg pid tid rs))).running := by
  obtain ⟨⟨old, cur, e1, b1⟩, b2, _⟩ := C12_conv_binding cfg rs pid tid
  have h := (C12_thread_cpu (Conv.St.init cfg) hi hoc pid tid 0 (curRecs cfg pid tid rs) ho).1
  refine ⟨old, cur, e1, ?_⟩
  rw [cpuSum_esamp b1, b2]
  exact h

/-- **Off-CPU time, converter level**, with the dropped-group caveat as a proven characterisation (`units` /
`dropped` / `sat` are the ghost counters of the thread run over the incarnation's records: a group's units go to
`dropped` exactly when no off-CPU stack was stored at the wake-up, `sat` is set exactly when a group stood for more
than 2^31 samples): accounted units, the carried remainder (< interval) and the still open sleep add up to the
sleeping time of the incarnation's bare history, and unless `sat` the weights of the off-CPU samples buffered for
the incarnation by `Conv.run cfg rs` add up to `units · off_cpu_weight_per_sample`. -/
theorem C12_conv_offcpu (cfg : Config) (rs : List Conv.Rec) (hi : 0 < cfg.interval)
    (hoc : cfg.offCpu.isSome = true) (pid tid : Nat)
    (ho : TOrdered cfg (none, H.init) (curRecs cfg pid tid rs)) :
    let r := threadRun (Conv.St.init cfg) pid tid 0 (curRecs cfg pid tid rs)
    (threadCs (Conv.run cfg rs) pid tid).offAcc < cfg.interval ∧
    (r.units + r.dropped) * cfg.interval + (threadCs (Conv.run cfg rs) pid tid).offAcc
      + (match (spec (timed cfg (curRecs cfg pid tid rs))).last, (spec (timed cfg (curRecs cfg pid tid rs))).sleepStart with
         | some (now, false), some s0 => now - s0
         | _, _ => 0)
      = (spec (timed cfg (curRecs cfg pid tid rs))).sleeping ∧
    (r.sat = false → ∃ old cur, threadBuf (Conv.run cfg rs) pid tid = old ++ cur ∧
      offWeight cur = r.units * cfg.offWeight) := by
  intro r
  obtain ⟨⟨old, cur, e1, b1⟩, b2, _⟩ := C12_conv_binding cfg rs pid tid
  obtain ⟨h1, h2, h3⟩ := C12_thread_offcpu (Conv.St.init cfg) hi hoc pid tid 0 (curRecs cfg pid tid rs) ho
  rw [b2]
  refine ⟨h1, h2, fun hs => ⟨old, cur, e1, ?_⟩⟩
  rw [offWeight_esamp b1]
  exact h3 hs

/-! ### After the flush: the thread entries of `views (run cfg rs)`

`C12_conv_cpu` / `C12_conv_offcpu` speak about the sample buffers of `Conv.run`. The flush keeps entry, cpu delta,
weight and kind of every buffered item (`Conv.flushBuffer_cpu`; time / weight / kind: `C14_flush_keeps_kind`) and
`views` groups the flushed samples by thread entry, so the same equations hold of the output — stated here for the
simplest honest quantifier: default options and histories without EXIT / EXEC records (one incarnation per
(pid, tid); nothing is parked, every item sits in the buffer of the pid it was recorded for), i.e. the histories on
which `judgeCs` evaluates its per-thread clauses (2) and (3). `viewItems s` lists the samples of the output (marker
stacks excluded) with the pid / tid their thread entry carries; the sums range over the samples of the thread
entries carrying (pid, tid). -/

/-- **CPU time on the output** (clause (2) of `judgeCs`): the cpu deltas of the output samples of the thread entries
carrying (pid, tid), plus what is still pending in the thread's accumulator, equal the running time of the thread's
bare history. -/
theorem C12_conv_views_cpu (cfg : Config) (rs : List Conv.Rec) (hr : cfg.reuse = false)
    (hcut : ConvSpec.CsSpec.hasCut rs = false) (hi : 0 < cfg.interval) (hoc : cfg.offCpu.isSome = true)
    (pid tid : Nat) (ho : TOrdered cfg (none, H.init) (trecs cfg pid tid rs)) :
    (((viewItems (Conv.run cfg rs)).filter (fun x => x.1 == pid && x.2.1 == tid)).map (fun x => x.2.2.cpu)).sum
        + (threadCs (Conv.run cfg rs) pid tid).onAcc
      = (spec (timed cfg (trecs cfg pid tid rs))).running := by
  have hw := thread_of_run_nocut cfg rs hcut pid tid
  have hp := views_thread_perm cfg rs hr hcut pid tid
  have h := (C12_thread_cpu (Conv.St.init cfg) hi hoc pid tid 0 (trecs cfg pid tid rs) ho).1
  have e1 : (((viewItems (Conv.run cfg rs)).filter (fun x => x.1 == pid && x.2.1 == tid)).map (fun x => x.2.2.cpu)).sum
      = cpuSum (threadBuf (Conv.run cfg rs) pid tid) := by
    have := sum_map_fst_of_perm hp
    rw [List.map_map, List.map_map] at this
    exact this
  have e2 : threadCs (Conv.run cfg rs) pid tid =
      (threadRun (Conv.St.init cfg) pid tid 0 (trecs cfg pid tid rs)).th.cs := by
    unfold threadCs; rw [hw.tq]; rfl
  rw [e1, cpuSum_esamp hw.buf, e2]
  exact h

/-- **Off-CPU weights on the output** (clause (3) of `judgeCs`): unless a group of more than 2^31 units occurred
(`sat`), the weights of the synthesized off-CPU samples of the thread entries carrying (pid, tid) add up to
`units · off_cpu_weight_per_sample`, where `units` counts the units of the groups that were turned into samples
(those of dropped groups are in `dropped`: `C12_conv_offcpu` accounts `units + dropped` against the sleeping time). -/
theorem C12_conv_views_offcpu (cfg : Config) (rs : List Conv.Rec) (hr : cfg.reuse = false)
    (hcut : ConvSpec.CsSpec.hasCut rs = false) (hi : 0 < cfg.interval) (hoc : cfg.offCpu.isSome = true)
    (pid tid : Nat) (ho : TOrdered cfg (none, H.init) (trecs cfg pid tid rs))
    (hsat : (threadRun (Conv.St.init cfg) pid tid 0 (trecs cfg pid tid rs)).sat = false) :
    ((((viewItems (Conv.run cfg rs)).filter (fun x => x.1 == pid && x.2.1 == tid)).filter
        (fun x => x.2.2.synth)).map (fun x => x.2.2.weight)).sum
      = (threadRun (Conv.St.init cfg) pid tid 0 (trecs cfg pid tid rs)).units * cfg.offWeight := by
  have hw := thread_of_run_nocut cfg rs hcut pid tid
  have hp := views_thread_perm cfg rs hr hcut pid tid
  have h := (C12_thread_offcpu (Conv.St.init cfg) hi hoc pid tid 0 (trecs cfg pid tid rs) ho).2.2 hsat
  have hp2 := ((hp.filter (fun x => x.2.2 != Conv.ItemKind.recorded)).map (fun x => x.2.1)).sum_nat
  rw [List.filter_map, List.map_map, List.filter_map, List.map_map] at hp2
  have e1 : ((((viewItems (Conv.run cfg rs)).filter (fun x => x.1 == pid && x.2.1 == tid)).filter
        (fun x => x.2.2.synth)).map (fun x => x.2.2.weight)).sum
      = offWeight (threadBuf (Conv.run cfg rs) pid tid) := hp2
  rw [e1, offWeight_esamp hw.buf]
  exact h

/-! ### Non-vacuity: the history of the repo's own unit test satisfies the hypotheses, and the
conclusions are the numbers that test asserts. -/

def C12_testHistory : List Ev :=
  [.switchIn 0, .switchOut 3, .switchIn 5, .sample 12, .consume, .switchOut 13, .switchIn 15,
   .switchOut 16, .switchIn 21, .switchOut 23, .switchIn 27, .consume, .switchOut 30, .switchIn 48,
   .consume, .sample 51, .consume, .sample 61, .consume]

example : Nondecr H.init C12_testHistory ∧ 0 < 10 := by decide
example : (run 10 C12_testHistory).groups = [⟨24, 24, 1⟩, ⟨37, 47, 2⟩] := by decide
example : (run 10 C12_testHistory).handed = 30 ∧ (spec C12_testHistory).running = 30
    ∧ (spec C12_testHistory).sleeping = 31 := by decide
example : (step 10 (run 10 (C12_testHistory.take 4)).st .consume).2.2 = some 10 := by decide

/-- the same history at converter level (every switch-out announced by a `sched_switch` sample): the hypotheses
of `C12_thread_*` / `C12_conv_*` hold and the emitted samples are the ones the repo's test expects
(time, weight, cpu delta, synthesized) -/
def C12_convHistory : List TRec :=
  [.switchIn 0, .sched 3 [], .switchOut 3, .switchIn 5, .sample 12 0 [], .sched 13 [], .switchOut 13, .switchIn 15,
   .sched 16 [], .switchOut 16, .switchIn 21, .sched 23 [], .switchOut 23, .switchIn 27, .sched 30 [],
   .switchOut 30, .switchIn 48, .sample 51 0 [], .sample 61 0 []]

def C12_convSt : Conv.St := Conv.St.init { offCpu := some .contextSwitches, interval := 10 }

example : TOrdered C12_convSt.cfg (none, H.init) C12_convHistory := by decide
example : ((threadRun C12_convSt 1 2 0 C12_convHistory).out.map (fun u => (u.t, u.weight, u.cpu, u.synth))) =
    [(12, 1, 10, false), (24, 1, 4, true), (37, 1, 3, true), (47, 1, 0, true), (51, 1, 3, false), (61, 1, 10, false)] := by
  decide


/-- the same history as records of a conversion (pid 1, tid 2; another thread's records in between): the hypotheses of
`C12_conv_cpu` / `C12_conv_offcpu` hold, and the buffer of the run holds the expected samples -/
def C12_runHistory : List Conv.Rec :=
  [.switchIn 1 2 0, .sched 1 2 3 false 0 [], .switchOut 1 2 3, .sample 1 3 4 false 0 0 [], .switchIn 1 2 5,
   .sample 1 2 12 false 0 0 [], .sched 1 2 13 false 0 [], .switchOut 1 2 13, .switchIn 1 2 15]

def C12_runCfg : Conv.Config := { offCpu := some .contextSwitches, interval := 10 }

example : ConvSpec.CsSpec.hasCut C12_runHistory = false ∧
    TOrdered C12_runCfg (none, H.init) (curRecs C12_runCfg 1 2 C12_runHistory) := by decide
/-- with an EXIT of the thread in between, the current incarnation starts after it (and its hypothesis holds) -/
example : curRecs C12_runCfg 1 2 (C12_runHistory ++ [.exit 1 2 20, .switchIn 1 2 30, .sample 1 2 35 false 0 0 []]) =
      [.switchIn 30, .sample 35 0 [Conv.SFrame.ip 0 false]] ∧
    (threadBuf (Conv.run C12_runCfg (C12_runHistory ++ [.exit 1 2 20, .switchIn 1 2 30, .sample 1 2 35 false 0 0 []])) 1 2).map
      (fun u => (u.t, u.cpu)) = [(12, 10), (35, 5)] := by decide
example : (threadBuf (Conv.run C12_runCfg C12_runHistory) 1 2).map (fun u => (u.t, u.cpu, u.synth)) = [(12, 10, false)] ∧
    (threadCs (Conv.run C12_runCfg C12_runHistory) 1 2).onAcc = 1 ∧
    (spec (timed C12_runCfg (trecs C12_runCfg 1 2 C12_runHistory))).running = 11 := by decide

/-- non-vacuity of `C12_conv_views_cpu` / `C12_conv_views_offcpu`: the hypotheses hold for this history and thread
(1, 2), and the output side is the sample of thread entry 1 / 2 with cpu delta 10 (1 ns still pending) -/
example : C12_runCfg.reuse = false ∧ ConvSpec.CsSpec.hasCut C12_runHistory = false ∧
    TOrdered C12_runCfg (none, H.init) (trecs C12_runCfg 1 2 C12_runHistory) ∧
    (threadRun (Conv.St.init C12_runCfg) 1 2 0 (trecs C12_runCfg 1 2 C12_runHistory)).sat = false ∧
    ((viewItems (Conv.run C12_runCfg C12_runHistory)).filter (fun x => x.1 == 1 && x.2.1 == 2)).map
      (fun x => (x.2.2.cpu, x.2.2.weight, x.2.2.synth)) = [(10, 1, false)] := by decide
