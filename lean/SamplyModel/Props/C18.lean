import SamplyModel.Lemmas.Server
/-!
# C18 — the local server exposes profile and symbol API only under the secret path

Model: `SamplyModel/Model/Server.lean` (`service` follows `symbolication_service`, server.rs:242-363;
`encode` follows `nix_base32::to_nix_base32`, the encoder of `generate_token`, server.rs:117-121).

The service theorems quantify over **every** configuration (any prefix string, with / without a
profile, gz or not, file openable or not) and **every** request (any method, any path string, any
combination of `Access-Control-Request-*` headers, any body). The path is the raw string hyper hands
to the service function; the comparison is `str::strip_prefix`, i.e. `List.IsPrefix` on the characters
(`Server.stripPrefix_isSome_iff`): no percent-decoding, no case folding, no dot-segment removal, so a
path that is not literally prefixed by `"/" ++ token` is outside, whatever it decodes to.

The token theorems quantify over every 24-byte RNG output (more generally every non-empty byte string).
**Not provable here**: that the OS RNG behind `rand::rng()` returns fresh, unpredictable bytes per run;
that part of the statement is checked at run time only (several server starts: distinct tokens, length
39, alphabet) and is labelled partial in checks/C18.json.

Only property theorems (names `C18_*`) and non-vacuity examples live in this file.
-/
open Server

/-- A request whose path does not begin with the secret prefix never panics, gets a response without
any `Access-Control-*` header, and that response is the landing page or a 404 — the landing page exactly
for `GET /`; in particular it is never profile bytes nor an API answer. -/
theorem C18_no_prefix (cfg : Cfg) (req : Req) (h : ¬ cfg.pfx <+: req.path) :
    ∃ r, service cfg req = .resp r ∧ r.anyCors = false ∧ r.kind.isData = false ∧
      (r.kind = .landing cfg.profile.isSome ∨ r.kind = .notFound) ∧
      (r.kind = .landing cfg.profile.isSome ↔ req.method = .get ∧ req.path = ['/']) ∧
      (r.kind = .notFound → r.status = 404) := by
  have hs := (stripPrefix_eq_none_iff cfg.pfx req.path).mpr h
  unfold service
  rw [hs]
  by_cases hc : req.method = .get ∧ req.path = ['/']
  · simp [hc, Resp.base, Resp.anyCors, Kind.isData]
  · simp only [hc, if_false]
    refine ⟨_, rfl, ?_⟩
    simp [Resp.base, Resp.anyCors, Kind.isData]

/-- Profile bytes and API answers are produced only for paths that begin with the secret prefix, and
then exactly for `GET <prefix>/profile.json` resp. `POST <prefix><api path>` with the API seeing only
the part after the prefix. -/
theorem C18_only_under_prefix (cfg : Cfg) (req : Req) (r : Resp)
    (h : service cfg req = .resp r) (hd : r.kind.isData = true) :
    cfg.pfx <+: req.path ∧
    (∀ gz, r.kind = .profile gz → req.method = .get ∧ req.path = cfg.pfx ++ profileJson ∧
        ∃ pf, cfg.profile = some pf ∧ pf.gz = gz) ∧
    (∀ p, r.kind = .api p → req.method = .post ∧ req.path = cfg.pfx ++ p) := by
  by_cases hp : cfg.pfx <+: req.path
  · refine ⟨hp, ?_⟩
    obtain ⟨rest, hrest⟩ := hp
    have hs := (stripPrefix_eq_some_iff cfg.pfx req.path rest).mpr hrest.symm
    unfold service at h
    rw [hs] at h
    cases hm : req.method <;> rw [hm] at h <;> simp only at h
    all_goals (try (split at h))
    all_goals (try (split at h))
    all_goals (try (split at h))
    all_goals (first
      | (cases h; done)
      | (injection h with h; subst h; simp_all [Resp.base, Kind.isData, profileJson]))
  · obtain ⟨r', hr', _, hnd, _⟩ := C18_no_prefix cfg req hp
    rw [hr'] at h
    injection h with h
    subst h
    rw [hnd] at hd
    exact absurd hd (by decide)

/-- Any `Access-Control-*` header in a response implies that the path begins with the secret prefix. -/
theorem C18_cors_only_under_prefix (cfg : Cfg) (req : Req) (r : Resp)
    (h : service cfg req = .resp r) (hc : r.anyCors = true) : cfg.pfx <+: req.path := by
  by_cases hp : cfg.pfx <+: req.path
  · exact hp
  · obtain ⟨r', hr', hnc, _⟩ := C18_no_prefix cfg req hp
    rw [hr'] at h
    injection h with h
    subst h
    rw [hnc] at hc
    exact absurd hc (by decide)

/-- The service function can only panic (drop the connection) under the secret prefix. -/
theorem C18_panic_only_under_prefix (cfg : Cfg) (req : Req) (h : service cfg req = .panic) :
    cfg.pfx <+: req.path := by
  by_cases hp : cfg.pfx <+: req.path
  · exact hp
  · obtain ⟨r', hr', _⟩ := C18_no_prefix cfg req hp
    rw [hr'] at h
    exact absurd h (by simp)

/-- Conversely the prefix really opens the API: under the prefix every response carries
`Access-Control-Allow-Origin: *` (so the three theorems above are not vacuous about CORS). -/
theorem C18_cors_under_prefix (cfg : Cfg) (req : Req) (r : Resp) (hp : cfg.pfx <+: req.path)
    (h : service cfg req = .resp r) : r.allowOrigin = true := by
  obtain ⟨rest, hrest⟩ := hp
  have hs := (stripPrefix_eq_some_iff cfg.pfx req.path rest).mpr hrest.symm
  unfold service at h
  rw [hs] at h
  cases hm : req.method <;> rw [hm] at h <;> simp only at h
  all_goals (try (split at h))
  all_goals (try (split at h))
  all_goals (try (split at h))
  all_goals (first
    | (cases h; done)
    | (injection h with h; subst h; simp))

/-- `to_nix_base32` panics exactly on the empty slice; `generate_token` passes 24 bytes. -/
theorem C18_token_no_panic (bs : List UInt8) : encode bs = none ↔ bs = [] := by
  constructor
  · intro h
    cases bs with
    | nil => rfl
    | cons b bs =>
      rw [encode_eq (b :: bs) (by simp)] at h
      exact absurd h (by simp)
  · rintro rfl; rfl

/-- The token of 24 RNG bytes has 39 characters, all from the 32-character alphabet
`0-9 a-z` without `e o u t`; hence the path prefix `"/" ++ token` has 40 characters, and none of the
token's characters is `/ ? # %` or upper-case. -/
theorem C18_token_length (bs : List UInt8) (h24 : bs.length = 24) :
    ∃ tok, encode bs = some tok ∧ tok.length = 39 ∧ (∀ c ∈ tok, c ∈ alphabet) ∧
      alphabet.length = 32 ∧ alphabet.Nodup ∧
      (∀ c ∈ tok, c ≠ '/' ∧ c ≠ '?' ∧ c ≠ '#' ∧ c ≠ '%' ∧ ¬ c.isUpper) ∧
      pathPrefix bs = some ('/' :: tok) := by
  have hlen : 0 < bs.length := by omega
  have he := encode_eq bs hlen
  refine ⟨_, he, ?_, encode_mem_alphabet bs hlen _ he, alphabet_length, alphabet_nodup, ?_, ?_⟩
  · rw [encode_length bs hlen _ he, h24]; rfl
  · intro c hc
    have hmem := encode_mem_alphabet bs hlen _ he c hc
    revert hmem
    generalize c = c
    revert c
    decide
  · simp [pathPrefix, he]

/-- The encoder is injective on inputs of equal length — in particular on the 24-byte RNG outputs: two
runs have the same token (the same secret path) only if the RNG returned the same 192 bits, so guessing
the path is exactly as hard as guessing the RNG output. -/
theorem C18_token_injective (a b : List UInt8) (ha : a.length = 24) (hb : b.length = 24)
    (h : pathPrefix a = pathPrefix b) : a = b := by
  have hlen : 0 < a.length := by omega
  apply encode_injective_same_length a b hlen (by omega)
  unfold pathPrefix at h
  rw [encode_eq a hlen, encode_eq b (by omega)] at h ⊢
  simpa using h

/-- General form: injective on every pair of non-empty inputs of equal length. -/
theorem C18_encode_injective (a b : List UInt8) (hne : a ≠ []) (hab : a.length = b.length)
    (h : encode a = encode b) : a = b :=
  encode_injective_same_length a b (List.length_pos_iff.mpr hne) hab h

/-- Functional description of the encoder (the specification the judge applies to the real crate's
output): the token is the fixed-width base-32 numeral, most significant digit first, of the little-endian
number the bytes denote; `⌈8·len / 5⌉` digits. Nothing of the input is lost: all 192 RNG bits of a 24-byte
input are in the 39 characters. -/
theorem C18_token_numeral (bs : List UInt8) (hne : bs ≠ []) (s : List Char) (h : encode bs = some s) :
    numeralValue s = some (leValue bs) ∧ s.length = (bs.length * 8 + 4) / 5 ∧
      leValue bs < 2 ^ (8 * bs.length) := by
  have hlen : 0 < bs.length := List.length_pos_iff.mpr hne
  refine ⟨numeralValue_encode bs hlen s h, ?_, leValue_lt bs⟩
  rw [encode_length bs hlen s h]
  unfold ndigits
  omega

/-- From the wire to the path (origin-form request-targets `"/…"`, the form browsers send): the path the
service function sees is a prefix of the request-target (everything before the first `?` / `#`), so a
request is treated as being under the secret prefix only if the request-target itself literally begins
with it — a token in the query string or fragment does not count. -/
theorem C18_origin_form_literal (rest pfx p : List Char) (hp : pathOfTarget ('/' :: rest) = some p)
    (h : pfx <+: p) : pfx <+: '/' :: rest := by
  have : p = ('/' :: rest).takeWhile (! isPathEnd ·) := by
    simp only [pathOfTarget] at hp
    exact (Option.some.inj hp).symm
  rw [this] at h
  exact List.IsPrefix.trans h (List.takeWhile_prefix _)

/-! ### Non-vacuity and boundary examples -/

/-- the model's own token for the bytes 0,1,…,23 -/
def C18_demoBytes : List UInt8 := (List.range 24).map UInt8.ofNat

def C18_demoCfg : Cfg := { pfx := "/tok3n".toList, profile := some ⟨false, true⟩ }

private def rq (m : Method) (p : String) : Req :=
  { method := m, path := p.toList, hasACRM := true, acrh := some "x".toList, bodyUtf8 := true }

-- the hypotheses of the theorems are satisfiable by non-trivial inputs
example : C18_demoBytes.length = 24 := by decide
example : (encode C18_demoBytes).map List.length = some 39 := by decide
example : ¬ C18_demoCfg.pfx <+: (rq .get "/TOK3N/profile.json").path := by decide
example : C18_demoCfg.pfx <+: (rq .get "/tok3n/profile.json").path := by decide
-- served under the prefix
example : service C18_demoCfg (rq .get "/tok3n/profile.json") =
    .resp { Resp.base (.profile false) with allowOrigin := true, contentType := some .jsonUtf8 } := by
  decide
example : service C18_demoCfg (rq .post "/tok3n/symbolicate/v5") =
    .resp { Resp.base (.api "/symbolicate/v5".toList) with allowOrigin := true, contentType := some .json } := by
  decide
-- upper-case, percent-encoded, dot-segment, doubled-slash, contained-but-not-leading, proper-prefix
-- and token-less variants are all outside: 404 without CORS, also for a CORS preflight
example : ∀ p ∈ ["/TOK3N/profile.json", "/tok%33n/profile.json", "/x/../tok3n/profile.json",
      "//tok3n/profile.json", "/a/tok3n/profile.json", "/tok3", "/profile.json", "", "*", "/."],
    ∀ m ∈ [Method.get, .post, .options, .head, .put],
      service C18_demoCfg (rq m p) = .resp { Resp.base .notFound with status := 404 } := by decide
-- the crate's own published test vector (nix-base32 0.2.0 lib.rs:70, NAR hash of nix-2.8.1)
example : encode [0x47,0xb2,0xd8,0xf2,0x60,0xc2,0xd4,0x81,0x16,0x04,0x4b,0xc4,0x3f,0xe3,0xde,0x0f]
    = some "0gvvikzi2b0hb83m62c3rdicj7".toList := by decide
example : encode [0x1f,0x74,0xd7,0x47,0x29,0xab,0xdc,0x08,0xf4,0xf8,0x4e,0x8f,0x7f,0x8c,0x80,0x8c,
      0x8e,0xd9,0x2e,0xe5] = some "wlpdk3lch267z3sfz3s0ip5b553xfx0z".toList := by decide
