import SamplyModel.Lemmas.Server
/-!
# C18 — the local server exposes profile and symbol API only under the secret path

Model: `SamplyModel/Model/Server.lean` (`service` follows `symbolication_service`, server.rs:242-363;
`encode` follows `nix_base32::to_nix_base32`, the encoder of `generate_token`, server.rs:117-121).

The service theorems quantify over **every** configuration (any prefix string, with / without a
profile, gz or not, file openable or not) and **every** request (any method, any path string, any
combination of `Access-Control-Request-*` headers, any body). The path is the raw string hyper hands
to the service function; the comparison is `str::strip_prefix`, i.e. `List.IsPrefix` on the characters
(`Server.stripPrefix_isSome_iff`): no percent-decoding, no case folding, no dot-segment removal, so a
path that is not literally prefixed by `"/" ++ token` is outside, whatever it decodes to.

The token theorems quantify over every 24-byte RNG output (more generally every non-empty byte string).
**Not provable here**: that the OS RNG behind `rand::rng()` returns fresh, unpredictable bytes per run;
that part of the statement is checked at run time only (several server starts: distinct tokens, length
39, alphabet) and is labelled partial in checks/C18.json.

Improvement round: the header map is a component of the request (`C18_outside_ignores_headers`,
`C18_headers_only_acr`, `C18_other_header_irrelevant`, `C18_headers_only_preflight`), the wire level
(`C18_wire`, `C18_wire_outside`: method token, request-target of any form read by the transcription of
`http::Uri::from_shared`, HTTP version), the end-to-end statement from the RNG bytes to the response
(`C18_end_to_end`), and histories over any number of connections (`C18_history_stateless`, `C18_history`).

Only property theorems (names `C18_*`) and non-vacuity examples live in this file.
-/
open Server

/-- A request whose path does not begin with the secret prefix never panics, gets a response without
any `Access-Control-*` header, and that response is the landing page or a 404 — the landing page exactly
for `GET /`; in particular it is never profile bytes nor an API answer. -/
theorem C18_no_prefix (cfg : Cfg) (req : Req) (h : ¬ cfg.pfx <+: req.path) :
    ∃ r, service cfg req = .resp r ∧ r.anyCors = false ∧ r.kind.isData = false ∧
      (r.kind = .landing cfg.profile.isSome ∨ r.kind = .notFound) ∧
      (r.kind = .landing cfg.profile.isSome ↔ req.method = .get ∧ req.path = ['/']) ∧
      (r.kind = .notFound → r.status = 404) := by
  have hs := (stripPrefix_eq_none_iff cfg.pfx req.path).mpr h
  unfold service
  rw [hs]
  by_cases hc : req.method = .get ∧ req.path = ['/']
  · simp [hc, Resp.base, Resp.anyCors, Kind.isData]
  · simp only [hc, if_false]
    refine ⟨_, rfl, ?_⟩
    simp [Resp.base, Resp.anyCors, Kind.isData]

/-- Profile bytes and API answers are produced only for paths that begin with the secret prefix, and
then exactly for `GET <prefix>/profile.json` resp. `POST <prefix><api path>` with the API seeing only
the part after the prefix. -/
theorem C18_only_under_prefix (cfg : Cfg) (req : Req) (r : Resp)
    (h : service cfg req = .resp r) (hd : r.kind.isData = true) :
    cfg.pfx <+: req.path ∧
    (∀ gz, r.kind = .profile gz → req.method = .get ∧ req.path = cfg.pfx ++ profileJson ∧
        ∃ pf, cfg.profile = some pf ∧ pf.gz = gz) ∧
    (∀ p, r.kind = .api p → req.method = .post ∧ req.path = cfg.pfx ++ p) := by
  by_cases hp : cfg.pfx <+: req.path
  · refine ⟨hp, ?_⟩
    obtain ⟨rest, hrest⟩ := hp
    have hs := (stripPrefix_eq_some_iff cfg.pfx req.path rest).mpr hrest.symm
    unfold service at h
    rw [hs] at h
    cases hm : req.method <;> rw [hm] at h <;> simp only at h
    all_goals (try (split at h))
    all_goals (try (split at h))
    all_goals (try (split at h))
    all_goals (first
      | (cases h; done)
      | (injection h with h; subst h; simp_all [Resp.base, Kind.isData, profileJson]))
  · obtain ⟨r', hr', _, hnd, _⟩ := C18_no_prefix cfg req hp
    rw [hr'] at h
    injection h with h
    subst h
    rw [hnd] at hd
    exact absurd hd (by decide)

/-- Any `Access-Control-*` header in a response implies that the path begins with the secret prefix. -/
theorem C18_cors_only_under_prefix (cfg : Cfg) (req : Req) (r : Resp)
    (h : service cfg req = .resp r) (hc : r.anyCors = true) : cfg.pfx <+: req.path := by
  by_cases hp : cfg.pfx <+: req.path
  · exact hp
  · obtain ⟨r', hr', hnc, _⟩ := C18_no_prefix cfg req hp
    rw [hr'] at h
    injection h with h
    subst h
    rw [hnc] at hc
    exact absurd hc (by decide)

/-- The service function can only panic (drop the connection) under the secret prefix. -/
theorem C18_panic_only_under_prefix (cfg : Cfg) (req : Req) (h : service cfg req = .panic) :
    cfg.pfx <+: req.path := by
  by_cases hp : cfg.pfx <+: req.path
  · exact hp
  · obtain ⟨r', hr', _⟩ := C18_no_prefix cfg req hp
    rw [hr'] at h
    exact absurd h (by simp)

/-- Conversely the prefix really opens the API: under the prefix every response carries
`Access-Control-Allow-Origin: *` (so the three theorems above are not vacuous about CORS). -/
theorem C18_cors_under_prefix (cfg : Cfg) (req : Req) (r : Resp) (hp : cfg.pfx <+: req.path)
    (h : service cfg req = .resp r) : r.allowOrigin = true := by
  obtain ⟨rest, hrest⟩ := hp
  have hs := (stripPrefix_eq_some_iff cfg.pfx req.path rest).mpr hrest.symm
  unfold service at h
  rw [hs] at h
  cases hm : req.method <;> rw [hm] at h <;> simp only at h
  all_goals (try (split at h))
  all_goals (try (split at h))
  all_goals (try (split at h))
  all_goals (first
    | (cases h; done)
    | (injection h with h; subst h; simp))

/-- `to_nix_base32` panics exactly on the empty slice; `generate_token` passes 24 bytes. -/
theorem C18_token_no_panic (bs : List UInt8) : encode bs = none ↔ bs = [] := by
  constructor
  · intro h
    cases bs with
    | nil => rfl
    | cons b bs =>
      rw [encode_eq (b :: bs) (by simp)] at h
      exact absurd h (by simp)
  · rintro rfl; rfl

/-- The token of 24 RNG bytes has 39 characters, all from the 32-character alphabet
`0-9 a-z` without `e o u t`; hence the path prefix `"/" ++ token` has 40 characters, and none of the
token's characters is `/ ? # %` or upper-case. -/
theorem C18_token_length (bs : List UInt8) (h24 : bs.length = 24) :
    ∃ tok, encode bs = some tok ∧ tok.length = 39 ∧ (∀ c ∈ tok, c ∈ alphabet) ∧
      alphabet.length = 32 ∧ alphabet.Nodup ∧
      (∀ c ∈ tok, c ≠ '/' ∧ c ≠ '?' ∧ c ≠ '#' ∧ c ≠ '%' ∧ ¬ c.isUpper) ∧
      pathPrefix bs = some ('/' :: tok) := by
  have hlen : 0 < bs.length := by omega
  have he := encode_eq bs hlen
  refine ⟨_, he, ?_, encode_mem_alphabet bs hlen _ he, alphabet_length, alphabet_nodup, ?_, ?_⟩
  · rw [encode_length bs hlen _ he, h24]; rfl
  · intro c hc
    have hmem := encode_mem_alphabet bs hlen _ he c hc
    revert hmem
    generalize c = c
    revert c
    decide
  · simp [pathPrefix, he]

/-- The encoder is injective on inputs of equal length — in particular on the 24-byte RNG outputs: two
runs have the same token (the same secret path) only if the RNG returned the same 192 bits, so guessing
the path is exactly as hard as guessing the RNG output. -/
theorem C18_token_injective (a b : List UInt8) (ha : a.length = 24) (hb : b.length = 24)
    (h : pathPrefix a = pathPrefix b) : a = b := by
  have hlen : 0 < a.length := by omega
  apply encode_injective_same_length a b hlen (by omega)
  unfold pathPrefix at h
  rw [encode_eq a hlen, encode_eq b (by omega)] at h ⊢
  simpa using h

/-- General form: injective on every pair of non-empty inputs of equal length. -/
theorem C18_encode_injective (a b : List UInt8) (hne : a ≠ []) (hab : a.length = b.length)
    (h : encode a = encode b) : a = b :=
  encode_injective_same_length a b (List.length_pos_iff.mpr hne) hab h

/-- Functional description of the encoder (the specification the judge applies to the real crate's
output): the token is the fixed-width base-32 numeral, most significant digit first, of the little-endian
number the bytes denote; `⌈8·len / 5⌉` digits. Nothing of the input is lost: all 192 RNG bits of a 24-byte
input are in the 39 characters. -/
theorem C18_token_numeral (bs : List UInt8) (hne : bs ≠ []) (s : List Char) (h : encode bs = some s) :
    numeralValue s = some (leValue bs) ∧ s.length = (bs.length * 8 + 4) / 5 ∧
      leValue bs < 2 ^ (8 * bs.length) := by
  have hlen : 0 < bs.length := List.length_pos_iff.mpr hne
  refine ⟨numeralValue_encode bs hlen s h, ?_, leValue_lt bs⟩
  rw [encode_length bs hlen s h]
  unfold ndigits
  omega

/-- From the wire to the path (origin-form request-targets `"/…"`, the form browsers send): the path the
service function sees is a prefix of the request-target (everything before the first `?` / `#`), so a
request is treated as being under the secret prefix only if the request-target itself literally begins
with it — a token in the query string or fragment does not count. -/
theorem C18_origin_form_literal (rest pfx p : List Char) (hp : pathOfTarget ('/' :: rest) = some p)
    (h : pfx <+: p) : pfx <+: '/' :: rest := by
  apply List.IsPrefix.trans h
  unfold pathOfTarget at hp
  split at hp
  · cases hp
  · cases rest with
    | nil => simp only at hp; cases hp; exact List.prefix_refl _
    | cons c r => simp only at hp; exact pathScan_prefix _ _ hp

/-! ### "whatever the headers": the header map is a component of the request -/

/-- Outside the secret prefix the outcome is a function of the method and the path alone: two requests
with the same method and path get the same outcome whatever their header maps (`Origin`, `Host`,
`Referer`, `Cookie`, `Authorization`, `Access-Control-Request-*`, any number of them, with or without
the token in their values) and bodies are, and whatever the profile file is (only whether one is
configured shows, in the wording of the landing page). -/
theorem C18_outside_ignores_headers (cfg cfg' : Cfg) (req req' : Req)
    (hpfx : cfg.pfx = cfg'.pfx) (hprof : cfg.profile.isSome = cfg'.profile.isSome)
    (hm : req.method = req'.method) (hp : req.path = req'.path) (h : ¬ cfg.pfx <+: req.path) :
    service cfg req = service cfg' req' := by
  have hs := (stripPrefix_eq_none_iff cfg.pfx req.path).mpr h
  have hs' : stripPrefix cfg'.pfx req'.path = none := by rw [← hpfx, ← hp]; exact hs
  unfold service
  rw [hs, hs', hm, hp, hprof]

/-- Everywhere, the service function reads the header map through two look-ups only
(`contains_key(Access-Control-Request-Method)`, first value of `Access-Control-Request-Headers`):
header maps that agree on these two give the same outcome. -/
theorem C18_headers_only_acr (cfg : Cfg) (req : Req) (hs : Headers)
    (h1 : hdrContains hs acrmName = hdrContains req.headers acrmName)
    (h2 : hdrGet hs acrhName = hdrGet req.headers acrhName) :
    service cfg { req with headers := hs } = service cfg req :=
  service_headers_congr cfg req hs h1 h2

/-- No second credential channel: a header field whose name is not one of the two
`Access-Control-Request-*` names (compared as `HeaderMap` does, ASCII-case-insensitively) can be
inserted anywhere in, or removed from, any request without changing the outcome — whatever its value,
in particular `Authorization: Bearer <token>`, `Referer: …/<token>/…`, `Cookie: token=<token>`,
`X-Original-URL: /<token>/profile.json`, `Origin: <the profiler's own origin>`. -/
theorem C18_other_header_irrelevant (cfg : Cfg) (req : Req) (a b : Headers) (n v : List Char)
    (hn1 : hdrNameEq n acrmName = false) (hn2 : hdrNameEq n acrhName = false)
    (hh : req.headers = a ++ (n, v) :: b) :
    service cfg req = service cfg { req with headers := a ++ b } := by
  symm
  apply service_headers_congr
  · unfold hdrContains; rw [hh, hdrGet_insert a b n v acrmName hn1]
  · rw [hh, hdrGet_insert a b n v acrhName hn2]

/-- Only a request with method `OPTIONS` has its headers looked at at all. -/
theorem C18_headers_only_preflight (cfg : Cfg) (req : Req) (hs : Headers) (hm : req.method ≠ .options) :
    service cfg { req with headers := hs } = service cfg req := by
  obtain ⟨m, p, hs0, b⟩ := req
  simp only at hm
  unfold service
  cases m <;> first | exact absurd rfl hm | rfl

/-! ### from the bytes of the request line to the response; whole histories -/

/-- Wire level, every form of request-target (origin-form, absolute-form, authority-form, `*`,
malformed): if the answer to a request carries any `Access-Control-*` header, profile bytes or an API
answer, or the connection is dropped, then the secret prefix stands literally in the request-target at
the start of its path — the target begins with it, or is `<scheme>://<authority>` followed by it (any
scheme: the `http` crate accepts `https://`, `ftp://`, `x+y://` … and hyper passes them on). Method
token, HTTP version, headers and body are arbitrary. (Prefix = `"/"` + a non-empty token, as
`start_server` builds it.) `pathOfTarget` is the transcription of `http::Uri::from_shared`. -/
theorem C18_wire (cfg : Cfg) (w : WireReq) (hslash : cfg.pfx.head? = some '/') (hlen : 2 ≤ cfg.pfx.length)
    (h : (serveWire cfg w).exposes = true) : LiteralUnder cfg.pfx w.target := by
  unfold serveWire at h
  by_cases hok : httparseTargetOk w.target = true
  case neg => simp [hok, WireOut.exposes] at h
  simp only [hok, Bool.not_true, Bool.false_eq_true, if_false] at h
  cases hp : pathOfTarget w.target with
  | none => rw [hp] at h; simp [WireOut.exposes] at h
  | some p =>
    rw [hp] at h
    simp only at h
    apply pathOfTarget_literal w.target p cfg.pfx hp hslash hlen
    by_cases hpre : cfg.pfx <+: p
    · exact hpre
    · exfalso
      obtain ⟨r, hr, hnc, hnd, _⟩ := C18_no_prefix cfg
        { method := methodOfToken w.methodTok, path := p, headers := w.headers, bodyUtf8 := w.bodyUtf8 } hpre
      rw [hr] at h
      simp [WireOut.exposes, hnc, hnd] at h

/-- A request that does not carry the prefix literally is answered, and the answer is hyper's own 400
or the landing page / a 404 of the service function, without any `Access-Control-*` header. -/
theorem C18_wire_outside (cfg : Cfg) (w : WireReq) (hslash : cfg.pfx.head? = some '/')
    (hlen : 2 ≤ cfg.pfx.length) (h : ¬ LiteralUnder cfg.pfx w.target) :
    serveWire cfg w = .rejected ∨
    ∃ r, serveWire cfg w = .resp r ∧ r.anyCors = false ∧
      (r.kind = .landing cfg.profile.isSome ∨ (r.kind = .notFound ∧ r.status = 404)) := by
  by_cases hok : httparseTargetOk w.target = true
  case neg => left; simp [serveWire, hok]
  cases hp : pathOfTarget w.target with
  | none => left; simp [serveWire, hp]
  | some p =>
    right
    have hpre : ¬ cfg.pfx <+: p := fun hpre => h (pathOfTarget_literal w.target p cfg.pfx hp hslash hlen hpre)
    obtain ⟨r, hr, hnc, _, hk, _, h404⟩ := C18_no_prefix cfg
      { method := methodOfToken w.methodTok, path := p, headers := w.headers, bodyUtf8 := w.bodyUtf8 } hpre
    refine ⟨r, ?_, hnc, ?_⟩
    · simp [serveWire, hok, hp, hr]
    · rcases hk with hk | hk
      · exact Or.inl hk
      · exact Or.inr ⟨hk, h404 hk⟩

/-- End to end, with the real prefix: for every 24-byte RNG output the server's prefix is `"/"` + 39
alphabet characters, and with that prefix whatever is exposed at the wire level was asked for with the
40 characters literally at the start of the path of the request-target. One statement from the RNG
bytes to the response. -/
theorem C18_end_to_end (rng : List UInt8) (h24 : rng.length = 24) (profile : Option ProfileFile) :
    ∃ tok, pathPrefix rng = some ('/' :: tok) ∧ tok.length = 39 ∧ (∀ c ∈ tok, c ∈ alphabet) ∧
      ∀ w : WireReq, (serveWire { pfx := '/' :: tok, profile := profile } w).exposes = true →
        LiteralUnder ('/' :: tok) w.target := by
  obtain ⟨tok, _, hlen, halpha, _, _, _, hpfx⟩ := C18_token_length rng h24
  refine ⟨tok, hpfx, hlen, halpha, ?_⟩
  intro w hw
  exact C18_wire { pfx := '/' :: tok, profile := profile } w rfl (by simp [hlen]) hw

/-- Histories: any number of connections, their requests interleaved in any order, against any
configurations. Every answer is either "connection already over" or exactly what the request alone
gets (`serveWire`): nothing an earlier request did — under the prefix or not, on the same connection
or another — changes the answer to a later one. -/
theorem C18_history_stateless (ops : List (Nat × Cfg × WireReq)) (dead : List Nat) (i : Nat) (o : WireOut)
    (h : (serveCase dead ops)[i]? = some o) :
    ∃ c cfg w, ops[i]? = some (c, cfg, w) ∧ (o = .closed ∨ o = serveWire cfg w) := by
  induction ops generalizing dead i with
  | nil => simp [serveCase] at h
  | cons x rest ih =>
    obtain ⟨c, cfg, w⟩ := x
    cases i with
    | zero =>
      refine ⟨c, cfg, w, rfl, ?_⟩
      simp only [serveCase, List.getElem?_cons_zero, Option.some.injEq] at h
      rw [← h]
      unfold serveStep
      by_cases hd : c ∈ dead
      · left; simp [hd]
      · right; simp [hd]
    | succ j =>
      simp only [serveCase, List.getElem?_cons_succ] at h
      exact ih _ j h

/-- Consequently, in every history every exposing answer (CORS header, data, dropped connection)
belongs to a request that itself carries the prefix literally. -/
theorem C18_history (ops : List (Nat × Cfg × WireReq)) (dead : List Nat) (i : Nat) (o : WireOut)
    (h : (serveCase dead ops)[i]? = some o) (he : o.exposes = true) :
    ∃ c cfg w, ops[i]? = some (c, cfg, w) ∧
      (cfg.pfx.head? = some '/' → 2 ≤ cfg.pfx.length → LiteralUnder cfg.pfx w.target) := by
  obtain ⟨c, cfg, w, hi, ho⟩ := C18_history_stateless ops dead i o h
  refine ⟨c, cfg, w, hi, ?_⟩
  intro hslash hlen
  rcases ho with ho | ho
  · rw [ho] at he; simp [WireOut.exposes] at he
  · rw [ho] at he; exact C18_wire cfg w hslash hlen he

/-! ### Non-vacuity and boundary examples -/

/-- the model's own token for the bytes 0,1,…,23 -/
def C18_demoBytes : List UInt8 := (List.range 24).map UInt8.ofNat

def C18_demoCfg : Cfg := { pfx := "/tok3n".toList, profile := some ⟨false, true⟩ }

private def rq (m : Method) (p : String) : Req :=
  { method := m, path := p.toList,
    headers := [("Origin".toList, "http://evil.example".toList),
                ("ACCESS-CONTROL-REQUEST-METHOD".toList, "POST".toList),
                ("Access-Control-Request-Headers".toList, "x".toList),
                ("Authorization".toList, "Bearer tok3n".toList)],
    bodyUtf8 := true }

-- the hypotheses of the theorems are satisfiable by non-trivial inputs
example : C18_demoBytes.length = 24 := by decide
example : (encode C18_demoBytes).map List.length = some 39 := by decide
example : ¬ C18_demoCfg.pfx <+: (rq .get "/TOK3N/profile.json").path := by decide
example : C18_demoCfg.pfx <+: (rq .get "/tok3n/profile.json").path := by decide
-- served under the prefix
example : service C18_demoCfg (rq .get "/tok3n/profile.json") =
    .resp { Resp.base (.profile false) with allowOrigin := true, contentType := some .jsonUtf8 } := by
  decide
example : service C18_demoCfg (rq .post "/tok3n/symbolicate/v5") =
    .resp { Resp.base (.api "/symbolicate/v5".toList) with allowOrigin := true, contentType := some .json } := by
  decide
-- upper-case, percent-encoded, dot-segment, doubled-slash, contained-but-not-leading, proper-prefix
-- and token-less variants are all outside: 404 without CORS, also for a CORS preflight
example : ∀ p ∈ ["/TOK3N/profile.json", "/tok%33n/profile.json", "/x/../tok3n/profile.json",
      "//tok3n/profile.json", "/a/tok3n/profile.json", "/tok3", "/profile.json", "", "*", "/."],
    ∀ m ∈ [Method.get, .post, .options, .head, .put],
      service C18_demoCfg (rq m p) = .resp { Resp.base .notFound with status := 404 } := by decide
-- the crate's own published test vector (nix-base32 0.2.0 lib.rs:70, NAR hash of nix-2.8.1)
example : encode [0x47,0xb2,0xd8,0xf2,0x60,0xc2,0xd4,0x81,0x16,0x04,0x4b,0xc4,0x3f,0xe3,0xde,0x0f]
    = some "0gvvikzi2b0hb83m62c3rdicj7".toList := by decide
example : encode [0x1f,0x74,0xd7,0x47,0x29,0xab,0xdc,0x08,0xf4,0xf8,0x4e,0x8f,0x7f,0x8c,0x80,0x8c,
      0x8e,0xd9,0x2e,0xe5] = some "wlpdk3lch267z3sfz3s0ip5b553xfx0z".toList := by decide

-- wire level and histories: hypotheses satisfiable, conclusions not vacuous
private def wq (m t : String) (hs : Headers := []) (v11 : Bool := true) : WireReq :=
  { methodTok := m.toList, target := t.toList, http11 := v11, headers := hs, bodyUtf8 := true }

example : C18_demoCfg.pfx.head? = some '/' ∧ 2 ≤ C18_demoCfg.pfx.length := by decide
-- exposed through absolute-form targets of any scheme; `get` is not `GET`; token in the query or a header
-- opens nothing
example : ∀ t ∈ ["http://h.example:80/tok3n/profile.json", "https://h/tok3n/profile.json", "HtTp://u:p@h/tok3n/profile.json",
      "ftp://[::1]:21/tok3n/profile.json", "x+y.z://h/tok3n/profile.json?q#f", "://h/tok3n/profile.json"],
    (serveWire C18_demoCfg (wq "GET" t)).exposes = true := by decide
-- targets the URI parser rejects never reach the service function
example : ∀ t ∈ ["http:///tok3n/profile.json", "http://h%41/tok3n/profile.json", "http://h@/tok3n/profile.json",
      "http://a:b:c/tok3n/profile.json", "h:80/tok3n/profile.json", "/tok3n/profile.json<", "/tok3n/`", "?x", "",
      "http://[::1/tok3n/profile.json", "/tok3n/\x7f"],
    serveWire C18_demoCfg (wq "GET" t) = .rejected := by decide
example : (serveWire C18_demoCfg (wq "get" "/tok3n/profile.json")).exposes = true := by decide
example : ∀ t ∈ ["/?/tok3n/profile.json", "/profile.json?token=tok3n", "http://tok3n/profile.json",
      "http://h.example?/tok3n/profile.json", "tok3n", "*", "h.example/tok3n/profile.json", "https://tok3n/",
      "https://h//tok3n/profile.json", "ftp://h/x/../tok3n/profile.json"],
    ∀ m ∈ ["GET", "POST", "OPTIONS", "get"],
      (serveWire C18_demoCfg (wq m t [("Authorization".toList, "Bearer tok3n".toList),
          ("Referer".toList, "http://127.0.0.1/tok3n/".toList),
          ("access-control-request-method".toList, "GET".toList)])).exposes = false := by decide
-- the first of two `Access-Control-Request-Headers` fields is echoed, names compare case-insensitively
private def preflightTwice : Req :=
  { method := .options, path := "/tok3n/x".toList, bodyUtf8 := true,
    headers := [("ACCESS-control-request-METHOD".toList, "GET".toList),
                ("access-control-request-headers".toList, "x-one".toList),
                ("Access-Control-Request-Headers".toList, "x-two".toList)] }
example : service C18_demoCfg preflightTwice =
    .resp { status := 204, allowOrigin := true, allowMethods := true, maxAge := true,
            allowHeaders := some "x-one".toList, allow := false, contentType := none, gzip := false,
            kind := .options true } := by decide
-- a history over two connections: a served request on connection 0 opens nothing on connection 1 nor
-- later on connection 0; `Connection: close` and HTTP/1.0 end a connection, a 404 does not
example : serveCase [] [(0, C18_demoCfg, wq "GET" "/tok3n/profile.json"), (1, C18_demoCfg, wq "GET" "/profile.json"),
      (0, C18_demoCfg, wq "GET" "/profile.json" [("Connection".toList, "Close".toList)]),
      (0, C18_demoCfg, wq "GET" "/tok3n/profile.json"),
      (1, C18_demoCfg, wq "POST" "/symbolicate/v5" [] false), (1, C18_demoCfg, wq "GET" "/")] =
    [.resp { Resp.base (.profile false) with allowOrigin := true, contentType := some .jsonUtf8 },
     .resp { Resp.base .notFound with status := 404 }, .resp { Resp.base .notFound with status := 404 },
     .closed, .resp { Resp.base .notFound with status := 404 }, .closed] := by decide
