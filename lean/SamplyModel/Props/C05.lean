import SamplyModel.Lemmas.SymbolList
import SamplyModel.Lemmas.BreakpadLookup
import SamplyModel.Lemmas.JitDumpIndex
import SamplyModel.Lemmas.ObjectFile
/-!
# C05 — symbol lookup returns the function that contains the address, consistently

Models: `Model/SymbolList.lean` (object files: ELF, Mach-O, PE — `symbol_map_object.rs`),
`Model/BreakpadLookup.lean` (`breakpad/symbol_map.rs`), `Model/JitDumpIndex.lean` (`jitdump.rs`).

All theorems quantify over every object description / every Breakpad index / every jitdump record list
and over every address; nothing is bounded. `demangle` (the demangler) and `framesPanic` (does the
third-party DWARF lookup that follows the symbol lookup panic) are parameters.
The object symbol map has no cache on the symbol path (its mutexes guard the DWARF context and the path
mapper, which only produce the `frames` part), so its answers are a function of the address; the Breakpad and
jitdump maps answer through `Mutex`-guarded memo tables, for which `C05_cache_transparent_*` are proved.

Hypotheses that the proofs need (each is also a generator family of the harness, "excluded points"):
* jitdump: `JitDump.WF` — every code record non-empty (otherwise the relative addresses repeat and the
  `binary_search` contract no longer determines the answer), code sizes below 4 GiB, records laid out one
  after the other in the file;
* "no panic" only: exported symbols not below the image base (`SymList.buildSafe`), file ranges whose end
  fits `u64`, `framesPanic` false.
Only property theorems (`C05_*`) and non-vacuity examples live in this file.
-/
open SymLookup

/-! ## the `binary_search` contract -/

/-- `Ok i` is a hit; on a sorted slice `Err i` is the insertion point; on a strictly sorted slice the hit is
unique, so every conforming `binary_search` returns what the model returns. -/
theorem C05_bsearch_contract (keys : List Nat) (a : Nat) :
    (∀ i : Nat, bsearch keys a = .ok i → keys[i]? = some a) ∧
    (keys.Pairwise (· ≤ ·) → ∀ i : Nat, bsearch keys a = .err i →
      (∀ j k : Nat, j < i → keys[j]? = some k → k < a) ∧ (∀ j k : Nat, i ≤ j → keys[j]? = some k → a < k)) ∧
    (keys.Pairwise (· < ·) → ∀ i j : Nat, keys[i]? = some a → keys[j]? = some a → i = j) :=
  ⟨fun i h => bsearch_ok keys a i h, fun hs i h => bsearch_err keys a i hs h,
   fun hs i j hi hj => bsearch_hit_unique keys a i j hs hi hj⟩

/-! ## object files -/

section Obj
open SymList

/-- Invariant of `SymbolList::new`: one entry per address, strictly increasing. -/
theorem C05_obj_sorted (d : Desc) : StrictSorted (build d) := build_strict d

/-- "Best to worst": for every address, the entry of the final list is the first entry that was pushed with
that address — sources in the order symbols, dynamic symbols, exports, function starts, entry point, end
addresses (stable sort + `dedup_by_key`). Together with `C05_obj_sorted` it is the only entry at that address. -/
theorem C05_obj_keeps_best (d : Desc) (p : Nat) :
    (build d).find? (fun e => e.addr == p) = (parts d).find? (fun e => e.addr == p) :=
  build_keeps_first d p

/-- A successful lookup, in any of the three address forms, returns a symbol that starts at or before the
relative address the lookup address stands for and (a size is always reported) ends after it. -/
theorem C05_contains_obj (demangle : Name → Name) (framesPanic : Nat → Bool) (d : Desc) (ranges : List Range)
    (a : Addr) (r : SymInfo) (h : lookupSync demangle framesPanic ⟨build d, d.base, ranges⟩ a = .hit r) :
    ∃ svma rel, toSvmaRel ⟨build d, d.base, ranges⟩ a = .hit (svma, rel) ∧
      r.start ≤ rel ∧ ∃ n, r.size = some n ∧ rel < r.start + n := by
  unfold lookupSync at h
  split at h
  · simp at h
  · simp at h
  next svma rel hto =>
    refine ⟨svma, rel, hto, ?_⟩
    split at h
    · simp at h
    · simp at h
    next info hinfo =>
      split at h
      · simp at h
      · injection h with h
        subst h
        unfold lookupRelInfo at hinfo
        split at hinfo
        · simp at hinfo
        · simp at hinfo
        next s e n hrel =>
          obtain ⟨h1, h2, _, _⟩ := lookupRel_hit (build_strict d) hrel
          split at hinfo
          · simp at hinfo
          · injection hinfo with hinfo
            subst hinfo
            exact ⟨h1, e - s, rfl, by dsimp only; omega⟩

/-- The returned symbol is the entry of the map's own enumeration (`iter_symbols`) with the greatest start
not exceeding the address; that entry is unique, and the returned name is the demangled form of its name. -/
theorem C05_greatest_obj (demangle : Name → Name) (framesPanic : Nat → Bool) (d : Desc) (ranges : List Range)
    (a : Addr) (r : SymInfo) (h : lookupSync demangle framesPanic ⟨build d, d.base, ranges⟩ a = .hit r) :
    ∃ svma rel n, toSvmaRel ⟨build d, d.base, ranges⟩ a = .hit (svma, rel) ∧
      (r.start, n) ∈ iterSymbols (build d) ∧ r.name = demangle n ∧ r.start ≤ rel ∧
      (∀ p ∈ iterSymbols (build d), p.1 ≤ rel → p.1 ≤ r.start) ∧
      (∀ n', (r.start, n') ∈ iterSymbols (build d) → n' = n) := by
  have hs := build_strict d
  unfold lookupSync at h
  split at h
  · simp at h
  · simp at h
  next svma rel hto =>
    split at h
    · simp at h
    · simp at h
    next info hinfo =>
      split at h
      · simp at h
      · injection h with h
        subst h
        unfold lookupRelInfo at hinfo
        split at hinfo
        · simp at hinfo
        · simp at hinfo
        next s e n hrel =>
          obtain ⟨h1, _, ⟨ent, hmem, haddr, hname⟩, h4⟩ := lookupRel_hit hs hrel
          split at hinfo
          · simp at hinfo
          · injection hinfo with hinfo
            subst hinfo
            refine ⟨svma, rel, n, hto, ?_, rfl, h1, ?_, ?_⟩
            · exact mem_iterSymbols.mpr ⟨ent, hmem, haddr, by rw [haddr]; exact hname⟩
            · intro p hp hle
              obtain ⟨e', he', ha', _⟩ := mem_iterSymbols.mp hp
              have := h4 e' he' (by omega)
              dsimp only
              omega
            · intro n' hn'
              obtain ⟨e', he', ha', hnm'⟩ := mem_iterSymbols.mp hn'
              dsimp only at ha' hnm'
              have : e' = ent := strict_unique hs he' hmem (by omega)
              subst this
              rw [haddr] at hnm'
              rw [hname] at hnm'
              injection hnm' with e
              exact e.symm

/-- Address forms, 1: the stated virtual address `base + r` and the relative address `r` give the same answer. -/
theorem C05_forms_obj_svma (demangle : Name → Name) (framesPanic : Nat → Bool) (m : ObjMap) (r : Nat)
    (hr : r < U32) (hb : m.base + r < U64) :
    lookupSync demangle framesPanic m (.svma (m.base + r)) = lookupSync demangle framesPanic m (.rel r) := by
  have h1 : toSvmaRel m (.svma (m.base + r)) = .hit (m.base + r, r) := by
    simp [toSvmaRel, svmaToRel, relU32, hr]
  have h2 : toSvmaRel m (.rel r) = .hit (m.base + r, r) := by
    simp [toSvmaRel, hb]
  unfold lookupSync
  rw [h1, h2]

/-- Address forms, 2: a file offset and the stated virtual address its byte is mapped at give the same answer. -/
theorem C05_forms_obj_offset (demangle : Name → Name) (framesPanic : Nat → Bool) (m : ObjMap) (o s : Nat)
    (h : fileOffsetToSvma m.ranges o = .hit s) :
    lookupSync demangle framesPanic m (.fileOffset o) = lookupSync demangle framesPanic m (.svma s) := by
  unfold lookupSync
  simp [toSvmaRel, h]

/-- a file offset outside every range, or an address below the base / more than 4 GiB above it, stands for
no relative address and is answered with nothing -/
theorem C05_forms_obj_unrepresentable (demangle : Name → Name) (framesPanic : Nat → Bool) (m : ObjMap) :
    (∀ o, fileOffsetToSvma m.ranges o = .miss → lookupSync demangle framesPanic m (.fileOffset o) = .miss) ∧
    (∀ s, (s < m.base ∨ U32 ≤ s - m.base) → lookupSync demangle framesPanic m (.svma s) = .miss) := by
  constructor
  · intro o h
    unfold lookupSync
    simp [toSvmaRel, h]
  · intro s h
    unfold lookupSync
    have : relU32 m.base s = none := by
      unfold relU32
      rcases h with h | h
      · rw [if_neg (by omega)]
      · split
        · rw [if_neg (by omega)]
        · rfl
    simp [toSvmaRel, svmaToRel, this]

/-- No lookup panics: indexing stays in range and `end - start` does not underflow for every description;
the unchecked `file_offset + size` needs file ranges that fit `u64`; the third-party frames lookup is assumed
not to panic. -/
theorem C05_no_panic_obj (demangle : Name → Name) (d : Desc) (ranges : List Range)
    (hr : ∀ r ∈ ranges, r.fileOffset + r.size < U64) (a : Addr) :
    lookupSync demangle (fun _ => false) ⟨build d, d.base, ranges⟩ a ≠ .panic := by
  have hs := build_strict d
  have hrel : ∀ rel, lookupRelInfo demangle (build d) rel ≠ .panic := by
    intro rel
    unfold lookupRelInfo
    split
    next hp => exact absurd hp (lookupRel_no_panic _ _)
    · simp
    next s e n hhit =>
      obtain ⟨h1, h2, _, _⟩ := lookupRel_hit hs hhit
      rw [if_neg (by omega)]
      simp
  unfold lookupSync
  split
  next hp =>
    exfalso
    cases a with
    | rel r => simp only [toSvmaRel] at hp; split at hp <;> simp at hp
    | svma s => simp only [toSvmaRel, svmaToRel] at hp; split at hp <;> simp at hp
    | fileOffset o =>
      simp only [toSvmaRel] at hp
      split at hp
      next hp' => exact fileOffsetToSvma_no_panic ranges hr o hp'
      · simp at hp
      · simp only [svmaToRel] at hp; split at hp <;> simp at hp
  · simp
  next svma rel _ =>
    have := hrel rel
    split
    next hp => exact absurd hp this
    · simp
    · simp

/-- Completeness (no spurious miss), at full strength: for every description, every lookup address that
stands for a relative address `rel` and every pair of consecutive entries `e`, `nxt` of the list with
`e.addr ≤ rel < nxt.addr`: if `e` carries a name the lookup answers, with exactly that entry (start,
distance to the next entry, demangled name). Together with `C05_contains_obj` / `C05_greatest_obj` this
characterises the answer completely: a lookup answers nothing only if the address form stands for no relative
address, or no entry starts at or before `rel`, or the greatest such entry is an end marker / has an unreadable
name, or it is the last entry of the list. -/
theorem C05_complete_obj (demangle : Name → Name) (framesPanic : Nat → Bool) (d : Desc) (ranges : List Range)
    (a : Addr) (svma rel : Nat) (hto : toSvmaRel ⟨build d, d.base, ranges⟩ a = .hit (svma, rel))
    (i : Nat) (e nxt : Entry) (n : Name) (he : (build d)[i]? = some e) (hn : (build d)[i + 1]? = some nxt)
    (hname : e.kind.name e.addr = some n) (h1 : e.addr ≤ rel) (h2 : rel < nxt.addr)
    (hf : framesPanic svma = false) :
    lookupSync demangle framesPanic ⟨build d, d.base, ranges⟩ a
      = .hit ⟨e.addr, some (nxt.addr - e.addr), demangle n⟩ := by
  have hrel := lookupRel_complete (build_strict d) he hn hname h1 h2
  unfold lookupSync
  rw [hto]
  simp only [lookupRelInfo, hrel]
  rw [if_neg (by omega)]
  simp [hf]

/-- Corollary in terms of the map's own enumeration: a lookup at the start of an enumerated symbol answers
with that symbol (demangled), unless the symbol is the very last entry of the list. -/
theorem C05_complete_obj_enumerated (demangle : Name → Name) (d : Desc) (s : Nat) (n : Name)
    (hmem : (s, n) ∈ iterSymbols (build d)) (hnl : ∃ x ∈ build d, s < x.addr) :
    ∃ size, 0 < size ∧ lookupRelInfo demangle (build d) s = .hit ⟨s, some size, demangle n⟩ := by
  obtain ⟨e, hrel, hlt⟩ := lookupRel_at_enumerated (build_strict d) hmem hnl
  refine ⟨e - s, by omega, ?_⟩
  simp only [lookupRelInfo, hrel]
  rw [if_neg (by omega)]


end Obj

/-! ## from the object file to the symbol list (ELF, Mach-O, PE): `Model/ObjectFile.lean` -/

section ObjFileSec
open SymList ObjFile

/-- PE: `function_start_and_end_addresses` yields one (start, end) pair per complete 12-byte entry of `.pdata`; pair
`k` is decoded from the bytes at offset `12 * k` (start = little-endian bytes 0..4, end = bytes 4..8 of that entry:
see the defining equation of `pdataAddrs`, instantiated in the second conjunct). -/
theorem C05_pdata_spec (b : List UInt8) (k : Nat) :
    (pdataAddrs b).length = b.length / 12 ∧
    (pdataAddrs b)[k]? = (pdataAddrs (b.drop (12 * k))).head? ∧
    (∀ b0 b1 b2 b3 b4 b5 b6 b7 b8 b9 b10 b11 rest,
      b.drop (12 * k) = b0 :: b1 :: b2 :: b3 :: b4 :: b5 :: b6 :: b7 :: b8 :: b9 :: b10 :: b11 :: rest →
      (pdataAddrs b)[k]? = some (le32 b0 b1 b2 b3, le32 b4 b5 b6 b7)) := by
  have hk : (pdataAddrs b)[k]? = (pdataAddrs (b.drop (12 * k))).head? := by
    rw [← pdataAddrs_drop, List.head?_drop]
  refine ⟨pdataAddrs_length b, hk, ?_⟩
  intro b0 b1 b2 b3 b4 b5 b6 b7 b8 b9 b10 b11 rest h
  rw [hk, h]
  simp [pdataAddrs]

/-- Mach-O: the fuel of the LC_FUNCTION_STARTS loop is adequate — any larger fuel gives the same list (every decoded
delta consumes at least one byte), so `machoStarts` is the unbounded loop of the code. -/
theorem C05_macho_starts_fuel (bytes : List UInt8) (extra : Nat) :
    machoStartsFrom (bytes.length + 1 + extra) bytes 0 = machoStarts bytes :=
  machoStartsFrom_fuel bytes (bytes.length + 1) extra 0 (by omega)

/-- Mach-O: `read_uleb128` inverts the standard ULEB128 encoding for every `u64` value, whatever follows. -/
theorem C05_uleb_roundtrip (n : Nat) (hn : n < U64) (rest : List UInt8) :
    readUleb128 (ulebEncode n ++ rest) = some (n, rest) := readUleb128_encode n hn rest

/-- Mach-O: `get_function_starts` on the standard encoding of any list of non-zero deltas (sum below 2^64) followed by
the zero terminator and anything after it yields the running sums of the deltas, each truncated to `u32`; in
particular it does not panic and ignores what follows the terminator. -/
theorem C05_macho_starts_spec (ds : List Nat) (junk : List UInt8) (hpos : ∀ d ∈ ds, 0 < d) (hsum : ds.sum < U64) :
    machoStarts ((ds.flatMap ulebEncode) ++ 0 :: junk) = some ((runningSums 0 ds).map (· % U32)) :=
  machoStarts_encode ds junk hpos hsum

/-- The whole pipeline, for every presentation of an ELF / Mach-O / PE file (any segments, sections, symbols,
exports, `.eh_frame` FDEs / LC_FUNCTION_STARTS bytes / `__unwind_info` starts / `.pdata` bytes): if loading does not
panic, every successful lookup on the resulting map, in any address form, returns a symbol that contains the relative
address the lookup address stands for, that is the entry of the map's enumeration with the greatest start not above
it (unique), with the demangled name of that entry. -/
theorem C05_objfile_sound (demangle : Name → Name) (framesPanic : Nat → Bool) (p : Pres) (m : ObjMap)
    (hm : mapOf p = some m) (a : Addr) (r : SymInfo) (h : lookupSync demangle framesPanic m a = .hit r) :
    ∃ svma rel n, toSvmaRel m a = .hit (svma, rel) ∧
      r.start ≤ rel ∧ (∃ sz, r.size = some sz ∧ rel < r.start + sz) ∧
      (r.start, n) ∈ iterSymbols m.entries ∧ r.name = demangle n ∧
      (∀ q ∈ iterSymbols m.entries, q.1 ≤ rel → q.1 ≤ r.start) ∧
      (∀ n', (r.start, n') ∈ iterSymbols m.entries → n' = n) := by
  obtain ⟨d, _, _, rfl⟩ := mapOf_spec hm
  obtain ⟨svma, rel, hto, h1, h2⟩ := C05_contains_obj demangle framesPanic d (rangesOf p) a r h
  obtain ⟨svma', rel', n, hto', h3, h4, _, h5, h6⟩ := C05_greatest_obj demangle framesPanic d (rangesOf p) a r h
  rw [hto] at hto'
  injection hto' with e
  injection e with e1 e2
  subst e1; subst e2
  exact ⟨svma, rel, n, hto, h1, h2, h3, h4, h5, h6⟩

/-- … and no spurious miss on such a map: a named entry followed by another entry answers every address of its
range, in every address form that stands for it. -/
theorem C05_objfile_complete (demangle : Name → Name) (framesPanic : Nat → Bool) (p : Pres) (m : ObjMap)
    (hm : mapOf p = some m) (a : Addr) (svma rel : Nat) (hto : toSvmaRel m a = .hit (svma, rel))
    (i : Nat) (e nxt : Entry) (n : Name) (he : m.entries[i]? = some e) (hn : m.entries[i + 1]? = some nxt)
    (hname : e.kind.name e.addr = some n) (h1 : e.addr ≤ rel) (h2 : rel < nxt.addr)
    (hf : framesPanic svma = false) :
    lookupSync demangle framesPanic m a = .hit ⟨e.addr, some (nxt.addr - e.addr), demangle n⟩ := by
  obtain ⟨d, _, _, rfl⟩ := mapOf_spec hm
  exact C05_complete_obj demangle framesPanic d (rangesOf p) a svma rel hto i e nxt n he hn hname h1 h2 hf

end ObjFileSec

/-! ## Breakpad -/

section Bp
open Breakpad

/-- the address array built from the records of a `.sym` file is strictly increasing -/
theorem C05_bp_sorted (recs : List Rec) : StrictSorted (buildIndex recs) := buildIndex_strict recs

/-- For every strictly sorted index (in particular whichever of several records with one address the
unstable sort lets survive): a successful lookup returns a symbol at or before the address; a `FUNC` answer
reports its own size and the address lies below its end; a `PUBLIC` answer reports the distance to the next
symbol when there is one, and the address lies below it. -/
theorem C05_contains_bp (f : File) (ix : List Entry) (hs : StrictSorted ix) (a : Nat) (r : SymInfo)
    (h : lookup f ix (.rel a) = .hit r) :
    r.start ≤ a ∧ ∀ n, r.size = some n → a < r.start + n := by
  obtain ⟨i, e, _, h2, h3, _, _, h6⟩ := lookupRel_hit hs h
  exact ⟨by omega, h6⟩

/-- The answer is the enumerated symbol with the greatest start not exceeding the address, with the stored
name unchanged. -/
theorem C05_greatest_bp (f : File) (ix : List Entry) (hs : StrictSorted ix) (a : Nat) (r : SymInfo)
    (h : lookup f ix (.rel a) = .hit r) :
    (r.start, r.name) ∈ iterSymbols f ix ∧ r.start ≤ a ∧
    ∀ p ∈ iterSymbols f ix, p.1 ≤ a → p.1 ≤ r.start := by
  obtain ⟨i, e, h1, h2, h3, h4, h5, _⟩ := lookupRel_hit hs h
  refine ⟨mem_iterSymbols.mpr ⟨e, List.mem_of_getElem? h1, h2, h4⟩, by omega, ?_⟩
  intro p hp hle
  obtain ⟨e', he', ha', _⟩ := mem_iterSymbols.mp hp
  obtain ⟨j, hj⟩ := List.getElem?_of_mem he'
  rcases Nat.lt_or_ge i j with hij | hij
  · have := h5 j e' hij hj; omega
  · rcases Nat.lt_or_ge j i with hji | hji
    · have hjl := JitDump.getElem?_lt hj
      have hil := JitDump.getElem?_lt h1
      have := (List.pairwise_iff_getElem.mp hs) j i hjl hil hji
      simp [hjl] at hj
      simp [hil] at h1
      subst hj; subst h1
      omega
    · have : j = i := by omega
      subst this
      rw [h1] at hj
      injection hj with e0
      subst e0
      omega

/-- Breakpad files know neither the image base nor file offsets: those forms are answered with nothing. -/
theorem C05_forms_bp (f : File) (ix : List Entry) (x : Nat) :
    lookup f ix (.svma x) = .miss ∧ lookup f ix (.fileOffset x) = .miss := ⟨rfl, rfl⟩

/-- Cache transparency: for every sequence of lookups and enumerations starting from the empty cache, each
answer equals the cache-free function of the operation alone — independent of what was asked before, how
often, and in which order. With `std::sync::Mutex` making each operation's cache access atomic, every
concurrent execution is one such sequence. -/
theorem C05_cache_transparent_bp (f : File) (ix : List Entry) (ops : List Op) :
    runC f ix Cache.empty ops = ops.map (pureAns f ix) :=
  runC_spec f ix ops Cache.empty (CacheOk_empty f)

/-- Cache transparency at the granularity the code locks at: `iter_symbols` takes the cache mutex once *per element*,
so other threads' lookups and elements interleave with one thread's enumeration. For every sequence of critical
sections (a lookup, or element `i` of somebody's enumeration) starting from the empty cache, each result equals the
cache-free meaning of that step alone; and the elements `0..symbol_count()` put together are the cache-free
enumeration — whatever was interleaved. -/
theorem C05_cache_transparent_bp_per_element (f : File) (ix : List Entry) (steps : List Step) :
    runSteps f ix Cache.empty steps = steps.map (pureStep f ix) ∧
    (List.range ix.length).filterMap (iterElem f ix) = iterSymbols f ix :=
  ⟨runSteps_spec f ix steps Cache.empty (CacheOk_empty f), iterSymbols_eq_elems f ix⟩

theorem C05_no_panic_bp (f : File) (ix : List Entry) (a : Addr) : lookup f ix a ≠ .panic := by
  cases a with
  | rel a => exact lookupRel_no_panic f ix a
  | svma _ => simp [lookup]
  | fileOffset _ => simp [lookup]

/-- Completeness (no spurious miss): in every strictly sorted index, the slot `e` with the greatest address
`≤ a` (its successor, if any, lies above `a`) answers: a readable PUBLIC record always (size = distance to
the next symbol address, none for the last), a readable FUNC record for every address of its own range. -/
theorem C05_complete_bp (f : File) (ix : List Entry) (hs : StrictSorted ix) (i : Nat) (e : Entry) (a : Nat)
    (he : ix[i]? = some e) (h1 : e.addr ≤ a) (h2 : ∀ nxt, ix[i + 1]? = some nxt → a < nxt.addr) :
    (∀ n, e.kind = .public_ → f.pubAt e.offset = some n →
      lookup f ix (.rel a) = .hit ⟨e.addr, (ix[i + 1]?).map (fun nxt => nxt.addr - e.addr), n⟩) ∧
    (∀ size n, e.kind = .func → f.funcAt e.offset = some (size, n) → a < e.addr + size →
      lookup f ix (.rel a) = .hit ⟨e.addr, some size, n⟩) :=
  lookupRel_complete hs he h1 h2


end Bp

/-! ## jitdump -/

section Jit
open JitDump

/-- The file-layout hypothesis of `WF` is not an assumption about jitdump files: for *every* record stream (code
loads, debug-info records, other records of any sizes), every header length `off` and every file length (a dump that
is still being written is cut anywhere), the entries `from_reader` builds are laid out one after the other, and lie
inside the file. With non-empty code records below 4 GiB the whole of `WF` holds, so `C05_contains_jit`,
`C05_greatest_jit`, `C05_complete_jit`, `C05_forms_jit`, `C05_no_panic_jit` apply to every such file. -/
theorem C05_jit_from_reader (fileLen off : Nat) (recs : List Rec) :
    (entriesFrom fileLen off recs).Pairwise (fun e1 e2 => e1.codeOff + e1.len < e2.codeOff) ∧
    (∀ e ∈ entriesFrom fileLen off recs, off + 57 ≤ e.codeOff ∧ e.codeOff + e.len ≤ fileLen) ∧
    ((∀ nl cl nm, Rec.load nl cl nm ∈ recs → 0 < cl ∧ cl < U32) → WF (entriesFrom fileLen off recs)) :=
  ⟨entriesFrom_layout fileLen recs off, entriesFrom_lower fileLen recs off, entriesFrom_WF fileLen off recs⟩

/-- With non-empty code records below 4 GiB the cumulative relative addresses are strictly increasing
(so `binary_search` has a unique answer), and building the index does not overflow as long as the sum of
the code sizes fits `u32` (`buildIndex … = some _`). -/
theorem C05_jit_sorted (entries : List Entry) (ix : Index) (hw : WF entries)
    (hb : buildIndex entries = some ix) : ix.rels.Pairwise (· < ·) := by
  obtain ⟨he, hr⟩ := buildIndex_spec hb
  obtain ⟨hlen, _, _, hnext⟩ := relsFrom_spec _ _ _ hr
  rw [List.pairwise_iff_getElem]
  intro i j hi hj hij
  have hie : i < entries.length := by omega
  have hmem : entries[i] ∈ entries := List.getElem_mem hie
  have hp := hw.pos _ hmem
  have hsm := hw.small _ hmem
  have := hnext i entries[i] ix.rels[i] (by simp [hie]) (by simp [hi]) j ix.rels[j] hij (by simp [hj])
  rw [Nat.mod_eq_of_lt hsm] at this
  omega

/-- A successful lookup of a relative address returns the record whose code range contains it. -/
theorem C05_contains_jit (entries : List Entry) (ix : Index) (hw : WF entries)
    (hb : buildIndex entries = some ix) (a : Nat) (r : SymInfo) (h : lookup ix (.rel a) = .hit r) :
    r.start ≤ a ∧ ∃ n, r.size = some n ∧ a < r.start + n := by
  unfold lookup at h
  split at h
  · simp at h
  · simp at h
  next i s off hloc =>
    obtain ⟨_, ⟨e, he, hlt⟩, hle, _, _⟩ := lookupRelative_hit hb hloc
    obtain ⟨hent, _⟩ := buildIndex_spec hb
    unfold answer at h
    split at h
    · simp at h
    · rw [hent, he] at h
      simp only at h
      injection h with h
      subst h
      have := hw.small e (List.mem_of_getElem? he)
      exact ⟨hle, e.len % U32, rfl, by dsimp only; rw [Nat.mod_eq_of_lt this]; omega⟩

/-- The answer is the enumerated record with the greatest start not exceeding the address, stored name
unchanged. -/
theorem C05_greatest_jit (entries : List Entry) (ix : Index) (hw : WF entries)
    (hb : buildIndex entries = some ix) (a : Nat) (r : SymInfo) (h : lookup ix (.rel a) = .hit r) :
    (r.start, r.name) ∈ iterSymbols ix ∧ r.start ≤ a ∧ ∀ p ∈ iterSymbols ix, p.1 ≤ a → p.1 ≤ r.start := by
  have hsorted := C05_jit_sorted entries ix hw hb
  unfold lookup at h
  split at h
  · simp at h
  · simp at h
  next i s off hloc =>
    obtain ⟨hs, ⟨e, he, _⟩, hle, _, hgt⟩ := lookupRelative_hit hb hloc
    obtain ⟨hent, _⟩ := buildIndex_spec hb
    unfold answer at h
    split at h
    · simp at h
    next n hn =>
      rw [hent, he] at h
      simp only at h
      injection h with h
      subst h
      refine ⟨(mem_iterSymbols ix _).mpr ⟨i, hs, hn⟩, hle, ?_⟩
      intro p hp hpa
      obtain ⟨j, hj, _⟩ := (mem_iterSymbols ix p).mp hp
      dsimp only
      rcases Nat.lt_or_ge i j with hij | hij
      · have := hgt j p.1 hij hj; omega
      · rcases Nat.lt_or_ge j i with hji | hji
        · have hjl := getElem?_lt hj
          have hil := getElem?_lt hs
          have := (List.pairwise_iff_getElem.mp hsorted) j i hjl hil hji
          simp [hjl] at hj
          simp [hil] at hs
          omega
        · have : j = i := by omega
          subst this
          rw [hs] at hj
          injection hj with e0
          omega

/-- Address forms: the file offset of the `k`-th code byte of a record and the relative address of that
byte give the same answer; and whenever a file-offset lookup answers, the offset is such a code byte.
(Stated virtual addresses are not meaningful for jitdump files: answered with nothing.) -/
theorem C05_forms_jit (entries : List Entry) (ix : Index) (hw : WF entries)
    (hb : buildIndex entries = some ix) :
    (∀ (i : Nat) (e : Entry) (s k : Nat), entries[i]? = some e → ix.rels[i]? = some s → k < e.len →
      lookup ix (.fileOffset (e.codeOff + k)) = lookup ix (.rel (s + k))) ∧
    (∀ o r, lookup ix (.fileOffset o) = .hit r →
      ∃ (i : Nat) (e : Entry) (s k : Nat), entries[i]? = some e ∧ ix.rels[i]? = some s ∧ k < e.len ∧ o = e.codeOff + k) ∧
    (∀ x, lookup ix (.svma x) = .miss) := by
  refine ⟨?_, ?_, fun _ => rfl⟩
  · intro i e s k hei hsi hk
    obtain ⟨h1, h2⟩ := locate_forms hb hw.small hw.layout hei hsi hk
    simp [lookup, locate, h1, h2]
  · intro o r h
    unfold lookup at h
    split at h
    · simp at h
    · simp at h
    next i s off hloc =>
      obtain ⟨e, he, hs, ho, hlt⟩ := lookupOffset_hit hb hloc
      exact ⟨i, e, s, off, he, hs, hlt, ho⟩

/-- Cache transparency of the `names` cache (see `C05_cache_transparent_bp`). -/
theorem C05_cache_transparent_jit (ix : Index) (ops : List Op) :
    runC ix [] ops = ops.map (pureAns ix) :=
  runC_spec ix ops [] (MemoOk_nil _)

/-- Cache transparency per element (the `names` cache is locked once per element of `iter_symbols`), see
`C05_cache_transparent_bp_per_element`. -/
theorem C05_cache_transparent_jit_per_element (ix : Index) (steps : List Step) :
    runSteps ix [] steps = steps.map (pureStep ix) ∧
    (List.range ix.rels.length).filterMap (iterElem ix) = iterSymbols ix :=
  ⟨runSteps_spec ix steps [] (MemoOk_nil _), iterSymbols_eq_elems ix⟩

theorem C05_no_panic_jit (entries : List Entry) (ix : Index) (hw : WF entries)
    (hb : buildIndex entries = some ix) (a : Addr) : lookup ix a ≠ .panic := by
  obtain ⟨hent, hr⟩ := buildIndex_spec hb
  obtain ⟨hlen, _, _, _⟩ := relsFrom_spec _ _ _ hr
  have hans : ∀ i s n, i < entries.length → answer ix i s n ≠ .panic := by
    intro i s n hi
    unfold answer
    split
    · simp
    · split
      next hnone => rw [hent] at hnone; simp at hnone; omega
      · simp
  unfold lookup
  split
  next hp =>
    cases a with
    | rel a => exact absurd hp (lookupRelative_no_panic hb a)
    | svma _ => simp [locate] at hp
    | fileOffset o => exact absurd hp (lookupOffset_no_panic hb hw.layout o)
  · simp
  next i s off hloc =>
    apply hans
    cases a with
    | rel a =>
      obtain ⟨_, ⟨e, he, _⟩, _⟩ := lookupRelative_hit hb hloc
      exact getElem?_lt he
    | svma _ => simp [locate] at hloc
    | fileOffset o =>
      obtain ⟨e, he, _⟩ := lookupOffset_hit hb hloc
      exact getElem?_lt he

/-- Completeness (no spurious miss): every code byte of every record whose name can be read is answered,
by relative address and by file offset, with that record (start, code length, stored name). -/
theorem C05_complete_jit (entries : List Entry) (ix : Index) (hw : WF entries)
    (hb : buildIndex entries = some ix) (i : Nat) (e : Entry) (s k : Nat) (n : Name)
    (hei : entries[i]? = some e) (hsi : ix.rels[i]? = some s) (hk : k < e.len) (hname : e.name = some n) :
    lookup ix (.rel (s + k)) = .hit ⟨s, some e.len, n⟩ ∧
    lookup ix (.fileOffset (e.codeOff + k)) = .hit ⟨s, some e.len, n⟩ := by
  obtain ⟨h1, h2⟩ := locate_forms hb hw.small hw.layout hei hsi hk
  obtain ⟨hent, _⟩ := buildIndex_spec hb
  have hsm := hw.small e (List.mem_of_getElem? hei)
  have hnm : nameAt ix i = some n := by simp [nameAt, hent, hei, hname]
  constructor
  · simp [lookup, locate, h2, hnm, answer, hent, hei, Nat.mod_eq_of_lt hsm]
  · simp [lookup, locate, h1, hnm, answer, hent, hei, Nat.mod_eq_of_lt hsm]


end Jit

/-! ## non-vacuity: concrete inputs satisfy the hypotheses, and the conclusions are the expected numbers -/

section Examples
open SymList

/-- the entry list `SymbolList::new` produces for: `.text` at 0x1000..0x1400 (entry point at its start),
`alpha` 0x1010 size 0x20, `beta` 0x1040 unsized -/
def C05_exEntries : List Entry :=
  [⟨0x1000, .entryPoint⟩, ⟨0x1010, .symbol (some [97])⟩, ⟨0x1030, .endAddress⟩, ⟨0x1040, .symbol (some [98])⟩,
   ⟨0x1400, .endAddress⟩]

example : StrictSorted C05_exEntries := by unfold StrictSorted C05_exEntries; decide
example : lookupRel C05_exEntries 0x102f = .hit (0x1010, 0x1030, [97]) := by decide
example : lookupRel C05_exEntries 0x1030 = .miss := by decide                       -- dead space after `alpha`
example : lookupRel C05_exEntries 0x13ff = .hit (0x1040, 0x1400, [98]) := by decide -- up to the section end
example : lookupRel C05_exEntries 0x1400 = .miss := by decide
example : lookupRel C05_exEntries 0xfff = .miss := by decide
example : lookupSync id (fun _ => false) ⟨C05_exEntries, 0x200000, [⟨0x200000, 0, 0x2000⟩]⟩ (.fileOffset 0x1011)
    = .hit ⟨0x1010, some 0x20, [97]⟩ := by decide

/-- the description that list comes from, through the filters, conversions, stable sort and dedup of `build`:
image base 0x200000, one text section (index 1) 0x201000..0x201400, `alpha` FUNC size 0x20, `beta` FUNC unsized,
an OBJECT symbol (dropped), a NOTYPE symbol (dropped), `alpha` again in `.dynsym` (loses against `.symtab`) -/
def C05_exDesc : Desc where
  base := 0x200000
  execSections := [1]
  symbols := [⟨0x201040, 0, .text, some 1, some [98]⟩, ⟨0x201010, 0x20, .text, some 1, some [97]⟩,
              ⟨0x201100, 8, .other, some 1, some [99]⟩, ⟨0x201200, 0, .label, some 1, some [100]⟩]
  dynSymbols := [⟨0x201010, 0x20, .text, some 1, some [97, 97]⟩]
  exports := none
  funcStarts := none
  entry := 0x201000
  textSections := [(0x201000, 0x400)]
  funcEnds := none

/-- `build` of that description is that list (mergeSort evaluated by `simp`), and lookups through `build` hit
in all three address forms (the hypotheses of `C05_contains_obj` / `C05_complete_obj` are satisfiable) -/
example : build C05_exDesc = C05_exEntries ∧
    lookupSync id (fun _ => false) ⟨build C05_exDesc, C05_exDesc.base, [⟨0x200000, 0, 0x2000⟩]⟩ (.rel 0x102f)
      = .hit ⟨0x1010, some 0x20, [97]⟩ ∧
    lookupSync id (fun _ => false) ⟨build C05_exDesc, C05_exDesc.base, [⟨0x200000, 0, 0x2000⟩]⟩ (.svma 0x20102f)
      = .hit ⟨0x1010, some 0x20, [97]⟩ ∧
    lookupSync id (fun _ => false) ⟨build C05_exDesc, C05_exDesc.base, [⟨0x200000, 0, 0x2000⟩]⟩ (.fileOffset 0x102f)
      = .hit ⟨0x1010, some 0x20, [97]⟩ := by
  have hp : parts C05_exDesc = [⟨0x1040, .symbol (some [98])⟩, ⟨0x1010, .symbol (some [97])⟩,
      ⟨0x1010, .symbol (some [97, 97])⟩, ⟨0x1000, .entryPoint⟩, ⟨0x1400, .endAddress⟩, ⟨0x1030, .endAddress⟩] := by
    decide
  have hb : build C05_exDesc = C05_exEntries := by
    unfold build
    rw [hp]
    simp [sortEntries, List.mergeSort, List.MergeSort.Internal.splitInTwo, dedup, dedupAux, C05_exEntries]
  rw [hb]
  decide

/-- a two-entry `.pdata` (12 bytes each; the third word is the unwind-info address) and a trailing partial entry -/
example : ObjFile.pdataAddrs [0x00, 0x10, 0, 0, 0x2a, 0x10, 0, 0, 9, 9, 9, 9, 0x30, 0x10, 0, 0, 0x80, 0x10, 0, 0, 1, 1, 1, 1, 7, 7]
    = [(0x1000, 0x102a), (0x1030, 0x1080)] := by decide
/-- LC_FUNCTION_STARTS: deltas 0x1000, 0x20, 0x185 (two bytes), terminator -/
example : ObjFile.machoStarts [0x80, 0x20, 0x20, 0x85, 0x03, 0x00, 0x55] = some [0x1000, 0x1020, 0x11a5] := by decide
/-- a Mach-O presentation: `__TEXT` at 0x100000000, one text section, `_main` in the symbol table, two function starts
without symbols; loading succeeds and the relative base is the `__TEXT` address -/
def C05_exPres : ObjFile.Pres where
  isElf := false
  objBase := 0
  segments := [⟨some [95, 95, 80, 65, 71, 69, 90, 69, 82, 79], 0, 0, 0⟩, ⟨some ObjFile.textSegName, 0x100000000, 0, 0x4000⟩]
  sections := [⟨1, .text, false, 0x100001000, 0x200, some (0x1000, 0x200)⟩]
  symbols := [⟨0x100001020, 0, .text, some 1, some [95, 109]⟩]
  dynSymbols := []
  exports := some []
  entry := 0
  funcs := .macho (some [0x80, 0x20, 0x20, 0x40, 0x00]) none

example : ObjFile.relBase C05_exPres = 0x100000000 := by decide
example : (ObjFile.descOf C05_exPres).map (·.funcStarts) = some (some [0x1000, 0x1020, 0x1060]) := by decide
example : (ObjFile.mapOf C05_exPres).isSome = true := by
  simp [ObjFile.mapOf, ObjFile.descOf, ObjFile.funcAddrs, C05_exPres, buildSafe]
  decide

def C05_exJit : List JitDump.Entry := [⟨98, 5, some [97]⟩, ⟨161, 7, some [98]⟩]

example : JitDump.WF C05_exJit := ⟨by decide, by decide, by decide⟩
example : JitDump.buildIndex C05_exJit = some ⟨C05_exJit, [0, 5]⟩ := by decide
example : JitDump.lookup ⟨C05_exJit, [0, 5]⟩ (.rel 11) = .hit ⟨5, some 7, [98]⟩ := by decide
example : JitDump.lookup ⟨C05_exJit, [0, 5]⟩ (.fileOffset 167) = .hit ⟨5, some 7, [98]⟩ := by decide
example : JitDump.lookup ⟨C05_exJit, [0, 5]⟩ (.rel 12) = .miss := by decide

/-- a record stream: load(5 code bytes), debug info, load(7), cut 3 bytes before the end: the second load is dropped -/
example : JitDump.entriesFrom 218 40 [.load 1 5 (some [97]), .debugInfo 53, .load 1 7 (some [98])]
    = [⟨98, 5, some [97]⟩] := by decide
example : JitDump.entriesFrom 221 40 [.load 1 5 (some [97]), .debugInfo 53, .load 1 7 (some [98])]
    = [⟨98, 5, some [97]⟩, ⟨214, 7, some [98]⟩] := by decide

/-- the excluded point: a zero-length record repeats a key; the model's `bsearch` (like the pinned standard
library) returns the last hit, which is the only one that can be non-empty -/
example : JitDump.lookup ⟨[⟨98, 5, some [97]⟩, ⟨161, 0, some [98]⟩, ⟨219, 7, some [99]⟩], [0, 5, 5]⟩ (.rel 5)
    = .hit ⟨5, some 7, [99]⟩ := by decide

def C05_exBp : List Breakpad.Rec := [⟨.func, 0x1000, 0x10, some [102]⟩, ⟨.public_, 0x1020, 0, some [103]⟩]

example : Breakpad.lookup (Breakpad.fileOf C05_exBp) [⟨0x1000, .func, 0⟩, ⟨0x1020, .public_, 1⟩] (.rel 0x100f)
    = .hit ⟨0x1000, some 0x10, [102]⟩ := by decide
example : Breakpad.lookup (Breakpad.fileOf C05_exBp) [⟨0x1000, .func, 0⟩, ⟨0x1020, .public_, 1⟩] (.rel 0x1010)
    = .miss := by decide
example : Breakpad.lookup (Breakpad.fileOf C05_exBp) [⟨0x1000, .func, 0⟩, ⟨0x1020, .public_, 1⟩] (.rel 0x5000)
    = .hit ⟨0x1020, none, [103]⟩ := by decide

end Examples
