import SamplyModel.Model.SymbolList
import SamplyModel.Model.BreakpadLookup
import SamplyModel.Model.JitDumpIndex
theorem C05_placeholder : True := trivial
