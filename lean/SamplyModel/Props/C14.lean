import SamplyModel.Model.ConvSpec
import SamplyModel.Lemmas.DepthIter
import SamplyModel.Lemmas.ConvJit
import SamplyModel.Lemmas.ConvElide
import SamplyModel.Lemmas.ConvFinal
import SamplyModel.Lemmas.ConvMarkers
import SamplyModel.Lemmas.ConvMarkHist
/-!
# C14 — deep stacks are shortened only in the middle, with an exact elision count

Model: `Conv.depthLimit` (`Model/ConvFlush.lean`) follows `StackDepthLimitingFrameIter` run to completion
on the list `L` of frames the inner iterator yields, with length hint `n` (N = 200). The hint is the
length of the raw stack slice: it equals `|L|` unless the slice contains a truncated-stack marker
(`|L| = n − 1`), an extra per-CPU label frame is prepended (`|L| = n + 1`), or JS label frames are emitted for
JIT functions (`n ≤ |L| ≤ 2·n`, one label frame per frame of a function classified as JS). The limiter decides
by `n` and counts what the inner iterator yields, so with label frames the output can be far longer than 501
frames (`C14_label_frames_exceed_501`, `C14_output_length`); what it outputs is stated exactly, for every `L`
and `n`, by `C14_limiter_output`.
-/
open Conv ConvSpec

/-- shallower than 500 (by the hint): the stack reaches the profile unchanged -/
theorem C14_unchanged (L : List Frame) (n : Nat) (h : n < 500) : depthLimit 200 L n = L := by
  unfold depthLimit shouldElide
  have : ¬ (n ≥ 200 + 200 + 200 / 2) := by omega
  simp [this]

/-- the elision count for hint `n ≥ 500`: a positive multiple of 200 that leaves 100…299 of the hinted
frames after the kept root part -/
theorem C14_count (n : Nat) (h : 500 ≤ n) :
    ∃ c, shouldElide 200 n = some (200, c) ∧ c = (n - 300) / 200 * 200 ∧ 0 < c ∧ c % 200 = 0 ∧
      100 ≤ n - 200 - c ∧ n - 200 - c < 300 ∧ 200 + c ≤ n := by
  refine ⟨(n - 300) / 200 * 200, ?_, rfl, ?_, ?_, ?_, ?_, ?_⟩
  · unfold shouldElide
    have : n ≥ 200 + 200 + 200 / 2 := by omega
    simp [this]
    omega
  all_goals omega

/-- deep stacks: 200 root-most frames, one placeholder stating exactly how many frames were removed, and the
rest of the stack; holds whenever the inner iterator yields at least `200 + c` frames (always the case when
`n ≤ |L| + 1`, i.e. at most one truncated-stack marker) -/
theorem C14_elided (L : List Frame) (n : Nat) (h : 500 ≤ n) (hL : n ≤ L.length + 1) :
    ∃ c, c = (n - 300) / 200 * 200 ∧
      depthLimit 200 L n = L.take 200 ++ [Frame.elided c] ++ L.drop (200 + c) ∧
      (L.take 200).length = 200 ∧ (L.drop (200 + c)).length + 200 + c = L.length := by
  obtain ⟨c, hs, hc, hpos, _, h1, h2, h3⟩ := C14_count n h
  refine ⟨c, hc, ?_, ?_, ?_⟩
  · unfold depthLimit
    rw [hs]
    have a1 : ¬ (L.length < 200) := by omega
    have a2 : ¬ (L.length < 200 + c) := by omega
    simp [a1, a2]
  · simp; omega
  · simp; omega

/-- kept frames plus stated elided frames equal the original depth; the output never exceeds 501 frames
and keeps 100 to 300 leaf-most frames, when the hint is exact or counts one extra label frame less
(`|L| = n` or `|L| = n + 1`); with a truncated-stack marker (`|L| = n − 1`) the leaf part can be 99 -/
theorem C14_bounds (L : List Frame) (n : Nat) (h : 500 ≤ n) (hL : n ≤ L.length + 1) (hU : L.length ≤ n + 1) :
    ∃ c, depthLimit 200 L n = L.take 200 ++ [Frame.elided c] ++ L.drop (200 + c) ∧
      200 + c + (L.drop (200 + c)).length = L.length ∧
      (depthLimit 200 L n).length ≤ 501 ∧
      99 ≤ (L.drop (200 + c)).length ∧ (L.drop (200 + c)).length ≤ 300 ∧
      (n ≤ L.length → 100 ≤ (L.drop (200 + c)).length) := by
  obtain ⟨c, hc, hd, h200, hsum⟩ := C14_elided L n h hL
  obtain ⟨c', hs, hc', hpos, _, h1, h2, h3⟩ := C14_count n h
  have : c = c' := by rw [hc, hc']
  subst this
  refine ⟨c, hd, by omega, ?_, ?_, ?_, ?_⟩
  · rw [hd]; simp only [List.length_append, List.length_cons, List.length_nil]; rw [h200]; omega
  all_goals (have := hsum; omega)

/-- when the inner iterator runs dry while the elided piece is being skipped (possible only if the hint
overstates the length by more than the leaf part), the frame already taken is dropped and the stack ends:
the model follows the `?` in the skipping loop -/
theorem C14_dry_while_skipping (L : List Frame) (n c : Nat) (hs : shouldElide 200 n = some (200, c))
    (h1 : 200 ≤ L.length) (h2 : L.length < 200 + c) : depthLimit 200 L n = L.take 199 := by
  unfold depthLimit
  rw [hs]
  have a1 : ¬ (L.length < 200) := by omega
  simp [a1, h2]

/-! ### Non-vacuity -/
example : shouldElide 200 499 = none ∧ shouldElide 200 500 = some (200, 200) ∧
    shouldElide 200 699 = some (200, 200) ∧ shouldElide 200 700 = some (200, 400) := by decide
example : (depthLimit 200 ((List.range 500).map Frame.raw) 500).length = 301 := by decide +kernel
example : ConvSpec.elisionOk ((List.range 700).map Frame.raw) (depthLimit 200 ((List.range 700).map Frame.raw) 700) = true := by
  decide +kernel

/-! ### The iterator itself

`Model/DepthIter.lean` transcribes `StackDepthLimitingFrameIter` as the three-state machine it is
(`BeforeElidedPiece` / `AtElidedPiece` / `NoMoreElision`, including the skipping loop whose `?` drops the
frame already taken when the inner iterator runs dry); running it to completion gives exactly the closed
form the theorems above are about, for every frame list and every hint. -/
theorem C14_iterator_refines (L : List Frame) (n : Nat) : limRun 200 L n = depthLimit 200 L n :=
  limRun_eq_depthLimit 200 (by decide) L n

/-- The judged statement holds of the iterator's output whenever the hint is exact and the original frames
contain no placeholder: `elisionOk` is what `ConvJudge.judgeC14` evaluates on samply's own output. -/
theorem C14_iterator_meets_spec_unchanged (L : List Frame) (h : L.length < 500) :
    ConvSpec.elisionOk L (limRun 200 L L.length) = true := by
  rw [C14_iterator_refines, C14_unchanged L L.length h]
  have hc := ConvSpec.callDepth_le L
  have h1 : ConvSpec.callDepth L < 500 := by omega
  have h2 : L.length ≤ 501 := by omega
  simp [ConvSpec.elisionOk, h1, h2]

theorem C14_findIdx_none_of_all_false (l : List Frame) (h : ∀ f ∈ l, isElided f = false) : l.findIdx? isElided = none := by
  rw [List.findIdx?_eq_none_iff]
  intro f hf; simp [h f hf]

/-- **The judged statement holds of the model's output, deep stacks**: for every original stack of at least
500 frames (none of which is itself a placeholder) and an exact hint, the output of the depth limiter is an
admissible shortening in the sense of `ConvSpec.elisionOk` — 200 root frames verbatim, one placeholder whose
count is exactly the number of removed frames, 100–300 leaf frames verbatim, at most 501 frames. -/
theorem C14_meets_spec_elided (L : List Frame) (hne : ∀ f ∈ L, isElided f = false) (hcd : 500 ≤ callDepth L) :
    elisionOk L (depthLimit 200 L L.length) = true := by
  have h : 500 ≤ L.length := Nat.le_trans hcd (callDepth_le L)
  obtain ⟨c, hc, hd, h200, hsum⟩ := C14_elided L L.length h (by omega)
  obtain ⟨c', hs, hc', hpos, _, h1, h2, h3⟩ := C14_count L.length h
  have hcc : c = c' := by rw [hc, hc']
  subst hcc
  have hA : (L.take 200).findIdx? isElided = none :=
    C14_findIdx_none_of_all_false _ (fun f hf => hne f (List.mem_of_mem_take hf))
  have hfind : (L.take 200 ++ [Frame.elided c] ++ L.drop (200 + c)).findIdx? isElided = some 200 := by
    rw [List.append_assoc, List.findIdx?_append, hA]
    simp [List.findIdx?_cons, isElided, h200]
  have hget : (L.take 200 ++ [Frame.elided c] ++ L.drop (200 + c))[200]? = some (Frame.elided c) := by
    rw [List.append_assoc, List.getElem?_append_right (by omega)]
    simp [h200]
  have hdrop : (L.take 200 ++ [Frame.elided c] ++ L.drop (200 + c)).drop 201 = L.drop (200 + c) := by
    have e : (201 : Nat) = (L.take 200 ++ [Frame.elided c]).length := by simp [h200]
    rw [e, List.drop_left]
  have htake : (L.take 200 ++ [Frame.elided c] ++ L.drop (200 + c)).take 200 = L.take 200 := by
    rw [List.append_assoc, List.take_append_of_le_length (by omega)]
    exact List.take_of_length_le (by omega)
  have hlenB : (L.drop (200 + c)).length = L.length - (200 + c) := List.length_drop
  have hlen : (L.take 200 ++ [Frame.elided c] ++ L.drop (200 + c)).length = 201 + (L.length - (200 + c)) := by
    simp only [List.length_append, List.length_cons, List.length_nil, h200, hlenB]
  have hnlt : ¬ (callDepth L < 500) := by omega
  have hdd : L.drop (L.length - (L.length - (200 + c))) = L.drop (200 + c) := by
    congr 1; omega
  rw [hd]
  unfold elisionOk
  simp only [hnlt, if_false, hfind, hget, hdrop, htake, hlenB, hdd, beq_self_eq_true, Bool.true_and,
    Bool.and_eq_true, decide_eq_true_eq]
  rw [hlen]
  clear hc hc' hs hd hfind hget hdrop htake hlen hdd hA hlenB hsum
  have hb : L.length - (200 + c) + (200 + c) = L.length := Nat.sub_add_cancel h3
  have e1 : L.length - 200 - c = L.length - (200 + c) := by omega
  rw [e1] at h1 h2
  generalize L.length - (200 + c) = b at *
  refine ⟨⟨⟨⟨⟨h1, by omega⟩, trivial⟩, by omega⟩, by omega⟩, hpos⟩

/-! ### JS label frames: the sharp statement

The inner iterator of the limiter is `ConvertedStackIterD` (stack_converter.rs), which yields the extra first
frame, and for every recorded frame the native frame, preceded by a JS label frame when the frame lies in a
JIT function classified as JS. `Model/DepthIter.lean: csNext` transcribes it with its one-frame look-ahead
(`pending_frame_handle`) and the `js_name_for_baseline_interpreter` state. -/

/-- The look-ahead iterator, pulled until the first `None`, yields the extra first frame followed by the
closed form `emitJs` the converter model uses — for every list of second-pass frames. -/
theorem C14_converted_iter_refines (extra : Option Frame) (infos : List Info) :
    csRun extra infos = extra.toList ++ emitJs none infos :=
  csRun_eq extra infos

/-- The limiter's inner iterator yields between `n` and `2·n` frames for a stack of `n` recorded frames
(plus one with the per-CPU label frame), while the hint stays `n`. -/
theorem C14_emitted_length (extra : Option Frame) (maps pm : List MapAdd) (stack : List SFrame) :
    stack.length + extra.toList.length ≤ (convertStackX extra maps pm stack).length ∧
    (convertStackX extra maps pm stack).length ≤ 2 * stack.length + extra.toList.length := by
  unfold convertStackX
  have h := emitJs_length none (stack.reverse.map (secondPass maps pm))
  simp only [List.length_map, List.length_reverse] at h
  simp only [List.length_append]
  omega

/-- **What the limiter outputs, exactly**, for every frame list `L` the inner iterator yields and every hint
`n` (the iterator of the code, by `C14_iterator_refines`): unchanged below 500; otherwise, with
`c = ((n − 300) / 200) · 200`: unchanged if fewer than 200 frames arrive, the first 199 frames if the inner
iterator runs dry while skipping, else 200 frames, the placeholder stating `c`, and everything after the
`200 + c` frames taken — however many that is. -/
theorem C14_limiter_output (L : List Frame) (n : Nat) :
    limRun 200 L n =
      if n < 500 then L
      else if L.length < 200 then L
      else if L.length < 200 + (n - 300) / 200 * 200 then L.take 199
      else L.take 200 ++ [Frame.elided ((n - 300) / 200 * 200)] ++ L.drop (200 + (n - 300) / 200 * 200) := by
  rw [C14_iterator_refines]
  by_cases h : n < 500
  · simp only [h, if_true]; exact C14_unchanged L n h
  · simp only [h, if_false]
    obtain ⟨c, hs, hc, _⟩ := C14_count n (by omega)
    unfold depthLimit
    rw [hs, ← hc]
    simp

/-- deep stacks, whenever at least `200 + c` frames arrive (no hypothesis on how many more) -/
theorem C14_elided_of_enough (L : List Frame) (n : Nat) (h : 500 ≤ n) (hL : 200 + (n - 300) / 200 * 200 ≤ L.length) :
    depthLimit 200 L n =
      L.take 200 ++ [Frame.elided ((n - 300) / 200 * 200)] ++ L.drop (200 + (n - 300) / 200 * 200) ∧
    (depthLimit 200 L n).length = L.length - (n - 300) / 200 * 200 + 1 := by
  have h1 := C14_limiter_output L n
  rw [C14_iterator_refines] at h1
  have a0 : ¬ n < 500 := by omega
  have a1 : ¬ L.length < 200 := by omega
  have a2 : ¬ L.length < 200 + (n - 300) / 200 * 200 := by omega
  simp only [a0, a1, a2, if_false] at h1
  refine ⟨h1, ?_⟩
  rw [h1]
  simp only [List.length_append, List.length_take, List.length_drop, List.length_cons, List.length_nil]
  omega

/-- **Output depth with label frames.** For hint `n ≥ 500` and at least `n` frames from the inner iterator
(no truncated-stack marker), the output has `|L| − c + 1` frames: it stays within 501 frames exactly when the
inner iterator yields at most `c + 500` frames (`n ≤ c + 499`, so at most a few hundred label frames fit);
with `|L| = 2·n` (every frame in a JS function) it is `2·n − c + 1 > n + 300`. -/
theorem C14_output_length (L : List Frame) (n : Nat) (h : 500 ≤ n) (hL : n ≤ L.length) :
    (depthLimit 200 L n).length = L.length - (n - 300) / 200 * 200 + 1 ∧
    ((depthLimit 200 L n).length ≤ 501 ↔ L.length ≤ (n - 300) / 200 * 200 + 500) ∧
    (L.length = 2 * n → n + 300 < (depthLimit 200 L n).length) := by
  obtain ⟨c, _, hc, _, _, _, _, h3⟩ := C14_count n h
  have := (C14_elided_of_enough L n h (by rw [← hc]; omega)).2
  rw [← hc] at this ⊢
  refine ⟨this, by omega, by omega⟩

/-- **When do kept frames plus stated elided frames equal the number of emitted frames?** For a hint `n ≥ 500`
the output contains a placeholder with `kept + stated = |L|` exactly when the inner iterator yields at least
`200 + c` frames — in particular always when it yields at least as many frames as the hint says (label frames
only add frames), and never when it runs dry before or inside the elided piece (then there is no placeholder
at all). -/
theorem C14_sum_iff (L : List Frame) (hne : ∀ f ∈ L, isElided f = false) (n : Nat) (h : 500 ≤ n) :
    (∃ pre post c, depthLimit 200 L n = pre ++ [Frame.elided c] ++ post ∧ pre.length + c + post.length = L.length) ↔
      200 + (n - 300) / 200 * 200 ≤ L.length := by
  constructor
  · intro ⟨pre, post, c, hout, _⟩
    by_cases hL : 200 + (n - 300) / 200 * 200 ≤ L.length
    · exact hL
    · exfalso
      have h1 := C14_limiter_output L n
      rw [C14_iterator_refines] at h1
      have a0 : ¬ n < 500 := by omega
      have hmem : Frame.elided c ∈ depthLimit 200 L n := by rw [hout]; simp
      simp only [a0, if_false] at h1
      have hsub : ∀ f ∈ depthLimit 200 L n, f ∈ L := by
        intro f hf
        rw [h1] at hf
        split at hf
        · exact hf
        · have a2 : L.length < 200 + (n - 300) / 200 * 200 := by omega
          simp only [a2, if_true] at hf
          exact List.mem_of_mem_take hf
      have := hne _ (hsub _ hmem)
      simp [isElided] at this
  · intro hL
    obtain ⟨hd, _⟩ := C14_elided_of_enough L n h hL
    refine ⟨L.take 200, L.drop (200 + (n - 300) / 200 * 200), (n - 300) / 200 * 200, hd, ?_⟩
    simp only [List.length_take, List.length_drop]
    omega

/-- **Counterexample to "the output depth never exceeds 501 frames" on the code as it is**: 600 recorded
frames, all in a JIT function classified as JS (`py::f`), hint 600: the inner iterator yields 1200 frames, the
limiter keeps 200, states 200 elided, and passes the remaining 800 on: 1001 frames, a leaf part of 800 —
while kept + stated = 1200 still holds. (Reproduced with the `samply` binary: C14 case `js600`.) -/
theorem C14_label_frames_exceed_501 :
    let infos := List.replicate 600 ({ frame := .lib "/tmp/perf-100.map" 1, js := some (.regular (.nonSelfHosted "f")) } : Info)
    let L := emitJs none infos
    L.length = 1200 ∧ (limRun 200 L 600).length = 1001 ∧
      (limRun 200 L 600)[200]? = some (Frame.elided 200) ∧ 200 + 200 + 800 = L.length ∧
      elisionOk L (limRun 200 L 600) = false ∧ elisionOkButDepth L (limRun 200 L 600) = true := by
  decide +kernel

/-- below the threshold the same happens without any elision: 300 recorded JS frames reach the profile as
600 frames -/
theorem C14_label_frames_exceed_501_shallow :
    let infos := List.replicate 300 ({ frame := .lib "/tmp/perf-100.map" 1, js := some (.regular (.nonSelfHosted "f")) } : Info)
    (limRun 200 (emitJs none infos) 300).length = 600 := by
  decide +kernel

/-- **What still holds with label frames** (the guarantee behind the reason tag `[js-label-depth]`): for every
emitted list `L` without placeholders and every hint `500 ≤ n ≤ |L|` (label frames only add frames), the
output satisfies every clause of the judged statement except the two upper bounds on the depth: placeholder at
position 200, the 200 root-most frames verbatim, at least 100 leaf-most frames verbatim, stated count positive
and kept + stated = |L|. -/
theorem C14_meets_spec_but_depth (L : List Frame) (hne : ∀ f ∈ L, isElided f = false) (n : Nat) (h : 500 ≤ n)
    (hL : n ≤ L.length) : elisionOkButDepth L (depthLimit 200 L n) = true := by
  obtain ⟨c, hs, hc, hpos, _, h1, h2, h3⟩ := C14_count n h
  have hd := (C14_elided_of_enough L n h (by rw [← hc]; omega)).1
  rw [← hc] at hd
  have h200 : (L.take 200).length = 200 := by simp; omega
  have hA : (L.take 200).findIdx? isElided = none :=
    C14_findIdx_none_of_all_false _ (fun f hf => hne f (List.mem_of_mem_take hf))
  have hfind : (L.take 200 ++ [Frame.elided c] ++ L.drop (200 + c)).findIdx? isElided = some 200 := by
    rw [List.append_assoc, List.findIdx?_append, hA]
    simp [List.findIdx?_cons, isElided, h200]
  have hget : (L.take 200 ++ [Frame.elided c] ++ L.drop (200 + c))[200]? = some (Frame.elided c) := by
    rw [List.append_assoc, List.getElem?_append_right (by omega)]
    simp [h200]
  have hdrop : (L.take 200 ++ [Frame.elided c] ++ L.drop (200 + c)).drop 201 = L.drop (200 + c) := by
    have e : (201 : Nat) = (L.take 200 ++ [Frame.elided c]).length := by simp [h200]
    rw [e, List.drop_left]
  have htake : (L.take 200 ++ [Frame.elided c] ++ L.drop (200 + c)).take 200 = L.take 200 := by
    rw [List.append_assoc, List.take_append_of_le_length (by omega)]
    exact List.take_of_length_le (by omega)
  have hlenB : (L.drop (200 + c)).length = L.length - (200 + c) := List.length_drop
  have hnlt : ¬ (L.length < 500) := by omega
  have hdd : L.drop (L.length - (L.length - (200 + c))) = L.drop (200 + c) := by
    congr 1; omega
  rw [hd]
  unfold elisionOkButDepth
  simp only [hnlt, if_false, hfind, hget, hdrop, htake, hlenB, hdd, beq_self_eq_true, Bool.true_and,
    Bool.and_eq_true, decide_eq_true_eq]
  refine ⟨⟨⟨by omega, trivial⟩, by omega⟩, hpos⟩

/-! ### The per-CPU label frame -/

/-- **The per-CPU label frame (and any single extra frame).** For hint `n ≥ 500` and an inner iterator that yields
`n` or `n + 1` frames (`n + 1`: the thread label frame of a per-CPU copy in front of `n` recorded frames), the
output meets the full judged statement (`hcd`: the call stack itself — without the thread label — has at
least 500 frames; for a per-CPU copy `callDepth L = n`). -/
theorem C14_meets_spec_one_more (L : List Frame) (hne : ∀ f ∈ L, isElided f = false) (n : Nat) (h : 500 ≤ n)
    (hL : n ≤ L.length) (hU : L.length ≤ n + 1) (hcd : 500 ≤ callDepth L) :
    elisionOk L (depthLimit 200 L n) = true := by
  obtain ⟨c, hs, hc, hpos, _, h1, h2, h3⟩ := C14_count n h
  have hd := (C14_elided_of_enough L n h (by rw [← hc]; omega)).1
  rw [← hc] at hd
  have h200 : (L.take 200).length = 200 := by simp; omega
  have hA : (L.take 200).findIdx? isElided = none :=
    C14_findIdx_none_of_all_false _ (fun f hf => hne f (List.mem_of_mem_take hf))
  have hfind : (L.take 200 ++ [Frame.elided c] ++ L.drop (200 + c)).findIdx? isElided = some 200 := by
    rw [List.append_assoc, List.findIdx?_append, hA]
    simp [List.findIdx?_cons, isElided, h200]
  have hget : (L.take 200 ++ [Frame.elided c] ++ L.drop (200 + c))[200]? = some (Frame.elided c) := by
    rw [List.append_assoc, List.getElem?_append_right (by omega)]
    simp [h200]
  have hdrop : (L.take 200 ++ [Frame.elided c] ++ L.drop (200 + c)).drop 201 = L.drop (200 + c) := by
    have e : (201 : Nat) = (L.take 200 ++ [Frame.elided c]).length := by simp [h200]
    rw [e, List.drop_left]
  have htake : (L.take 200 ++ [Frame.elided c] ++ L.drop (200 + c)).take 200 = L.take 200 := by
    rw [List.append_assoc, List.take_append_of_le_length (by omega)]
    exact List.take_of_length_le (by omega)
  have hlenB : (L.drop (200 + c)).length = L.length - (200 + c) := List.length_drop
  have hlen : (L.take 200 ++ [Frame.elided c] ++ L.drop (200 + c)).length = 201 + (L.length - (200 + c)) := by
    simp only [List.length_append, List.length_cons, List.length_nil, h200, hlenB]
  have hnlt : ¬ (callDepth L < 500) := by omega
  have hdd : L.drop (L.length - (L.length - (200 + c))) = L.drop (200 + c) := by
    congr 1; omega
  rw [hd]
  unfold elisionOk
  simp only [hnlt, if_false, hfind, hget, hdrop, htake, hlenB, hdd, beq_self_eq_true, Bool.true_and,
    Bool.and_eq_true, decide_eq_true_eq]
  rw [hlen]
  refine ⟨⟨⟨⟨⟨by omega, by omega⟩, trivial⟩, by omega⟩, by omega⟩, hpos⟩

/-- Below the threshold the per-CPU copy is one frame longer than the call stack and reaches the profile
unchanged — also at the boundary: 499 recorded frames + the thread label = 500 frames, hint 499, no
shortening. The call stack (499 frames) is shallower than the limit, so this is what the statement asks for;
the output stays within 501 frames. (An earlier version of the judge measured the depth of `label :: frames`
and demanded a shortening here: a false alarm of the check, corrected — DESIGN.md §12.3.) -/
theorem C14_percpu_below_threshold (L : List Frame) (n : Nat) (hn : n < 500) (hcd : callDepth L < 500)
    (hlen : L.length ≤ 501) : depthLimit 200 L n = L ∧ elisionOk L (depthLimit 200 L n) = true := by
  have hu := C14_unchanged L n hn
  rw [hu]
  refine ⟨rfl, ?_⟩
  simp [elisionOk, hcd, hlen]

/-- non-vacuity: the boundary case itself (thread label + 499 frames, hint 499) -/
example : let L := Frame.tlabel "t" :: (List.range 499).map Frame.raw
    callDepth L = 499 ∧ L.length = 500 ∧ elisionOk L (depthLimit 200 L 499) = true := by decide +kernel

/-! ## The observable statement: at `flushBuffer` level and over histories

The theorems above are about the limiter applied to an arbitrary frame list. What reaches the profile is
`flushBuffer`'s output: for a sample whose frames are not JS-classified the inner iterator yields exactly the
attributed frames, root first, as many as were recorded — the hint is exact — and none of them is a placeholder,
so the full judged statement `elisionOk` holds of the emitted stack against the attributed stack. -/

/-- No placeholder among the frames `convert_stack` yields (regular, raw, JS label and thread label frames only):
the hypothesis `hne` of the theorems above holds of every inner iterator the limiter is run on. -/
theorem C14_no_placeholder (extra : Option Frame) (maps pm : List MapAdd) (stack : List SFrame)
    (he : ∀ f ∈ extra.toList, isElided f = false) :
    ∀ f ∈ convertStackX extra maps pm stack, isElided f = false :=
  convertStackX_frames extra maps pm stack he

/-- exact hint, no placeholder, no thread label: the full judged statement, for every depth -/
theorem C14_meets_spec_exact (L : List Frame) (hne : ∀ f ∈ L, isElided f = false)
    (hnt : ∀ f ∈ L, isTLabel f = false) : elisionOk L (depthLimit 200 L L.length) = true := by
  by_cases h : L.length < 500
  · have := C14_iterator_meets_spec_unchanged L h
    rwa [C14_iterator_refines] at this
  · exact C14_meets_spec_elided L hne (by rw [callDepth_eq_length L hnt]; omega)

/-- **The flush meets the judged statement.** For every buffer with a queue sorted by timestamp and samples in
nondecreasing raw time (true of converter runs: `C02_run_sorted`) and every perf-map level: the output of
`flushBuffer` is, sample by sample, the depth limiter applied to the converted stack with the *recorded length* as
hint; and for every sample none of whose frames is JS-classified, the converted stack is the attributed frame
list root first (`orig`, as many frames as recorded), and the emitted stack satisfies `elisionOk orig`. -/
theorem C14_flush_meets_spec (pm : List MapAdd) (q : List (Nat × MapAdd)) (us : List USample) (hq : SortedQ q)
    (hu : us.Pairwise (fun a b => a.tmono ≤ b.tmono)) :
    flushBuffer pm [] q us = us.map (fun u => flushOne pm (tableFrom [] q u.tmono) u) ∧
    ∀ u ∈ us, (∀ f ∈ u.stack, (secondPass (tableFrom [] q u.tmono) pm f).js = none) →
      (flushOne pm (tableFrom [] q u.tmono) u).2.frames =
          depthLimit 200 ((u.stack.map (fun f => (secondPass (tableFrom [] q u.tmono) pm f).frame)).reverse)
            u.stack.length ∧
        ((u.stack.map (fun f => (secondPass (tableFrom [] q u.tmono) pm f).frame)).reverse).length = u.stack.length ∧
        elisionOk ((u.stack.map (fun f => (secondPass (tableFrom [] q u.tmono) pm f).frame)).reverse)
          (flushOne pm (tableFrom [] q u.tmono) u).2.frames = true := by
  refine ⟨flushBuffer_spec pm [] q us hq hu, ?_⟩
  intro u _ hjs
  have hconv : convertStack (tableFrom [] q u.tmono) pm u.stack =
      (u.stack.map (fun f => (secondPass (tableFrom [] q u.tmono) pm f).frame)).reverse := by
    unfold convertStack convertStackX
    simp only [Option.toList_none, List.nil_append]
    rw [emitJs_no_js]
    · simp [List.map_reverse]
    · intro i hi
      simp only [List.mem_map, List.mem_reverse] at hi
      obtain ⟨f, hf, rfl⟩ := hi
      exact hjs f hf
  have hlen : ((u.stack.map (fun f => (secondPass (tableFrom [] q u.tmono) pm f).frame)).reverse).length =
      u.stack.length := by simp
  have hfr : (flushOne pm (tableFrom [] q u.tmono) u).2.frames =
      depthLimit 200 ((u.stack.map (fun f => (secondPass (tableFrom [] q u.tmono) pm f).frame)).reverse)
        u.stack.length := by
    simp only [flushOne, hconv]; rfl
  refine ⟨hfr, hlen, ?_⟩
  rw [hfr]
  have hpl : ∀ f ∈ (u.stack.map (fun f => (secondPass (tableFrom [] q u.tmono) pm f).frame)).reverse,
      isElided f = false ∧ isTLabel f = false := by
    intro f hf
    simp only [List.mem_reverse, List.mem_map] at hf
    obtain ⟨x, _, rfl⟩ := hf
    have := plain_not_special (secondPass_plain (tableFrom [] q u.tmono) pm x)
    exact ⟨this.1, this.2.1⟩
  have := C14_meets_spec_exact _ (fun f hf => (hpl f hf).1) (fun f hf => (hpl f hf).2)
  rw [hlen] at this
  exact this

/-- **Marker stacks meet the judged statement exactly as sample stacks do** (`C14_flush_meets_spec` quantifies over
every buffered item; this is its reading for the marker items made from samples of another event,
`SampleOrMarker::MarkerHandle`). For every buffer with a time-sorted queue and items in nondecreasing raw time: the
stacks that go to `Profile::set_marker_stack` are exactly those of the buffered marker items, in buffer order, each
the depth limiter applied to the converted stack with the *recorded length* as hint — the same `flushOne` as for a
sample, nothing depends on the arm —; and for every marker item none of whose frames is JS-classified the converted
stack is the attributed frame list root first, the hint is exact and the stack attached to the marker satisfies
`elisionOk`. (A change that limits the `Sample` arm only — seeded C14-4 — makes the first conjunct false.) -/
theorem C14_marker_flush_meets_spec (pm : List MapAdd) (q : List (Nat × MapAdd)) (us : List USample)
    (hq : SortedQ q) (hu : us.Pairwise (fun a b => a.tmono ≤ b.tmono)) :
    (flushBuffer pm [] q us).filter (fun o => o.2.marker) =
      (us.filter (fun u => u.marker)).map (fun u => flushOne pm (tableFrom [] q u.tmono) u) ∧
    ∀ u ∈ us, u.marker = true →
      (flushOne pm (tableFrom [] q u.tmono) u).2.marker = true ∧
      ((∀ f ∈ u.stack, (secondPass (tableFrom [] q u.tmono) pm f).js = none) →
        (flushOne pm (tableFrom [] q u.tmono) u).2.frames =
            depthLimit 200 ((u.stack.map (fun f => (secondPass (tableFrom [] q u.tmono) pm f).frame)).reverse)
              u.stack.length ∧
          ((u.stack.map (fun f => (secondPass (tableFrom [] q u.tmono) pm f).frame)).reverse).length =
            u.stack.length ∧
          elisionOk ((u.stack.map (fun f => (secondPass (tableFrom [] q u.tmono) pm f).frame)).reverse)
            (flushOne pm (tableFrom [] q u.tmono) u).2.frames = true) := by
  obtain ⟨h1, h2⟩ := C14_flush_meets_spec pm q us hq hu
  refine ⟨?_, fun u hu' hm => ⟨hm, h2 u hu'⟩⟩
  rw [h1]
  clear h1 h2 hu
  induction us with
  | nil => rfl
  | cons u us ih =>
    have e : (flushOne pm (tableFrom [] q u.tmono) u).2.marker = u.marker := rfl
    simp only [List.map_cons, List.filter_cons, e]
    cases u.marker <;> simp [ih]

/-- the marker items of a flush carry exactly the marker stacks of the output, samples carry none: the item kind
is copied, so no marker stack is emitted as a sample and no sample stack is attached to a marker -/
theorem C14_flush_keeps_kind (pm maps : List MapAdd) (q : List (Nat × MapAdd)) (us : List USample) :
    (flushBuffer pm maps q us).map (fun o => (o.1, o.2.t, o.2.kind)) = us.map (fun u => (u.th, u.t, u.kind)) := by
  have := flushBuffer_kind pm maps q us
  have h2 := congrArg (List.map (fun x : Nat × Nat × Nat × ItemKind => (x.1, x.2.1, x.2.2.2))) this
  rw [List.map_map, List.map_map] at h2
  exact h2

/-- **Conservation of marker stacks, over histories**: for default options and *every* record history (no grammar,
ordering or context-switch hypothesis) the stacks attached to markers in the output `views (run cfg rs)`, keyed by
the pid / tid of the thread entry that carries the marker and the marker's time, are — as a multiset — exactly the
other-event samples of the history (`ConvSpec.oevs`: pid, tid, converted time): each such sample yields one marker
stack on an entry of its own thread (created on demand), none is lost when the process exits or execs, none is
duplicated, and no other record yields one. Together with `C14_marker_flush_meets_spec` (what each of these stacks
is) this is the marker half of the judged statement; the attribution of the frames over histories is
`C02_history` / `C14_history` for samples and `C14_marker_history` for markers (`ConvSpec.expectedMarkers`). -/
theorem C14_marker_conservation (cfg : Config) (rs : List Rec) (hr : cfg.reuse = false) :
    List.Perm
      ((views (run cfg rs)).flatMap (fun v => v.markers.map (fun o => (v.pidBase, v.tidBase, o.t))))
      (oevs cfg.ref rs) :=
  (views_markers_buffered cfg (run cfg rs) _ (run_sim cfg rs) hr).trans (marker_run cfg rs)

/-- in every reachable state the buffered marker items are exactly the other-event samples so far (any options) -/
theorem C14_buffered_markers (cfg : Config) (rs : List Rec) :
    List.Perm (((buffered (run cfg rs)).filter (fun u => u.marker)).map (fun u => (u.gpid, u.gtid, u.t)))
      (oevs cfg.ref rs) := marker_run cfg rs

/-- **Over histories** (with `C02_history`): for every configuration with default options and every record
history inside the hypotheses of `C02_history`, the recorded samples of `views (run cfg rs)` carry, as a multiset
keyed by (pid, tid, time), the stacks `depthLimit 200 e.frames e.nrec` of the expected samples `e`; and for every
expected sample whose declaratively attributed stack `e.frames` contains no JS label frame, the hint is exact
(`e.frames.length = e.nrec`) and that output satisfies the judged statement `elisionOk e.frames`. (With JS label
frames the known finding C14-js-label-depth applies: `C14_label_frames_exceed_501`, `C14_meets_spec_but_depth`.) -/
theorem C14_history (cfg : Config) (rs : List Rec) (hr : cfg.reuse = false)
    (hg : Life.grammarOk cfg.ref rs = true) (hcs : hasCsRec rs = false) (hsp : noSpecial rs = true)
    (hord : queuedOrdered rs = true) (hpm : ∀ pid, (loadPerfMap cfg pid).isSome = true) :
    List.Perm
      ((views (run cfg rs)).flatMap (fun v => (v.samples.filter (fun o => !o.synth)).map
        (fun o => (v.pidBase, v.tidBase, o.t, o.frames))))
      ((expectedSamples cfg rs).map
        (fun e => (e.pid, e.tid, e.t - cfg.ref, depthLimit 200 e.frames e.nrec))) ∧
    ∀ e ∈ expectedSamples cfg rs, e.frames.any isLabel = false →
      e.frames.length = e.nrec ∧ elisionOk e.frames (depthLimit 200 e.frames e.nrec) = true := by
  refine ⟨history_views cfg rs hr hg hcs hsp hord hpm, ?_⟩
  intro e he hnl
  obtain ⟨infos, h1, h2, h3⟩ := expectedSamples_go_shape cfg rs [] [] [] [] e he
  obtain ⟨a1, a2⟩ := expandJsFrom_frames [] infos h3
  have hnl' : (expandJsFrom [] infos).any isLabel = false := by rw [h1] at hnl; exact hnl
  have hlen : e.frames.length = e.nrec := by
    rw [h2, h1]; exact a2 hnl'
  refine ⟨hlen, ?_⟩
  rw [← hlen]
  refine C14_meets_spec_exact e.frames ?_ ?_
  · intro f hf; rw [h1] at hf; exact (a1 f hf).1
  · intro f hf; rw [h1] at hf; exact (a1 f hf).2

/-- **Marker stacks over histories** (the marker analogue of `C02_history` / `C14_history`): for every configuration
with default options and every record history inside the hypotheses of `C02_history`, the stacks attached to the
`Other event` markers of `views (run cfg rs)` are, as a multiset keyed by (pid, tid, time) of the thread entry and
the marker, exactly `depthLimit 200 e.frames e.nrec` of the expected markers `e` (`ConvSpec.expectedMarkers`: one per
other-event sample, attributed declaratively like a sample of that process at that time — announcement lists
inherited at FORK, dropped at EXIT / EXEC, look-ahead by timestamp, regular → perf map, `expandJs`); and for every
expected marker whose attributed stack contains no JS label frame the hint is exact and that output satisfies the
judged statement `elisionOk e.frames`. (With JS label frames the known finding C14-js-label-depth applies to marker
stacks as to sample stacks.) This is what `judgeC14` evaluates on samply's marker stacks. -/
theorem C14_marker_history (cfg : Config) (rs : List Rec) (hr : cfg.reuse = false)
    (hg : Life.grammarOk cfg.ref rs = true) (hcs : hasCsRec rs = false) (hsp : noSpecial rs = true)
    (hord : queuedOrdered rs = true) (hpm : ∀ pid, (loadPerfMap cfg pid).isSome = true) :
    List.Perm
      ((views (run cfg rs)).flatMap (fun v => v.markers.map
        (fun o => (v.pidBase, v.tidBase, o.t, o.frames))))
      ((expectedMarkers cfg rs).map
        (fun e => (e.pid, e.tid, e.t - cfg.ref, depthLimit 200 e.frames e.nrec))) ∧
    ∀ e ∈ expectedMarkers cfg rs, e.frames.any isLabel = false →
      e.frames.length = e.nrec ∧ elisionOk e.frames (depthLimit 200 e.frames e.nrec) = true := by
  refine ⟨history_markers cfg rs hr hg hcs hsp hord hpm, ?_⟩
  intro e he hnl
  obtain ⟨infos, h1, h2, h3⟩ := expectedMarkers_go_shape cfg rs [] e he
  obtain ⟨a1, a2⟩ := expandJsFrom_frames [] infos h3
  have hnl' : (expandJsFrom [] infos).any isLabel = false := by rw [h1] at hnl; exact hnl
  have hlen : e.frames.length = e.nrec := by
    rw [h2, h1]; exact a2 hnl'
  refine ⟨hlen, ?_⟩
  rw [← hlen]
  refine C14_meets_spec_exact e.frames ?_ ?_
  · intro f hf; rw [h1] at hf; exact (a1 f hf).1
  · intro f hf; rw [h1] at hf; exact (a1 f hf).2

/-- non-vacuity of `C14_marker_history`: a history inside its hypotheses (a mapping, a fork, other-event samples of
parent and child — one on a thread first seen through the other event — mixed with a main-event sample) whose expected
marker stacks carry no JS label frame -/
example :
    let rs : List Rec := [.comm 100 100 "app" false 1000, .mmap2 100 100 0x400000 0x2000 0 true "libfoo.so" 1100,
      .fork 200 200 100 100 1200, .otherEvent 200 201 1300 false 0x400100 [CTX_USER, 0x400100, 0x401000],
      .sample 100 100 1400 false 1 0x400200 [], .otherEvent 100 100 1400 false 0x400200 []]
    Life.grammarOk 1000 rs = true ∧ hasCsRec rs = false ∧ noSpecial rs = true ∧ queuedOrdered rs = true ∧
    (expectedMarkers { ref := 1000 } rs).map (fun e => (e.pid, e.tid, e.t, e.frames.any isLabel, e.frames.length, e.nrec)) =
      [(200, 201, 1300, false, 2, 2), (100, 100, 1400, false, 1, 1)] := by decide

/-- non-vacuity of `C14_history`: a history inside its hypotheses (a mapping, a fork, samples of parent and child)
whose expected stacks carry no JS label frame -/
example :
    let rs : List Rec := [.comm 100 100 "app" false 1000, .mmap2 100 100 0x400000 0x2000 0 true "libfoo.so" 1100,
      .fork 200 200 100 100 1200, .sample 200 200 1300 false 1 0x400100 [CTX_USER, 0x400100, 0x401000],
      .sample 100 100 1400 false 1 0x400200 []]
    Life.grammarOk 1000 rs = true ∧ hasCsRec rs = false ∧ noSpecial rs = true ∧ queuedOrdered rs = true ∧
    (expectedSamples { ref := 1000 } rs).map (fun e => (e.frames.any isLabel, e.frames.length, e.nrec)) =
      [(false, 2, 2), (false, 1, 1)] := by decide

/-- non-vacuity of `C14_marker_flush_meets_spec`: a buffer with a sample and a marker item of 600 recorded frames
each; the marker stack that reaches the profile has 401 frames with the placeholder `(200 frames elided)` at
position 200, and the judged statement holds of it -/
example :
    let stack : List SFrame := (List.range 600).map (fun i => SFrame.ret (0x10000 + 16 * i + 8) false)
    let us : List USample := [{ th := 0, t := 0, tmono := 5, cpu := 0, stack := stack },
                              { th := 0, t := 1, tmono := 6, cpu := 0, weight := 0, kind := .marker, stack := stack }]
    ((flushBuffer [] [] [] us).filter (fun o => o.2.marker)).map
        (fun o => (o.2.t, o.2.frames.length, o.2.frames[200]?)) = [(1, 401, some (Frame.elided 200))] ∧
    ((flushBuffer [] [] [] us).filter (fun o => o.2.marker)).all
        (fun o => elisionOk ((stack.map (fun f => (secondPass [] [] f).frame)).reverse) o.2.frames) = true := by
  decide +kernel
