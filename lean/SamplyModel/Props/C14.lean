import SamplyModel.Model.ConvSpec
import SamplyModel.Lemmas.DepthIter
/-!
# C14 — deep stacks are shortened only in the middle, with an exact elision count

Model: `Conv.depthLimit` (`Model/ConvFlush.lean`) follows `StackDepthLimitingFrameIter` run to completion
on the list `L` of frames the inner iterator yields, with length hint `n` (N = 200). The hint is the
length of the raw stack slice: it equals `|L|` unless the slice contains a truncated-stack marker
(`|L| = n − 1`) or an extra label frame is prepended (`|L| = n + 1`).
-/
open Conv ConvSpec

/-- shallower than 500 (by the hint): the stack reaches the profile unchanged -/
theorem C14_unchanged (L : List Frame) (n : Nat) (h : n < 500) : depthLimit 200 L n = L := by
  unfold depthLimit shouldElide
  have : ¬ (n ≥ 200 + 200 + 200 / 2) := by omega
  simp [this]

/-- the elision count for hint `n ≥ 500`: a positive multiple of 200 that leaves 100…299 of the hinted
frames after the kept root part -/
theorem C14_count (n : Nat) (h : 500 ≤ n) :
    ∃ c, shouldElide 200 n = some (200, c) ∧ c = (n - 300) / 200 * 200 ∧ 0 < c ∧ c % 200 = 0 ∧
      100 ≤ n - 200 - c ∧ n - 200 - c < 300 ∧ 200 + c ≤ n := by
  refine ⟨(n - 300) / 200 * 200, ?_, rfl, ?_, ?_, ?_, ?_, ?_⟩
  · unfold shouldElide
    have : n ≥ 200 + 200 + 200 / 2 := by omega
    simp [this]
    omega
  all_goals omega

/-- deep stacks: 200 root-most frames, one placeholder stating exactly how many frames were removed, and the
rest of the stack; holds whenever the inner iterator yields at least `200 + c` frames (always the case when
`n ≤ |L| + 1`, i.e. at most one truncated-stack marker) -/
theorem C14_elided (L : List Frame) (n : Nat) (h : 500 ≤ n) (hL : n ≤ L.length + 1) :
    ∃ c, c = (n - 300) / 200 * 200 ∧
      depthLimit 200 L n = L.take 200 ++ [Frame.elided c] ++ L.drop (200 + c) ∧
      (L.take 200).length = 200 ∧ (L.drop (200 + c)).length + 200 + c = L.length := by
  obtain ⟨c, hs, hc, hpos, _, h1, h2, h3⟩ := C14_count n h
  refine ⟨c, hc, ?_, ?_, ?_⟩
  · unfold depthLimit
    rw [hs]
    have a1 : ¬ (L.length < 200) := by omega
    have a2 : ¬ (L.length < 200 + c) := by omega
    simp [a1, a2]
  · simp; omega
  · simp; omega

/-- kept frames plus stated elided frames equal the original depth; the output never exceeds 501 frames
and keeps 100 to 300 leaf-most frames, when the hint is exact or counts one extra label frame less
(`|L| = n` or `|L| = n + 1`); with a truncated-stack marker (`|L| = n − 1`) the leaf part can be 99 -/
theorem C14_bounds (L : List Frame) (n : Nat) (h : 500 ≤ n) (hL : n ≤ L.length + 1) (hU : L.length ≤ n + 1) :
    ∃ c, depthLimit 200 L n = L.take 200 ++ [Frame.elided c] ++ L.drop (200 + c) ∧
      200 + c + (L.drop (200 + c)).length = L.length ∧
      (depthLimit 200 L n).length ≤ 501 ∧
      99 ≤ (L.drop (200 + c)).length ∧ (L.drop (200 + c)).length ≤ 300 ∧
      (n ≤ L.length → 100 ≤ (L.drop (200 + c)).length) := by
  obtain ⟨c, hc, hd, h200, hsum⟩ := C14_elided L n h hL
  obtain ⟨c', hs, hc', hpos, _, h1, h2, h3⟩ := C14_count n h
  have : c = c' := by rw [hc, hc']
  subst this
  refine ⟨c, hd, by omega, ?_, ?_, ?_, ?_⟩
  · rw [hd]; simp only [List.length_append, List.length_cons, List.length_nil]; rw [h200]; omega
  all_goals (have := hsum; omega)

/-- when the inner iterator runs dry while the elided piece is being skipped (possible only if the hint
overstates the length by more than the leaf part), the frame already taken is dropped and the stack ends:
the model follows the `?` in the skipping loop -/
theorem C14_dry_while_skipping (L : List Frame) (n c : Nat) (hs : shouldElide 200 n = some (200, c))
    (h1 : 200 ≤ L.length) (h2 : L.length < 200 + c) : depthLimit 200 L n = L.take 199 := by
  unfold depthLimit
  rw [hs]
  have a1 : ¬ (L.length < 200) := by omega
  simp [a1, h2]

/-! ### Non-vacuity -/
example : shouldElide 200 499 = none ∧ shouldElide 200 500 = some (200, 200) ∧
    shouldElide 200 699 = some (200, 200) ∧ shouldElide 200 700 = some (200, 400) := by decide
example : (depthLimit 200 ((List.range 500).map Frame.raw) 500).length = 301 := by decide +kernel
example : ConvSpec.elisionOk ((List.range 700).map Frame.raw) (depthLimit 200 ((List.range 700).map Frame.raw) 700) = true := by
  decide +kernel

/-! ### The iterator itself

`Model/DepthIter.lean` transcribes `StackDepthLimitingFrameIter` as the three-state machine it is
(`BeforeElidedPiece` / `AtElidedPiece` / `NoMoreElision`, including the skipping loop whose `?` drops the
frame already taken when the inner iterator runs dry); running it to completion gives exactly the closed
form the theorems above are about, for every frame list and every hint. -/
theorem C14_iterator_refines (L : List Frame) (n : Nat) : limRun 200 L n = depthLimit 200 L n :=
  limRun_eq_depthLimit 200 (by decide) L n

/-- The judged statement holds of the iterator's output whenever the hint is exact and the original frames
contain no placeholder: `elisionOk` is what `ConvJudge.judgeC14` evaluates on samply's own output. -/
theorem C14_iterator_meets_spec_unchanged (L : List Frame) (h : L.length < 500) :
    ConvSpec.elisionOk L (limRun 200 L L.length) = true := by
  rw [C14_iterator_refines, C14_unchanged L L.length h]
  simp [ConvSpec.elisionOk, h]

theorem C14_findIdx_none_of_all_false (l : List Frame) (h : ∀ f ∈ l, isElided f = false) : l.findIdx? isElided = none := by
  rw [List.findIdx?_eq_none_iff]
  intro f hf; simp [h f hf]

/-- **The judged statement holds of the model's output, deep stacks**: for every original stack of at least
500 frames (none of which is itself a placeholder) and an exact hint, the output of the depth limiter is an
admissible shortening in the sense of `ConvSpec.elisionOk` — 200 root frames verbatim, one placeholder whose
count is exactly the number of removed frames, 100–300 leaf frames verbatim, at most 501 frames. -/
theorem C14_meets_spec_elided (L : List Frame) (hne : ∀ f ∈ L, isElided f = false) (h : 500 ≤ L.length) :
    elisionOk L (depthLimit 200 L L.length) = true := by
  obtain ⟨c, hc, hd, h200, hsum⟩ := C14_elided L L.length h (by omega)
  obtain ⟨c', hs, hc', hpos, _, h1, h2, h3⟩ := C14_count L.length h
  have hcc : c = c' := by rw [hc, hc']
  subst hcc
  have hA : (L.take 200).findIdx? isElided = none :=
    C14_findIdx_none_of_all_false _ (fun f hf => hne f (List.mem_of_mem_take hf))
  have hfind : (L.take 200 ++ [Frame.elided c] ++ L.drop (200 + c)).findIdx? isElided = some 200 := by
    rw [List.append_assoc, List.findIdx?_append, hA]
    simp [List.findIdx?_cons, isElided, h200]
  have hget : (L.take 200 ++ [Frame.elided c] ++ L.drop (200 + c))[200]? = some (Frame.elided c) := by
    rw [List.append_assoc, List.getElem?_append_right (by omega)]
    simp [h200]
  have hdrop : (L.take 200 ++ [Frame.elided c] ++ L.drop (200 + c)).drop 201 = L.drop (200 + c) := by
    have e : (201 : Nat) = (L.take 200 ++ [Frame.elided c]).length := by simp [h200]
    rw [e, List.drop_left]
  have htake : (L.take 200 ++ [Frame.elided c] ++ L.drop (200 + c)).take 200 = L.take 200 := by
    rw [List.append_assoc, List.take_append_of_le_length (by omega)]
    exact List.take_of_length_le (by omega)
  have hlenB : (L.drop (200 + c)).length = L.length - (200 + c) := List.length_drop
  have hlen : (L.take 200 ++ [Frame.elided c] ++ L.drop (200 + c)).length = 201 + (L.length - (200 + c)) := by
    simp only [List.length_append, List.length_cons, List.length_nil, h200, hlenB]
  have hnlt : ¬ (L.length < 500) := by omega
  have hdd : L.drop (L.length - (L.length - (200 + c))) = L.drop (200 + c) := by
    congr 1; omega
  rw [hd]
  unfold elisionOk
  simp only [hnlt, if_false, hfind, hget, hdrop, htake, hlenB, hdd, beq_self_eq_true, Bool.true_and,
    Bool.and_eq_true, decide_eq_true_eq]
  rw [hlen]
  clear hc hc' hs hd hfind hget hdrop htake hlen hdd hA hlenB hsum
  have hb : L.length - (200 + c) + (200 + c) = L.length := Nat.sub_add_cancel h3
  have e1 : L.length - 200 - c = L.length - (200 + c) := by omega
  rw [e1] at h1 h2
  generalize L.length - (200 + c) = b at *
  refine ⟨⟨⟨⟨⟨h1, by omega⟩, trivial⟩, by omega⟩, by omega⟩, hpos⟩
