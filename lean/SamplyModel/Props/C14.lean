import SamplyModel.Model.ConvSpec
/-!
# C14 — deep stacks are shortened only in the middle, with an exact elision count

Model: `Conv.depthLimit` (`Model/ConvFlush.lean`) follows `StackDepthLimitingFrameIter` run to completion
on the list `L` of frames the inner iterator yields, with length hint `n` (N = 200). The hint is the
length of the raw stack slice: it equals `|L|` unless the slice contains a truncated-stack marker
(`|L| = n − 1`) or an extra label frame is prepended (`|L| = n + 1`).
-/
open Conv

/-- shallower than 500 (by the hint): the stack reaches the profile unchanged -/
theorem C14_unchanged (L : List Frame) (n : Nat) (h : n < 500) : depthLimit 200 L n = L := by
  unfold depthLimit shouldElide
  have : ¬ (n ≥ 200 + 200 + 200 / 2) := by omega
  simp [this]

/-- the elision count for hint `n ≥ 500`: a positive multiple of 200 that leaves 100…299 of the hinted
frames after the kept root part -/
theorem C14_count (n : Nat) (h : 500 ≤ n) :
    ∃ c, shouldElide 200 n = some (200, c) ∧ c = (n - 300) / 200 * 200 ∧ 0 < c ∧ c % 200 = 0 ∧
      100 ≤ n - 200 - c ∧ n - 200 - c < 300 ∧ 200 + c ≤ n := by
  refine ⟨(n - 300) / 200 * 200, ?_, rfl, ?_, ?_, ?_, ?_, ?_⟩
  · unfold shouldElide
    have : n ≥ 200 + 200 + 200 / 2 := by omega
    simp [this]
    omega
  all_goals omega

/-- deep stacks: 200 root-most frames, one placeholder stating exactly how many frames were removed, and the
rest of the stack; holds whenever the inner iterator yields at least `200 + c` frames (always the case when
`n ≤ |L| + 1`, i.e. at most one truncated-stack marker) -/
theorem C14_elided (L : List Frame) (n : Nat) (h : 500 ≤ n) (hL : n ≤ L.length + 1) :
    ∃ c, c = (n - 300) / 200 * 200 ∧
      depthLimit 200 L n = L.take 200 ++ [Frame.elided c] ++ L.drop (200 + c) ∧
      (L.take 200).length = 200 ∧ (L.drop (200 + c)).length + 200 + c = L.length := by
  obtain ⟨c, hs, hc, hpos, _, h1, h2, h3⟩ := C14_count n h
  refine ⟨c, hc, ?_, ?_, ?_⟩
  · unfold depthLimit
    rw [hs]
    have a1 : ¬ (L.length < 200) := by omega
    have a2 : ¬ (L.length < 200 + c) := by omega
    simp [a1, a2]
  · simp; omega
  · simp; omega

/-- kept frames plus stated elided frames equal the original depth; the output never exceeds 501 frames
and keeps 100 to 300 leaf-most frames, when the hint is exact or counts one extra label frame less
(`|L| = n` or `|L| = n + 1`); with a truncated-stack marker (`|L| = n − 1`) the leaf part can be 99 -/
theorem C14_bounds (L : List Frame) (n : Nat) (h : 500 ≤ n) (hL : n ≤ L.length + 1) (hU : L.length ≤ n + 1) :
    ∃ c, depthLimit 200 L n = L.take 200 ++ [Frame.elided c] ++ L.drop (200 + c) ∧
      200 + c + (L.drop (200 + c)).length = L.length ∧
      (depthLimit 200 L n).length ≤ 501 ∧
      99 ≤ (L.drop (200 + c)).length ∧ (L.drop (200 + c)).length ≤ 300 ∧
      (n ≤ L.length → 100 ≤ (L.drop (200 + c)).length) := by
  obtain ⟨c, hc, hd, h200, hsum⟩ := C14_elided L n h hL
  obtain ⟨c', hs, hc', hpos, _, h1, h2, h3⟩ := C14_count n h
  have : c = c' := by rw [hc, hc']
  subst this
  refine ⟨c, hd, by omega, ?_, ?_, ?_, ?_⟩
  · rw [hd]; simp only [List.length_append, List.length_cons, List.length_nil]; rw [h200]; omega
  all_goals (have := hsum; omega)

/-- when the inner iterator runs dry while the elided piece is being skipped (possible only if the hint
overstates the length by more than the leaf part), the frame already taken is dropped and the stack ends:
the model follows the `?` in the skipping loop -/
theorem C14_dry_while_skipping (L : List Frame) (n c : Nat) (hs : shouldElide 200 n = some (200, c))
    (h1 : 200 ≤ L.length) (h2 : L.length < 200 + c) : depthLimit 200 L n = L.take 199 := by
  unfold depthLimit
  rw [hs]
  have a1 : ¬ (L.length < 200) := by omega
  simp [a1, h2]

/-! ### Non-vacuity -/
example : shouldElide 200 499 = none ∧ shouldElide 200 500 = some (200, 200) ∧
    shouldElide 200 699 = some (200, 200) ∧ shouldElide 200 700 = some (200, 400) := by decide
example : (depthLimit 200 ((List.range 500).map Frame.raw) 500).length = 301 := by decide +kernel
example : ConvSpec.elisionOk ((List.range 700).map Frame.raw) (depthLimit 200 ((List.range 700).map Frame.raw) 700) = true := by
  decide +kernel
