import SamplyModel.Lemmas.PanicKernels
/-!
# C08 — no request and no Breakpad symbol file can crash the symbolication API  (**partial**)

Model: `SamplyModel/Model/PanicKernels.lean`. C08 is a robustness property over three request parsers,
the Breakpad parsers and several third-party crates. A theorem can carry only the **arithmetic /
slicing kernels where a panic can originate in samply's own code**; each kernel is a total function
`… → ok v | err e | panic` in which every overflow / underflow / out-of-range or off-boundary slice /
`unwrap` / `assert!` of the Rust code (debug profile) is an explicit `panic` outcome. The theorems below
say that no kernel reaches `panic` (or `stuck`, for the decode loop), for **every** input, with no bound
on sizes. Everything else (serde_json, nom, object, yaxpeax, debugid, uuid, the glue between the
kernels) is *not* covered by these theorems; it is exercised by the exploration harness
(`harness/src/bin/c08.rs`) whose outcome lines are judged by `C08.judge`.

Hypotheses that appear, and why they are legitimate:
* `DecContract` — contract of the third-party instruction decoders (`C08_kernels_total_decode`);
* `BsOk` — the documented range of `binary_search_by_key` results (`…_lookup`);
* `asciiFollow` / `utf8Shape` — `&str` is valid UTF-8 by Rust's type invariant (`…_special_path`);
* size bounds `… ≤ u64Max` / "serialized index below 4 GiB" (`…_linebuffer`, `…_symindex_layout`) — the
  latter is an excluded region that cannot be exercised (≥ 2^28 records), see notes/C08.md.

The three repaired defects are kept as `…Legacy` kernels with `decide`-checked witnesses
(`C08_legacy_*`) on the inputs recorded in KNOWN_FINDINGS.txt.
Only property theorems (names `C08_*`) and non-vacuity examples live in this file.
-/
open PK

/-! ### The kernels that need no hypothesis at all -/

/-- `/asm/v1` length arithmetic (asm/mod.rs:101-146): continuation `function_end − start`, alignment
mask, padded read length — never panics, for any start / size / flag / function end / architecture. -/
theorem C08_kernels_total_asm (arch : Arch) (start size : Nat) (cont : Bool) (fe : Option Nat) :
    asmPlan arch start size cont fe ≠ .panic :=
  asmPlan_ne_panic arch start size cont fe

/-- value-level: the plan never shortens the request, stays in `u32`, and the aligned start is not
above the requested one. -/
theorem C08_asm_plan_bounds (arch : Arch) (start size : Nat) (cont : Bool) (fe : Option Nat)
    (hs : size ≤ u32Max) (hf : ∀ e, fe = some e → e ≤ u32Max) :
    ∃ p, asmPlan arch start size cont fe = .ok p ∧ p.rel ≤ start ∧ size ≤ p.len ∧ p.len ≤ u32Max ∧
      p.readLen ≤ u32Max ∧ p.len ≤ p.readLen := by
  obtain ⟨len, h, h1, h2⟩ := asmDisassemblyLen_spec start size cont fe
  refine ⟨⟨relAddress arch start, len, saturatingAddU32 len 15⟩, by simp [asmPlan, h],
    relAddress_le arch start, h1, ?_, ?_, ?_⟩
  · show len ≤ u32Max
    rcases h2 with h2 | ⟨e, he, _, h2⟩
    · omega
    · have := hf e he; omega
  · show saturatingAddU32 len 15 ≤ u32Max
    simp only [saturatingAddU32]; split <;> omega
  · show len ≤ saturatingAddU32 len 15
    have hl : len ≤ u32Max := by
      rcases h2 with h2 | ⟨e, he, _, h2⟩
      · omega
      · have := hf e he; omega
    simp only [saturatingAddU32]; split <;> omega

/-- `CodeId::from_str`, `PeCodeId::from_str`, `ElfBuildId::from_str` (shared.rs:185-283) on arbitrary
byte strings (so in particular on every UTF-8 string, multi-byte characters at any offset). -/
theorem C08_kernels_total_codeid (s : List UInt8) :
    codeIdFromStr s ≠ .panic ∧ peCodeIdFromStr s ≠ .panic ∧ elfBuildIdFromStr s ≠ .panic :=
  ⟨codeIdFromStr_ne_panic s, peCodeIdFromStr_ne_panic s, elfBytes_ne_panic s 0 _⟩

/-- what `PeCodeId::from_str` accepts: 9..16 bytes, a character boundary at byte 8, and both halves
parse as `u32` in base 16 (an optional leading `+` included, as `from_str_radix` has it). -/
theorem C08_pecodeid_accepts (s : List UInt8) (t z : Nat) :
    peCodeIdFromStr s = .ok (t, z) ↔
      (9 ≤ s.length ∧ s.length ≤ 16 ∧
        ∃ a b, strGet s 0 8 = some a ∧ strGet s 8 s.length = some b ∧
          fromStrRadix16 u32Max a = some t ∧ fromStrRadix16 u32Max b = some z) :=
  peCodeIdFromStr_ok_iff s t z

/-- Breakpad `hex_str::<u32>` / `hex_str::<u64>` / `decimal_u32` (index.rs:841-896): no overflow of the
accumulators, `&input[k..]` in range; values fit the declared type. -/
theorem C08_kernels_total_numbers (input : List UInt8) :
    hexStr 32 input ≠ .panic ∧ hexStr 64 input ≠ .panic ∧ decimalU32 input ≠ .panic ∧
    (∀ rest v, hexStr 32 input = .ok (rest, v) → v ≤ u32Max) ∧
    (∀ rest v, hexStr 64 input = .ok (rest, v) → v ≤ u64Max) ∧
    (∀ rest v, decimalU32 input = .ok (rest, v) → v ≤ u32Max) :=
  ⟨hexStr_ne_panic 32 input, hexStr_ne_panic 64 input, decimalU32_ne_panic input,
   fun r v h => hexStr32_lt input r v h, fun r v h => hexStr64_lt input r v h,
   fun r v h => decimalU32_le input r v h⟩

/-- `BreakpadIndex::parse_symindex_file` (index.rs:40-164) on arbitrary file contents and for either
outcome of the module-info line parsers: header read, `checked_mul`s, range reads and the
`from_bytes(..).unwrap()`s never panic. -/
theorem C08_kernels_total_symindex (data : List UInt8) (modInfoOk : Bool) :
    parseSymindex data modInfoOk ≠ .panic :=
  parseSymindex_ne_panic data modInfoOk

/-- `from_prefixed_hex_str` (hex.rs:23-37). -/
theorem C08_kernels_total_prefixed_hex (s : List UInt8) : fromPrefixedHexStr s ≠ .panic :=
  fromPrefixedHexStr_ne_panic s

/-- one FUNC / PUBLIC / line / INLINE record with arbitrary number tokens, looked up at any address
(symbol_map.rs:286-371 after 5b75774e, index.rs:802-837): FUNC end in `u64`, inlinee `checked_add`,
`Err(i) => i - 1` index arithmetic. -/
theorem C08_kernels_total_breakpad_records (t1 t2 t3 t4 : List UInt8) (addr : Nat) :
    bpFunc false t1 t2 addr ≠ .panic ∧ bpPublic t1 addr ≠ .panic ∧
    bpLine t1 t2 t3 t4 addr ≠ .panic ∧ bpInline t1 t2 t3 addr ≠ .panic :=
  ⟨bpFunc_ne_panic t1 t2 addr, bpPublic_ne_panic t1 addr, bpLine_ne_panic t1 t2 t3 t4 addr,
   bpInline_ne_panic t1 t2 t3 addr⟩

/-- all hypothesis-free kernels at once -/
theorem C08_kernels_total (arch : Arch) (start size addr : Nat) (cont flag : Bool) (fe : Option Nat)
    (s t1 t2 t3 t4 : List UInt8) :
    asmPlan arch start size cont fe ≠ .panic ∧ codeIdFromStr s ≠ .panic ∧ peCodeIdFromStr s ≠ .panic ∧
    elfBuildIdFromStr s ≠ .panic ∧ hexStr 32 s ≠ .panic ∧ hexStr 64 s ≠ .panic ∧ decimalU32 s ≠ .panic ∧
    parseSymindex s flag ≠ .panic ∧ fromPrefixedHexStr s ≠ .panic ∧
    bpFunc false t1 t2 addr ≠ .panic ∧ bpPublic t1 addr ≠ .panic ∧
    bpLine t1 t2 t3 t4 addr ≠ .panic ∧ bpInline t1 t2 t3 addr ≠ .panic :=
  ⟨asmPlan_ne_panic _ _ _ _ _, codeIdFromStr_ne_panic s, peCodeIdFromStr_ne_panic s,
   elfBytes_ne_panic s 0 _, hexStr_ne_panic 32 s, hexStr_ne_panic 64 s, decimalU32_ne_panic s,
   parseSymindex_ne_panic s flag, fromPrefixedHexStr_ne_panic s, bpFunc_ne_panic t1 t2 addr,
   bpPublic_ne_panic t1 addr, bpLine_ne_panic t1 t2 t3 t4 addr, bpInline_ne_panic t1 t2 t3 addr⟩

/-! ### Kernels under a stated contract -/

/-- the `/asm/v1` decode loop (asm/mod.rs:357-431) over at most `u32::MAX` bytes, for any decoder that
honours `DecContract`: neither a panic (`offset as usize` slicing, `after − before`, `offset += …`) nor
an endless loop; the reported size is at most `bytes.len() + adjust`. -/
theorem C08_kernels_total_decode (dec : List UInt8 → Dec) (adjust : Nat) (bytes : List UInt8)
    (decodeLen : Nat) (hc : DecContract dec adjust) (ha : 1 ≤ adjust) (hb : bytes.length ≤ u32Max) :
    ∃ sz, decodeLoop dec adjust bytes decodeLen 0 0 0 = .done sz ∧ sz ≤ bytes.length + adjust :=
  decodeLoop_done dec adjust bytes decodeLen hc ha hb 0 0 0 rfl (Nat.zero_le _)

/-- Breakpad lookups for any symbol table / inlinee list / line list, any binary-search result inside
the documented range (the table need not be sorted: a stale or corrupted `.symindex`). -/
theorem C08_kernels_total_lookup (r : BsRes) (addrs : List Nat) (inls : List Inlinee)
    (size addr depth nLines : Nat) (ha : ∀ a ∈ addrs, a ≤ u32Max) (hs : size ≤ u32Max) :
    (BsOk r addrs.length → funcLookup r addrs size addr ≠ .panic ∧ publicLookup r addrs ≠ .panic) ∧
    (BsOk r inls.length → inlineeAt r inls depth addr ≠ .panic) ∧
    (BsOk r nLines → sourcelocAt r nLines ≠ .panic) :=
  ⟨fun h => ⟨funcLookup_ne_panic r addrs size addr h ha hs, publicLookup_ne_panic r addrs h⟩,
   fun h => inlineeAt_ne_panic r inls depth addr h, fun h => sourcelocAt_ne_panic r nLines h⟩

/-- `LineBuffer` (index.rs:702-750): any file delivered in any chunks (total below 2^64 bytes) — the
`assert!`, `current_offset − leftover.len()` and the offset additions never fail. -/
theorem C08_kernels_total_linebuffer (chunks : List (List UInt8)) (h : totalLen chunks ≤ u64Max) :
    lbRun LB.init chunks ≠ .panic :=
  lbRun_ne_panic chunks LB.init (Nat.le_refl _) (by simpa [LB.init] using h)

/-- `serialize_to_bytes` layout arithmetic (index.rs:166-182) — **only** while the serialized index
stays below 4 GiB; beyond that (`≥ 2^28` FILE / INLINE_ORIGIN / symbol records) the `u32` products
overflow, see `C08_symindex_layout_excluded`. -/
theorem C08_kernels_total_symindex_layout_partial (m f i s : Nat)
    (hfit : 48 + (m + 3) + 16 * f + 16 * i + 20 * s ≤ u32Max) : symindexLayout m f i s ≠ .panic :=
  symindexLayout_ne_panic m f i s hfit

/-- the excluded region is real: 2^28 FILE records overflow `file_count * 16`. -/
theorem C08_symindex_layout_excluded : symindexLayout 70 268435456 0 0 = .panic := by decide

/-- special-path parsing (mapped_path.rs:114-189) of any string in which no continuation byte follows
an ASCII byte: the slices around `rfind('-')` are on character boundaries. -/
theorem C08_kernels_total_special_path (s : List UInt8) (h : asciiFollow s = true) :
    specialPath s ≠ .panic ∧ cargoSplit s ≠ .panic :=
  ⟨specialPath_ne_panic s h, cargoSplit_ne_panic s h⟩

/-- … which holds for every string of UTF-8 shape, hence for every Rust `&str`. -/
theorem C08_utf8_gives_ascii_follow (s : List UInt8) (h : utf8Shape s = true) : asciiFollow s = true :=
  utf8Shape_asciiFollow s h

/-! ### The three repaired defects: the pre-fix kernels panic on the recorded inputs -/

/-- b11d9ebc: `/asm/v1` with `"size":"0xfffffff8"` — `disassembly_len + 15` overflowed `u32`. -/
theorem C08_legacy_asm_size_overflow :
    asmPlanLegacy .other 0x17a20 0xfffffff8 false none = .panic ∧
    (asmPlan .other 0x17a20 0xfffffff8 false none).isPanic = false := by decide

/-- 75146a25: codeId `"1234567éA"` (`&s[..8]` inside `é`) and `"0123456789abcdef0éé"`
(`&s[16..18]` inside `é`) — the repaired parsers return an error instead. -/
theorem C08_legacy_codeid_char_boundary :
    codeIdFromStrLegacy [0x31, 0x32, 0x33, 0x34, 0x35, 0x36, 0x37, 0xC3, 0xA9, 0x41] = .panic ∧
    codeIdFromStrLegacy [0x30, 0x31, 0x32, 0x33, 0x34, 0x35, 0x36, 0x37, 0x38, 0x39, 0x61, 0x62, 0x63,
      0x64, 0x65, 0x66, 0x30, 0xC3, 0xA9, 0xC3, 0xA9] = .panic ∧
    codeIdFromStr [0x31, 0x32, 0x33, 0x34, 0x35, 0x36, 0x37, 0xC3, 0xA9, 0x41] = .err () ∧
    codeIdFromStr [0x30, 0x31, 0x32, 0x33, 0x34, 0x35, 0x36, 0x37, 0x38, 0x39, 0x61, 0x62, 0x63,
      0x64, 0x65, 0x66, 0x30, 0xC3, 0xA9, 0xC3, 0xA9] = .err () := by decide

/-- 5b75774e: `FUNC ffffff00 200 0 f`, lookup of `0xffffff10` — `symbol_address + size` overflowed
`u32`; the repaired lookup answers with the symbol. -/
theorem C08_legacy_func_end_overflow :
    bpFunc true [0x66, 0x66, 0x66, 0x66, 0x66, 0x66, 0x30, 0x30] [0x32, 0x30, 0x30] 0xffffff10 = .panic ∧
    bpFunc false [0x66, 0x66, 0x66, 0x66, 0x66, 0x66, 0x30, 0x30] [0x32, 0x30, 0x30] 0xffffff10
      = .ok (some (0xffffff00, 0x200)) := by decide

/-- what dropping one `checked_mul` in `parse_symindex_file` would do: `count * 16` in `u32`. -/
theorem C08_symindex_unchecked_mul_panics :
    readSectionUnchecked [] 268435456 16 0 .couldntReadFileList = .panic ∧
    readSection [] 268435456 16 0 .fileListOverflow .couldntReadFileList = .err .fileListOverflow := by
  decide

/-! ### Non-vacuity: the contracts are satisfiable by non-trivial inputs, and the kernels compute the
values the repository's own tests expect -/

/-- a toy 4-byte-instruction decoder (first byte 0 = invalid) satisfies the contract with `adjust = 4` -/
def C08_toyDec (s : List UInt8) : Dec :=
  if s.length < 4 then .exhausted else if s.head? = some 0 then .invalid else .ok 4

example : DecContract C08_toyDec 4 := by
  constructor
  · intro s n h
    unfold C08_toyDec at h
    split at h
    · cases h
    · split at h
      · cases h
      · injection h with h; omega
  · intro s h
    unfold C08_toyDec at h
    split at h
    · cases h
    · omega

example : BsOk (bsearch1 0x1130 0x1140) 1 ∧ BsOk (.notFound 3) 3 := by decide
example : asciiFollow [0x61, 0x2D, 0xC3, 0xA9, 0x2D, 0x31] = true
    ∧ utf8Shape [0x61, 0x2D, 0xC3, 0xA9, 0x2D, 0x31] = true := by decide
-- shared.rs tests: "63C036DBA7000" is a PeCodeId with timestamp 0x63C036DB and image size 0xA7000
example : codeIdFromStr [0x36, 0x33, 0x43, 0x30, 0x33, 0x36, 0x44, 0x42, 0x41, 0x37, 0x30, 0x30, 0x30]
    = .ok (.pe 0x63C036DB 0xA7000) := by decide
-- hex.rs / request_json.rs test: "0x1d04742" = 30426946
example : fromPrefixedHexStr [0x30, 0x78, 0x31, 0x64, 0x30, 0x34, 0x37, 0x34, 0x32] = .ok 30426946 := by
  decide
-- index.rs func_parsing test: FUNC 1130 28, lookup inside and at the end
example : bpFunc false [0x31, 0x31, 0x33, 0x30] [0x32, 0x38] 0x1157 = .ok (some (0x1130, 0x28))
    ∧ bpFunc false [0x31, 0x31, 0x33, 0x30] [0x32, 0x38] 0x1158 = .ok none := by decide
-- asm_with_continue test: start 0x51fd1 (thumb bit), size 8, function end beyond → aligned start, longer len
example : asmPlan .arm 0x51fd1 8 true (some 0x52001) = .ok ⟨0x51fd0, 0x30, 0x3f⟩ := by decide
