import SamplyModel.Lemmas.PanicKernels
import SamplyModel.Lemmas.C08Tied
import SamplyModel.Lemmas.BreakpadServe
import SamplyModel.Lemmas.JsonText
import SamplyModel.Lemmas.SymindexBridge
import SamplyModel.Props.C10
import SamplyModel.Props.C07
/-!
# C08 — no request and no Breakpad symbol file can crash the symbolication API  (**partial**)

Model: `SamplyModel/Model/PanicKernels.lean`. C08 is a robustness property over three request parsers,
the Breakpad parsers and several third-party crates. A theorem can carry only the **arithmetic /
slicing kernels where a panic can originate in samply's own code**; each kernel is a total function
`… → ok v | err e | panic` in which every overflow / underflow / out-of-range or off-boundary slice /
`unwrap` / `assert!` of the Rust code (debug profile) is an explicit `panic` outcome. The theorems below
say that no kernel reaches `panic` (or `stuck`, for the decode loop), for **every** input, with no bound
on sizes. Everything else (serde_json, nom, object, yaxpeax, debugid, uuid, the glue between the
kernels) is *not* covered by these theorems; it is exercised by the exploration harness
(`harness/src/bin/c08.rs`) whose outcome lines are judged by `C08.judge`.

Hypotheses that appear, and why they are legitimate:
* `DecContract` — contract of the third-party instruction decoders (`C08_kernels_total_decode`);
* `BsOk` — the documented range of `binary_search_by_key` results (`…_lookup`);
* `asciiFollow` / `utf8Shape` — `&str` is valid UTF-8 by Rust's type invariant (`…_special_path`);
* size bounds `… ≤ u64Max` / "serialized index below 4 GiB" (`…_linebuffer`, `…_symindex_layout`) — the
  latter is an excluded region that cannot be exercised (≥ 2^28 records), see notes/C08.md.

The three repaired defects are kept as `…Legacy` kernels with `decide`-checked witnesses
(`C08_legacy_*`) on the inputs recorded in KNOWN_FINDINGS.txt.

Improvement round: the kernels whose `PK` model was tied to the code "by reading only" (`/asm/v1` length
arithmetic, decode loop, `LineBuffer`, `.symindex` layout, Breakpad lookups) are now connected by theorems to
the models other properties compare with the code value-for-value (`Asm.*` — C20, `LB.*` / `BP.*` — C10,
`Sym.queryApi` — C07), see the section "the same facts on the models that are tied"; lookups on arbitrary
(stale, corrupted) indexes with the memo tables of the symbol map and `iter_symbols()` are modelled in
`Model/BreakpadServe.lean` and compared by C08's own `bpmap` operation; the text `Api::query_api` returns
(dispatch, the hand-built error object) is modelled in `Model/JsonText.lean` next to an independent RFC 8259
recogniser that the judge runs on response texts (`C08_error_object_is_json`, `C08_api_text_acceptable`).
Only property theorems (names `C08_*`) and non-vacuity examples live in this file.
-/
open PK

/-! ### The kernels that need no hypothesis at all -/

/-- `/asm/v1` length arithmetic (asm/mod.rs:101-146): continuation `function_end − start`, alignment
mask, padded read length — never panics, for any start / size / flag / function end / architecture. -/
theorem C08_kernels_total_asm (arch : Arch) (start size : Nat) (cont : Bool) (fe : Option Nat) :
    asmPlan arch start size cont fe ≠ .panic :=
  asmPlan_ne_panic arch start size cont fe

/-- value-level: the plan never shortens the request, stays in `u32`, and the aligned start is not
above the requested one. -/
theorem C08_asm_plan_bounds (arch : Arch) (start size : Nat) (cont : Bool) (fe : Option Nat)
    (hs : size ≤ u32Max) (hf : ∀ e, fe = some e → e ≤ u32Max) :
    ∃ p, asmPlan arch start size cont fe = .ok p ∧ p.rel ≤ start ∧ size ≤ p.len ∧ p.len ≤ u32Max ∧
      p.readLen ≤ u32Max ∧ p.len ≤ p.readLen := by
  obtain ⟨len, h, h1, h2⟩ := asmDisassemblyLen_spec start size cont fe
  refine ⟨⟨relAddress arch start, len, saturatingAddU32 len 15⟩, by simp [asmPlan, h],
    relAddress_le arch start, h1, ?_, ?_, ?_⟩
  · show len ≤ u32Max
    rcases h2 with h2 | ⟨e, he, _, h2⟩
    · omega
    · have := hf e he; omega
  · show saturatingAddU32 len 15 ≤ u32Max
    simp only [saturatingAddU32]; split <;> omega
  · show len ≤ saturatingAddU32 len 15
    have hl : len ≤ u32Max := by
      rcases h2 with h2 | ⟨e, he, _, h2⟩
      · omega
      · have := hf e he; omega
    simp only [saturatingAddU32]; split <;> omega

/-- `CodeId::from_str`, `PeCodeId::from_str`, `ElfBuildId::from_str` (shared.rs:185-283) on arbitrary
byte strings (so in particular on every UTF-8 string, multi-byte characters at any offset). -/
theorem C08_kernels_total_codeid (s : List UInt8) :
    codeIdFromStr s ≠ .panic ∧ peCodeIdFromStr s ≠ .panic ∧ elfBuildIdFromStr s ≠ .panic :=
  ⟨codeIdFromStr_ne_panic s, peCodeIdFromStr_ne_panic s, elfBytes_ne_panic s 0 _⟩

/-- what `PeCodeId::from_str` accepts: 9..16 bytes, a character boundary at byte 8, and both halves
parse as `u32` in base 16 (an optional leading `+` included, as `from_str_radix` has it). -/
theorem C08_pecodeid_accepts (s : List UInt8) (t z : Nat) :
    peCodeIdFromStr s = .ok (t, z) ↔
      (9 ≤ s.length ∧ s.length ≤ 16 ∧
        ∃ a b, strGet s 0 8 = some a ∧ strGet s 8 s.length = some b ∧
          fromStrRadix16 u32Max a = some t ∧ fromStrRadix16 u32Max b = some z) :=
  peCodeIdFromStr_ok_iff s t z

/-- Breakpad `hex_str::<u32>` / `hex_str::<u64>` / `decimal_u32` (index.rs:841-896): no overflow of the
accumulators, `&input[k..]` in range; values fit the declared type. -/
theorem C08_kernels_total_numbers (input : List UInt8) :
    hexStr 32 input ≠ .panic ∧ hexStr 64 input ≠ .panic ∧ decimalU32 input ≠ .panic ∧
    (∀ rest v, hexStr 32 input = .ok (rest, v) → v ≤ u32Max) ∧
    (∀ rest v, hexStr 64 input = .ok (rest, v) → v ≤ u64Max) ∧
    (∀ rest v, decimalU32 input = .ok (rest, v) → v ≤ u32Max) :=
  ⟨hexStr_ne_panic 32 input, hexStr_ne_panic 64 input, decimalU32_ne_panic input,
   fun r v h => hexStr32_lt input r v h, fun r v h => hexStr64_lt input r v h,
   fun r v h => decimalU32_le input r v h⟩

/-- `BreakpadIndex::parse_symindex_file` (index.rs:40-164) on arbitrary file contents and for either
outcome of the module-info line parsers: header read, `checked_mul`s, range reads and the
`from_bytes(..).unwrap()`s never panic. -/
theorem C08_kernels_total_symindex (data : List UInt8) (modInfoOk : Bool) :
    parseSymindex data modInfoOk ≠ .panic :=
  parseSymindex_ne_panic data modInfoOk

/-- `from_prefixed_hex_str` (hex.rs:23-37). -/
theorem C08_kernels_total_prefixed_hex (s : List UInt8) : fromPrefixedHexStr s ≠ .panic :=
  fromPrefixedHexStr_ne_panic s

/-- one FUNC / PUBLIC / line / INLINE record with arbitrary number tokens, looked up at any address
(symbol_map.rs:286-371 after 5b75774e, index.rs:802-837): FUNC end in `u64`, inlinee `checked_add`,
`Err(i) => i - 1` index arithmetic. -/
theorem C08_kernels_total_breakpad_records (t1 t2 t3 t4 : List UInt8) (addr : Nat) :
    bpFunc false t1 t2 addr ≠ .panic ∧ bpPublic t1 addr ≠ .panic ∧
    bpLine t1 t2 t3 t4 addr ≠ .panic ∧ bpInline t1 t2 t3 addr ≠ .panic :=
  ⟨bpFunc_ne_panic t1 t2 addr, bpPublic_ne_panic t1 addr, bpLine_ne_panic t1 t2 t3 t4 addr,
   bpInline_ne_panic t1 t2 t3 addr⟩

/-- all hypothesis-free kernels at once -/
theorem C08_kernels_total (arch : Arch) (start size addr : Nat) (cont flag : Bool) (fe : Option Nat)
    (s t1 t2 t3 t4 : List UInt8) :
    asmPlan arch start size cont fe ≠ .panic ∧ codeIdFromStr s ≠ .panic ∧ peCodeIdFromStr s ≠ .panic ∧
    elfBuildIdFromStr s ≠ .panic ∧ hexStr 32 s ≠ .panic ∧ hexStr 64 s ≠ .panic ∧ decimalU32 s ≠ .panic ∧
    parseSymindex s flag ≠ .panic ∧ fromPrefixedHexStr s ≠ .panic ∧
    bpFunc false t1 t2 addr ≠ .panic ∧ bpPublic t1 addr ≠ .panic ∧
    bpLine t1 t2 t3 t4 addr ≠ .panic ∧ bpInline t1 t2 t3 addr ≠ .panic :=
  ⟨asmPlan_ne_panic _ _ _ _ _, codeIdFromStr_ne_panic s, peCodeIdFromStr_ne_panic s,
   elfBytes_ne_panic s 0 _, hexStr_ne_panic 32 s, hexStr_ne_panic 64 s, decimalU32_ne_panic s,
   parseSymindex_ne_panic s flag, fromPrefixedHexStr_ne_panic s, bpFunc_ne_panic t1 t2 addr,
   bpPublic_ne_panic t1 addr, bpLine_ne_panic t1 t2 t3 t4 addr, bpInline_ne_panic t1 t2 t3 addr⟩

/-! ### Kernels under a stated contract -/

/-- the `/asm/v1` decode loop (asm/mod.rs:357-431) over at most `u32::MAX` bytes, for any decoder that
honours `DecContract`: neither a panic (`offset as usize` slicing, `after − before`, `offset += …`) nor
an endless loop; the reported size is at most `bytes.len() + adjust`. -/
theorem C08_kernels_total_decode (dec : List UInt8 → Dec) (adjust : Nat) (bytes : List UInt8)
    (decodeLen : Nat) (hc : DecContract dec adjust) (ha : 1 ≤ adjust) (hb : bytes.length ≤ u32Max) :
    ∃ sz, decodeLoop dec adjust bytes decodeLen 0 0 0 = .done sz ∧ sz ≤ bytes.length + adjust :=
  decodeLoop_done dec adjust bytes decodeLen hc ha hb 0 0 0 rfl (Nat.zero_le _)

/-- Breakpad lookups for any symbol table / inlinee list / line list, any binary-search result inside
the documented range (the table need not be sorted: a stale or corrupted `.symindex`). -/
theorem C08_kernels_total_lookup (r : BsRes) (addrs : List Nat) (inls : List Inlinee)
    (size addr depth nLines : Nat) (ha : ∀ a ∈ addrs, a ≤ u32Max) (hs : size ≤ u32Max) :
    (BsOk r addrs.length → funcLookup r addrs size addr ≠ .panic ∧ publicLookup r addrs ≠ .panic) ∧
    (BsOk r inls.length → inlineeAt r inls depth addr ≠ .panic) ∧
    (BsOk r nLines → sourcelocAt r nLines ≠ .panic) :=
  ⟨fun h => ⟨funcLookup_ne_panic r addrs size addr h ha hs, publicLookup_ne_panic r addrs h⟩,
   fun h => inlineeAt_ne_panic r inls depth addr h, fun h => sourcelocAt_ne_panic r nLines h⟩

/-- `LineBuffer` (index.rs:702-750): any file delivered in any chunks (total below 2^64 bytes) — the
`assert!`, `current_offset − leftover.len()` and the offset additions never fail. -/
theorem C08_kernels_total_linebuffer (chunks : List (List UInt8)) (h : totalLen chunks ≤ u64Max) :
    lbRun LB.init chunks ≠ .panic :=
  lbRun_ne_panic chunks LB.init (Nat.le_refl _) (by simpa [LB.init] using h)

/-- `serialize_to_bytes` layout arithmetic (index.rs:166-182) — **only** while the serialized index
stays below 4 GiB; beyond that (`≥ 2^28` FILE / INLINE_ORIGIN / symbol records) the `u32` products
overflow, see `C08_symindex_layout_excluded`. -/
theorem C08_kernels_total_symindex_layout_partial (m f i s : Nat)
    (hfit : 48 + (m + 3) + 16 * f + 16 * i + 20 * s ≤ u32Max) : symindexLayout m f i s ≠ .panic :=
  symindexLayout_ne_panic m f i s hfit

/-- the excluded region is real: 2^28 FILE records overflow `file_count * 16`. -/
theorem C08_symindex_layout_excluded : symindexLayout 70 268435456 0 0 = .panic := by decide

/-- special-path parsing (mapped_path.rs:114-189) of any string in which no continuation byte follows
an ASCII byte: the slices around `rfind('-')` are on character boundaries. -/
theorem C08_kernels_total_special_path (s : List UInt8) (h : asciiFollow s = true) :
    specialPath s ≠ .panic ∧ cargoSplit s ≠ .panic :=
  ⟨specialPath_ne_panic s h, cargoSplit_ne_panic s h⟩

/-- … which holds for every string of UTF-8 shape, hence for every Rust `&str`. -/
theorem C08_utf8_gives_ascii_follow (s : List UInt8) (h : utf8Shape s = true) : asciiFollow s = true :=
  utf8Shape_asciiFollow s h

/-! ### Improvement round: the same facts on the models that are tied to the code value-for-value

`Asm.*` is driven by C20's harness (request arithmetic, read, decode loop, against the real `/asm/v1`),
`LB.*` / `BP.*` by C10's (line buffer, index creator, `.symindex` (de)serialisation, `lookup_sync`) and — for
stored indexes that are stale or corrupted, with the memo tables of the symbol map — by C08's own `bpmap`
operation (`BPC.serve`); `Sym.queryApi` by C07's. The theorems below restate C08's clauses on those models, so
that they stop being statements about models tied "by reading only". -/

/-- **`/asm/v1` length arithmetic, tied.** The panic kernel `asmPlan` (explicit `panic` at the `u32`
subtraction and addition) computes, for every request, exactly the plan of the model that C20 compares with
the real code: aligned start, `disassembly_len`, padded read length — and never the `panic` outcome. -/
theorem C08_asm_plan_tied (a : Asm.Arch) (start size : Nat) (cont : Bool) (fe : Option Nat) :
    asmPlan (C08T.archOf a) start size cont fe =
      .ok ⟨Asm.alignStart a start, Asm.disasmLen start size cont fe,
           Asm.readSize (Asm.disasmLen start size cont fe)⟩ ∧
    ∀ addr sz, functionEnd addr sz = Asm.fnEnd (some ⟨addr, sz⟩) :=
  ⟨C08T.asmPlan_eq a start size cont fe, C08T.functionEnd_eq⟩

/-- … hence the value-level bounds hold of the tied model (no silent wrap: the padded read length covers the
listing length, both stay in `u32`, the listing is never shorter than requested), for every symbol the
lookup may report. -/
theorem C08_asm_tied_bounds (a : Asm.Arch) (start size : Nat) (cont : Bool) (sym : Option Asm.Sym)
    (hs : size ≤ u32Max) :
    Asm.alignStart a start ≤ start ∧
    size ≤ Asm.disasmLen start size cont (Asm.fnEnd sym) ∧
    Asm.disasmLen start size cont (Asm.fnEnd sym) ≤ Asm.readSize (Asm.disasmLen start size cont (Asm.fnEnd sym)) ∧
    Asm.readSize (Asm.disasmLen start size cont (Asm.fnEnd sym)) ≤ u32Max := by
  have hf : ∀ e, Asm.fnEnd sym = some e → e ≤ u32Max := by
    intro e he
    unfold Asm.fnEnd at he
    split at he
    · cases he
    · split at he
      · cases he
      · split at he
        · cases he; simpa [u32Max, Asm.u32max] using ‹_ ≤ Asm.u32max›
        · cases he
  obtain ⟨p, hp, h1, h2, _, h4, h5⟩ := C08_asm_plan_bounds (C08T.archOf a) start size cont (Asm.fnEnd sym) hs hf
  rw [C08T.asmPlan_eq] at hp
  cases hp
  exact ⟨h1, h2, h5, h4⟩

/-- **Decode loop, tied.** `Asm.decode` (the loop C20 compares with the real listing, offset by offset) ends
with a listing — neither `panic` (`offset += …` in `u32`, `&bytes[offset as usize..]`) nor out of fuel — for
every decoder oracle that stays inside the slice, every `ADJUST_BY_AFTER_ERROR ≥ 1`, every decode length and
every slice below 4 GiB − ADJUST; the reported size is at most ADJUST past the slice. -/
theorem C08_decode_total_tied (adjust decodeLen bytesLen : Nat) (dec : Nat → Asm.Dec)
    (hor : Asm.OracleOK bytesLen dec) (hadj : 1 ≤ adjust) (hlen : bytesLen + adjust ≤ Asm.u32max) :
    ∃ items size, Asm.decode adjust decodeLen bytesLen dec = .done items size ∧ size ≤ bytesLen + adjust := by
  obtain ⟨items, f, h, hf, _⟩ :=
    C08T.loop_done adjust decodeLen bytesLen dec hor hadj hlen (decodeLen + 1) 0 (Nat.zero_le _) (by omega)
  exact ⟨items, f, h, hf⟩

/-- **`/asm/v1`, the whole request on the tied model.** `Asm.query` (length arithmetic, alignment, padded read
through `read_bytes_at_relative_address` with `image_base.checked_add`, `decode_arch`, the decode loop) neither
panics nor fails to terminate, for every architecture, image (any base, any sections / segments), symbol,
request and decoder — provided only that the decoder stays inside the slice the read returns and that this slice
is shorter than 4 GiB − 4 (a section of 4 GiB is outside what `object` hands out for the fixtures). -/
theorem C08_asm_query_total_tied (arch : Asm.Arch) (img : Asm.Image) (sym : Option Asm.Sym) (req : Asm.Req)
    (dec : Nat → Asm.Dec)
    (hor : ∀ fo n, (Asm.plan arch img sym req).2.2 = .ok fo n → Asm.OracleOK n dec ∧ n + 4 ≤ Asm.u32max) :
    Asm.query arch img sym req dec ≠ .panic ∧ Asm.query arch img sym req dec ≠ .nofuel :=
  C08T.query_total arch img sym req dec hor

/-- **The fine-grained decode kernel is the tied loop.** `PK.decodeLoop` follows asm/mod.rs:357-431 at the
level of the reader (`total_offset` as `u32`, `after - before`, the reader re-created at `offset` after an
invalid instruction); for every decoder that stays inside its slice it computes exactly the size that
`Asm.decode` — the loop C20 compares with the real listing — reports, and panics / fails to terminate exactly
when that does. So `C08_kernels_total_decode` is a statement about a tied model, and the assumed
`DecContract.invalid_avail` is only needed for slices within ADJUST of 4 GiB (compare `C08_decode_total_tied`). -/
theorem C08_decode_kernel_is_tied (dec : List UInt8 → Dec) (adjust : Nat) (bytes : List UInt8) (decodeLen : Nat)
    (hok : ∀ s n, dec s = .ok n → 1 ≤ n ∧ n ≤ s.length) (ha : 1 ≤ adjust) (hb : bytes.length ≤ u32Max) :
    decodeLoop dec adjust bytes decodeLen 0 0 0 =
      C08T.toPK (Asm.decode adjust decodeLen bytes.length (fun p => C08T.convDec (dec (bytes.drop p)))) :=
  C08T.decodeLoop_eq_tied dec adjust bytes decodeLen hok ha hb 0 0 0 rfl (Nat.zero_le _) (decodeLen + 1)
    (by omega)

/-- **LineBuffer, tied.** For every list of chunks fed to a fresh `LineBuffer` (so, for every intermediate
state of every feeding): the `assert!` / `current_offset - leftover.len()` of the next `consume` hold and
`finish` does not underflow. (The `u64` offset additions are not an outcome of `LB`; `C08_kernels_total_linebuffer`
covers them on `PK.lbRun` for files below 2^64 bytes.) -/
theorem C08_linebuffer_total_tied (chunks : List (List UInt8)) :
    LB.consumeSafe (LB.consumeAll LB.St.init chunks).1 = true ∧
    (LB.finish (LB.consumeAll LB.St.init chunks).1).isSome = true := by
  have h := C08T.consumeAll_inv LB.St.init chunks (by simp [LB.Inv, LB.St.init])
  exact ⟨by simpa [LB.consumeSafe, LB.Inv] using h, C08T.finish_isSome _ h⟩

/-- **`parse_symindex_file`: the panic kernel is C10's byte-exact parser, and the oracle bit is gone.** With the
module-info oracle bit of `PK.parseSymindex` instantiated by C10's *model* of the module-info parse
(`C08T.modOk`: fresh `LineBuffer`, `module_line`, UTF-8 and `DebugId` checks as modelled in `BP.deriveModule`),
the kernel accepts exactly the files `BP.parseSymindex` accepts, with the same module-info length and the same
three counts — and is never `panic` — for ARBITRARY file contents. So the five `from_bytes(..).unwrap()`s and the
four `checked_mul`s of index.rs:40-164 are unreachable-as-panics on a model that C10's and C08's runs both compare
with the real parser (`symindex` prints `models-disagree` otherwise). -/
theorem C08_symindex_kernel_is_tied (data : List UInt8) :
    C08T.okPart (parseSymindex data (C08T.modOk data)) = (BP.parseSymindex data).map C08T.summary ∧
    parseSymindex data (C08T.modOk data) ≠ .panic :=
  C08T.parseSymindex_bridge data

/-- **`serialize_to_bytes` layout arithmetic, tied and exact.** For every index value, the `u32` computation of
index.rs:166-182 (every step an explicit `panic` in `PK.symindexLayout`) succeeds exactly when the total length
of C10's byte-exact serialisation model fits in `u32`, and then yields exactly that length (so the
`assert_eq!(vec.len(), total_file_len)` at :206 compares the two quantities this theorem equates). This replaces
the hypothesis "below 4 GiB − 3" of `C08_kernels_total_symindex_layout_partial` by the exact boundary; what
remains excluded is the region itself (an index of 4 GiB or more), see `C08_symindex_layout_excluded`. -/
theorem C08_symindex_layout_tied (ix : BP.Index) :
    symindexLayout ix.moduleInfo.length ix.files.length ix.origins.length ix.addrs.length =
      (if BP.totalLen ix < BP.pow32 then .ok (BP.totalLen ix) else .panic) := by
  rw [C08T.totalLen_eq]
  split
  · rename_i h
    exact C08T.symindexLayout_exact _ _ _ _ (by simp only [BP.pow32] at h; simp only [u32Max]; omega)
  · rename_i h
    exact C08T.symindexLayout_panic _ _ _ _ (by simp only [BP.pow32] at h; simp only [u32Max]; omega)

/-- `parse_symindex_file` only accepts files whose two symbol arrays are equally long — the one fact about an
accepted index (valid, stale or corrupted) that the lookups need. -/
theorem C08_symindex_accepted_arrays (bytes : List UInt8) (ix : BP.Index)
    (h : BP.parseSymindex bytes = some ix) : ix.addrs.length = ix.entries.length :=
  BPC.parseSymindex_lengths bytes ix h

/-- **Clause (f), n records, any index.** A `.sym` text with ARBITRARY contents served together with a stored
`.symindex` with ARBITRARY contents (valid, built from another file, corrupted, unsorted), then any sequence
of lookups on the one symbol map (memo tables included). Whichever index `make_index_storage` settles on — the
stored one when it parses and its MODULE line is the beginning of the text (`BP.storedMatches`, fix 3f61c23c),
otherwise the one built from the text (C10's `BP.mapStored`) —, whenever a map results, every lookup returns
a result or nothing — never the out-of-range `symbol_addresses[index]` / `symbol_entries[index]` — and every
result satisfies what the API layers compute with it without checking: `symbol.address ≤ address`
(symbolicate/mod.rs:231 `frame.address - symbol_address`) and a non-empty frame list (:237 `split_last().expect`).
`BPC.serve` is compared value-for-value with the real code by the `bpmap` operation; `pick` is C10's tie-break
oracle of the self-built index (any). -/
theorem C08_served_lookups_total (pick : BP.Pick) (text idx : List UInt8) (addrs : List Nat) (ls : List BP.Look)
    (h : BPC.serve pick text idx addrs = .looks ls) :
    ls.length = addrs.length ∧
    ∀ (k a : Nat), addrs[k]? = some a →
      ∃ lk : BP.Look, ls[k]? = some lk ∧ lk ≠ BP.Look.panic ∧
        ∀ r : BP.LookupResult, lk = BP.Look.found r → r.symAddr ≤ a ∧ r.frames ≠ some [] := by
  unfold BPC.serve at h
  split at h
  · cases h
  · cases h
  · cases h
  · rename_i ix hm
    cases h
    exact BPC.lookupSeq_spec text ix _ addrs (BPC.mapStored_ok_lengths pick text _ ix hm)

/-- … and the same with an `iter_symbols()` pass (symbol_map.rs:244-272, sharing the memo tables) between two
runs of lookups: the pass never indexes `symbol_entries` out of range, and the lookups before and after it
return a result or nothing with the same two guarantees. (`BPC.serveSession`, compared value-for-value by the
`bpmap … iter …` operation.) -/
theorem C08_served_session_total (pick : BP.Pick) (text idx : List UInt8) (pre post : List Nat)
    (ls1 ls2 : List BP.Look) (names : Option (List (Nat × List UInt8)))
    (h : BPC.serveSession pick text idx pre post = .session ls1 names ls2) :
    names ≠ none ∧
    (∀ (k a : Nat), pre[k]? = some a →
      ∃ lk : BP.Look, ls1[k]? = some lk ∧ lk ≠ BP.Look.panic ∧
        ∀ r : BP.LookupResult, lk = BP.Look.found r → r.symAddr ≤ a ∧ r.frames ≠ some []) ∧
    (∀ (k a : Nat), post[k]? = some a →
      ∃ lk : BP.Look, ls2[k]? = some lk ∧ lk ≠ BP.Look.panic ∧
        ∀ r : BP.LookupResult, lk = BP.Look.found r → r.symAddr ≤ a ∧ r.frames ≠ some []) := by
  unfold BPC.serveSession at h
  split at h
  · cases h
  · cases h
  · cases h
  · rename_i ix hm
    have hl := BPC.mapStored_ok_lengths pick text _ ix hm
    simp only at h
    have hsome := BPC.iterSymbolsC_isSome text ix (BPC.lookupSeqC text ix BPC.Cache.empty pre).2 ix.addrs 0
      (by omega)
    split at h
    · rename_i hnone
      rw [hnone] at hsome
      cases hsome
    · rename_i it hit
      cases h
      exact ⟨by simp, (BPC.lookupSeq_spec text ix _ pre hl).2, (BPC.lookupSeq_spec text ix _ post hl).2⟩

/-- **A stored index of another module is never looked into.** When the stored `.symindex` parses but its MODULE
line is not the beginning of the served text (C10's `BP.storedMatches`), the served map is the map of the text
alone: the answers are those of serving the same text with any other unusable index — in particular the
foreign index's offsets are never applied to this text. -/
theorem C08_served_foreign_index_ignored (pick : BP.Pick) (text idx idx' : List UInt8) (addrs : List Nat)
    (ix : BP.Index) (hp : BP.parseSymindex idx = some ix) (hm : BP.storedMatches text ix = false)
    (hp' : BP.parseSymindex idx' = none) :
    BPC.serve pick text idx addrs = BPC.serve pick text idx' addrs := by
  unfold BPC.serve BP.mapStored
  simp [hp, hm, hp']

/-- **When the memo tables matter.** `BreakpadSymbolMapCache` memoises parsed PUBLIC / FUNC records under their
file offset alone. If, among the symbol entries of the index, kind and offset determine the length (so for
every index in which no two symbols start at the same file offset — what the creator writes), any sequence of
lookups on one map answers, address by address, exactly what the memo-free `BP.lookup` of C10's model answers;
the order and repetition of the lookups is unobservable. Only an index violating the hypothesis (a corrupted
one) can make an answer depend on the history — `BPC.lookupC` models that case, the `entry-bounds` operations
exercise it, and `C08_served_lookups_total` covers it. -/
theorem C08_memo_unobservable (text : List UInt8) (ix : BP.Index) (addrs : List Nat)
    (hdet : ∀ e ∈ ix.entries, ∀ e' ∈ ix.entries, e.kind = e'.kind → e.offset = e'.offset → e.len = e'.len) :
    BPC.lookupSeq text ix BPC.Cache.empty addrs = addrs.map (BP.lookup text ix) :=
  BPC.lookupSeq_eq text ix _ addrs hdet (BPC.cacheOk_empty text ix)

/-- **Clause (f) on C10's symbol-map model.** Any text below 2^64 bytes, with or without a stored index of any
contents: building the map panics only in the excluded region (a self-built index of 4 GiB or more, see
`C08_symindex_layout_excluded`), in particular never at `parse_symindex_file(..).unwrap()`
(symbol_map.rs:98/101); and on the map that results, every lookup of every address returns a result or
nothing, with `symbol.address ≤ address` and a non-empty frame list. -/
theorem C08_breakpad_map_total (pick : BP.Pick) (text : List UInt8) (stored : Option (List UInt8))
    (hlen : text.length < BP.pow64) :
    (BP.mapStored pick text stored = .panic →
        ∃ ix, BP.preIndex pick [text] = .ix ix ∧ ¬ BP.totalLen ix < BP.pow32) ∧
    (∀ ix a, BP.mapStored pick text stored = .ok ix →
        BP.lookup text ix a ≠ .panic ∧
        ∀ r, BP.lookup text ix a = .found r → r.symAddr ≤ a ∧ r.frames ≠ some []) := by
  constructor
  · intro h
    have hself : BP.mapSelf pick text = .panic :=  by
      unfold BP.mapStored at h
      split at h
      · cases h
      · split at h
        · split at h
          · cases h
          · exact h
        · exact h
    exact C10_no_panic pick [text] (C10_self_map_no_unwrap_panic pick text hlen hself)
  · intro ix a h
    exact BPC.lookup_spec text ix a (BPC.mapStored_ok_lengths pick text stored ix h)

/-- a Breakpad lookup result as the symbolication layer sees it (`SyncAddressInfo`); `nm` / `fr` convert
names and frames (any functions: demangling and path mapping do not matter here) -/
def C08_bpInfo (nm : List UInt8 → String) (fr : BP.Frame → Sym.Frame) (r : BP.LookupResult) : Sym.AddrInfo :=
  ⟨r.symAddr, r.size, nm r.name, match r.frames with | none => .none | some fs => .available (fs.map fr)⟩

/-- **`/symbolicate/v5` over Breakpad files never hits an `unwrap`.** C07's model of `query_api` (every
`unwrap`, `expect`, slice index and `u32` subtraction an explicit panic site) composed with C10's model of
`lookup_sync`: if every library that loads is a Breakpad symbol map — of any text and any accepted index,
valid or stale — then no request of any shape (any number of jobs, repeated / failing libraries, any
addresses) reaches a panic site. This discharges symbolicate/mod.rs:228/231/237/252 and
looked_up_addresses.rs:34/44 for the files in C08's quantifier. -/
theorem C08_symbolicate_over_breakpad_total (look : Sym.Look) (extOrder) (hext : Sym.ExtOrderOk extOrder)
    (req : Sym.Request) (nm : List UInt8 → String) (fr : BP.Frame → Sym.Frame)
    (hbp : ∀ lib f, look lib = .ok f → ∃ text ix, ix.addrs.length = ix.entries.length ∧
      ∀ a, f a = match BP.lookup text ix a with
                 | .found r => some (C08_bpInfo nm fr r)
                 | _ => none) :
    ∀ site, Sym.queryApi look extOrder req ≠ .error (.panic site) := by
  refine (C07_total look extOrder hext req ?_).2
  intro lib a f info _ hl hfa
  obtain ⟨text, ix, hlen, hf⟩ := hbp lib f hl
  rw [hf a] at hfa
  obtain ⟨_, hsp⟩ := BPC.lookup_spec text ix a hlen
  cases hlk : BP.lookup text ix a with
  | panic => simp [hlk] at hfa
  | none => simp [hlk] at hfa
  | found r =>
    simp only [hlk, Option.some.injEq] at hfa
    subst hfa
    obtain ⟨h1, h2⟩ := hsp r hlk
    refine ⟨h1, ?_⟩
    simp only [C08_bpInfo]
    cases hfr : r.frames with
    | none => simp [Sym.FramesResult.resolved]
    | some fs =>
      simp only [Sym.FramesResult.resolved, ne_eq, Option.some.injEq, List.map_eq_nil_iff]
      intro hnil
      exact h2 (by rw [hfr, hnil])

/-- … in particular over **served files**: let every library of the request be either unknown to the helper
or a `.sym` text with an optional stored `.symindex`, both of ARBITRARY contents, turned into a symbol map by
C10's `mapStored` (a map that fails to build — not a Breakpad file, no MODULE record, or the excluded ≥ 4 GiB
index of `C08_breakpad_map_total` — is a load error here). Then `/symbolicate/v5` reaches no panic site, for
every request. No hypothesis about the files is left. -/
theorem C08_symbolicate_over_served_files_total (pick : BP.Pick)
    (files : Sym.Lib → Option (List UInt8 × Option (List UInt8))) (err : Sym.Err)
    (nm : List UInt8 → String) (fr : BP.Frame → Sym.Frame)
    (extOrder) (hext : Sym.ExtOrderOk extOrder) (req : Sym.Request) :
    let look : Sym.Look := fun lib =>
      match files lib with
      | none => .error err
      | some (text, stored) =>
        match BP.mapStored pick text stored with
        | .ok ix => .ok fun a =>
            match BP.lookup text ix a with
            | .found r => some (C08_bpInfo nm fr r)
            | _ => none
        | _ => .error err
    ∀ site, Sym.queryApi look extOrder req ≠ .error (.panic site) := by
  intro look
  apply C08_symbolicate_over_breakpad_total look extOrder hext req nm fr
  intro lib f hl
  simp only [look] at hl
  split at hl
  · cases hl
  · rename_i text stored _
    split at hl
    · rename_i ix hm
      cases hl
      have hlen : ix.addrs.length = ix.entries.length := BPC.mapStored_ok_lengths pick text stored ix hm
      exact ⟨text, ix, hlen, fun a => rfl⟩
    · cases hl

/-! ### Clauses (a) and (b): the text `Api::query_api` returns -/

/-- **The error object is JSON.** For every message (any bytes: quotes, backslashes, control characters,
multi-byte characters), the text samply builds by hand on all its error paths —
`json!({ "error": msg }).to_string()`, modelled as `JT.errorJson` and compared byte for byte with serde_json by
the `errjson` / `badurl` operations — is accepted by the independent RFC 8259 recogniser `JT.topObject` as one
object whose only key is `error`, holding a string. -/
theorem C08_error_object_is_json (msg : List UInt8) :
    JT.topObject (JT.errorJson msg) = some [(JT.kError, JT.Kind.str)] :=
  JT.topObject_errorJson msg

/-- **Every path, every body: a JSON object that is a result or carries an error message.** `JT.queryApiText`
follows lib.rs:197-210 and the three `query_api_json` wrappers; `inner` is the outcome of the endpoint's
fallible part (any function: it stands for every request body and every state of the symbol files). Provided
the *serialized result* of an endpoint is an acceptable text (serde's derived `Serialize` of the three
`Response` structs — third-party, assumed here and checked by `C08.judge` with the same recogniser on every
response the exploration produces), the returned text is acceptable for every path — known or not — and every
outcome, in particular for every error message. -/
theorem C08_api_text_acceptable (path : List UInt8)
    (inner : JT.Endpoint → Except (List UInt8) (List UInt8))
    (hres : ∀ e json, JT.dispatch path = some e → inner e = .ok json → JT.acceptable path json = true) :
    JT.acceptable path (JT.queryApiText path inner) = true := by
  have herr : ∀ m, JT.acceptable path (JT.errorJson m) = true := by
    intro m
    simp [JT.acceptable, JT.topObject_errorJson, JT.isResponse, JT.kindOf]
  unfold JT.queryApiText
  cases hd : JT.dispatch path with
  | none => exact herr _
  | some e =>
    simp only
    cases hi : inner e with
    | ok json => exact hres e json hd hi
    | error m => exact herr m

/-- an unknown path never gets a result, whatever the endpoints would answer -/
theorem C08_unknown_path_is_error (path : List UInt8) (inner : JT.Endpoint → Except (List UInt8) (List UInt8))
    (h : JT.dispatch path = none) :
    JT.queryApiText path inner = JT.errorJson (JT.unrecognized ++ path) := by
  simp [JT.queryApiText, h]

/-! ### The three repaired defects: the pre-fix kernels panic on the recorded inputs -/

/-- b11d9ebc: `/asm/v1` with `"size":"0xfffffff8"` — `disassembly_len + 15` overflowed `u32`. -/
theorem C08_legacy_asm_size_overflow :
    asmPlanLegacy .other 0x17a20 0xfffffff8 false none = .panic ∧
    (asmPlan .other 0x17a20 0xfffffff8 false none).isPanic = false := by decide

/-- 75146a25: codeId `"1234567éA"` (`&s[..8]` inside `é`) and `"0123456789abcdef0éé"`
(`&s[16..18]` inside `é`) — the repaired parsers return an error instead. -/
theorem C08_legacy_codeid_char_boundary :
    codeIdFromStrLegacy [0x31, 0x32, 0x33, 0x34, 0x35, 0x36, 0x37, 0xC3, 0xA9, 0x41] = .panic ∧
    codeIdFromStrLegacy [0x30, 0x31, 0x32, 0x33, 0x34, 0x35, 0x36, 0x37, 0x38, 0x39, 0x61, 0x62, 0x63,
      0x64, 0x65, 0x66, 0x30, 0xC3, 0xA9, 0xC3, 0xA9] = .panic ∧
    codeIdFromStr [0x31, 0x32, 0x33, 0x34, 0x35, 0x36, 0x37, 0xC3, 0xA9, 0x41] = .err () ∧
    codeIdFromStr [0x30, 0x31, 0x32, 0x33, 0x34, 0x35, 0x36, 0x37, 0x38, 0x39, 0x61, 0x62, 0x63,
      0x64, 0x65, 0x66, 0x30, 0xC3, 0xA9, 0xC3, 0xA9] = .err () := by decide

/-- 5b75774e: `FUNC ffffff00 200 0 f`, lookup of `0xffffff10` — `symbol_address + size` overflowed
`u32`; the repaired lookup answers with the symbol. -/
theorem C08_legacy_func_end_overflow :
    bpFunc true [0x66, 0x66, 0x66, 0x66, 0x66, 0x66, 0x30, 0x30] [0x32, 0x30, 0x30] 0xffffff10 = .panic ∧
    bpFunc false [0x66, 0x66, 0x66, 0x66, 0x66, 0x66, 0x30, 0x30] [0x32, 0x30, 0x30] 0xffffff10
      = .ok (some (0xffffff00, 0x200)) := by decide

/-- what dropping one `checked_mul` in `parse_symindex_file` would do: `count * 16` in `u32`. -/
theorem C08_symindex_unchecked_mul_panics :
    readSectionUnchecked [] 268435456 16 0 .couldntReadFileList = .panic ∧
    readSection [] 268435456 16 0 .fileListOverflow .couldntReadFileList = .err .fileListOverflow := by
  decide

/-! ### Non-vacuity: the contracts are satisfiable by non-trivial inputs, and the kernels compute the
values the repository's own tests expect -/

/-- a toy 4-byte-instruction decoder (first byte 0 = invalid) satisfies the contract with `adjust = 4` -/
def C08_toyDec (s : List UInt8) : Dec :=
  if s.length < 4 then .exhausted else if s.head? = some 0 then .invalid else .ok 4

example : DecContract C08_toyDec 4 := by
  constructor
  · intro s n h
    unfold C08_toyDec at h
    split at h
    · cases h
    · split at h
      · cases h
      · injection h with h; omega
  · intro s h
    unfold C08_toyDec at h
    split at h
    · cases h
    · omega

-- the toy decoder on 13 bytes (an invalid instruction at 4): the tied loop lists 0, 4 (invalid), 8 and reports 12
example : Asm.decode 4 12 13 (fun p => C08T.convDec (C08_toyDec (([1, 2, 3, 4, 0, 0, 0, 0, 5, 6, 7, 8, 9] : List UInt8).drop p)))
    = .done [⟨0, false⟩, ⟨4, true⟩, ⟨8, false⟩] 12 := by decide
example : decodeLoop C08_toyDec 4 [1, 2, 3, 4, 0, 0, 0, 0, 5, 6, 7, 8, 9] 12 0 0 0 = .done 12 := by
  rw [C08_decode_kernel_is_tied _ _ _ _ _ (by decide) (by decide)]
  · decide
  · intro s n h
    unfold C08_toyDec at h
    split at h
    · cases h
    · split at h
      · cases h
      · injection h with h; omega

-- `{"results":[]}` is an acceptable answer of /symbolicate/v5 and of no other path; `{"error":null}` of none
example : JT.acceptable JT.pathSymbolicate [123, 34, 114, 101, 115, 117, 108, 116, 115, 34, 58, 91, 93, 125] = true
    ∧ JT.acceptable JT.pathAsm [123, 34, 114, 101, 115, 117, 108, 116, 115, 34, 58, 91, 93, 125] = false
    ∧ JT.acceptable JT.pathAsm [123, 34, 101, 114, 114, 111, 114, 34, 58, 110, 117, 108, 108, 125] = false := by decide
example : BsOk (bsearch1 0x1130 0x1140) 1 ∧ BsOk (.notFound 3) 3 := by decide
example : asciiFollow [0x61, 0x2D, 0xC3, 0xA9, 0x2D, 0x31] = true
    ∧ utf8Shape [0x61, 0x2D, 0xC3, 0xA9, 0x2D, 0x31] = true := by decide
-- shared.rs tests: "63C036DBA7000" is a PeCodeId with timestamp 0x63C036DB and image size 0xA7000
example : codeIdFromStr [0x36, 0x33, 0x43, 0x30, 0x33, 0x36, 0x44, 0x42, 0x41, 0x37, 0x30, 0x30, 0x30]
    = .ok (.pe 0x63C036DB 0xA7000) := by decide
-- hex.rs / request_json.rs test: "0x1d04742" = 30426946
example : fromPrefixedHexStr [0x30, 0x78, 0x31, 0x64, 0x30, 0x34, 0x37, 0x34, 0x32] = .ok 30426946 := by
  decide
-- index.rs func_parsing test: FUNC 1130 28, lookup inside and at the end
example : bpFunc false [0x31, 0x31, 0x33, 0x30] [0x32, 0x38] 0x1157 = .ok (some (0x1130, 0x28))
    ∧ bpFunc false [0x31, 0x31, 0x33, 0x30] [0x32, 0x38] 0x1158 = .ok none := by decide
-- asm_with_continue test: start 0x51fd1 (thumb bit), size 8, function end beyond → aligned start, longer len
example : asmPlan .arm 0x51fd1 8 true (some 0x52001) = .ok ⟨0x51fd0, 0x30, 0x3f⟩ := by decide

/-! ### FILE / INLINE_ORIGIN ids that the index does not declare (the mechanism of seeded C08-4) -/

/-- `ItemCache::get_string(id)` over **any** FILE / INLINE_ORIGIN list — sorted or not, dense or sparse, from a
stale or corrupted `.symindex` — is a total function (no index past the end of the list: the model reads through
`items[·]?` only where the binary search of `get_vec_index`, index.rs:460-464, found an entry), and it yields a
string only for an id that some entry of the list declares: a line or INLINE record that names an undeclared id
gets no file / origin name, whatever the id and whatever the list. -/
theorem C08_item_lookup_only_declared (lineParser : List UInt8 → Option (Nat × List UInt8))
    (text : List UInt8) (items : List BP.FEntry) (idx : Nat) (name : List UInt8)
    (h : BP.getString lineParser text items idx = some name) : ∃ e ∈ items, e.index = idx := by
  unfold BP.getString at h
  split at h
  · cases h
  · rename_i e he
    cases hb : BP.bsearchEq (fun e => idx < e.index) (fun e => e.index = idx) items with
    | none => rw [hb] at he; cases he
    | some i =>
      rw [hb] at he
      simp only [Option.bind_some] at he
      refine ⟨e, List.mem_of_getElem? he, ?_⟩
      unfold BP.bsearchEq at hb
      split at hb
      · cases hb
      · dsimp only at hb
        split at hb
        · cases hb
        · rename_i x hx
          split at hb
          · rename_i heq
            cases hb
            rw [hx] at he
            cases he
            simpa using heq
          · cases hb
