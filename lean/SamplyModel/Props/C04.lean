import SamplyModel.Lemmas.SampleTable
import SamplyModel.Lemmas.SampleTableProfile
/-!
# C04 — serialized sample and counter tables are chronological and lossless

Model: `SamplyModel/Model/SampleTable.lean` (follows `sample_table.rs`, `thread.rs:137-173`, `counters.rs`,
the delta serializers of `timestamp.rs`, `SliceWithPermutation`, `CpuDelta::from_nanos`; *after* the repair
`cfcb4a41`).

* `STab.run ops : Option Thread` drives one thread through a history of `add` / `merge`
  (= `add_sample_same_stack_zero_cpu`) calls; `none` = a call panicked.
* `th.samples.serializeWith idx` is the serializer's permutation path for an index vector `idx`;
  `th.samples.serialize` is the serializer (identity when the sortedness flag is set, `idx` = merge sort by
  timestamp otherwise). Rust uses `sort_unstable_by_key`; therefore every theorem is stated for **every**
  `idx` with `STab.ValidIdx times idx` (a permutation of the row indices through which the timestamps read
  nondecreasingly), and `C04_sort_valid` / `C04_serialize_is_valid_permutation` show that the model's own
  serializer is one of them.
* `STab.logical ops` is the specification side: the samples the caller added, computed from the bare call
  list (`merge` extends the previous sample iff that sample has zero CPU delta, else appends a zero-CPU
  sample with the previous sample's stack).
* `STab.specB` is the property statement as a `Bool` function of (call history, observed output); it is the
  function the judge evaluates on the implementation's output.

All theorems hold for every history of any length, any timestamps (equal, decreasing, …), weights of both
signs. The only hypothesis is `run ops = some th` (no call panicked), and `C04_panic_iff_weight_overflow` says
exactly when that fails: when a merged weight leaves the `i32` range (`STab.fits ops = false`; Rust's
`+=` on `i32` panics under overflow checks) — the excluded point, run by its own generator stream.
Only property theorems (names `C04_*`) and non-vacuity examples live in this file.
-/
open STab

/-- **Key invariant.** After any history: if the sortedness flag is still set, the stored timestamps are in
order; and `last_sample_timestamp` is the time of the last stored row (0 for an empty table). -/
theorem C04_invariant (ops : List Op) (th : Thread) (h : run ops = some th) :
    (th.samples.isSorted = true → th.samples.times.Pairwise (· ≤ ·)) ∧
    (∀ t, th.samples.times.getLast? = some t → th.samples.lastTs = t) ∧
    (th.samples.times = [] → th.samples.lastTs = 0) := by
  have inv := run_some_inv ops th h
  refine ⟨fun hs => by rw [inv.times]; exact inv.sorted hs, ?_, ?_⟩
  · intro t ht
    rw [inv.times, List.getLast?_map] at ht
    rw [inv.lastTs]
    cases hl : (logical ops).getLast? with
    | none => simp [hl] at ht
    | some r => simp [hl] at ht; simp [ht]
  · intro he
    rw [inv.times, List.map_eq_nil_iff] at he
    rw [inv.lastTs, he]; rfl

/-- **Stored table = logical samples.** The four parallel columns are exactly the projections of the logical
samples in call order (a merge has rewritten the last row's time and added to its weight); in particular they
have equal lengths, and the two thread-level fields describe the last logical sample. -/
theorem C04_columns (ops : List Op) (th : Thread) (h : run ops = some th) :
    th.samples.times = (logical ops).map (·.t) ∧ th.samples.stacks = (logical ops).map (·.stack) ∧
    th.samples.weights = (logical ops).map (·.w) ∧ th.samples.cpus = (logical ops).map (·.cpu) ∧
    th.lastStack = ((logical ops).getLast?.bind (·.stack)) ∧
    th.lastZero = ((logical ops).getLast?.any (·.cpu = 0)) := by
  have inv := run_some_inv ops th h
  refine ⟨inv.times, inv.stacks, inv.weights, inv.cpus, ?_, ?_⟩
  · rw [inv.lastStack]; cases (logical ops).getLast? <;> rfl
  · rw [inv.lastZero]; cases (logical ops).getLast? <;> simp

/-- **The spec without the merge rule.** On a history without merge calls the logical samples are literally the
samples of the `add` calls, in call order: there `C04_lossless` says word for word that each entry keeps the time,
stack, weight and CPU delta it was added with. (The meaning of a merge call — extend the previous zero-CPU sample,
else append one with the previous stack — is the documented rule of `add_sample_same_stack_zero_cpu`, adopted as
specification.) -/
theorem C04_logical_without_merge (ops : List Op) (h : ∀ op ∈ ops, ∃ t s c w, op = .add t s c w) :
    logical ops = ops.filterMap Op.addRow? := by
  have gen : ∀ (ops : List Op) (rows : List LRow), (∀ op ∈ ops, ∃ t s c w, op = Op.add t s c w) →
      logicalFrom rows ops = rows ++ ops.filterMap Op.addRow? := by
    intro ops
    induction ops with
    | nil => intro rows _; simp [logicalFrom]
    | cons op ops ih =>
      intro rows h
      obtain ⟨t, s, c, w, rfl⟩ := h op (by simp)
      have := ih (rows ++ [⟨t, s, c / 1000, w⟩]) (fun o ho => h o (by simp [ho]))
      simp only [logicalFrom, List.foldl_cons, logicalStep] at this ⊢
      rw [this]
      simp [Op.addRow?]
  simpa [logical] using gen ops [] h

/-- **No panic, except the stated `i32` overflow.** A history panics in the model iff some merge call would
make the accumulated weight of a sample leave the `i32` range; in particular the `unwrap`s in
`modify_last_sample` never fail. -/
theorem C04_panic_iff_weight_overflow (ops : List Op) : run ops = none ↔ fits ops = false := by
  constructor
  · intro h
    cases hf : fits ops with
    | false => rfl
    | true => obtain ⟨th, e, _⟩ := (run_inv ops).1 hf; rw [e] at h; cases h
  · exact (run_inv ops).2

/-- The merge sort used by the model is a valid sorting permutation, for every timestamp column. -/
theorem C04_sort_valid (times : List Nat) : ValidIdx times (sortedIndexes times) :=
  sortedIndexes_valid times

/-- The serializer is `serializeWith idx` for a valid `idx` on every reachable table — on the
`is_sorted_by_time` fast path this is where the invariant is needed. -/
theorem C04_serialize_is_valid_permutation (ops : List Op) (th : Thread) (h : run ops = some th) :
    ∃ idx, ValidIdx th.samples.times idx ∧ th.samples.serialize = th.samples.serializeWith idx :=
  serialize_eq th _ (run_some_inv ops th h)

/-- **Chronological.** Through every valid index vector the serializer succeeds (no index out of range, no
`u64` underflow in `cur - prev`): every delta is defined, the running sums of the deltas reproduce the
timestamps read through `idx`, and these are nondecreasing. -/
theorem C04_chronological (ops : List Op) (th : Thread) (h : run ops = some th) (idx : List Nat)
    (hv : ValidIdx th.samples.times idx) :
    ∃ o ts, th.samples.serializeWith idx = some o ∧ permute th.samples.times idx = some ts ∧
      deltasFrom 0 ts = some o.deltas ∧ runningSums 0 o.deltas = ts ∧ ts.Pairwise (· ≤ ·) := by
  obtain ⟨rows', ds, _, hs, hp, hd, hr, he⟩ := serializeWith_rows th _ (run_some_inv ops th h) idx hv
  exact ⟨_, _, he, hp, hd, hr, hs⟩

/-- **Lossless.** The output rows are a permutation `rows'` of the logical samples: one and the same
rearrangement supplies all four columns, so every entry keeps the stack, weight and CPU delta it was added
with, and its timestamp is the running sum of the deltas. -/
theorem C04_lossless (ops : List Op) (th : Thread) (h : run ops = some th) (idx : List Nat)
    (hv : ValidIdx th.samples.times idx) :
    ∃ (o : Out) (rows' : List LRow), th.samples.serializeWith idx = some o ∧ rows'.Perm (logical ops) ∧
      o.stack = rows'.map (·.stack) ∧ o.weight = rows'.map (·.w) ∧ o.cpu = rows'.map (·.cpu) ∧
      runningSums 0 o.deltas = rows'.map (·.t) := by
  obtain ⟨rows', ds, hperm, _, _, _, hr, he⟩ := serializeWith_rows th _ (run_some_inv ops th h) idx hv
  exact ⟨_, rows', he, hperm, rfl, rfl, rfl, hr⟩

/-- **Totals.** Total weight and total CPU time (µs) of the serialized table equal the sums over the calls. -/
theorem C04_totals (ops : List Op) (th : Thread) (h : run ops = some th) (idx : List Nat)
    (hv : ValidIdx th.samples.times idx) :
    ∃ o, th.samples.serializeWith idx = some o ∧
      o.weight.sum = (ops.map Op.weight).sum ∧ o.cpu.sum = (ops.map Op.cpuMicros).sum := by
  obtain ⟨rows', ds, hperm, _, _, _, _, he⟩ := serializeWith_rows th _ (run_some_inv ops th h) idx hv
  refine ⟨_, he, ?_, ?_⟩
  · exact (perm_sum_int (hperm.map (·.w))).trans (logical_sums ops).1
  · exact ((hperm.map (·.cpu)).sum_nat).trans (logical_sums ops).2

/-- The judged specification `specB` (the function the judge runs on the implementation's output) holds of
the model's output through every valid index vector. -/
theorem C04_spec (ops : List Op) (th : Thread) (h : run ops = some th) (idx : List Nat)
    (hv : ValidIdx th.samples.times idx) :
    ∃ o, th.samples.serializeWith idx = some o ∧ specB ops o.obs = true := by
  obtain ⟨rows', ds, hperm, hs, _, _, hr, he⟩ := serializeWith_rows th _ (run_some_inv ops th h) idx hv
  refine ⟨_, he, ?_⟩
  have hlen : ds.length = rows'.length := by
    have := congrArg List.length hr
    simpa [runningSums_length] using this
  have hw := (perm_sum_int (hperm.map (·.w))).trans (logical_sums ops).1
  have hc := ((hperm.map (·.cpu)).sum_nat).trans (logical_sums ops).2
  have hmap : List.map Int.toNat (List.map Int.ofNat ds) = ds := toNat_ofNat_map ds
  simp only [specB, Out.obs, specNat, hmap, hr, mkRows_map, List.length_map, beq_self_eq_true,
    Bool.and_self, Bool.true_and, Bool.and_eq_true, List.all_eq_true, List.mem_map,
    decide_eq_true_eq, beq_iff_eq]
  refine ⟨?_, ⟨⟨⟨(nondecreasing_iff _).2 hs, List.isPerm_iff.2 hperm⟩, hw⟩, hc⟩⟩
  rintro _ ⟨d, _, rfl⟩
  exact Int.natCast_nonneg d

/-- … and so of the model's own serializer, on every history that does not overflow `i32`. -/
theorem C04_serialize_spec (ops : List Op) (hf : fits ops = true) :
    ∃ th o, run ops = some th ∧ th.samples.serialize = some o ∧ specB ops o.obs = true := by
  obtain ⟨th, e, _⟩ := (run_inv ops).1 hf
  obtain ⟨idx, hv, hs⟩ := C04_serialize_is_valid_permutation ops th e
  obtain ⟨o, ho, hspec⟩ := C04_spec ops th e idx hv
  exact ⟨th, o, e, by rw [hs, ho], hspec⟩

/-! ### Counters (`add_counter_sample`; no merge call, no panic)

Counter values are `f64` tokens (`STab.CVal`: integers, `-0.0`, any other bit pattern incl. fractions,
subnormals, NaN, ±inf). `rowsC ops` are the samples as added; a JSON document shows a non-finite value as
`null` (`CVal.json`), which is the one excluded point of "keeps the counter value it was added with". -/

/-- Key invariant and stored columns of the counter table. -/
theorem C04_counter_invariant (ops : List COp) :
    ((runC ops).isSorted = true → (runC ops).time.Pairwise (· ≤ ·)) ∧
    (∀ t, (runC ops).time.getLast? = some t → (runC ops).lastTs = t) ∧
    (runC ops).time = ops.map (·.t) ∧ (runC ops).count = ops.map (·.value) ∧
    (runC ops).number = ops.map (·.n) := by
  have inv := runC_inv ops
  refine ⟨fun hs => by rw [inv.time]; exact inv.sorted hs, ?_, ?_, ?_, ?_⟩
  · intro t ht
    rw [inv.time, List.getLast?_map] at ht
    rw [inv.lastTs]
    cases hl : (rowsC ops).getLast? with
    | none => simp [hl] at ht
    | some r => simp [hl] at ht; simp [ht]
  · rw [inv.time]; simp [rowsC]
  · rw [inv.count]; simp [rowsC]
  · rw [inv.number]; simp [rowsC]

theorem C04_counter_serialize_is_valid_permutation (ops : List COp) :
    ∃ idx, ValidIdx (runC ops).time idx ∧ (runC ops).serialize = (runC ops).serializeWith idx :=
  cserialize_eq _ _ (runC_inv ops)

/-- Chronological, for counters. -/
theorem C04_counter_chronological (ops : List COp) (idx : List Nat) (hv : ValidIdx (runC ops).time idx) :
    ∃ o ts, (runC ops).serializeWith idx = some o ∧ permute (runC ops).time idx = some ts ∧
      deltasFrom 0 ts = some o.deltas ∧ runningSums 0 o.deltas = ts ∧ ts.Pairwise (· ≤ ·) := by
  obtain ⟨rows', ds, _, hs, hp, hd, hr, he⟩ := cserializeWith_rows _ _ (runC_inv ops) idx hv
  exact ⟨_, _, he, hp, hd, hr, hs⟩

/-- Lossless, for counters: one rearrangement `rows'` of the calls supplies `count`, `number` and the times;
the value shown is the value added, except that a non-finite value is shown as `null`. -/
theorem C04_counter_lossless (ops : List COp) (idx : List Nat) (hv : ValidIdx (runC ops).time idx) :
    ∃ (o : COut) (rows' : List CRow), (runC ops).serializeWith idx = some o ∧ rows'.Perm (rowsC ops) ∧
      o.count = rows'.map (·.value.json) ∧ o.number = rows'.map (·.n) ∧
      runningSums 0 o.deltas = rows'.map (·.t) := by
  obtain ⟨rows', ds, hperm, _, _, _, hr, he⟩ := cserializeWith_rows _ _ (runC_inv ops) idx hv
  exact ⟨_, rows', he, hperm, rfl, rfl, hr⟩

/-- … and when every added value is finite (any fraction, subnormal, `-0.0`, huge value), `count` shows exactly
the values that were added. -/
theorem C04_counter_lossless_finite (ops : List COp) (hfin : ∀ op ∈ ops, op.value.isFinite = true)
    (idx : List Nat) (hv : ValidIdx (runC ops).time idx) :
    ∃ (o : COut) (rows' : List CRow), (runC ops).serializeWith idx = some o ∧ rows'.Perm (rowsC ops) ∧
      o.count = rows'.map (·.value) ∧ o.number = rows'.map (·.n) ∧
      runningSums 0 o.deltas = rows'.map (·.t) := by
  obtain ⟨o, rows', he, hperm, hc, hn, hr⟩ := C04_counter_lossless ops idx hv
  refine ⟨o, rows', he, hperm, ?_, hn, hr⟩
  rw [hc]
  apply List.map_congr_left
  intro r hr'
  have : r ∈ rowsC ops := hperm.mem_iff.1 hr'
  simp only [rowsC, List.mem_map] at this
  obtain ⟨op, hop, rfl⟩ := this
  exact CVal.json_of_finite _ (hfin op hop)

/-- Totals and the judged spec, for counters. -/
theorem C04_counter_spec (ops : List COp) (idx : List Nat) (hv : ValidIdx (runC ops).time idx) :
    ∃ o, (runC ops).serializeWith idx = some o ∧
      (o.count.map CVal.intPart).sum = (ops.map (·.value.intPart)).sum ∧
      o.number.sum = (ops.map (·.n)).sum ∧
      specCB ops o.obs = true := by
  obtain ⟨rows', ds, hperm, hs, _, _, hr, he⟩ := cserializeWith_rows _ _ (runC_inv ops) idx hv
  have hlen : ds.length = rows'.length := by
    have := congrArg List.length hr
    simpa [runningSums_length] using this
  have hw : ((rows'.map (·.value.json)).map CVal.intPart).sum = (ops.map (·.value.intPart)).sum := by
    have := perm_sum_int (hperm.map (·.value.intPart))
    simpa [rowsC, Function.comp_def, CVal.intPart_json] using this
  have hc : (rows'.map (·.n)).sum = (ops.map (·.n)).sum := by
    have := (hperm.map (·.n)).sum_nat
    simpa [rowsC, Function.comp_def] using this
  have hperm' : (rows'.map CRow.json).Perm (logicalC ops) := hperm.map CRow.json
  have hrows : mkCRows (rows'.map (·.t)) (rows'.map (·.value.json)) (rows'.map (·.n)) = rows'.map CRow.json := by
    have := mkCRows_map (rows'.map CRow.json)
    simpa [CRow.json, Function.comp_def] using this
  refine ⟨_, he, hw, hc, ?_⟩
  have hmap : List.map Int.toNat (List.map Int.ofNat ds) = ds := toNat_ofNat_map ds
  simp only [specCB, COut.obs, specCNat, hmap, hr, hrows, List.length_map, beq_self_eq_true,
    Bool.and_self, Bool.true_and, Bool.and_eq_true, List.all_eq_true, List.mem_map,
    decide_eq_true_eq, beq_iff_eq]
  refine ⟨?_, ⟨⟨⟨(nondecreasing_iff _).2 hs, List.isPerm_iff.2 hperm'⟩, hw⟩, hc⟩⟩
  rintro _ ⟨d, _, rfl⟩
  exact Int.natCast_nonneg d

/-! ### Profile level: several threads and counters, the neighbouring `Thread` calls, serialization in the middle

Model: `SamplyModel/Model/SampleTableProfile.lean`. `PState.init procs nc` is a profile with one thread per entry
of `procs` (the process it belongs to) and `nc` counters; a history is a `List POp` (`sample i (add | merge)`,
`alloc`, `marker`, `wtype`, `counter j`, `ser`); `runPFrom` runs it (`none` = a call panicked), `snapsFrom` also
collects what every `ser` call and a final serialization show. `threadOps i ops` / `counterOps j ops` are the calls
a single thread / counter received; `prefixAt k ops` the calls before the `k`-th `ser`. -/
open STabP

/-- **Frame.** After any history on any profile, thread `i` holds exactly what its own `add` / `merge` calls produce
on a fresh thread (so every single-thread theorem above applies to it), and counter `j` what its own counter calls
produce: calls on other threads, allocation samples (which land in the first thread of the process), markers,
weight-type changes, counter samples and serializations in between touch neither the sample table nor
`last_sample_stack` / `last_sample_was_zero_cpu`. -/
theorem C04_profile_frame (procs : List Nat) (nc : Nat) (ops : List POp) (st : PState)
    (h : runPFrom (PState.init procs nc) ops = some st) :
    (∀ (i p : Nat), procs[i]? = some p →
      ∃ pt, st.threads[i]? = some pt ∧ pt.proc = p ∧ run (threadOps i ops) = some pt.core) ∧
    (∀ j, j < nc → st.counters[j]? = some (runC (counterOps j ops))) := by
  constructor
  · intro i p hp
    have hi : (PState.init procs nc).threads[i]? = some (PThread.new p) := by
      simp [PState.init, hp]
    obtain ⟨pt, h1, h2, h3⟩ := runPFrom_thread ops _ st h i _ hi
    exact ⟨pt, h1, h2, h3⟩
  · intro j hj
    have hc : (PState.init procs nc).counters[j]? = some CounterSamples.new := by
      simp [PState.init, hj]
    exact runPFrom_counter ops _ st h j _ hc

/-- **No panic at profile level, except the stated overflow.** A history whose handles belong to the profile
panics iff the `add` / `merge` calls of one of its threads make a merged weight leave `i32`: no `unwrap`, no index,
none of the other calls panics. -/
theorem C04_profile_panic_iff (procs : List Nat) (nc : Nat) (ops : List POp)
    (hw : WellAddr procs.length nc ops) :
    runPFrom (PState.init procs nc) ops = none ↔ ∃ i, i < procs.length ∧ fits (threadOps i ops) = false := by
  constructor
  · intro h
    have hw' : WellAddr (PState.init procs nc).threads.length (PState.init procs nc).counters.length ops := by
      simpa [PState.init] using hw
    obtain ⟨i, th, hi, hr⟩ := runPFrom_none ops _ hw' h
    simp only [PState.init, List.getElem?_map] at hi
    cases hp : procs[i]? with
    | none => simp [hp] at hi
    | some p =>
      simp only [hp, Option.map_some, Option.some.injEq] at hi
      subst hi
      have hlt : i < procs.length := by
        rcases Nat.lt_or_ge i procs.length with h' | h'
        · exact h'
        · rw [List.getElem?_eq_none h'] at hp; cases hp
      exact ⟨i, hlt, (C04_panic_iff_weight_overflow _).1 hr⟩
  · rintro ⟨i, hlt, hf⟩
    have hi : (PState.init procs nc).threads[i]? = some (PThread.new procs[i]) := by
      simp [PState.init, List.getElem?_eq_getElem hlt]
    exact runPFrom_some_thread ops _ i _ hi ((C04_panic_iff_weight_overflow _).2 hf)

/-- **Serializing is an observation.** The `ser` calls of a history do not change where it ends. -/
theorem C04_ser_transparent (st : PState) (ops : List POp) :
    runPFrom st ops = runPFrom st (ops.filter fun op => !op.isSer) := by
  induction ops generalizing st with
  | nil => rfl
  | cons op ops ih =>
    by_cases hser : op.isSer = true
    · simp [runPFrom, step_ser_of_isSer hser, hser, ih]
    · simp only [Bool.not_eq_true] at hser
      simp only [List.filter_cons, hser, Bool.not_false, if_true, runPFrom]
      cases st.step op with
      | none => rfl
      | some st' => exact ih st'

/-- **Every snapshot is chronological and lossless for what was added before it.** On any profile and any
well-addressed history that does not overflow an `i32` weight: every `ser` call and the final serialization
succeed (no panic while serializing, although the history goes on and tables are re-serialized later), and in the
`k`-th snapshot every thread's sample table satisfies the judged spec `specB` for exactly the `add` / `merge`
calls that thread received before the `k`-th `ser`, and every counter's table `specCB` for its counter calls
before it. -/
theorem C04_snapshots (procs : List Nat) (nc : Nat) (ops : List POp) (hw : WellAddr procs.length nc ops)
    (hf : ∀ i, i < procs.length → fits (threadOps i ops) = true) :
    ∃ snaps, snapsFrom (PState.init procs nc) ops = some snaps ∧ snaps.length = serCount ops + 1 ∧
      ∀ (k : Nat) (s : PSnap), snaps[k]? = some s →
        (∀ i, i < procs.length → ∃ ts, s.threads[i]? = some ts ∧
          specB (threadOps i (prefixAt k ops)) ts.samples.obs = true) ∧
        (∀ j, j < nc → ∃ co, s.counters[j]? = some co ∧
          specCB (counterOps j (prefixAt k ops)) co.obs = true) := by
  cases hr : runPFrom (PState.init procs nc) ops with
  | none =>
    obtain ⟨i, hlt, hfi⟩ := (C04_profile_panic_iff procs nc ops hw).1 hr
    rw [hf i hlt] at hfi; cases hfi
  | some st' =>
    obtain ⟨snaps, hs⟩ := snapsFrom_total ops _ st' (good_init procs nc) hr
    obtain ⟨hlen, hk⟩ := snapsFrom_spec ops _ snaps hs
    refine ⟨snaps, hs, hlen, ?_⟩
    intro k s hks
    obtain ⟨stk, hrun, hser⟩ := hk k s hks
    obtain ⟨fr1, fr2⟩ := C04_profile_frame procs nc _ stk hrun
    obtain ⟨sl1, sl2, _, _⟩ := serialize_slots hser
    constructor
    · intro i hlt
      obtain ⟨pt, hpt, _, hrun_i⟩ := fr1 i procs[i] (List.getElem?_eq_getElem hlt)
      obtain ⟨ts, hts, hpts⟩ := sl1 i pt hpt
      refine ⟨ts, hts, ?_⟩
      obtain ⟨idx, hv, he⟩ := C04_serialize_is_valid_permutation _ _ hrun_i
      obtain ⟨o, ho, hspec⟩ := C04_spec _ _ hrun_i idx hv
      simp only [PThread.serialize, he, ho, Option.map_some, Option.some.injEq] at hpts
      subst hpts
      exact hspec
    · intro j hlt
      have hc := fr2 j hlt
      obtain ⟨co, hco, hcs⟩ := sl2 j _ hc
      refine ⟨co, hco, ?_⟩
      obtain ⟨idx, hv, he⟩ := C04_counter_serialize_is_valid_permutation (counterOps j (prefixAt k ops))
      obtain ⟨o, ho, _, _, hspec⟩ := C04_counter_spec _ idx hv
      rw [he, ho] at hcs
      cases hcs
      exact hspec

/-- non-vacuity at profile level: two threads of one process interleaved, an allocation sample named for thread 1
(lands in thread 0, between thread 0's `add` and `merge`), a marker, a `ser` in the middle, a `-0.0` counter value -/
def C04_profileHistory : List POp :=
  [.sample 0 (.add 10 (some 0) 5000 1), .alloc 1 11 (some 2) 4096 64, .sample 1 (.add 5 none 0 2), .ser,
   .sample 0 (.merge 12 4), .marker 0, .counter 1 ⟨3, .negZero, 1⟩, .sample 1 (.merge 7 8)]

example : WellAddr 3 2 C04_profileHistory := by
  intro op hop; revert op hop; decide

example : (∀ i, i < 3 → fits (threadOps i C04_profileHistory) = true) := by decide

example : (snapsFrom (PState.init [0, 0, 1] 2) C04_profileHistory).map (fun snaps => snaps.map fun s =>
      (s.threads.map (·.samples.weight), s.threads.map (·.samples.stack), s.threads.map (·.allocs.isSome),
       s.counters.map (·.count)))
    = some [([[1], [2], []], [[some 0], [none], []], [true, false, false], [[], []]),
            ([[1, 4], [10], []], [[some 0, some 0], [none], []], [true, false, false], [[], [.negZero]])] := by
  rfl

/-! ### The defect repaired by `cfcb4a41` -/

/-- the history of DESIGN.md §8 #1: a zero-CPU sample at 10, extended to 20 by the merge call, then a sample
at 15 -/
def C04_legacyHistory : List Op := [.add 10 none 0 1, .merge 20 1, .add 15 none 0 1]

/-- With the pre-fix `modify_last_sample` (bookkeeping fields not updated) the table holds the times
`[20, 15]` with the sortedness flag still set, and the serializer's `15 - 20` underflows (`none`): the spec
cannot hold of any output. A revert of the fix is therefore caught by the correspondence on this history. -/
theorem C04_legacy_counterexample :
    (runLegacy C04_legacyHistory).map (fun th => (th.samples.isSorted, th.samples.times, th.samples.serialize))
      = some (true, [20, 15], none) := by decide

/-- the repaired code on the same history: the flag is cleared and the output is in order and complete -/
theorem C04_fixed_on_legacy_history :
    (run C04_legacyHistory).map (fun th => (th.samples.isSorted, th.samples.times,
        th.samples.serializeWith [1, 0]))
      = some (false, [20, 15], some ⟨[none, none], [15, 5], [1, 2], [0, 0]⟩) := by decide

/-! ### Non-vacuity: ties, inversions, merges -/

/-- a history with a tie (two samples at 7), an inversion (3 after 7), a merge that extends a zero-CPU
sample backwards in time (9 → 2), a merge after a sample with CPU time (appends, same stack), a sub-µs CPU
delta (999 ns truncates to 0 µs ⇒ merge-eligible) and weights of both signs -/
def C04_exampleHistory : List Op :=
  [.merge 5 1, .add 7 (some 1) 2500 3, .add 7 (some 2) 999 (-4), .merge 9 10, .merge 2 1,
   .add 3 none 1000000 2, .merge 3 5]

example : fits C04_exampleHistory = true := by decide

example : logical C04_exampleHistory =
    [⟨5, none, 0, 1⟩, ⟨7, some 1, 2, 3⟩, ⟨2, some 2, 0, 7⟩, ⟨3, none, 1000, 2⟩, ⟨3, none, 0, 5⟩] := by
  decide

example : (run C04_exampleHistory).map (fun th => (th.samples.isSorted, th.samples.lastTs, th.lastZero))
    = some (false, 3, true) := by decide

/-- two different valid index vectors (the tie between rows 3 and 4 broken either way), both covered by the
theorems -/
example : (run C04_exampleHistory).map (fun th =>
      (th.samples.serializeWith [2, 3, 4, 0, 1], th.samples.serializeWith [2, 4, 3, 0, 1]))
    = some (some ⟨[some 2, none, none, none, some 1], [2, 1, 0, 2, 2], [7, 2, 5, 1, 3], [0, 1000, 0, 0, 2]⟩,
            some ⟨[some 2, none, none, none, some 1], [2, 1, 0, 2, 2], [7, 5, 2, 1, 3], [0, 0, 1000, 0, 2]⟩) := by
  decide

/-- the first of them is what the model's stable merge sort picks on the stored times `[5, 7, 2, 3, 3]` -/
example : sortedIndexes [5, 7, 2, 3, 3] = [2, 3, 4, 0, 1] := by
  simp [sortedIndexes, List.zipIdx, List.mergeSort, List.MergeSort.Internal.splitInTwo]

example : (run C04_exampleHistory).map (fun th => permute th.samples.times [2, 4, 3, 0, 1])
    = some (some [2, 3, 3, 5, 7]) := by decide

/-- the excluded point: the merged weight leaves `i32` ⇒ the model (like the real code under overflow checks)
panics -/
example : fits [.add 1 none 0 2147483647, .merge 2 1] = false ∧
    run [.add 1 none 0 2147483647, .merge 2 1] = none := by decide

/-- counters: inversion and tie -/
example : ((runC [⟨5, .int 1, 1⟩, ⟨3, .int (-2), 0⟩, ⟨5, .int 4, 2⟩]).isSorted,
           (runC [⟨5, .int 1, 1⟩, ⟨3, .int (-2), 0⟩, ⟨5, .int 4, 2⟩]).serializeWith [1, 2, 0])
    = (false, some ⟨[.int (-2), .int 4, .int 1], [0, 2, 1], [3, 2, 0]⟩) := by decide

/-- counters: a fraction (0.5 = 0x3fe0000000000000), `-0.0`, a NaN and `+inf` — the finite ones are kept as
they are, the non-finite ones are shown as `null` -/
example : (runC [⟨5, .bits 0x3fe0000000000000, 1⟩, ⟨3, .negZero, 0⟩, ⟨5, .bits 0x7ff8000000000000, 2⟩,
                 ⟨1, .bits 0x7ff0000000000000, 3⟩]).serializeWith [3, 1, 0, 2]
    = some ⟨[.null, .negZero, .bits 0x3fe0000000000000, .null], [3, 0, 1, 2], [1, 2, 2, 0]⟩ := by decide
