import SamplyModel.Lemmas.SampleTable
/-!
# C04 — serialized sample and counter tables are chronological and lossless

Model: `SamplyModel/Model/SampleTable.lean` (follows `sample_table.rs`, `thread.rs:137-173`, `counters.rs`,
the delta serializers of `timestamp.rs`, `SliceWithPermutation`, `CpuDelta::from_nanos`; *after* the repair
`cfcb4a41`).

* `STab.run ops : Option Thread` drives one thread through a history of `add` / `merge`
  (= `add_sample_same_stack_zero_cpu`) calls; `none` = a call panicked.
* `th.samples.serializeWith idx` is the serializer's permutation path for an index vector `idx`;
  `th.samples.serialize` is the serializer (identity when the sortedness flag is set, `idx` = merge sort by
  timestamp otherwise). Rust uses `sort_unstable_by_key`; therefore every theorem is stated for **every**
  `idx` with `STab.ValidIdx times idx` (a permutation of the row indices through which the timestamps read
  nondecreasingly), and `C04_sort_valid` / `C04_serialize_is_valid_permutation` show that the model's own
  serializer is one of them.
* `STab.logical ops` is the specification side: the samples the caller added, computed from the bare call
  list (`merge` extends the previous sample iff that sample has zero CPU delta, else appends a zero-CPU
  sample with the previous sample's stack).
* `STab.specB` is the property statement as a `Bool` function of (call history, observed output); it is the
  function the judge evaluates on the implementation's output.

All theorems hold for every history of any length, any timestamps (equal, decreasing, …), weights of both
signs. The only hypothesis is `run ops = some th` (no call panicked), and `C04_panic_iff_weight_overflow` says
exactly when that fails: when a merged weight leaves the `i32` range (`STab.fits ops = false`; Rust's
`+=` on `i32` panics under overflow checks) — the excluded point, run by its own generator stream.
Only property theorems (names `C04_*`) and non-vacuity examples live in this file.
-/
open STab

/-- **Key invariant.** After any history: if the sortedness flag is still set, the stored timestamps are in
order; and `last_sample_timestamp` is the time of the last stored row (0 for an empty table). -/
theorem C04_invariant (ops : List Op) (th : Thread) (h : run ops = some th) :
    (th.samples.isSorted = true → th.samples.times.Pairwise (· ≤ ·)) ∧
    (∀ t, th.samples.times.getLast? = some t → th.samples.lastTs = t) ∧
    (th.samples.times = [] → th.samples.lastTs = 0) := by
  have inv := run_some_inv ops th h
  refine ⟨fun hs => by rw [inv.times]; exact inv.sorted hs, ?_, ?_⟩
  · intro t ht
    rw [inv.times, List.getLast?_map] at ht
    rw [inv.lastTs]
    cases hl : (logical ops).getLast? with
    | none => simp [hl] at ht
    | some r => simp [hl] at ht; simp [ht]
  · intro he
    rw [inv.times, List.map_eq_nil_iff] at he
    rw [inv.lastTs, he]; rfl

/-- **Stored table = logical samples.** The four parallel columns are exactly the projections of the logical
samples in call order (a merge has rewritten the last row's time and added to its weight); in particular they
have equal lengths, and the two thread-level fields describe the last logical sample. -/
theorem C04_columns (ops : List Op) (th : Thread) (h : run ops = some th) :
    th.samples.times = (logical ops).map (·.t) ∧ th.samples.stacks = (logical ops).map (·.stack) ∧
    th.samples.weights = (logical ops).map (·.w) ∧ th.samples.cpus = (logical ops).map (·.cpu) ∧
    th.lastStack = ((logical ops).getLast?.bind (·.stack)) ∧
    th.lastZero = ((logical ops).getLast?.any (·.cpu = 0)) := by
  have inv := run_some_inv ops th h
  refine ⟨inv.times, inv.stacks, inv.weights, inv.cpus, ?_, ?_⟩
  · rw [inv.lastStack]; cases (logical ops).getLast? <;> rfl
  · rw [inv.lastZero]; cases (logical ops).getLast? <;> simp

/-- **No panic, except the stated `i32` overflow.** A history panics in the model iff some merge call would
make the accumulated weight of a sample leave the `i32` range; in particular the `unwrap`s in
`modify_last_sample` never fail. -/
theorem C04_panic_iff_weight_overflow (ops : List Op) : run ops = none ↔ fits ops = false := by
  constructor
  · intro h
    cases hf : fits ops with
    | false => rfl
    | true => obtain ⟨th, e, _⟩ := (run_inv ops).1 hf; rw [e] at h; cases h
  · exact (run_inv ops).2

/-- The merge sort used by the model is a valid sorting permutation, for every timestamp column. -/
theorem C04_sort_valid (times : List Nat) : ValidIdx times (sortedIndexes times) :=
  sortedIndexes_valid times

/-- The serializer is `serializeWith idx` for a valid `idx` on every reachable table — on the
`is_sorted_by_time` fast path this is where the invariant is needed. -/
theorem C04_serialize_is_valid_permutation (ops : List Op) (th : Thread) (h : run ops = some th) :
    ∃ idx, ValidIdx th.samples.times idx ∧ th.samples.serialize = th.samples.serializeWith idx :=
  serialize_eq th _ (run_some_inv ops th h)

/-- **Chronological.** Through every valid index vector the serializer succeeds (no index out of range, no
`u64` underflow in `cur - prev`): every delta is defined, the running sums of the deltas reproduce the
timestamps read through `idx`, and these are nondecreasing. -/
theorem C04_chronological (ops : List Op) (th : Thread) (h : run ops = some th) (idx : List Nat)
    (hv : ValidIdx th.samples.times idx) :
    ∃ o ts, th.samples.serializeWith idx = some o ∧ permute th.samples.times idx = some ts ∧
      deltasFrom 0 ts = some o.deltas ∧ runningSums 0 o.deltas = ts ∧ ts.Pairwise (· ≤ ·) := by
  obtain ⟨rows', ds, _, hs, hp, hd, hr, he⟩ := serializeWith_rows th _ (run_some_inv ops th h) idx hv
  exact ⟨_, _, he, hp, hd, hr, hs⟩

/-- **Lossless.** The output rows are a permutation `rows'` of the logical samples: one and the same
rearrangement supplies all four columns, so every entry keeps the stack, weight and CPU delta it was added
with, and its timestamp is the running sum of the deltas. -/
theorem C04_lossless (ops : List Op) (th : Thread) (h : run ops = some th) (idx : List Nat)
    (hv : ValidIdx th.samples.times idx) :
    ∃ (o : Out) (rows' : List LRow), th.samples.serializeWith idx = some o ∧ rows'.Perm (logical ops) ∧
      o.stack = rows'.map (·.stack) ∧ o.weight = rows'.map (·.w) ∧ o.cpu = rows'.map (·.cpu) ∧
      runningSums 0 o.deltas = rows'.map (·.t) := by
  obtain ⟨rows', ds, hperm, _, _, _, hr, he⟩ := serializeWith_rows th _ (run_some_inv ops th h) idx hv
  exact ⟨_, rows', he, hperm, rfl, rfl, rfl, hr⟩

/-- **Totals.** Total weight and total CPU time (µs) of the serialized table equal the sums over the calls. -/
theorem C04_totals (ops : List Op) (th : Thread) (h : run ops = some th) (idx : List Nat)
    (hv : ValidIdx th.samples.times idx) :
    ∃ o, th.samples.serializeWith idx = some o ∧
      o.weight.sum = (ops.map Op.weight).sum ∧ o.cpu.sum = (ops.map Op.cpuMicros).sum := by
  obtain ⟨rows', ds, hperm, _, _, _, _, he⟩ := serializeWith_rows th _ (run_some_inv ops th h) idx hv
  refine ⟨_, he, ?_, ?_⟩
  · exact (perm_sum_int (hperm.map (·.w))).trans (logical_sums ops).1
  · exact ((hperm.map (·.cpu)).sum_nat).trans (logical_sums ops).2

/-- The judged specification `specB` (the function the judge runs on the implementation's output) holds of
the model's output through every valid index vector. -/
theorem C04_spec (ops : List Op) (th : Thread) (h : run ops = some th) (idx : List Nat)
    (hv : ValidIdx th.samples.times idx) :
    ∃ o, th.samples.serializeWith idx = some o ∧ specB ops o.obs = true := by
  obtain ⟨rows', ds, hperm, hs, _, _, hr, he⟩ := serializeWith_rows th _ (run_some_inv ops th h) idx hv
  refine ⟨_, he, ?_⟩
  have hlen : ds.length = rows'.length := by
    have := congrArg List.length hr
    simpa [runningSums_length] using this
  have hw := (perm_sum_int (hperm.map (·.w))).trans (logical_sums ops).1
  have hc := ((hperm.map (·.cpu)).sum_nat).trans (logical_sums ops).2
  have hmap : List.map Int.toNat (List.map Int.ofNat ds) = ds := toNat_ofNat_map ds
  simp only [specB, Out.obs, specNat, hmap, hr, mkRows_map, List.length_map, beq_self_eq_true,
    Bool.and_self, Bool.true_and, Bool.and_eq_true, List.all_eq_true, List.mem_map,
    decide_eq_true_eq, beq_iff_eq]
  refine ⟨?_, ⟨⟨⟨(nondecreasing_iff _).2 hs, List.isPerm_iff.2 hperm⟩, hw⟩, hc⟩⟩
  rintro _ ⟨d, _, rfl⟩
  exact Int.natCast_nonneg d

/-- … and so of the model's own serializer, on every history that does not overflow `i32`. -/
theorem C04_serialize_spec (ops : List Op) (hf : fits ops = true) :
    ∃ th o, run ops = some th ∧ th.samples.serialize = some o ∧ specB ops o.obs = true := by
  obtain ⟨th, e, _⟩ := (run_inv ops).1 hf
  obtain ⟨idx, hv, hs⟩ := C04_serialize_is_valid_permutation ops th e
  obtain ⟨o, ho, hspec⟩ := C04_spec ops th e idx hv
  exact ⟨th, o, e, by rw [hs, ho], hspec⟩

/-! ### Counters (`add_counter_sample`; no merge call, no panic) -/

/-- Key invariant and stored columns of the counter table. -/
theorem C04_counter_invariant (ops : List COp) :
    ((runC ops).isSorted = true → (runC ops).time.Pairwise (· ≤ ·)) ∧
    (∀ t, (runC ops).time.getLast? = some t → (runC ops).lastTs = t) ∧
    (runC ops).time = ops.map (·.t) ∧ (runC ops).count = ops.map (·.value) ∧
    (runC ops).number = ops.map (·.n) := by
  have inv := runC_inv ops
  refine ⟨fun hs => by rw [inv.time]; exact inv.sorted hs, ?_, ?_, ?_, ?_⟩
  · intro t ht
    rw [inv.time, List.getLast?_map] at ht
    rw [inv.lastTs]
    cases hl : (logicalC ops).getLast? with
    | none => simp [hl] at ht
    | some r => simp [hl] at ht; simp [ht]
  · rw [inv.time]; simp [logicalC]
  · rw [inv.count]; simp [logicalC]
  · rw [inv.number]; simp [logicalC]

theorem C04_counter_serialize_is_valid_permutation (ops : List COp) :
    ∃ idx, ValidIdx (runC ops).time idx ∧ (runC ops).serialize = (runC ops).serializeWith idx :=
  cserialize_eq _ _ (runC_inv ops)

/-- Chronological, for counters. -/
theorem C04_counter_chronological (ops : List COp) (idx : List Nat) (hv : ValidIdx (runC ops).time idx) :
    ∃ o ts, (runC ops).serializeWith idx = some o ∧ permute (runC ops).time idx = some ts ∧
      deltasFrom 0 ts = some o.deltas ∧ runningSums 0 o.deltas = ts ∧ ts.Pairwise (· ≤ ·) := by
  obtain ⟨rows', ds, _, hs, hp, hd, hr, he⟩ := cserializeWith_rows _ _ (runC_inv ops) idx hv
  exact ⟨_, _, he, hp, hd, hr, hs⟩

/-- Lossless, for counters: one rearrangement of the calls supplies `count`, `number` and the times. -/
theorem C04_counter_lossless (ops : List COp) (idx : List Nat) (hv : ValidIdx (runC ops).time idx) :
    ∃ (o : COut) (rows' : List CRow), (runC ops).serializeWith idx = some o ∧ rows'.Perm (logicalC ops) ∧
      o.count = rows'.map (·.value) ∧ o.number = rows'.map (·.n) ∧
      runningSums 0 o.deltas = rows'.map (·.t) := by
  obtain ⟨rows', ds, hperm, _, _, _, hr, he⟩ := cserializeWith_rows _ _ (runC_inv ops) idx hv
  exact ⟨_, rows', he, hperm, rfl, rfl, hr⟩

/-- Totals and the judged spec, for counters. -/
theorem C04_counter_spec (ops : List COp) (idx : List Nat) (hv : ValidIdx (runC ops).time idx) :
    ∃ o, (runC ops).serializeWith idx = some o ∧
      o.count.sum = (ops.map (·.value)).sum ∧ o.number.sum = (ops.map (·.n)).sum ∧
      specCB ops o.obs = true := by
  obtain ⟨rows', ds, hperm, hs, _, _, hr, he⟩ := cserializeWith_rows _ _ (runC_inv ops) idx hv
  have hlen : ds.length = rows'.length := by
    have := congrArg List.length hr
    simpa [runningSums_length] using this
  have hw : (rows'.map (·.value)).sum = (ops.map (·.value)).sum := by
    have := perm_sum_int (hperm.map (·.value))
    simpa [logicalC, Function.comp_def] using this
  have hc : (rows'.map (·.n)).sum = (ops.map (·.n)).sum := by
    have := (hperm.map (·.n)).sum_nat
    simpa [logicalC, Function.comp_def] using this
  refine ⟨_, he, hw, hc, ?_⟩
  have hmap : List.map Int.toNat (List.map Int.ofNat ds) = ds := toNat_ofNat_map ds
  simp only [specCB, COut.obs, specCNat, hmap, hr, mkCRows_map, List.length_map, beq_self_eq_true,
    Bool.and_self, Bool.true_and, Bool.and_eq_true, List.all_eq_true, List.mem_map,
    decide_eq_true_eq, beq_iff_eq]
  refine ⟨?_, ⟨⟨⟨(nondecreasing_iff _).2 hs, List.isPerm_iff.2 hperm⟩, hw⟩, hc⟩⟩
  rintro _ ⟨d, _, rfl⟩
  exact Int.natCast_nonneg d

/-! ### The defect repaired by `cfcb4a41` -/

/-- the history of DESIGN.md §8 #1: a zero-CPU sample at 10, extended to 20 by the merge call, then a sample
at 15 -/
def C04_legacyHistory : List Op := [.add 10 none 0 1, .merge 20 1, .add 15 none 0 1]

/-- With the pre-fix `modify_last_sample` (bookkeeping fields not updated) the table holds the times
`[20, 15]` with the sortedness flag still set, and the serializer's `15 - 20` underflows (`none`): the spec
cannot hold of any output. A revert of the fix is therefore caught by the correspondence on this history. -/
theorem C04_legacy_counterexample :
    (runLegacy C04_legacyHistory).map (fun th => (th.samples.isSorted, th.samples.times, th.samples.serialize))
      = some (true, [20, 15], none) := by decide

/-- the repaired code on the same history: the flag is cleared and the output is in order and complete -/
theorem C04_fixed_on_legacy_history :
    (run C04_legacyHistory).map (fun th => (th.samples.isSorted, th.samples.times,
        th.samples.serializeWith [1, 0]))
      = some (false, [20, 15], some ⟨[none, none], [15, 5], [1, 2], [0, 0]⟩) := by decide

/-! ### Non-vacuity: ties, inversions, merges -/

/-- a history with a tie (two samples at 7), an inversion (3 after 7), a merge that extends a zero-CPU
sample backwards in time (9 → 2), a merge after a sample with CPU time (appends, same stack), a sub-µs CPU
delta (999 ns truncates to 0 µs ⇒ merge-eligible) and weights of both signs -/
def C04_exampleHistory : List Op :=
  [.merge 5 1, .add 7 (some 1) 2500 3, .add 7 (some 2) 999 (-4), .merge 9 10, .merge 2 1,
   .add 3 none 1000000 2, .merge 3 5]

example : fits C04_exampleHistory = true := by decide

example : logical C04_exampleHistory =
    [⟨5, none, 0, 1⟩, ⟨7, some 1, 2, 3⟩, ⟨2, some 2, 0, 7⟩, ⟨3, none, 1000, 2⟩, ⟨3, none, 0, 5⟩] := by
  decide

example : (run C04_exampleHistory).map (fun th => (th.samples.isSorted, th.samples.lastTs, th.lastZero))
    = some (false, 3, true) := by decide

/-- two different valid index vectors (the tie between rows 3 and 4 broken either way), both covered by the
theorems -/
example : (run C04_exampleHistory).map (fun th =>
      (th.samples.serializeWith [2, 3, 4, 0, 1], th.samples.serializeWith [2, 4, 3, 0, 1]))
    = some (some ⟨[some 2, none, none, none, some 1], [2, 1, 0, 2, 2], [7, 2, 5, 1, 3], [0, 1000, 0, 0, 2]⟩,
            some ⟨[some 2, none, none, none, some 1], [2, 1, 0, 2, 2], [7, 5, 2, 1, 3], [0, 0, 1000, 0, 2]⟩) := by
  decide

/-- the first of them is what the model's stable merge sort picks on the stored times `[5, 7, 2, 3, 3]` -/
example : sortedIndexes [5, 7, 2, 3, 3] = [2, 3, 4, 0, 1] := by
  simp [sortedIndexes, List.zipIdx, List.mergeSort, List.MergeSort.Internal.splitInTwo]

example : (run C04_exampleHistory).map (fun th => permute th.samples.times [2, 4, 3, 0, 1])
    = some (some [2, 3, 3, 5, 7]) := by decide

/-- the excluded point: the merged weight leaves `i32` ⇒ the model (like the real code under overflow checks)
panics -/
example : fits [.add 1 none 0 2147483647, .merge 2 1] = false ∧
    run [.add 1 none 0 2147483647, .merge 2 1] = none := by decide

/-- counters: inversion and tie -/
example : ((runC [⟨5, 1, 1⟩, ⟨3, -2, 0⟩, ⟨5, 4, 2⟩]).isSorted,
           (runC [⟨5, 1, 1⟩, ⟨3, -2, 0⟩, ⟨5, 4, 2⟩]).serializeWith [1, 2, 0])
    = (false, some ⟨[-2, 4, 1], [0, 2, 1], [3, 2, 0]⟩) := by decide
