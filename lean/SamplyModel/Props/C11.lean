import SamplyModel.Lemmas.LibMappings
import SamplyModel.Lemmas.ProfileThreads
/-!
# C11 — library mapping tables never overlap and resolve to the newest live mapping

Model: `SamplyModel/Model/LibMappings.lean` (follows `fxprof-processed-profile/src/lib_mappings.rs`,
`process.rs::convert_address`, `profile.rs::resolve_frame_address`).
`LM.run ops` drives the sorted-list model of `LibMappings` over a history of `add` / `remove` / `clear` calls.

Specification side, read off the bare history: `LM.LiveAt ops pre post m` says that `m` was added at position
`pre.length` of `ops` and that none of the later operations `post` is a `clear`, a `remove` of `m`'s start, or an
`add` whose range intersects `m` (`LM.killedBy`). `LM.resolveSpec ops a` is the most recently added live mapping
covering `a` (what the judge evaluates), `LM.frameSpec` the profile-level rule.

All theorems quantify over every history (no bound on length, on addresses or on the number of processes). The
hypotheses are the ones the statement names: `OpOk` = non-empty ranges, `Fits32` = relative addresses of a mapping
stay within 32 bits. Only property theorems (names `C11_*`) and non-vacuity examples live in this file.
-/
open LM

/-- The list that stands for the `BTreeMap` is strictly sorted by key after *every* history (no hypothesis):
keys are unique and `lastLE` is `range(..=a).next_back()`. -/
theorem C11_sorted (ops : List Op) : (run ops).map.Pairwise (fun m n => m.s < n.s) :=
  sorted_foldl ops Table.empty List.Pairwise.nil

/-- With non-empty ranges no call can panic, in any state: `BTreeMap::range(removal_start..end)` is never called
with `removal_start > end`. -/
theorem C11_no_panic (t : Table) (op : Op) (hok : OpOk op) : stepSafe t op = true := by
  cases op with
  | add x => exact addSafe_of_ok t x hok
  | remove s => rfl
  | clear => rfl

/-- The table holds exactly the live mappings of the history: `m` is stored iff it was added at some step and no
later step is a `clear`, a `remove` of its start, or an `add` of an intersecting range. -/
theorem C11_live (ops : List Op) (hok : ∀ op ∈ ops, OpOk op) (m : M) :
    m ∈ (run ops).map ↔ ∃ pre post, LiveAt ops pre post m := by
  rw [(run_spec ops hok).2 m, mem_liveSpec_iff]

/-- No two stored mappings overlap, and every stored range is non-empty. -/
theorem C11_nonoverlap (ops : List Op) (hok : ∀ op ∈ ops, OpOk op) :
    (∀ m ∈ (run ops).map, m.s < m.e) ∧
    ∀ m ∈ (run ops).map, ∀ n ∈ (run ops).map, m ≠ n → m.e ≤ n.s ∨ n.e ≤ m.s := by
  obtain ⟨hw, _⟩ := run_spec ops hok
  exact ⟨hw.2, fun m hm n hn hne => WF_disjoint hw hm hn hne⟩

/-- History-level form (no hypothesis needed): two mappings that are live and were added at different steps are
disjoint — in particular an identical range added twice is live only once. -/
theorem C11_live_disjoint (ops pre post pre' post' : List Op) (m n : M)
    (h1 : LiveAt ops pre post m) (h2 : LiveAt ops pre' post' n) (hne : pre.length ≠ pre'.length) :
    ¬ (m.s < n.e ∧ n.s < m.e) := by
  have key : ∀ (pre post pre' post' : List Op) (m n : M), LiveAt ops pre post m → LiveAt ops pre' post' n →
      pre.length < pre'.length → ¬ (m.s < n.e ∧ n.s < m.e) := by
    intro pre post pre' post' m n h1 h2 hlt
    obtain ⟨mid, hmid⟩ := split_later pre post pre' post' (Op.add m) (Op.add n) (h1.1.symm.trans h2.1) hlt
    have := h1.2 (Op.add n) (by rw [hmid]; simp)
    simp only [killedBy, overlaps, Bool.and_eq_false_iff, decide_eq_false_iff_not] at this
    omega
  rcases Nat.lt_or_gt_of_ne hne with hlt | hlt
  · exact key pre post pre' post' m n h1 h2 hlt
  · have := key pre' post' pre post n m h2 h1 hlt
    omega

/-- Refinement: the code's lookup (last key ≤ a, then end check) returns exactly the declaratively resolved
mapping, for every history of non-empty ranges and every address. -/
theorem C11_refines (ops : List Op) (hok : ∀ op ∈ ops, OpOk op) (a : Nat) :
    lookupImpl (run ops).map a = resolveSpec ops a :=
  lookup_run ops hok a

/-- What the lookup returns is a live mapping covering `a`, and it is the most recently added one among all live
mappings covering `a`; if it returns nothing, no live mapping covers `a`. -/
theorem C11_newest (ops : List Op) (hok : ∀ op ∈ ops, OpOk op) (a : Nat) :
    (∀ m, lookupImpl (run ops).map a = some m →
      ∃ pre post, LiveAt ops pre post m ∧ m.s ≤ a ∧ a < m.e ∧
        ∀ pre' post' n, LiveAt ops pre' post' n → n.s ≤ a → a < n.e → pre'.length ≤ pre.length) ∧
    (lookupImpl (run ops).map a = none → ∀ pre post n, LiveAt ops pre post n → ¬ (n.s ≤ a ∧ a < n.e)) := by
  rw [lookup_run ops hok a]
  constructor
  · intro m h
    obtain ⟨pre, post, hl, hc, hnew⟩ := resolveSpec_newest ops a m h
    simp only [covers, Bool.and_eq_true, decide_eq_true_eq] at hc
    refine ⟨pre, post, hl, hc.1, hc.2, ?_⟩
    intro pre' post' n hl' h1 h2
    exact hnew pre' post' n hl' (by simp [covers, h1, h2])
  · intro h pre post n hl hc
    have := resolveSpec_none ops a h pre post n hl
    simp [covers, hc.1, hc.2] at this

/-- At most one live mapping covers an address (so "newest" is never a tie-break between two live candidates). -/
theorem C11_unique_cover (ops pre post pre' post' : List Op) (m n : M) (a : Nat)
    (h1 : LiveAt ops pre post m) (h2 : LiveAt ops pre' post' n)
    (hm : m.s ≤ a ∧ a < m.e) (hn : n.s ≤ a ∧ a < n.e) : pre = pre' ∧ m = n := by
  have hlen : pre.length = pre'.length := by
    apply Classical.byContradiction
    intro hne
    have := C11_live_disjoint ops pre post pre' post' m n h1 h2 hne
    omega
  have heq := h1.1.symm.trans h2.1
  obtain ⟨hp, hr⟩ := List.append_inj heq hlen
  simp only [List.cons.injEq, Op.add.injEq] at hr
  exact ⟨hp, hr.1⟩

/-- `remove_mapping(start)` returns the live mapping that starts at `start` (and nothing if there is none). -/
theorem C11_remove_returns (ops : List Op) (hok : ∀ op ∈ ops, OpOk op) (s : Nat) :
    (∀ m, removeOut (run ops).map s = some m → m.s = s ∧ ∃ pre post, LiveAt ops pre post m) ∧
    (removeOut (run ops).map s = none → ∀ pre post n, LiveAt ops pre post n → n.s ≠ s) := by
  constructor
  · intro m h
    have hmem := List.mem_of_find?_eq_some h
    have hp := List.find?_some h
    exact ⟨by simpa using hp, (C11_live ops hok m).mp hmem⟩
  · intro h pre post n hl hs
    have hmem := (C11_live ops hok n).mpr ⟨pre, post, hl⟩
    have := List.find?_eq_none.mp h n hmem
    simp [hs] at this

/-- The `u64` subtraction `avma - mapping.start_avma` in `convert_address` never underflows (any table). -/
theorem C11_rel_no_underflow (mp : Map) (a : Nat) (m : M) (h : lookupImpl mp a = some m) : m.s ≤ a :=
  lookupImpl_le mp a m h

/-- Relative address: under the 32-bit guard, `convert_address` yields the resolved mapping's value and
`relative_start + (address − start)`; unmapped addresses convert to nothing; there is no panic. -/
theorem C11_rel (ops : List Op) (hok : ∀ op ∈ ops, OpOk op) (hfit : ∀ op ∈ ops, Fits32 op) (a : Nat) :
    convertAddress (run ops).map a =
      match resolveSpec ops a with
      | none => Conv.none
      | some m => Conv.ok (m.rel + (a - m.s)) m.v :=
  convert_run ops hok hfit a

/-- Pointwise form (any table): whenever the true relative address of the looked-up address fits in 32 bits the
result is exact — the guard is only needed for the addresses it is violated at. -/
theorem C11_rel_pointwise (mp : Map) (a : Nat) (m : M) (hl : lookupImpl mp a = some m)
    (hfit : m.rel + (a - m.s) < u32Lim) : convertAddress mp a = Conv.ok (m.rel + (a - m.s)) m.v :=
  convert_of_lookup mp a m hl hfit

/-- Excluded point made explicit: where the true relative address does not fit in 32 bits the code cannot be
right — it panics (overflow checks) or returns a smaller, truncated address. -/
theorem C11_rel_outside_guard (mp : Map) (a : Nat) (m : M) (hl : lookupImpl mp a = some m)
    (hbig : u32Lim ≤ m.rel + (a - m.s)) :
    convertAddress mp a = Conv.panic ∨
    ∃ r, convertAddress mp a = Conv.ok r m.v ∧ r < m.rel + (a - m.s) := by
  have hle := lookupImpl_le mp a m hl
  have hnot : ¬ a < m.s := by omega
  simp only [convertAddress, hl, hnot, if_false]
  by_cases h : m.rel + (a - m.s) % u32Lim < u32Lim
  · right
    have hmod : (a - m.s) % u32Lim ≤ a - m.s := Nat.mod_le _ _
    have hne : (a - m.s) % u32Lim ≠ a - m.s := by omega
    exact ⟨m.rel + (a - m.s) % u32Lim, by simp only [h, if_true], by omega⟩
  · left; simp only [h, if_false]

/-- Profile level: a frame created from an absolute address in process `p` resolves through the kernel table
first and only then through `p`'s own table (other processes' tables are never consulted); a `ReturnAddress` is
looked up one byte earlier, `InstructionPointer` and `AdjustedReturnAddress` as they are. -/
theorem C11_profile_order (ops : List POp) (hok : ∀ op ∈ ops, POpOk op) (p : Nat) (fa : FrameAddr) :
    resolveFrame (prun ops).kernel.map ((prun ops).procs p).map fa = frameSpec ops p fa := by
  have hk := kernelOps_ok ops hok
  have hp := procOps_ok p ops hok
  have ck := convert_run (kernelOps ops) (fun o ho => (hk o ho).1) (fun o ho => (hk o ho).2)
  have cp := convert_run (procOps p ops) (fun o ho => (hp o ho).1) (fun o ho => (hp o ho).2)
  have ha : fa.lookupAddr = fa.specAddr := by
    cases fa with
    | ip a => rfl
    | ara a => rfl
    | ra a => simp only [FrameAddr.lookupAddr, FrameAddr.specAddr]; split <;> omega
  simp only [resolveFrame, processConvert, frameSpec, prun_kernel, prun_proc, ha]
  generalize fa.specAddr = a
  rw [ck a, cp a]
  cases resolveSpec (kernelOps ops) a with
  | some m => rfl
  | none =>
    cases resolveSpec (procOps p ops) a with
    | some m => rfl
    | none => rfl

/-- The return-address rule on its own, for any pair of tables: `ReturnAddress(ra)` is `InstructionPointer(ra − 1)`
(saturating at 0), `AdjustedReturnAddress(a)` is `InstructionPointer(a)`. -/
theorem C11_return_address (kernel proc : Map) (a : Nat) :
    resolveFrame kernel proc (.ra (a + 1)) = resolveFrame kernel proc (.ip a) ∧
    resolveFrame kernel proc (.ra 0) = resolveFrame kernel proc (.ip 0) ∧
    resolveFrame kernel proc (.ara a) = resolveFrame kernel proc (.ip a) := by
  refine ⟨?_, rfl, rfl⟩
  simp [resolveFrame, FrameAddr.lookupAddr]

/-- The kernel-first rule on its own: whenever the kernel table converts the address, the process table is
irrelevant. -/
theorem C11_kernel_first (kernel proc proc' : Map) (a rel v : Nat)
    (h : convertAddress kernel a = Conv.ok rel v) :
    processConvert kernel proc a = Resolved.inLib rel v ∧
    processConvert kernel proc a = processConvert kernel proc' a := by
  simp [processConvert, h]

/-- Profile level with the guard only where it matters: non-empty ranges everywhere, and the relative address of the
address *this frame looks up* fits in 32 bits (`frameFits`, the set of frames the judge evaluates). Mappings that
violate the 32-bit guard elsewhere do not disturb the resolution of any other address. -/
theorem C11_profile_order_pointwise (ops : List POp) (hne : ∀ op ∈ ops, POpNonEmpty op) (p : Nat) (fa : FrameAddr)
    (hfit : frameFits ops p fa) :
    resolveFrame (prun ops).kernel.map ((prun ops).procs p).map fa = frameSpec ops p fa :=
  resolveFrame_pointwise ops hne p fa hfit

/-! ### Handle layer: frames are created for a *thread*; processes and threads are created dynamically

`LM.trun` runs a history of `add_process` / `add_thread` / mapping calls / frame creations on the `Vec`-indexed state
of `Profile`. `LM.threadOwner ops t` is the process passed to the `t`-th `add_thread` call of the history,
`LM.mappingOps ops` the mapping calls, `LM.HandlesValid ops` says every handle passed to a call was returned by an
earlier one (always true for handles of one `Profile`; the public API offers no other way to get one). -/

/-- Both frame functions — `handle_for_frame_with_address` and `handle_for_frame_with_address_and_symbol` (with a
native symbol of the same thread) — resolve a frame of thread `t` through the kernel history first and then through
the mapping history of the process that `t` was created in: not of the process with the same index, not of any
other process. All six `FrameAddress` variants; absolute return addresses one byte earlier; relative variants
ignore the tables. Hypotheses: valid handles, non-empty ranges, 32-bit guard at the looked-up address only. -/
theorem C11_thread_frames (ops : List TOp) (hv : HandlesValid ops)
    (hne : ∀ op ∈ mappingOps ops, POpNonEmpty op) (t p : Nat) (fa : FrameAddrX)
    (hown : threadOwner ops t = some p) (hfit : frameFitsX (mappingOps ops) p fa) :
    (tstep (trun ops) (.frame t fa)).2 = .res (frameSpecX (mappingOps ops) p fa) ∧
    (tstep (trun ops) (.frameSym t t fa)).2 = .res (frameSpecX (mappingOps ops) p fa) := by
  have hout := frameOut_trun ops hv t p fa hown
  have hres : resolveFrameX (prun (mappingOps ops)).kernel.map ((prun (mappingOps ops)).procs p).map fa
      = frameSpecX (mappingOps ops) p fa := by
    cases fa with
    | abs a => exact resolveFrame_pointwise (mappingOps ops) hne p a hfit
    | relIp v r => rfl
    | relAra v r => rfl
    | relRa v r =>
      simp only [resolveFrameX, frameSpecX]
      split
      · subst_vars; rfl
      · rfl
  have hlt : t < (trun ops).threads.length := by
    have hth : (trun ops).threads[t]? = some p := by rw [(trun_inv ops hv).threads]; exact hown
    exact (List.getElem?_eq_some_iff.mp hth).1
  refine ⟨by simp only [tstep, hout, hres], ?_⟩
  have h1 : ¬ (trun ops).threads.length ≤ t := by omega
  simp only [tstep, h1, if_false, ne_eq, not_true_eq_false, hout, hres]

/-- The same under the statement's global guard (every mapping keeps its relative addresses within 32 bits). -/
theorem C11_thread_order (ops : List TOp) (hv : HandlesValid ops)
    (hok : ∀ op ∈ mappingOps ops, POpOk op) (t p : Nat) (fa : FrameAddr)
    (hown : threadOwner ops t = some p) :
    (tstep (trun ops) (.frame t (.abs fa))).2 = .res (frameSpec (mappingOps ops) p fa) ∧
    (tstep (trun ops) (.frameSym t t (.abs fa))).2 = .res (frameSpec (mappingOps ops) p fa) :=
  C11_thread_frames ops hv (fun o ho => POpNonEmpty_of_ok o (hok o ho)) t p (.abs fa) hown
    (frameFits_of_ok (mappingOps ops) hok p fa)

/-- Handles: after any history with valid handles, `add_process` returns the number of earlier `add_process`
calls, `add_thread` returns the number of earlier `add_thread` calls (so thread handle `t` is owned by the process
passed to the `t`-th call — `threadOwner`), and no mapping call with a non-empty range panics: none of the `Vec`
indexings `self.processes[h.0]` can fail. -/
theorem C11_handles (pre : List TOp) (op : TOp) (hv : HandlesValid (pre ++ [op])) :
    (op = .newProc → (tstep (trun pre) op).2 = .handle (procCount pre)) ∧
    (∀ p, op = .newThread p → (tstep (trun pre) op).2 = .handle (owners pre).length ∧
      threadOwner (pre ++ [op]) (owners pre).length = some p) ∧
    (∀ pop, op.toPOp = some pop → POpNonEmpty pop → (tstep (trun pre) op).2 = .ok) := by
  have inv := trun_inv pre (HandlesValid_prefix pre [op] hv)
  have hh : handlesOk pre op = true := hv pre op [] rfl
  have onp : ∀ (p : Nat) (o : Op), p < procCount pre → OpOk o → (onProc (trun pre) p o).2 = .ok := by
    intro p o hp hok
    have hlen : p < (trun pre).procs.length := by rw [inv.nproc]; exact hp
    simp only [onProc, List.getElem?_eq_getElem hlen, C11_no_panic _ o hok, if_true]
  refine ⟨?_, ?_, ?_⟩
  · intro h; subst h; simp only [tstep, inv.nproc]
  · intro p h; subst h
    simp only [handlesOk, decide_eq_true_eq] at hh
    have hlen : p < (trun pre).procs.length := by rw [inv.nproc]; exact hh
    refine ⟨by simp only [tstep, hlen, if_true, inv.threads], ?_⟩
    simp [threadOwner, owners_snoc]
  · intro pop hp hne
    cases op with
    | kadd x =>
      simp only [TOp.toPOp, Option.some.injEq] at hp; subst hp
      simp only [tstep, C11_no_panic _ (.add x) hne, if_true]
    | kremove s => rfl
    | padd p x =>
      simp only [TOp.toPOp, Option.some.injEq] at hp; subst hp
      simp only [handlesOk, decide_eq_true_eq] at hh
      exact onp p (.add x) hh hne
    | premove p s =>
      simp only [handlesOk, decide_eq_true_eq] at hh
      exact onp p (.remove s) hh trivial
    | pclear p =>
      simp only [handlesOk, decide_eq_true_eq] at hh
      exact onp p .clear hh trivial
    | newProc => simp [TOp.toPOp] at hp
    | newThread p => simp [TOp.toPOp] at hp
    | frame t fa => simp [TOp.toPOp] at hp
    | frameSym t nt fa => simp [TOp.toPOp] at hp

/-- The profile's own tables after any history with valid handles: the kernel table is the table model run on the
kernel calls, there is one table per `add_process` call, and process `p`'s table is the table model run on the calls
addressed to `p` — so `C11_live`, `C11_nonoverlap`, `C11_refines` (statements about `run`) hold for the kernel table
and for every process table of the profile, including processes created late and processes without threads. -/
theorem C11_thread_tables (ops : List TOp) (hv : HandlesValid ops) :
    (trun ops).kernel = run (kernelOps (mappingOps ops)) ∧
    (trun ops).procs.length = procCount ops ∧
    ∀ p, p < procCount ops → (trun ops).procs[p]? = some (run (procOps p (mappingOps ops))) := by
  have inv := trun_inv ops hv
  refine ⟨by rw [inv.kernel, prun_kernel], inv.nproc, ?_⟩
  intro p hp
  have hlen : p < (trun ops).procs.length := by rw [inv.nproc]; exact hp
  have hget : (trun ops).procs[p]? = some (trun ops).procs[p] := List.getElem?_eq_getElem hlen
  rw [hget, inv.procs p _ hget, prun_proc]

/-- The statement's first two clauses for the tables *inside the profile*: after any history of public calls with
valid handles and non-empty ranges, the kernel table and every process's table hold exactly the mappings that are
live in their own call history (added, and not ended since by a clear of that process, a remove of its start there,
or an intersecting add there — calls addressed to other processes or to the kernel table never end it), and no two
mappings stored in one table overlap. -/
theorem C11_profile_tables_live (ops : List TOp) (hv : HandlesValid ops)
    (hne : ∀ op ∈ mappingOps ops, POpNonEmpty op) :
    ((∀ m, m ∈ (trun ops).kernel.map ↔ ∃ pre post, LiveAt (kernelOps (mappingOps ops)) pre post m) ∧
      ∀ m ∈ (trun ops).kernel.map, ∀ n ∈ (trun ops).kernel.map, m ≠ n → m.e ≤ n.s ∨ n.e ≤ m.s) ∧
    ∀ p tb, (trun ops).procs[p]? = some tb →
      (∀ m, m ∈ tb.map ↔ ∃ pre post, LiveAt (procOps p (mappingOps ops)) pre post m) ∧
      ∀ m ∈ tb.map, ∀ n ∈ tb.map, m ≠ n → m.e ≤ n.s ∨ n.e ≤ m.s := by
  obtain ⟨hk, hn, hp⟩ := C11_thread_tables ops hv
  have hkok := kernelOps_nonempty (mappingOps ops) hne
  refine ⟨?_, ?_⟩
  · rw [hk]
    exact ⟨C11_live _ hkok, (C11_nonoverlap _ hkok).2⟩
  · intro p tb htb
    have hlt : p < procCount ops := by
      rw [← hn]; exact (List.getElem?_eq_some_iff.mp htb).1
    have := hp p hlt
    rw [htb] at this
    simp only [Option.some.injEq] at this
    subst this
    have hpok := procOps_nonempty p (mappingOps ops) hne
    exact ⟨C11_live _ hpok, (C11_nonoverlap _ hpok).2⟩

/-- A thread's owner never changes: later calls of any kind leave `threadOwner` of an existing handle alone. -/
theorem C11_owner_stable (ops more : List TOp) (t p : Nat) (h : threadOwner ops t = some p) :
    threadOwner (ops ++ more) t = some p := by
  simp only [threadOwner, owners_append] at h ⊢
  rw [List.getElem?_append_left (List.getElem?_eq_some_iff.mp h).1]; exact h

/-- Excluded point made explicit (handles of another `Profile`): in any state a thread handle that was never handed
out, a native symbol of a different thread, or a process handle that was never handed out make the call panic, and
the panic leaves the mapping tables untouched. -/
theorem C11_invalid_handle_panics (st : TState) (t nt p : Nat) (fa : FrameAddrX) (o : Op) :
    (st.threads.length ≤ t → tstep st (.frame t fa) = (st, .panic)) ∧
    (nt ≠ t → tstep st (.frameSym t nt fa) = (st, .panic)) ∧
    (st.procs.length ≤ p → onProc st p o = (st, .panic)) := by
  refine ⟨?_, ?_, ?_⟩
  · intro h
    simp only [tstep, frameOut, List.getElem?_eq_none h]
  · intro h
    by_cases h1 : st.threads.length ≤ nt
    · simp only [tstep, h1, if_true]
    · simp only [tstep, h1, if_false, ne_eq, h, not_false_eq_true, if_true]
  · intro h
    simp only [onProc, List.getElem?_eq_none h]

/-! ### Non-vacuity: nested, partially overlapping, adjacent and identical ranges, removal, clear, re-adding -/

/-- the scenario of the repository's own unit test `test_lib_mappings` -/
def C11_testOps : List Op :=
  [.add ⟨100, 200, 100, 1⟩, .add ⟨200, 250, 200, 2⟩, .add ⟨180, 220, 180, 3⟩, .add ⟨225, 250, 225, 4⟩,
   .add ⟨255, 270, 255, 5⟩, .add ⟨100, 150, 100, 6⟩]

example : (∀ op ∈ C11_testOps, OpOk op) ∧ (∀ op ∈ C11_testOps, Fits32 op) := by decide
example : (run C11_testOps).map.map (·.v) = [6, 3, 4, 5] := by decide
example : lookup (run C11_testOps).map 90 = none ∧ lookup (run C11_testOps).map 150 = none
    ∧ lookup (run C11_testOps).map 149 = some 6 ∧ lookup (run C11_testOps).map 200 = some 3
    ∧ lookup (run C11_testOps).map 260 = some 5 := by decide
example : resolveSpec C11_testOps 200 = some ⟨180, 220, 180, 3⟩ ∧ resolveSpec C11_testOps 170 = none := by decide

/-- nested (10..20 inside 0..100), swallowing several (5..60 over 10..20, 30..40, 50..55), touching at a boundary
(60..70 after 5..60), identical range re-added, remove by start, re-add after remove, clear, add after clear -/
def C11_shapes : List Op :=
  [.add ⟨0, 100, 0, 1⟩, .add ⟨10, 20, 0, 2⟩, .add ⟨30, 40, 7, 3⟩, .add ⟨50, 55, 0, 4⟩, .add ⟨5, 60, 1000, 5⟩,
   .add ⟨60, 70, 0, 6⟩, .add ⟨60, 70, 16, 7⟩, .remove 5, .add ⟨5, 60, 2000, 8⟩, .remove 6, .clear,
   .add ⟨4294967000, 4294967296, 0, 9⟩]

example : (∀ op ∈ C11_shapes, OpOk op) ∧ (∀ op ∈ C11_shapes, Fits32 op) := by decide
example : (run (C11_shapes.take 5)).map = [⟨5, 60, 1000, 5⟩] := by decide
example : (run (C11_shapes.take 7)).map = [⟨5, 60, 1000, 5⟩, ⟨60, 70, 16, 7⟩] := by decide
example : convertAddress (run (C11_shapes.take 7)).map 59 = .ok 1054 5
    ∧ convertAddress (run (C11_shapes.take 7)).map 60 = .ok 16 7
    ∧ convertAddress (run (C11_shapes.take 7)).map 70 = .none := by decide
example : (run (C11_shapes.take 10)).map = [⟨5, 60, 2000, 8⟩, ⟨60, 70, 16, 7⟩] := by decide
example : convertAddress (run C11_shapes).map 4294967295 = .ok 295 9 := by decide

/-- the guard matters: a mapping whose relative addresses leave 32 bits makes the real code panic (or wrap) -/
example : convertAddress (run [.add ⟨0, 100, 4294967290, 1⟩]).map 5 = .ok 4294967295 1
    ∧ convertAddress (run [.add ⟨0, 100, 4294967290, 1⟩]).map 6 = .panic := by decide

/-- an inverted range is outside the statement: the real `BTreeMap::range` call panics (once the map owns a root
node; std skips the bounds check on a never-filled / cleared map) -/
example : stepSafe (run [.add ⟨0, 10, 0, 1⟩]) (.add ⟨20, 15, 0, 2⟩) = false
    ∧ stepSafe (run [.add ⟨0, 10, 0, 1⟩, .remove 0]) (.add ⟨20, 15, 0, 2⟩) = false
    ∧ stepSafe (run [.add ⟨0, 10, 0, 1⟩, .clear]) (.add ⟨20, 15, 0, 2⟩) = true := by decide

/-- profile level: kernel mapping shadows a process mapping at the same address; return address one byte earlier;
process 1 never sees process 0's mapping -/
def C11_profileOps : List POp :=
  [.padd 0 ⟨1000, 2000, 0, 1⟩, .kadd ⟨1500, 1600, 16, 2⟩, .padd 1 ⟨1000, 1200, 0, 3⟩]

example : ∀ op ∈ C11_profileOps, POpOk op := by decide
example : frameSpec C11_profileOps 0 (.ip 1550) = .inLib 66 2
    ∧ frameSpec C11_profileOps 0 (.ip 1600) = .inLib 600 1
    ∧ frameSpec C11_profileOps 0 (.ra 1600) = .inLib 115 2
    ∧ frameSpec C11_profileOps 0 (.ra 1000) = .unknown 999
    ∧ frameSpec C11_profileOps 0 (.ara 1000) = .inLib 0 1
    ∧ frameSpec C11_profileOps 1 (.ip 1300) = .unknown 1300
    ∧ frameSpec C11_profileOps 1 (.ip 1100) = .inLib 100 3 := by decide

/-- handle layer: two processes; thread 0 is created in process 1, threads 1 and 2 in process 0 (thread index ≠
process index); a kernel mapping shadows; both frame functions agree; relative variants ignore the tables -/
def C11_threadOps : List TOp :=
  [.newProc, .newProc, .newThread 1, .newThread 0, .padd 0 ⟨1000, 2000, 0, 1⟩, .newThread 0,
   .padd 1 ⟨1000, 1200, 7, 3⟩, .kadd ⟨1500, 1600, 16, 2⟩]

example : HandlesValid C11_threadOps := HandlesValid_of_B _ (by decide)
example : ∀ op ∈ mappingOps C11_threadOps, POpOk op := by decide
example : threadOwner C11_threadOps 0 = some 1 ∧ threadOwner C11_threadOps 1 = some 0
    ∧ threadOwner C11_threadOps 2 = some 0 ∧ threadOwner C11_threadOps 3 = none := by decide
example : (tstep (trun C11_threadOps) (.frame 0 (.abs (.ip 1100)))).2 = .res (.inLib 107 3)
    ∧ (tstep (trun C11_threadOps) (.frame 1 (.abs (.ip 1100)))).2 = .res (.inLib 100 1)
    ∧ (tstep (trun C11_threadOps) (.frameSym 2 2 (.abs (.ra 1201)))).2 = .res (.inLib 200 1)
    ∧ (tstep (trun C11_threadOps) (.frame 0 (.abs (.ra 1201)))).2 = .res (.unknown 1200)
    ∧ (tstep (trun C11_threadOps) (.frameSym 0 0 (.abs (.ip 1550)))).2 = .res (.inLib 66 2)
    ∧ (tstep (trun C11_threadOps) (.frame 1 (.relRa 9 0))).2 = .res (.inLib 0 9)
    ∧ (tstep (trun C11_threadOps) (.frame 1 (.relRa 9 5))).2 = .res (.inLib 4 9)
    ∧ (tstep (trun C11_threadOps) (.frameSym 1 2 (.abs (.ip 1100)))).2 = .panic
    ∧ (tstep (trun C11_threadOps) (.frame 3 (.abs (.ip 1100)))).2 = .panic
    ∧ (tstep (trun C11_threadOps) (.padd 2 ⟨0, 1, 0, 0⟩)).2 = .panic := by decide

/-- **Removal is by start address only.** `remove_mapping(s)` changes the table only if a live mapping *starts* at
`s`: when it returns nothing, the table — and therefore every later lookup — is unchanged, even if `s` lies in the
interior of a live mapping (e.g. the old start of a mapping that a newer, overlapping one displaced); and when it
returns `m`, exactly the entries starting at `s` are gone and every other entry, `m`'s neighbours included, stays. -/
theorem C11_remove_only_by_start (mp : Map) (s : Nat) :
    (removeOut mp s = none → removeKey mp s = mp) ∧
    (∀ n, n ∈ removeKey mp s ↔ n ∈ mp ∧ n.s ≠ s) := by
  constructor
  · intro h
    unfold removeKey
    rw [List.filter_eq_self]
    intro n hn
    have := List.find?_eq_none.mp h n hn
    simpa using this
  · intro n
    simp [removeKey]

/-- the history form: after any history, removing at an address where no live mapping starts leaves every lookup
as it was -/
theorem C11_remove_nonstart_keeps_lookups (ops : List Op) (s a : Nat)
    (h : removeOut (run ops).map s = none) :
    lookup (run (ops ++ [.remove s])).map a = lookup (run ops).map a := by
  simp only [run, List.foldl_append, List.foldl_cons, List.foldl_nil, step]
  rw [show List.foldl step Table.empty ops = run ops from rfl, (C11_remove_only_by_start _ s).1 h]

/-- non-vacuity (the seeded change C11-5): A = [100,200) displaced by B = [50,150); removing at 100 finds nothing
and 120 still resolves to B -/
example : removeOut (run [.add ⟨100, 200, 0, 1⟩, .add ⟨50, 150, 0, 2⟩]).map 100 = none ∧
    lookup (run [.add ⟨100, 200, 0, 1⟩, .add ⟨50, 150, 0, 2⟩, .remove 100]).map 120 = some 2 := by decide
