import SamplyModel.Lemmas.ConvFinal
import SamplyModel.Lemmas.ConvEntry
import SamplyModel.Lemmas.ConvNoPanic
/-!
# C01 — perf.data import conserves samples

Model: `Model/Converter.lean` (`step`, `run`), `Model/ConvFlush.lean` (`flushAll`, `views`).
Specification side: `ConvSpec.accepted` — the samples of the history other than idle-thread samples and
exact same-thread same-timestamp repeats, computed from the bare record list.

Main theorems (for every configuration and every record history, no grammar assumption; they describe the
output `views (run cfg rs)` of a conversion that does not panic — see "Panics" below for the hypothesis that
needs):

* `C01_conservation` (default options, `cfg.reuse = false`):

      (views (run cfg rs)).flatMap (fun v => v.samples.map (fun o => (v.pidBase, v.tidBase, o.t, o.weight)))
        ~ (accepted rs).map (fun a => (a.pid, a.tid, a.t - cfg.ref, 1))          (List.Perm)

  no sample lost, none invented, weight 1, converted time, on a thread entry carrying the sample's tid inside
  a process entry carrying its pid. This is the statement `ConvJudge.judgeC01` evaluates on samply's output.
* `C01_conservation_reuse` (any options): the same multiset equation without the (pid, tid) key — with
  `--reuse-threads` a sample may sit on the entry of an earlier incarnation with another tid (example at the
  end of the file: the keyed statement is false there), but it still appears exactly once.
* corollaries `C01_count`, `C01_weight_one`, `C01_membership`.

Proof (`Lemmas/ConvAL`, `ConvInv`, `ConvHelpers`, `ConvSim`, `ConvViews`, `ConvFinal`): the run simulates the
specification fold `accStep` (`Conv.run_sim`) under the invariant

* `InvA` (`C01_state_valid`): keys of the process table distinct and equal to the stored pid; every stored
  handle (process, main thread, threads, thread pools, process pool incl. its pools) is a valid entry index;
  every thread entry's process index is valid; without reuse the handles are bound to entries with the right
  pid / (process entry, tid) — entries are only appended and `set*` never changes these fields;
* every buffered sample (parked or live) names a valid thread entry, without reuse the one carrying the
  sample's own pid / tid (ghost fields `gpid`, `gtid`);
* `C01_dedup_refinement`: the `lastTs` of the thread object bound to (pid, tid) equals the specification's
  `lastGet` (EXIT / EXEC drop, renames, forks and handle recycling keep it);
* `C01_buffered_eq_accepted`: buffered samples = accepted samples as multisets — `removeProc` parks a
  non-empty buffer, every other helper re-inserts the process with the same buffer.

Then the flush keeps entry / time of every buffered sample with weight 1 (`Conv.flushBuffer_proj`,
`Conv.flushAll_proj` in `Lemmas/ConvFinal.lean`) and `views` is a partition of the flushed samples by entry index
(`Conv.views_perm`), dropping nothing because all indices are valid.
-/
open Conv ConvSpec

/-- Samples of the idle thread (tid 0) change nothing. -/
theorem C01_idle_ignored (s : St) (pid t : Nat) (km : Bool) (period ip : Nat) (chain : List Nat) :
    step s (.sample pid 0 t km period ip chain) = s := by
  simp [step]

/-- The specification never accepts an idle-thread sample. -/
theorem C01_accepted_no_idle (rs : List Rec) : ∀ a ∈ accepted rs, a.tid ≠ 0 := by
  unfold accepted
  suffices h : ∀ (st : Last × List Acc), (∀ a ∈ st.2, a.tid ≠ 0) → ∀ a ∈ (rs.foldl accStep st).2, a.tid ≠ 0 by
    exact h ([], []) (by simp)
  induction rs with
  | nil => intro st h; exact h
  | cons r rest ih => intro st h; exact ih _ (accStep_no_idle st r h)

/-! ### Conservation along every history -/

/-- The converter run simulates the specification fold: in every reachable state the buffered recorded samples
(those not synthesized from an off-CPU group) are, as a multiset of (pid, tid, profile time), the accepted
samples of the history so far. -/
theorem C01_buffered_eq_accepted (cfg : Config) (rs : List Rec) :
    List.Perm (((buffered (run cfg rs)).filter (fun u => !u.synth)).map (fun u => (u.gpid, u.gtid, u.t)))
      ((accepted rs).map (fun a => (a.pid, a.tid, a.t - cfg.ref))) :=
  (run_sim cfg rs).buf

/-- The per-thread `last_timestamp` kept by the converter (on the thread object currently bound to
(pid, tid); `none` if there is none) is the specification's table entry — the dedup decision is the same. -/
theorem C01_dedup_refinement (cfg : Config) (rs : List Rec) (pid tid : Nat) :
    tl (run cfg rs) pid tid = lastGet (rs.foldl accStep ([], [])).1 pid tid :=
  (run_sim cfg rs).htl pid tid

/-- Every handle stored anywhere in a reachable state names an existing entry, every thread entry names an
existing process entry, and the keys of the process table are distinct. -/
theorem C01_state_valid (cfg : Config) (rs : List Rec) : InvA (run cfg rs) := (run_sim cfg rs).inv

/-- the recorded (not synthesized) samples of a view -/
def C01_recorded (v : View) : List OutSample := v.samples.filter (fun o => !o.synth)

theorem C01_filter_flatMap_aux {γ} (vs : List View) (f : View → OutSample → γ) :
    (vs.flatMap (fun v => v.samples.map (fun o => (o.synth, f v o)))).filter (fun x => !x.1) =
      vs.flatMap (fun v => (C01_recorded v).map (fun o => (false, f v o))) := by
  induction vs with
  | nil => rfl
  | cons v vs ih =>
    simp only [List.flatMap_cons, List.filter_append, ih]
    congr 1
    unfold C01_recorded
    generalize v.samples = l
    induction l with
    | nil => rfl
    | cons o l ih2 =>
      simp only [List.map_cons, List.filter_cons]
      cases ho : o.synth <;> simp [ih2]

/-- Generic form: the recorded output samples, keyed by anything computable from entry, time and weight, are
the recorded buffered samples. -/
theorem C01_recorded_perm {γ} (s : St) (hinv : InvA s) (hsok : ∀ u ∈ buffered s, u.th < (tsk s.tents).length)
    (F : View → OutSample → γ) (G : Nat → Nat → Nat → γ)
    (hFG : ∀ i te v, s.tents[i]? = some te → viewOf s (flushAll s) i te = some v → ∀ o, F v o = G i o.t o.weight) :
    List.Perm ((views s).flatMap (fun v => (C01_recorded v).map (F v)))
      (((buffered s).filter (fun u => !u.synth)).map (fun u => G u.th u.t u.weight)) := by
  have h1 := views_perm_buffered s hinv hsok (fun v o => (o.synth, F v o)) (fun i t w sy => (sy, G i t w))
    (fun i te v hte hv o => by rw [hFG i te v hte hv o])
  have h2 := (h1.filter (fun x => !x.1)).map Prod.snd
  rw [C01_filter_flatMap_aux] at h2
  have e1 : ((views s).flatMap (fun v => (C01_recorded v).map (fun o => (false, F v o)))).map Prod.snd =
      (views s).flatMap (fun v => (C01_recorded v).map (F v)) := by
    rw [List.map_flatMap]; congr 1; funext v; rw [List.map_map]; rfl
  have e2 : ((((buffered s).filter (fun u => !u.marker)).map (fun u => (u.synth, G u.th u.t u.weight))).filter
        (fun x => !x.1)).map Prod.snd =
      ((buffered s).filter (fun u => !u.synth)).map (fun u => G u.th u.t u.weight) := by
    rw [List.filter_map, List.map_map, ← filter_marker_synthU (buffered s)]; rfl
  rw [e1, e2] at h2
  exact h2

/-- **Conservation of samples**, for every configuration of the off-CPU machinery (`cfg.offCpu`, interval) and
every record history incl. context-switch records and sched_switch samples: the *recorded* samples of the
output (those not synthesized from an off-CPU group) are, as a multiset of (pid, tid, time, weight), exactly the
accepted samples of the history with weight 1 — no sample lost, none invented, on the thread entry carrying
the sample's tid inside the process entry carrying its pid (default options: no thread reuse). Synthesized
off-CPU samples are *additional* samples; what they are is the subject of `C12_conv_*` / `C01_synth_*`. -/
theorem C01_conservation (cfg : Config) (rs : List Rec) (hr : cfg.reuse = false) :
    List.Perm
      ((views (run cfg rs)).flatMap (fun v => (C01_recorded v).map (fun o => (v.pidBase, v.tidBase, o.t, o.weight))))
      ((accepted rs).map (fun a => (a.pid, a.tid, a.t - cfg.ref, 1))) := by
  have hsim := run_sim cfg rs
  generalize run cfg rs = s at hsim
  have h1 := C01_recorded_perm s hsim.inv (fun u hu => (hsim.sok u hu).1)
    (fun v o => (v.pidBase, v.tidBase, o.t, o.weight))
    (fun i t w => ((entKey s i).1, (entKey s i).2, t, w))
    (fun i te v hte hv o => by
      have := viewOf_key hte hv
      simp only [← this])
  refine h1.trans ?_
  have h2 : ((buffered s).filter (fun u => !u.synth)).map (fun u => ((entKey s u.th).1, (entKey s u.th).2, u.t, u.weight)) =
      (((buffered s).filter (fun u => !u.synth)).map proj).map (fun x => (x.1, x.2.1, x.2.2, 1)) := by
    rw [List.map_map]
    apply List.map_congr_left
    intro u hu
    obtain ⟨hu1, hu2⟩ := List.mem_filter.mp hu
    obtain ⟨ph, h3, h4⟩ := (hsim.sok u hu1).2 (by rw [hsim.hcfg]; exact hr)
    rw [entKey_of_skel h3 h4, hsim.w1 u hu1 (by simpa using hu2)]
    rfl
  rw [h2]
  refine (hsim.buf.map _).trans (List.Perm.of_eq ?_)
  unfold accepted
  rw [List.map_map]
  rfl

/-- **Conservation of samples, keyed by entry** (default options, histories inside the FORK / EXEC grammar
`Life.grammarOk` — where the eager lifecycle `Life` is the judged reading of the record history, `C17_refines`):
the recorded samples of the output, keyed by the *entry strings* of the thread entry that carries them
(`pid` / `pid.1` / …, `tid` / `tid.1` / …), their time and weight, are exactly the accepted samples of the history,
each on the entry of the process and thread **incarnation** that was current when the sample was taken
(`acceptedInc`: the pid / tid suffixes `Life` assigns, read right after the sample's own record). So a sample
never lands in the entry of an earlier or later incarnation of the same pid — e.g. on the wrong side of an EXEC
(`C17_exec_splits_samples`). This is what `judgeC01` compares on samply's output inside the grammar. -/
theorem C01_conservation_entry (cfg : Config) (rs : List Rec) (hr : cfg.reuse = false)
    (hg : Life.grammarOk cfg.ref rs = true) :
    List.Perm
      ((views (run cfg rs)).flatMap (fun v => (C01_recorded v).map (fun o => (v.pid, v.tid, o.t, o.weight))))
      ((acceptedInc cfg.ref rs).map
        (fun a => (idStr a.pid a.psuffix, idStr a.tid a.tsuffix, a.t - cfg.ref, 1))) := by
  obtain ⟨g, g1, g2, g3⟩ := entry_run cfg rs hr hg
  have hsim := run_sim cfg rs
  generalize run cfg rs = s at hsim g2 g3
  have h1 := C01_recorded_perm s hsim.inv (fun u hu => (hsim.sok u hu).1)
    (fun v o => (v.pid, v.tid, o.t, o.weight))
    (fun i t w => ((entStr s i).1, (entStr s i).2, t, w))
    (fun i te v hte hv o => by
      have := viewOf_str hte hv
      simp only [← this])
  refine h1.trans ?_
  have h2 : ((buffered s).filter (fun u => !u.synth)).map (fun u => ((entStr s u.th).1, (entStr s u.th).2, u.t, u.weight)) =
      (projU (buffered s)).map (fun x => ((entStr s x.1).1, (entStr s x.1).2, x.2.1, x.2.2)) := by
    unfold projU
    rw [List.map_map]; rfl
  rw [h2]
  refine (g2.map _).trans (List.Perm.of_eq ?_)
  rw [← g1, List.map_map, List.map_map]
  apply List.map_congr_left
  intro x hx
  simp only [Function.comp, g3 x hx]

/-- The incarnation-tagged samples `acceptedInc` are the accepted samples, in order, each with two more fields:
`C01_conservation_entry` refines `C01_conservation` (same pid, tid, time; plus the incarnation). -/
theorem C01_acceptedInc_accepted (ref : Nat) (rs : List Rec) :
    (acceptedInc ref rs).map (fun a => (a.pid, a.tid, a.t)) = (accepted rs).map (fun a => (a.pid, a.tid, a.t)) :=
  acceptedInc_accepted ref rs

/-- with thread reuse enabled samples may be merged into entries of earlier incarnations, but still every
    accepted sample appears exactly once at its time with weight 1 and no other recorded sample appears -/
theorem C01_conservation_reuse (cfg : Config) (rs : List Rec) :
    List.Perm
      ((views (run cfg rs)).flatMap (fun v => (C01_recorded v).map (fun o => (o.t, o.weight))))
      ((accepted rs).map (fun a => (a.t - cfg.ref, 1))) := by
  have hsim := run_sim cfg rs
  generalize run cfg rs = s at hsim
  have h1 := C01_recorded_perm s hsim.inv (fun u hu => (hsim.sok u hu).1)
    (fun _ o => (o.t, o.weight)) (fun _ t w => (t, w)) (fun _ _ _ _ _ _ => rfl)
  refine h1.trans ?_
  have h2 : ((buffered s).filter (fun u => !u.synth)).map (fun u => (u.t, u.weight)) =
      (((buffered s).filter (fun u => !u.synth)).map proj).map (fun x => (x.2.2, 1)) := by
    rw [List.map_map]
    apply List.map_congr_left
    intro u hu
    obtain ⟨hu1, hu2⟩ := List.mem_filter.mp hu
    simp only [Function.comp, proj, hsim.w1 u hu1 (by simpa using hu2)]
  rw [h2]
  refine (hsim.buf.map _).trans (List.Perm.of_eq ?_)
  unfold accepted
  rw [List.map_map]
  rfl

/-- the output contains exactly as many recorded samples as the history has accepted samples (any options) -/
theorem C01_count (cfg : Config) (rs : List Rec) :
    ((views (run cfg rs)).flatMap C01_recorded).length = (accepted rs).length := by
  have h := (C01_conservation_reuse cfg rs).length_eq
  rw [List.length_map] at h
  rw [← h]
  simp only [List.length_flatMap, List.length_map]

/-- every recorded output sample has weight 1 (any options) -/
theorem C01_weight_one (cfg : Config) (rs : List Rec) :
    ∀ v ∈ views (run cfg rs), ∀ o ∈ C01_recorded v, o.weight = 1 := by
  intro v hv o ho
  have hm : (o.t, o.weight) ∈ (views (run cfg rs)).flatMap (fun v => (C01_recorded v).map (fun o => (o.t, o.weight))) :=
    List.mem_flatMap.mpr ⟨v, hv, List.mem_map_of_mem (f := fun o : OutSample => (o.t, o.weight)) ho⟩
  have := (C01_conservation_reuse cfg rs).mem_iff.mp hm
  obtain ⟨a, _, ha⟩ := List.mem_map.mp this
  exact (congrArg Prod.snd ha).symm

/-- every recorded output sample sits at the converted time of an accepted sample of its own (pid, tid), and
every accepted sample is found on an entry of its (pid, tid) (default options) -/
theorem C01_membership (cfg : Config) (rs : List Rec) (hr : cfg.reuse = false) (pid tid t : Nat) :
    (∃ v ∈ views (run cfg rs), v.pidBase = pid ∧ v.tidBase = tid ∧ ∃ o ∈ C01_recorded v, o.t = t) ↔
      (∃ a ∈ accepted rs, a.pid = pid ∧ a.tid = tid ∧ a.t - cfg.ref = t) := by
  have hp := C01_conservation cfg rs hr
  constructor
  · rintro ⟨v, hv, rfl, rfl, o, ho, rfl⟩
    have hm : (v.pidBase, v.tidBase, o.t, o.weight) ∈ (views (run cfg rs)).flatMap
        (fun v => (C01_recorded v).map (fun o => (v.pidBase, v.tidBase, o.t, o.weight))) :=
      List.mem_flatMap.mpr ⟨v, hv,
        List.mem_map_of_mem (f := fun o : OutSample => (v.pidBase, v.tidBase, o.t, o.weight)) ho⟩
    obtain ⟨a, ha, heq⟩ := List.mem_map.mp (hp.mem_iff.mp hm)
    simp only [Prod.mk.injEq] at heq
    exact ⟨a, ha, heq.1, heq.2.1, heq.2.2.1⟩
  · rintro ⟨a, ha, rfl, rfl, rfl⟩
    have hm : (a.pid, a.tid, a.t - cfg.ref, 1) ∈ (accepted rs).map (fun a => (a.pid, a.tid, a.t - cfg.ref, 1)) :=
      List.mem_map_of_mem (f := fun a : Acc => (a.pid, a.tid, a.t - cfg.ref, 1)) ha
    obtain ⟨v, hv, hin⟩ := List.mem_flatMap.mp (hp.mem_iff.mpr hm)
    obtain ⟨o, ho, heq⟩ := List.mem_map.mp hin
    simp only [Prod.mk.injEq] at heq
    exact ⟨v, hv, heq.1, heq.2.1, o, ho, heq.2.2.1⟩

/-! ### Samples of another event (`Rec.otherEvent`, `handle_other_event_sample`) contribute no sample

`C01_conservation`, `C01_conservation_entry`, `C01_conservation_reuse`, `C01_count`, `C01_weight_one`,
`C01_membership` quantify over every record history, other-event samples included: the specification `accepted`
does not read them (`C01_other_event_not_accepted`), so each of those theorems says that the recorded samples of
the output are the accepted main-event samples of the history **with the other-event records removed**
(`C01_conservation_other_event`); the marker items they create never appear among a thread's samples
(`C01_no_marker_among_samples`) and are not recorded samples of the buffer (`C01_other_event_step`). -/

/-- the record is a sample of another event -/
def C01_isOev : Rec → Bool
  | .otherEvent .. => true
  | _ => false

/-- the specification does not read other-event samples: the accepted samples of a history are those of the
history without them -/
theorem C01_other_event_not_accepted (rs : List Rec) :
    accepted rs = accepted (rs.filter (fun r => !C01_isOev r)) := by
  unfold accepted
  suffices h : ∀ st : Last × List Acc, rs.foldl accStep st = (rs.filter (fun r => !C01_isOev r)).foldl accStep st by
    rw [h]
  induction rs with
  | nil => intro st; rfl
  | cons r rs ih =>
    intro st
    cases r with
    | otherEvent pid tid t km ip chain =>
      have e : accStep st (.otherEvent pid tid t km ip chain) = st := rfl
      simp only [List.foldl_cons, List.filter_cons, C01_isOev, Bool.not_true, Bool.false_eq_true, if_false, e]
      exact ih st
    | sample => simp only [List.foldl_cons, List.filter_cons, C01_isOev, Bool.not_false, if_true]; exact ih _
    | fork => simp only [List.foldl_cons, List.filter_cons, C01_isOev, Bool.not_false, if_true]; exact ih _
    | exit => simp only [List.foldl_cons, List.filter_cons, C01_isOev, Bool.not_false, if_true]; exact ih _
    | comm => simp only [List.foldl_cons, List.filter_cons, C01_isOev, Bool.not_false, if_true]; exact ih _
    | mmap2 => simp only [List.foldl_cons, List.filter_cons, C01_isOev, Bool.not_false, if_true]; exact ih _
    | switchIn => simp only [List.foldl_cons, List.filter_cons, C01_isOev, Bool.not_false, if_true]; exact ih _
    | switchOut => simp only [List.foldl_cons, List.filter_cons, C01_isOev, Bool.not_false, if_true]; exact ih _
    | sched => simp only [List.foldl_cons, List.filter_cons, C01_isOev, Bool.not_false, if_true]; exact ih _

/-- **Conservation with other-event samples in the history**: the recorded samples of the output of the whole
history are exactly the accepted samples of the history from which every other-event sample has been removed —
an other-event sample adds no sample, removes none and moves none (default options; `C01_conservation_reuse`
reads the same way for `--reuse-threads`). -/
theorem C01_conservation_other_event (cfg : Config) (rs : List Rec) (hr : cfg.reuse = false) :
    List.Perm
      ((views (run cfg rs)).flatMap (fun v => (C01_recorded v).map (fun o => (v.pidBase, v.tidBase, o.t, o.weight))))
      ((accepted (rs.filter (fun r => !C01_isOev r))).map (fun a => (a.pid, a.tid, a.t - cfg.ref, 1))) := by
  rw [← C01_other_event_not_accepted]
  exact C01_conservation cfg rs hr

theorem C01_viewsAux_mem {s : St} {out : List (Nat × OutSample)} {v : View} :
    ∀ (rest : List TEntry) (i : Nat), v ∈ viewsAux s out i rest → ∃ j te, viewOf s out j te = some v := by
  intro rest
  induction rest with
  | nil => intro i h; simp [viewsAux] at h
  | cons te rest ih =>
    intro i h
    unfold viewsAux at h
    cases hv : viewOf s out i te with
    | none => rw [hv] at h; exact ih (i + 1) h
    | some w =>
      rw [hv] at h
      rcases List.mem_cons.mp h with h | h
      · exact ⟨i, te, by rw [hv, h]⟩
      · exact ih (i + 1) h

/-- no marker item is ever emitted as a sample: every element of a view's sample list went through
`Profile::add_sample` (and every element of its marker list through `set_marker_stack`) -/
theorem C01_no_marker_among_samples (s : St) :
    ∀ v ∈ views s, (∀ o ∈ v.samples, o.marker = false) ∧ (∀ o ∈ v.markers, o.marker = true) := by
  intro v hv
  obtain ⟨j, te, hj⟩ := C01_viewsAux_mem s.tents 0 hv
  unfold viewOf at hj
  split at hj
  · cases hj
  · simp only [Option.some.injEq] at hj
    rw [← hj]
    refine ⟨fun o ho => ?_, fun o ho => ?_⟩
    · have := (List.mem_filter.mp ho).2
      simpa using this
    · exact (List.mem_filter.mp ho).2

/-- one other-event sample: the buffers gain exactly one item, a marker item, which is not a recorded sample;
the thread entries it is attached to are those of (pid, tid) (created on demand) -/
theorem C01_other_event_step (cfg : Config) (rs : List Rec) (pid tid t : Nat) (km : Bool) (ip : Nat)
    (chain : List Nat) :
    ∃ u : USample, u.marker = true ∧ u.synth = true ∧ u.gpid = pid ∧ u.gtid = tid ∧ u.t = t - cfg.ref ∧
      List.Perm (buffered (run cfg (rs ++ [.otherEvent pid tid t km ip chain]))) (buffered (run cfg rs) ++ [u]) := by
  have hsim := run_sim cfg rs
  have hrun : run cfg (rs ++ [.otherEvent pid tid t km ip chain]) =
      step (run cfg rs) (.otherEvent pid tid t km ip chain) := by
    unfold run; rw [List.foldl_append]; rfl
  rw [hrun]
  generalize run cfg rs = s at hsim
  have e : step s (.otherEvent pid tid t km ip chain) =
      commitThread (getThread (getByPid s pid).1 (getByPid s pid).2 tid).1
        (getThread (getByPid s pid).1 (getByPid s pid).2 tid).2.1 tid
        (otherEventThread (getThread (getByPid s pid).1 (getByPid s pid).2 tid).1
          (getThread (getByPid s pid).1 (getByPid s pid).2 tid).2.2 pid tid t
          (sampleStack (getThread (getByPid s pid).1 (getByPid s pid).2 tid).1.cfg km ip chain)) := rfl
  rw [e]
  generalize hgb : getByPid s pid = r1
  obtain ⟨s1, p1⟩ := r1
  generalize hgt : getThread s1 p1 tid = r2
  obtain ⟨s2, p2, th⟩ := r2
  simp only []
  obtain ⟨g1, hp1⟩ := getByPid_spec hsim.inv hgb
  have hpid1 := (g1.inv.get hp1).1
  obtain ⟨g2, hp2, hpid2, hth⟩ := getThread_spec g1.inv (by rw [hpid1]; exact hp1) hgt
  rw [hpid1] at hp2 hpid2
  obtain ⟨_, _, _, _, hbuf, _⟩ := commit_spec (otherEventThread s2 th pid tid t (sampleStack s2.cfg km ip chain))
    g2.inv (by rw [hpid2]; exact hp2) hth rfl
  have hc : s2.cfg = cfg := (g2.cfg.trans g1.cfg).trans hsim.hcfg
  refine ⟨markerItem s2 th.h pid tid t (sampleStack s2.cfg km ip chain), rfl, rfl, rfl, rfl, ?_, ?_⟩
  · show conv s2 t = t - cfg.ref
    unfold conv; rw [hc]
  · refine hbuf.trans (List.Perm.append_right _ ?_)
    exact g2.buf.trans g1.buf

/-! ### Panics: the hypothesis "per-thread sample times nondecreasing"

`handle_main_event_sample` hands *every* sample to `ContextSwitchHandler::handle_on_cpu_sample`
(converter.rs:283-285), which subtracts the thread's previous sample time (`shared/context_switch.rs:147`). The
model carries this as `St.bad` (`wake` → `CS.stepSafe`); the driver prints `panic` when it is set, and the
conservation theorems above are statements about `views (run cfg rs)` of a conversion that did not panic.
`ConvSpec.samplesMonotone rs` (per thread incarnation, accepted sample times never decrease) is the hypothesis
under which a recording without context-switch records does not panic there (`C01_no_panic` below); every file
that keeps perf's round contract satisfies it. Outside it the debug build panics: -/

/-- One sample step: with no off-CPU bookkeeping pending (`cs.state = .on t0`, the state every sampled thread
of a recording without switch records is in), the conversion panics exactly when the sample is older than
the thread's previous one. -/
theorem C01_sample_panics_iff (s : St) (th : ThreadC) (pid tid t period t0 : Nat) (stack : List SFrame)
    (hst : th.cs.state = .on t0) :
    (sampleThread s th pid tid t period stack).2.2 = decide (t0 ≤ t) := by
  obtain ⟨h, lastTs, name, cs, offStack⟩ := th
  obtain ⟨state, onAcc, offAcc⟩ := cs
  simp only at hst
  subst hst
  simp only [sampleThread, wake, CS.step, CS.stepSafe]

/-- A back-dated sample of a known thread (a file whose round N+2 is older than round N delivers it): the
conversion panics — outside `samplesMonotone`, and the only record kinds are COMM and SAMPLE. -/
theorem C01_backdated_sample_panics :
    (run { ref := 1000 } [.comm 100 100 "app" false 1000, .sample 100 100 3000 false 1 0x10 [],
      .sample 100 100 2000 false 1 0x10 []]).bad = true ∧
    samplesMonotone [.comm 100 100 "app" false 1000, .sample 100 100 3000 false 1 0x10 [],
      .sample 100 100 2000 false 1 0x10 []] = false ∧
    -- the same records in time order: no panic, and the hypothesis holds
    (run { ref := 1000 } [.comm 100 100 "app" false 1000, .sample 100 100 2000 false 1 0x10 [],
      .sample 100 100 3000 false 1 0x10 []]).bad = false ∧
    samplesMonotone [.comm 100 100 "app" false 1000, .sample 100 100 2000 false 1 0x10 [],
      .sample 100 100 3000 false 1 0x10 []] = true := by
  refine ⟨by decide, by decide, by decide, by decide⟩

/-- **No panic.** For every configuration (`--reuse-threads` included) and every record history without context-switch records / sched_switch
samples in which, per thread incarnation (cut at EXIT / EXEC as in `accStep`), the sample timestamps never decrease
(`ConvSpec.samplesMonotone`; true of every perf.data file that keeps perf's round contract), the conversion
performs no failing `u64` operation of `ContextSwitchHandler` — `St.bad` stays false — for every off-CPU mode and
every interval (0 included: without switch records the interval is never divided by). So the conservation theorems
above describe the output of every such conversion. The excluded point is `C01_backdated_sample_panics`; the judges
answer not-applicable on a `panic` output exactly when `samplesMonotone` is false (`panicVerdict`). Thread-object
invariant behind it (`Lemmas/ConvNoPanic.lean`): no off-CPU stack stored, context-switch state `Unknown` before the
first sample of the incarnation and `On(t)` after a sample at `t`. -/
theorem C01_no_panic (cfg : Config) (rs : List Rec) (hcs : hasCsRec rs = false)
    (hm : samplesMonotone rs = true) : (run cfg rs).bad = false :=
  no_panic_run cfg rs hcs hm

/-! ### Non-vacuity -/
def C01_exHistory : List Rec :=
  [.comm 100 100 "p" false 10, .sample 100 100 12 false 1 0x10 [], .sample 100 100 12 false 1 0x10 [],
   .sample 100 0 13 false 1 0x10 [], .exit 100 100 14, .sample 100 100 14 false 1 0x10 [],
   .sample 100 101 14 false 1 0x10 []]

example : (accepted C01_exHistory).map (fun a => (a.pid, a.tid, a.t)) = [(100, 100, 12), (100, 100, 14), (100, 101, 14)] := by
  decide
example : ((views (run { ref := 12 } C01_exHistory)).flatMap (fun v => v.samples.map (fun o => (v.pidBase, v.tidBase, o.t, o.weight))))
    = [(100, 100, 0, 1), (100, 100, 2, 1), (100, 101, 2, 1)] := by decide

/-- the hypotheses of `C01_conservation` hold for the default configuration, and both sides are non-trivial -/
example : ({ ref := 12 } : Config).reuse = false := rfl

/-- the hypotheses of `C01_conservation_entry` and `C01_no_panic` hold for this history; pid 100 is re-created on
demand after its EXIT, so the later samples belong to the second incarnation (`100.1`) -/
example : Life.grammarOk 12 C01_exHistory = true ∧ hasCsRec C01_exHistory = false ∧
    samplesMonotone C01_exHistory = true ∧
    (acceptedInc 12 C01_exHistory).map (fun a => (idStr a.pid a.psuffix, idStr a.tid a.tsuffix, a.t - 12)) =
      [("100", "100", 0), ("100.1", "100.1", 2), ("100.1", "101", 2)] ∧
    ((views (run { ref := 12 } C01_exHistory)).flatMap (fun v => v.samples.map (fun o => (v.pid, v.tid, o.t)))) =
      [("100", "100", 0), ("100.1", "100.1", 2), ("100.1", "101", 2)] ∧
    (run { ref := 12 } C01_exHistory).bad = false := by decide

/-- Thread reuse: tid 101 ("w") exits, tid 102 is forked and named "w" and takes over the entry of 101. -/
def C01_exReuse : List Rec :=
  [.comm 100 100 "p" false 10, .fork 100 101 100 100 11, .comm 100 101 "w" false 11,
   .sample 100 101 12 false 1 0x10 [], .exit 100 101 13, .fork 100 102 100 100 14, .comm 100 102 "w" false 14,
   .sample 100 102 15 false 1 0x10 []]

example : (accepted C01_exReuse).map (fun a => (a.pid, a.tid, a.t)) = [(100, 101, 12), (100, 102, 15)] := by
  decide
/-- without reuse the samples sit on entries of their own tid … -/
example : ((views (run {} C01_exReuse)).flatMap (fun v => v.samples.map (fun o => (v.pidBase, v.tidBase, o.t, o.weight))))
    = [(100, 101, 12, 1), (100, 102, 15, 1)] := by decide
/-- … with reuse the second one sits on the recycled entry of tid 101 (so `C01_conservation` needs its
hypothesis), while the unkeyed multiset of `C01_conservation_reuse` is unchanged -/
example : ((views (run { reuse := true } C01_exReuse)).flatMap (fun v => v.samples.map (fun o => (v.pidBase, v.tidBase, o.t, o.weight))))
    = [(100, 101, 12, 1), (100, 101, 15, 1)] := by decide

/-- a history with other-event samples: on a thread with samples, on a thread first seen through the other event,
and at the timestamp of a main-event sample (no dedup across events): two samples, three marker stacks -/
def C01_exOev : List Rec :=
  [.comm 100 100 "a" false 10, .sample 100 100 12 false 1 0x10 [], .otherEvent 100 101 13 false 0x20 [],
   .otherEvent 100 100 14 false 0x20 [], .sample 100 100 14 false 1 0x10 [], .otherEvent 100 100 14 true 0x30 []]

example : (accepted C01_exOev).map (fun a => (a.pid, a.tid, a.t)) = [(100, 100, 12), (100, 100, 14)] ∧
    ((views (run { ref := 12 } C01_exOev)).map
      (fun v => (v.pidBase, v.tidBase, (C01_recorded v).map (fun o => (o.t, o.weight)), v.markers.map (·.t)))) =
      [(100, 100, [(0, 1), (2, 1)], [2, 2]), (100, 101, [], [1])] := by decide
