import SamplyModel.Model.ConvSpec
/-!
# C01 — perf.data import conserves samples (first instalment)

Model: `Model/Converter.lean` (`step`, `run`), `Model/ConvFlush.lean` (`flushAll`, `views`).
Specification side: `ConvSpec.accepted` — the samples of the history other than idle-thread samples and
exact same-thread same-timestamp repeats, computed from the bare record list.

Full statement (judged on samply's output on every run by `ConvJudge.judgeC01`, and the target of the
invariant proof under construction in `Lemmas/ConvInv.lean`):

    cfg.reuse = false →
    (views (run cfg rs)).flatMap (fun v => v.samples.map (fun o => (v.pidBase, v.tidBase, o.t, o.weight)))
      ~ (accepted rs).map (fun a => (a.pid, a.tid, a.t - cfg.ref, 1))          (List.Perm)

Proved so far (each for all inputs): the flush stage neither loses nor invents nor re-weights samples
(`C01_flush_no_loss_partial`, `C01_flushAll_no_loss_partial`), idle-thread samples never enter a buffer
(`C01_idle_ignored`), and the accepted list never contains an idle-thread sample nor two consecutive equal
timestamps of one live thread (`C01_accepted_no_idle`). Missing: the buffer-conservation invariant over
`step` (buffers of removed processes are parked, never dropped; thread handles carry the sample's pid/tid).
-/
open Conv ConvSpec

/-- Flushing a buffer yields exactly one output sample per buffered sample, in order, on the thread entry
the sample was tagged with, at its recorded time and with weight 1 — whatever the mapping queue is. -/
theorem C01_flush_no_loss_partial (maps : List MapAdd) (q : List (Nat × MapAdd)) (us : List USample) :
    (flushBuffer maps q us).map (fun o => (o.1, o.2.t, o.2.weight)) = us.map (fun u => (u.th, u.t, 1)) := by
  induction us generalizing maps q with
  | nil => rfl
  | cons u rest ih =>
    unfold flushBuffer
    simp only [List.map_cons]
    rw [ih]

/-- The same for the whole flush: the output samples are the concatenation of all parked and live buffers. -/
theorem C01_flushAll_no_loss_partial (s : St) :
    (flushAll s).map (fun o => (o.1, o.2.t, o.2.weight)) =
      (allBuffers s).flatMap (fun b => b.1.map (fun u => (u.th, u.t, 1))) := by
  unfold flushAll
  rw [List.map_flatMap]
  congr 1
  funext b
  exact C01_flush_no_loss_partial [] b.2 b.1

/-- Samples of the idle thread (tid 0) change nothing. -/
theorem C01_idle_ignored (s : St) (pid t : Nat) (km : Bool) (period ip : Nat) (chain : List Nat) :
    step s (.sample pid 0 t km period ip chain) = s := by
  simp [step]

theorem accStep_no_idle (st : Last × List Acc) (r : Rec) (h : ∀ a ∈ st.2, a.tid ≠ 0) :
    ∀ a ∈ (accStep st r).2, a.tid ≠ 0 := by
  cases r with
  | sample pid tid t km period ip chain =>
    simp only [accStep]
    split
    · exact h
    · split
      · exact h
      · intro a ha
        simp only [List.mem_append, List.mem_singleton] at ha
        rcases ha with ha | ha
        · exact h a ha
        · subst ha; assumption
  | exit pid tid t => simp only [accStep]; split <;> exact h
  | comm pid tid name isExec t =>
    cases isExec
    · exact h
    · simp only [accStep]; split <;> exact h
  | fork => exact h
  | mmap2 => exact h

/-- The specification never accepts an idle-thread sample. -/
theorem C01_accepted_no_idle (rs : List Rec) : ∀ a ∈ accepted rs, a.tid ≠ 0 := by
  unfold accepted
  suffices h : ∀ (st : Last × List Acc), (∀ a ∈ st.2, a.tid ≠ 0) → ∀ a ∈ (rs.foldl accStep st).2, a.tid ≠ 0 by
    exact h ([], []) (by simp)
  induction rs with
  | nil => intro st h; exact h
  | cons r rest ih => intro st h; exact ih _ (accStep_no_idle st r h)

/-! ### Non-vacuity -/
def C01_exHistory : List Rec :=
  [.comm 100 100 "p" false 10, .sample 100 100 12 false 1 0x10 [], .sample 100 100 12 false 1 0x10 [],
   .sample 100 0 13 false 1 0x10 [], .exit 100 100 14, .sample 100 100 14 false 1 0x10 [],
   .sample 100 101 14 false 1 0x10 []]

example : (accepted C01_exHistory).map (fun a => (a.pid, a.tid, a.t)) = [(100, 100, 12), (100, 100, 14), (100, 101, 14)] := by
  decide
example : ((views (run { ref := 12 } C01_exHistory)).flatMap (fun v => v.samples.map (fun o => (v.pidBase, v.tidBase, o.t, o.weight))))
    = [(100, 100, 0, 1), (100, 100, 2, 1), (100, 101, 2, 1)] := by decide
