import SamplyModel.Model.ProfileSer
/-! C03 — placeholder while the lemma files are being written (replaced by the real theorems). -/
open PT

theorem C03_init_threads : P.init.threads = [] := rfl
