import SamplyModel.Lemmas.ProfileCanonical
import SamplyModel.Lemmas.ProfileIdentSer
import SamplyModel.Lemmas.ProfileDecode
import SamplyModel.Lemmas.ProfileFrameDesc
import SamplyModel.Lemmas.ProfileNsym
import SamplyModel.Lemmas.ProfileAddrFrame
import SamplyModel.Lemmas.ProfileSymFrame
import SamplyModel.Lemmas.ProfileStackDecode
import SamplyModel.Lemmas.ProfileIdRule
/-!
# C03 — every serialized profile is internally consistent (no dangling index)

Model: `Model/ProfileTables.lean` (interning tables), `Model/ProfileApi.lean` (`step : P → Op → P × Out`,
one `Op` per public method of `fxprof_processed_profile::Profile` that can influence an index, a table
length, the thread order or a pid/tid string), `Model/ProfileSer.lean` (`serialize`, following
`impl Serialize for Profile` including `sorted_threads`, and the specification `wf`),
`Model/ProfileAccepted.lean` (the decidable precondition `Accepted`).

All theorems quantify over **every** op sequence `ops` with `Accepted ops` — no bound on the number
of processes, threads, frames, stacks, markers or calls. `Accepted ops` says (a) every handle an op
mentions was returned by an earlier call (automatic in Rust: handles cannot be forged; a handle of
*another thread* is allowed and the call is then `rejected`, as the code asserts) and (b) an allocation
sample that carries a stack is added through the first thread of its process — the call shape of
the known defect (DESIGN §8 #10) is excluded, see `C03_alloc_foreign_stack_dangles`.

The proof is by ONE invariant `Inv = TInv ∧ SInv` (`Lemmas/ProfileInv.lean`, `Lemmas/ProfileIdent.lean`):
`C03_inv_init`, `C03_inv_step`, `C03_inv_wf`.
Only property theorems (names `C03_*`) and non-vacuity examples live in this file.
-/
open PT

/-- the empty profile satisfies the invariant -/
theorem C03_inv_init : Inv P.init := Inv.init

/-- every API call with valid handles (and no foreign-stack allocation sample) preserves it,
whatever its outcome (returned, rejected, panicked) -/
theorem C03_inv_step (p : P) (op : Op) (h : Inv p) (hv : handlesValid p op = true)
    (ha : allocFirst p op = true) : Inv (step p op).1 := h.step op hv ha

/-- a state satisfying the invariant serializes without panic to a well-formed profile -/
theorem C03_inv_wf (p : P) (h : Inv p) : ∃ s, serialize p = some s ∧ wf s = true := wf_of_inv p h.1 h.2

/-- **Main theorem.** For every accepted sequence of API calls, serialization does not panic and the
serialized profile satisfies every clause of `wf`: all columns of a table have the table's declared
length; every func / category / subcategory / nativeSymbol / string / resource / lib (into the list of
*used* libs) / frame / stack index — in the frame, func, resource, nativeSymbols and stack tables, in
`samples.stack`, `nativeAllocations.stack`, marker `cause.stack`, marker names, categories and
"unique-string" fields — is in range; `prefix[i] < i`; tid strings are pairwise distinct; the threads
of a process are adjacent with main threads first; `initialVisibleThreads` / `initialSelectedThreads`
are in range. -/
theorem C03_wf (ops : List Op) (h : Accepted ops = true) :
    ∃ s, serialize (run ops) = some s ∧ wf s = true :=
  C03_inv_wf _ (Inv.run ops h)

/-- no `unwrap` / index expression inside the table code can fail (`Out.bug`) on an accepted run: the
only panics are the documented API misuses (`rejected`, `panic`) -/
theorem C03_no_internal_panic (ops : List Op) (op : Op) (h : Accepted (ops ++ [op]) = true) :
    (step (run ops) op).2 ≠ .bug := by
  have hsplit : ∀ (l : List Op) (p : P), AcceptedFrom p (l ++ [op]) = true →
      AcceptedFrom p l = true ∧ handlesValid (l.foldl (fun p o => (step p o).1) p) op = true := by
    intro l
    induction l with
    | nil => intro p hp; simp only [List.nil_append, AcceptedFrom, Bool.and_eq_true] at hp; exact ⟨rfl, hp.1.1⟩
    | cons o os ih =>
      intro p hp
      simp only [List.cons_append, AcceptedFrom, Bool.and_eq_true] at hp ⊢
      obtain ⟨h1, h2⟩ := ih _ hp.2
      exact ⟨⟨hp.1, h1⟩, h2⟩
  obtain ⟨h1, h2⟩ := hsplit ops P.init h
  exact step_no_bug _ (Inv.run ops h1) op h2

/-- stack table of every thread, in the model's own terms: every stack's prefix is an earlier row (so
each stack is a finite root-to-leaf path), every frame index exists, every sample / marker stack exists -/
theorem C03_stack_table (ops : List Op) (h : Accepted ops = true) :
    ∀ t ∈ (run ops).threads,
      (∀ (i q : Nat), t.stacks.prefixes[i]? = some (some q) → q < i) ∧
      (∀ f ∈ t.stacks.frames, f < t.frames.keys.length) ∧
      (∀ s ∈ t.samples, ∀ v, s = some v → v < t.stacks.prefixes.length) ∧
      (∀ s ∈ t.markers.stacks, ∀ v, s = some v → v < t.stacks.prefixes.length) := by
  intro t ht
  obtain ⟨_, _, _, a4, a5, _, _, a8, _⟩ := (Inv.run ops h).1.threads t ht
  exact ⟨a4.2.2.1, a4.2.1, a5, a8.2.2.2.2.2.2.1⟩

/-- pid strings of different processes differ, tid strings of different threads differ — even when
numeric ids are reused (`.1`, `.2`, … suffixes) -/
theorem C03_pid_tid_unique (ops : List Op) (h : Accepted ops = true) :
    (∀ (i j : Nat) (a b : Process), (run ops).processes[i]? = some a → (run ops).processes[j]? = some b →
      idString a.pid = idString b.pid → i = j) ∧
    (∀ (i j : Nat) (a b : Thread), (run ops).threads[i]? = some a → (run ops).threads[j]? = some b →
      idString a.tid = idString b.tid → i = j) := by
  have hs := (Inv.run ops h).2
  constructor
  · intro i j a b ha hb he
    have hi := (List.getElem?_eq_some_iff.mp ha).1
    have hj := (List.getElem?_eq_some_iff.mp hb).1
    exact procPid_inj _ hs i j hi hj (by simp only [procPid, ha, hb]; exact he)
  · intro i j a b ha hb he
    have hi := (List.getElem?_eq_some_iff.mp ha).1
    have hj := (List.getElem?_eq_some_iff.mp hb).1
    exact tidOf_inj _ hs i j hi hj (by simp only [tidOf, ha, hb]; exact he)

/-- `sorted_threads` lists every thread exactly once, and a positional thread reference
(`initialVisibleThreads[k]`, `initialSelectedThreads[k]`) denotes the thread the caller named -/
theorem C03_thread_refs (ops : List Op) (h : Accepted ops = true) :
    (sortedThreads (run ops)).Nodup ∧
    (∀ t, t ∈ sortedThreads (run ops) ↔ t < (run ops).threads.length) ∧
    (∀ t ∈ (run ops).visible ++ (run ops).selected,
      (sortedThreads (run ops))[newThreadIndex (run ops) t]? = some t) := by
  have hi := Inv.run ops h
  refine ⟨nodup_sortedThreads _ hi.2, mem_sortedThreads _ hi.2, ?_⟩
  intro t ht
  simp only [List.mem_append] at ht
  rcases ht with ht | ht
  · exact newThreadIndex_denotes _ hi.2 t (hi.1.visible t ht)
  · exact newThreadIndex_denotes _ hi.2 t (hi.1.selected t ht)

/-- a counter's `mainThreadIndex` is where the block of threads of the counter's process starts: the
`k`-th thread of that block is at `mainThreadIndex + k`; every thread of the block belongs to the process
the caller named -/
theorem C03_counter_main_thread (ops : List Op) (h : Accepted ops = true) :
    ∀ c ∈ (run ops).counters,
      (∀ k, k < (procBlock (run ops) c.process).length →
        (sortedThreads (run ops))[firstThreadIndex (run ops) c.process + k]? = (procBlock (run ops) c.process)[k]?) ∧
      (∀ x ∈ procBlock (run ops) c.process, ∃ t, (run ops).threads[x]? = some t ∧ t.process = c.process) := by
  have hi := Inv.run ops h
  intro c hc
  have hpi := hi.1.counters_lt c hc
  refine ⟨?_, fun x hx => procBlock_thread _ hi.2 _ x hx⟩
  intro k hk
  rcases firstThreadIndex_denotes _ c.process hpi k with h1 | h1
  · exact h1
  · omega

/-- **Identity clauses, stated on the serialized profile** (the predicate `identOk` is the one the judge
evaluates on the implementation's tables, there with a caller-side view computed from the op lines): for
every accepted history and the profile `s` it serializes to — exactly the created threads are serialized;
pid strings of different processes differ; every thread handle is found under its tid string and that
serialized thread carries its process's pid string and its main flag; `initialVisibleThreads[k]` /
`initialSelectedThreads[k]` is the position of the thread (found by tid string) the caller passed in the
`k`-th call; `counters[c].pid` is the pid string of the process the caller named and, if that process has
a thread, `counters[c].mainThreadIndex` is the position of the first thread in `s.threads` carrying that
pid string. `P.view` only projects the model state to what the caller knows (handle ↦ pid / tid string,
process, main flag); no helper of the model's serializer occurs in the statement. -/
theorem C03_identity (ops : List Op) (h : Accepted ops = true) (s : SerProfile)
    (hs : serialize (run ops) = some s) : identOk (run ops).view s = true :=
  identOk_of_inv _ (Inv.run ops h).1 (Inv.run ops h).2 s hs

/-- **The pid / tid strings are the ones the caller expects** — for every call sequence, accepted or not: the
pid of process handle `i` and the tid of thread handle `j` (`P.view` renders them with `idString`) are given
by the caller-side rule `idSpec`: the numeric id, and as suffix the number of earlier uses of that id
(`add_process` for pids; `add_thread` and `set_thread_tid` for tids; the last assignment of a thread counts).
This is the rule the judge's reference (`expectedId`) applies to the op lines. -/
theorem C03_id_rule (ops : List Op) :
    (run ops).processes.map (·.pid) = (idSpec ops).pids ∧ (run ops).threads.map (·.tid) = (idSpec ops).tids := by
  have h := idInv_run ops P.init {} ⟨rfl, rfl, fun _ => rfl, fun _ => rfl⟩
  exact ⟨h.pids, h.tids⟩

/-- the pid a counter was created with is the pid of its process at every later time (counters.rs keeps
the pid string; `Process` has no pid setter) -/
theorem C03_counter_pid (ops : List Op) (h : Accepted ops = true) :
    ∀ c ∈ (run ops).counters, ∃ pr, (run ops).processes[c.process]? = some pr ∧ pr.pid = c.pid :=
  (Inv.run ops h).1.counters

/-- within a process's block the threads are ordered by `cmp_for_json_order` (a total preorder, so this
holds for any stable or unstable sort by it); in particular main threads come first — in every state -/
theorem C03_thread_order (p : P) (pi : Nat) :
    (procBlock p pi).Pairwise (fun a b => mainOf p a = true ∨ mainOf p b = false) :=
  (procBlock_pairwise p pi).imp (fun hab => threadCmp_main _ _ _ hab)

/-! ### Canonical interning -/

/-- the accepted prefix of an accepted sequence, and validity of the next op -/
theorem C03_accepted_split (pre : List Op) (op : Op) (post : List Op)
    (h : Accepted (pre ++ op :: post) = true) :
    Accepted pre = true ∧ handlesValid (run pre) op = true := by
  have hsplit : ∀ (l : List Op) (p : P), AcceptedFrom p (l ++ op :: post) = true →
      AcceptedFrom p l = true ∧ handlesValid (l.foldl (fun p o => (step p o).1) p) op = true := by
    intro l
    induction l with
    | nil => intro p hp; simp only [List.nil_append, AcceptedFrom, Bool.and_eq_true] at hp; exact ⟨rfl, hp.1.1⟩
    | cons o os ih =>
      intro p hp
      simp only [List.cons_append, AcceptedFrom, Bool.and_eq_true] at hp ⊢
      obtain ⟨h1, h2⟩ := ih _ hp.2
      exact ⟨⟨hp.1, h1⟩, h2⟩
  exact hsplit pre P.init h

/-- **Append-only.** No operation — accepted or not — changes an existing stack row or frame key of any
thread: the tables only grow at the end. -/
theorem C03_append_only (p : P) (op : Op) : Grow p (step p op).1 := step_grow p op

/-- **Canonical interning of stacks (1).** If `handle_for_stack(thread, frame, parent)` returned the
handle `(t, i)` at some point of an accepted history, then *at the end of the history* walking stack `i`
gives the frames of `parent` (as walked at the end) followed by `frame`. By induction over the handles
this is the frame list the caller supplied. -/
theorem C03_canonical_stack (pre post : List Op) (t : Nat) (frame : TH) (parent : Option TH) (i : Nat)
    (h : Accepted (pre ++ .stack t frame parent :: post) = true)
    (hout : (step (run pre) (.stack t frame parent)).2 = .h [t, i]) :
    (run (pre ++ .stack t frame parent :: post)).stackFrames? (t, i) =
      (run (pre ++ .stack t frame parent :: post)).extendFrames? parent frame.2 := by
  obtain ⟨hpre, hv⟩ := C03_accepted_split pre _ post h
  have hi := Inv.run pre hpre
  simp only [handlesValid, Bool.and_eq_true, decide_eq_true_eq] at hv
  obtain ⟨⟨ht, hf⟩, hp⟩ := hv
  have hrun : run (pre ++ .stack t frame parent :: post) =
      post.foldl (fun p op => (step p op).1) (P.stack (run pre) t frame parent).1 := by
    simp [run, List.foldl_append, step]
  rw [hrun]
  exact canonical_stack_after (run pre) hi.1 t frame parent i ht hf hp hout post

/-- **Canonical interning of stacks (2).** A handle returned by `handle_for_stack_frames(thread, frames)`
denotes, at the end of every accepted history, exactly the frame list that was passed. -/
theorem C03_canonical_stack_frames (pre post : List Op) (t : Nat) (frames : List TH) (i : Nat)
    (h : Accepted (pre ++ .stackFrames t frames :: post) = true)
    (hout : (step (run pre) (.stackFrames t frames)).2 = .h [t, i]) :
    (run (pre ++ .stackFrames t frames :: post)).stackFrames? (t, i) = some (frames.map (·.2)) := by
  obtain ⟨hpre, hv⟩ := C03_accepted_split pre _ post h
  have hi := Inv.run pre hpre
  simp only [handlesValid, Bool.and_eq_true, decide_eq_true_eq] at hv
  have hrun : run (pre ++ .stackFrames t frames :: post) =
      post.foldl (fun p op => (step p op).1) (P.stackFrames (run pre) t frames).1 := by
    simp [run, List.foldl_append, step]
  rw [hrun]
  exact canonical_stackFrames_after (run pre) hi.1 t frames i hv.1 hv.2 hout post

/-- **Canonical interning of stacks (3).** In every reachable state two different rows of a stack table
denote different frame lists (a call stack is interned exactly once), and two different rows of a frame
table carry different frame keys. -/
theorem C03_canonical_injective (ops : List Op) (h : Accepted ops = true) :
    ∀ th ∈ (run ops).threads,
      (∀ (i j : Nat), i < th.stacks.prefixes.length → j < th.stacks.prefixes.length →
        walk th.stacks.prefixes th.stacks.frames (i + 1) i = walk th.stacks.prefixes th.stacks.frames (j + 1) j →
        i = j) ∧
      th.frames.keys.Nodup := by
  intro th hth
  obtain ⟨_, a2, _, a4, _⟩ := (Inv.run ops h).1.threads th hth
  exact ⟨walk_injective th.stacks _ a4, a2.2.2.2.2.2.2.2.2.2.2.2.2.2.1⟩

/-- **Canonical interning of frames, decoding half (1): rows carry their keys.** For every accepted history
and the profile `s` it serializes to, every thread the caller created is serialized (under its tid string)
and *every* row `i` of its frame table, read back through `frameTable.func → funcTable.{name, fileName,
isJS/relevantForJS, resource} → resourceTable.lib` and the frame columns (`SerThread.rowFrame`), is exactly
the frame key interned at index `i` — name / file string indices, flags, library (index into the used
libs), relative address, native symbol index, inline depth, category, subcategory, line, column. In
particular two frames that differ only in their library never share a func or resource row (a model that
followed a resource table keyed by the library *name* would not satisfy this). -/
theorem C03_frame_rows (ops : List Op) (h : Accepted ops = true) (s : SerProfile)
    (hs : serialize (run ops) = some s) (t : Nat) (th : Thread) (ht : (run ops).threads[t]? = some th) :
    ∃ st ∈ s.threads, st.tid = idString th.tid ∧ st.strings = th.strings.table.strings ∧
      ∀ (i : Nat) (k : Frame), th.frames.keys[i]? = some k → st.rowFrame i = some k := by
  have hi := Inv.run ops h
  obtain ⟨_, _, hthreads⟩ := serialize_parts _ hi.2 s hs
  obtain ⟨st, hst, hser⟩ := hthreads t th ht
  refine ⟨st, hst, (serThread_fields _ th st hser).1, ?_, ?_⟩
  · unfold serThread at hser
    split at hser
    · cases hser; rfl
    · cases hser
  · intro i k hk
    rw [serThread_rowFrame _ th st hser i]
    obtain ⟨_, a2, _⟩ := hi.1.threads th (List.mem_of_getElem? ht)
    exact a2.2.2.2.2.2.2.2.2.2.2.2.2.2.2.row i k hk

/-- **Canonical interning of frames, decoding half (2): what a row says.** `decodeFrame s st i` — the
judge's decoding of frame row `i` of the serialized thread: name / file through `stringArray`, library
identity through `resourceTable.lib → libs`, native symbol (library, address, size, name) through
`nativeSymbols`, category / subcategory names through `meta.categories` — is the description `P.descOf` of
the key interned at `i`, evaluated in the final model state. -/
theorem C03_frame_decode (ops : List Op) (h : Accepted ops = true) (s : SerProfile)
    (hs : serialize (run ops) = some s) (t : Nat) (th : Thread) (ht : (run ops).threads[t]? = some th) :
    ∃ st ∈ s.threads, st.tid = idString th.tid ∧
      ∀ (i : Nat) (k : Frame), th.frames.keys[i]? = some k → decodeFrame s st i = (run ops).descOf th k :=
  decode_of_inv _ (Inv.run ops h).1 (Inv.run ops h).2 s hs t th ht

/-- **Canonical interning of frames, decoding half (3): descriptions are stable.** Once the key at frame
handle `(t, i)` has a description — its name / file strings, library identity, native symbol, category and
subcategory names are defined — the same handle has the same key and the same description at the end of
every accepted continuation: string arrays, native symbol tables, the used-library list and the library
set are append-only, categories keep name and colour, subcategory lists are append-only
(`step_ext`). -/
theorem C03_frame_desc_stable (pre post : List Op) (h : Accepted (pre ++ post) = true) (t i : Nat) (th : Thread)
    (k : Frame) (d : FrameDesc) (ht : (run pre).threads[t]? = some th) (hk : th.frames.keys[i]? = some k)
    (hd : (run pre).descOf th k = some d) :
    ∃ th', (run (pre ++ post)).threads[t]? = some th' ∧ th'.frames.keys[i]? = some k ∧
      (run (pre ++ post)).descOf th' k = some d := by
  have hsplit : ∀ (l : List Op) (p : P), AcceptedFrom p (l ++ post) = true →
      AcceptedFrom p l = true ∧ AcceptedFrom (l.foldl (fun p o => (step p o).1) p) post = true := by
    intro l
    induction l with
    | nil => intro p hp; exact ⟨rfl, hp⟩
    | cons o os ih =>
      intro p hp
      simp only [List.cons_append, AcceptedFrom, Bool.and_eq_true] at hp ⊢
      obtain ⟨h1, h2⟩ := ih _ hp.2
      exact ⟨⟨hp.1, h1⟩, h2⟩
  obtain ⟨hpre, hpost⟩ := hsplit pre P.init h
  have hrun : run (pre ++ post) = post.foldl (fun p op => (step p op).1) (run pre) := by
    simp [run, List.foldl_append]
  rw [hrun]
  have he := runFrom_ext post (run pre) (Inv.run pre hpre) hpost
  obtain ⟨th', ht', hd'⟩ := P.descOf_stable he t th ht k d hd
  refine ⟨th', ht', ?_, hd'⟩
  obtain ⟨th'', ht'', hle⟩ := run_grow post (run pre) t th ht
  rw [ht'] at ht''
  cases ht''
  exact prefix_getElem? hle.2.2 hk

/-- **Canonical interning of label frames.** If `handle_for_frame_with_label(_and_source_location)` returned
the frame handle `(t, i)` at some point of an accepted history, then in the profile serialized *at the end
of the history* row `i` of that thread's frame table decodes — through funcTable, stringArray,
meta.categories — to exactly what the caller passed (`P.labelDesc`, evaluated in the state before the
call): the label string, the category / subcategory names behind the subcategory handle, no library /
address / native symbol, inline depth 0, the file string, line, column and the flags. -/
theorem C03_canonical_label_frame (pre post : List Op) (t str : Nat)
    (src : Option (Option Nat × Option Nat × Option Nat)) (sc : SubSpec) (flags i : Nat)
    (h : Accepted (pre ++ .frameLabel t str src sc flags :: post) = true)
    (hout : (step (run pre) (.frameLabel t str src sc flags)).2 = .h [t, i])
    (s : SerProfile) (hs : serialize (run (pre ++ .frameLabel t str src sc flags :: post)) = some s) :
    ∃ d, (run pre).labelDesc str src sc flags = some d ∧
      ∃ th st, (run (pre ++ .frameLabel t str src sc flags :: post)).threads[t]? = some th ∧ st ∈ s.threads ∧
        st.tid = idString th.tid ∧ decodeFrame s st i = some d := by
  obtain ⟨hpre, hv⟩ := C03_accepted_split pre _ post h
  obtain ⟨d, th2, k, hd, ht2, hk2, hdesc⟩ :=
    label_step (run pre) (Inv.run pre hpre) (SDecAll.run pre hpre) t str src sc flags hv i hout
  have hrun : run (pre ++ [.frameLabel t str src sc flags]) = (step (run pre) (.frameLabel t str src sc flags)).1 := by
    simp [run, List.foldl_append]
  have hall : pre ++ .frameLabel t str src sc flags :: post = (pre ++ [.frameLabel t str src sc flags]) ++ post := by
    simp
  rw [hall] at h hs ⊢
  rw [← hrun] at ht2 hdesc
  obtain ⟨th', ht', hk', hd'⟩ := C03_frame_desc_stable _ post h t i th2 k d ht2 hk2 hdesc
  obtain ⟨st, hst, htid, hdec⟩ := C03_frame_decode _ h s hs t th' ht'
  exact ⟨d, hd, th', st, ht', hst, htid, by rw [hdec i k hk', hd']⟩

/-- **Canonical interning of native symbols.** If `handle_for_native_symbol(thread, lib, symbol)` returned
the handle `(t, j)` at some point of an accepted history, then in the profile serialized at the end of the
history row `j` of that thread's `nativeSymbols` table decodes (`decodeNsym`: `libIndex → libs`, `address`,
`functionSize`, `name → stringArray`) to the identity of the library behind the handle `lib`, the symbol's
address, and a size / name which are the passed symbol's if the pair (library, address) had not been
registered on this thread before (no earlier row of the thread carries it), and which are otherwise those of
the existing row: a description the row had before the call is unchanged. -/
theorem C03_canonical_native_symbol (pre post : List Op) (t lib : Nat) (sym : Sym) (j : Nat)
    (h : Accepted (pre ++ .nativeSymbol t lib sym :: post) = true)
    (hout : (step (run pre) (.nativeSymbol t lib sym)).2 = .h [t, j])
    (s : SerProfile) (hs : serialize (run (pre ++ .nativeSymbol t lib sym :: post)) = some s) :
    ∃ th0 th st id sz nm, (run pre).threads[t]? = some th0 ∧
      (run (pre ++ .nativeSymbol t lib sym :: post)).threads[t]? = some th ∧ st ∈ s.threads ∧
      st.tid = idString th.tid ∧ (run pre).libs.all[lib]? = some id ∧
      decodeNsym s st j = some (id, sym.addr, sz, nm) ∧
      ((∀ u : Nat, (run pre).libs.used[u]? = some lib →
          ¬ ∃ j' : Nat, th0.nsyms.libs[j']? = some u ∧ th0.nsyms.addrs[j']? = some sym.addr) →
        sz = sym.size ∧ nm = sym.name) ∧
      (∀ d0, (run pre).nsymDescOf th0 j = some d0 → d0 = (id, sym.addr, sz, nm)) := by
  obtain ⟨hpre, _⟩ := C03_accepted_split pre _ post h
  obtain ⟨th0, th2, id, sz, nm, e1, e2, e3, e4, e5, e6⟩ :=
    nativeSymbol_step (run pre) (Inv.run pre hpre) t lib sym j hout
  have hall : pre ++ .nativeSymbol t lib sym :: post = (pre ++ [.nativeSymbol t lib sym]) ++ post := by simp
  have hrun : run (pre ++ [.nativeSymbol t lib sym]) = (step (run pre) (.nativeSymbol t lib sym)).1 := by
    simp [run, List.foldl_append]
  rw [hall] at h hs ⊢
  rw [← hrun] at e2 e4
  obtain ⟨th', ht', hd'⟩ := P.nsymDescOf_stable (ext_of_accepted _ post h) t th2 e2 j _ e4
  obtain ⟨st, hst, htid, hdec⟩ := decodeNsym_of_inv _ (Inv.run _ h).2 s hs t th' ht'
  exact ⟨th0, th', st, id, sz, nm, e1, ht', hst, htid, e3, by rw [hdec j, hd'], e5, e6⟩

/-- **Canonical interning of address frames.** If `handle_for_frame_with_address(thread, address, subcategory,
flags)` returned the frame handle `(t, i)` at some point of an accepted history, then in the profile
serialized at the end of the history row `i` of that thread's frame table decodes to a description that
satisfies the caller-side specification `P.AddrFrameSpec`, evaluated in the state before the call: the
category / subcategory names behind the subcategory handle, the flags, no file / line / column, inline depth
0; for an address no mapping of the thread's process covers: the hex string of the address as name and no
library / address / native symbol; for an address inside a library (through the mapping with the greatest
start covering it, or given library-relative): the *identity* of that library (reached through
`funcTable.resource → resourceTable.lib → libs`), the relative address, and — if the library's symbol table
has a symbol covering the relative address — the native symbol (library identity, symbol address, size,
name; first registration of (library, address) on the thread wins) with its name as the frame's name,
otherwise the hex string of the relative address and no native symbol. -/
theorem C03_canonical_address_frame (pre post : List Op) (t : Nat) (a : AddrSpec) (sc : SubSpec) (flags i : Nat)
    (h : Accepted (pre ++ .frameAddr t a sc flags :: post) = true)
    (hout : (step (run pre) (.frameAddr t a sc flags)).2 = .h [t, i])
    (s : SerProfile) (hs : serialize (run (pre ++ .frameAddr t a sc flags :: post)) = some s) :
    ∃ d, (run pre).AddrFrameSpec t a sc flags d ∧
      ∃ th st, (run (pre ++ .frameAddr t a sc flags :: post)).threads[t]? = some th ∧ st ∈ s.threads ∧
        st.tid = idString th.tid ∧ decodeFrame s st i = some d := by
  obtain ⟨hpre, hv⟩ := C03_accepted_split pre _ post h
  obtain ⟨d, th2, k, hd, ht2, hk2, hdesc⟩ :=
    addr_step (run pre) (Inv.run pre hpre) (SDecAll.run pre hpre) t a sc flags hv i hout
  have hrun : run (pre ++ [.frameAddr t a sc flags]) = (step (run pre) (.frameAddr t a sc flags)).1 := by
    simp [run, List.foldl_append]
  have hall : pre ++ .frameAddr t a sc flags :: post = (pre ++ [.frameAddr t a sc flags]) ++ post := by simp
  rw [hall] at h hs ⊢
  rw [← hrun] at ht2 hdesc
  obtain ⟨th', ht', hk', hd'⟩ := C03_frame_desc_stable _ post h t i th2 k d ht2 hk2 hdesc
  obtain ⟨st, hst, htid, hdec⟩ := C03_frame_decode _ h s hs t th' ht'
  exact ⟨d, hd, th', st, ht', hst, htid, by rw [hdec i k hk', hd']⟩

/-- **Canonical interning of symbolicated address frames.** If
`handle_for_frame_with_address_and_symbol(thread, address, FrameSymbolInfo, inline depth, subcategory, flags)`
returned the frame handle `(t, i)` at some point of an accepted history, then in the profile serialized at the
end of the history row `i` of that thread's frame table decodes to a description satisfying the caller-side
specification `P.SymFrameSpec`, evaluated in the state before the call: category / subcategory names, the file
string, line, column, flags; for an unmapped address the given name (or the hex string), no library / address /
native symbol, inline depth 0; for an address inside a library the library's identity, the relative address,
the description of the native symbol *the passed handle denotes*, the inline depth, and the given name or the
native symbol's name. -/
theorem C03_canonical_symbol_frame (pre post : List Op) (t : Nat) (a : AddrSpec) (name : Option Nat) (nsym : TH)
    (file line col : Option Nat) (depth : Nat) (sc : SubSpec) (flags i : Nat)
    (h : Accepted (pre ++ .frameSym t a name nsym file line col depth sc flags :: post) = true)
    (hout : (step (run pre) (.frameSym t a name nsym file line col depth sc flags)).2 = .h [t, i])
    (s : SerProfile)
    (hs : serialize (run (pre ++ .frameSym t a name nsym file line col depth sc flags :: post)) = some s) :
    ∃ d, (run pre).SymFrameSpec t a name nsym file line col depth sc flags d ∧
      ∃ th st, (run (pre ++ .frameSym t a name nsym file line col depth sc flags :: post)).threads[t]? = some th ∧
        st ∈ s.threads ∧ st.tid = idString th.tid ∧ decodeFrame s st i = some d := by
  obtain ⟨hpre, hv⟩ := C03_accepted_split pre _ post h
  obtain ⟨d, th2, k, hd, ht2, hk2, hdesc⟩ :=
    sym_step (run pre) (Inv.run pre hpre) (SDecAll.run pre hpre) t a name nsym file line col depth sc flags hv i hout
  have hrun : run (pre ++ [.frameSym t a name nsym file line col depth sc flags]) =
      (step (run pre) (.frameSym t a name nsym file line col depth sc flags)).1 := by
    simp [run, List.foldl_append]
  have hall : pre ++ .frameSym t a name nsym file line col depth sc flags :: post =
      (pre ++ [.frameSym t a name nsym file line col depth sc flags]) ++ post := by simp
  rw [hall] at h hs ⊢
  rw [← hrun] at ht2 hdesc
  obtain ⟨th', ht', hk', hd'⟩ := C03_frame_desc_stable _ post h t i th2 k d ht2 hk2 hdesc
  obtain ⟨st, hst, htid, hdec⟩ := C03_frame_decode _ h s hs t th' ht'
  exact ⟨d, hd, th', st, ht', hst, htid, by rw [hdec i k hk', hd']⟩

/-- **Canonical interning, end to end.** A stack handle returned by `handle_for_stack_frames(thread, frames)`
decodes, in the profile serialized at the end of every accepted continuation, to the decodings of the frame
handles that were passed, in order — and each of those is pinned to what the caller described by
`C03_canonical_label_frame` / `C03_canonical_address_frame` / `C03_canonical_symbol_frame`. -/
theorem C03_canonical_stack_decoded (pre post : List Op) (t : Nat) (frames : List TH) (i : Nat)
    (h : Accepted (pre ++ .stackFrames t frames :: post) = true)
    (hout : (step (run pre) (.stackFrames t frames)).2 = .h [t, i])
    (s : SerProfile) (hs : serialize (run (pre ++ .stackFrames t frames :: post)) = some s) :
    ∃ th st, (run (pre ++ .stackFrames t frames :: post)).threads[t]? = some th ∧ st ∈ s.threads ∧
      st.tid = idString th.tid ∧
      decodeStack s st i = mapM' (fun f : TH => decodeFrame s st f.2) frames := by
  have hcan := C03_canonical_stack_frames pre post t frames i h hout
  cases hth : (run (pre ++ .stackFrames t frames :: post)).threads[t]? with
  | none => simp [P.stackFrames?, hth] at hcan
  | some th =>
    obtain ⟨st, hst, htid, hdec⟩ := decodeStack_of_inv _ (Inv.run _ h).2 s hs t th hth
    refine ⟨th, st, rfl, hst, htid, ?_⟩
    rw [hdec i, hcan, Option.bind_some, mapM'_map_eq]

/-- the same for `handle_for_stack(thread, frame, parent)`: the parent's decoding followed by the frame's -/
theorem C03_canonical_stack_push_decoded (pre post : List Op) (t : Nat) (frame : TH) (parent : Option TH) (i : Nat)
    (h : Accepted (pre ++ .stack t frame parent :: post) = true)
    (hout : (step (run pre) (.stack t frame parent)).2 = .h [t, i])
    (s : SerProfile) (hs : serialize (run (pre ++ .stack t frame parent :: post)) = some s) :
    ∃ th st, (run (pre ++ .stack t frame parent :: post)).threads[t]? = some th ∧ st ∈ s.threads ∧
      st.tid = idString th.tid ∧
      decodeStack s st i =
        (match parent with
         | none => some []
         | some par => if par.1 = t then decodeStack s st par.2 else none).bind
          (fun r => (decodeFrame s st frame.2).map (fun y => r ++ [y])) := by
  have hcan := C03_canonical_stack pre post t frame parent i h hout
  cases hth : (run (pre ++ .stack t frame parent :: post)).threads[t]? with
  | none =>
    -- the returned handle's thread exists
    exfalso
    obtain ⟨hpre, hv⟩ := C03_accepted_split pre _ post h
    simp only [handlesValid, Bool.and_eq_true, decide_eq_true_eq] at hv
    have hlt := hv.1.1
    obtain ⟨th', ht', _⟩ := ext_of_accepted pre (.stack t frame parent :: post) h |>.threads t _
      (List.getElem?_eq_getElem hlt)
    rw [hth] at ht'
    cases ht'
  | some th =>
    obtain ⟨st, hst, htid, hdec⟩ := decodeStack_of_inv _ (Inv.run _ h).2 s hs t th hth
    refine ⟨th, st, rfl, hst, htid, ?_⟩
    rw [hdec i, hcan]
    cases parent with
    | none =>
      simp only [P.extendFrames?, Option.bind_some, mapM']
      cases decodeFrame s st frame.2 <;> rfl
    | some par =>
      obtain ⟨pt, pi⟩ := par
      -- a returned handle means the parent belongs to thread `t`
      have hpt : pt = t := by
        by_cases hne : pt = t
        · exact hne
        · exfalso
          simp only [step, P.stack] at hout
          split at hout
          · simp at hout
          · simp [hne] at hout
      subst hpt
      simp only [P.extendFrames?, if_true]
      rw [hdec pi]
      cases hp : (run (pre ++ .stack pt frame (some (pt, pi)) :: post)).stackFrames? (pt, pi) with
      | none => simp
      | some l => simp only [Option.map_some, Option.bind_some, mapM'_append_one]

/-- **Frame handles are stable.** The frame key behind a valid frame handle is the same at the end of any
continuation of the history. -/
theorem C03_frame_key_stable (pre post : List Op) (f : TH) (hv : (run pre).frameOk f = true) :
    ∃ th th', (run pre).threads[f.1]? = some th ∧ (run (pre ++ post)).threads[f.1]? = some th' ∧
      th'.frames.keys[f.2]? = th.frames.keys[f.2]? ∧ f.2 < th.frames.keys.length := by
  have hrun : run (pre ++ post) = post.foldl (fun p op => (step p op).1) (run pre) := by
    simp [run, List.foldl_append]
  rw [hrun]
  exact grow_frameKey (run_grow post (run pre)) f hv

/-- **The known defect** (not excluded by handle validity, only by `allocFirst`): an allocation sample
of the second thread with a stack of that thread lands in the first thread's table, whose stack table
is empty — a dangling `nativeAllocations.stack` entry. -/
theorem C03_alloc_foreign_stack_dangles :
    let ops : List Op := [.addProcess 1 0 "a", .addThread 0 1 0 true, .addThread 0 2 0 false, .string "a",
      .frameLabel 1 0 none .other 0, .stack 1 (1, 0) none, .allocSample 1 (some (1, 0))]
    (run ops).threads.map (fun t => (t.allocs, t.stacks.prefixes.length)) = [(some [some 0], 0), (none, 1)] := by
  decide

/-! ### Non-vacuity: a non-trivial call sequence (two processes with a reused pid, reused tids, shared
strings, label / address / symbolicated frames with inline depth, runtime and static marker schemas,
counters, positional references, a renamed tid) satisfies `Accepted`. -/

def C03_example : List Op :=
  [.addProcess 7 5 "a", .addProcess 7 0 "b", .addThread 0 1 0 true, .addThread 0 1 0 false, .addThread 1 2 0 true,
   .string "x", .string "y", .string "x", .category "JS" 8, .subcategory 1 "jit", .addLib "libfoo", .addLib "libfoo",
   .libSyms 0 [⟨0, some 16, "f"⟩], .addMapping 0 0 16 48 0,
   .frameLabel 0 0 none .other 0, .frameLabel 0 1 (some (some 0, some 3, none)) (.sub 1 1) 1,
   .frameAddr 0 (.abs .ip 20) (.catVal "JS" 8) 0, .frameAddr 1 (.rel .ra 0 5) .other 0,
   .nativeSymbol 0 0 ⟨32, none, "x"⟩, .frameSym 0 (.rel .ip 0 33) none (0, 1) none none none 2 (.cat 1) 0,
   .stack 0 (0, 0) none, .stack 0 (0, 1) (some (0, 0)), .stackFrames 0 [(0, 0), (0, 1), (0, 2), (0, 3)],
   .stack 1 (0, 0) none,
   .sample 0 (some (0, 1)) false, .sameSample 0, .allocSample 0 (some (0, 1)), .allocSample 1 none,
   .markerType "rt0" 1 [.u, .n, .s], .marker 0 (.runtime 0) 0 [1, 0] .interval, .marker 2 (.static 1) 1 [0, 1, 0] .intervalEnd,
   .markerStack 0 0 (some (0, 3)),
   .counter 1, .visible 2, .selected 1, .setTid 1 1]

set_option maxRecDepth 8192 in
example : Accepted C03_example = true := by decide
set_option maxRecDepth 8192 in
example : (run C03_example).threads.map (fun t => (t.frames.keys.length, t.stacks.prefixes.length, t.samples.length))
    = [(4, 4, 2), (1, 0, 0), (0, 0, 0)] := by decide
set_option maxRecDepth 8192 in
example : (idSpec C03_example).pids = [(7, 0), (7, 1)] ∧ (idSpec C03_example).tids = [(1, 0), (1, 2), (2, 0)] := by decide
set_option maxRecDepth 8192 in
example : (run C03_example).processes.map (·.pid) = [(7, 0), (7, 1)] ∧
    (run C03_example).threads.map (·.tid) = [(1, 0), (1, 2), (2, 0)] := by decide
-- `C03_identity` is not vacuous: the example serializes (two processes, three threads, a counter, positional
-- references) and the serialized profile satisfies `identOk`
set_option maxRecDepth 8192 in
example : ∃ s, serialize (run C03_example) = some s ∧ identOk (run C03_example).view s = true := by
  have ha : Accepted C03_example = true := by decide
  obtain ⟨s, hs, _⟩ := C03_wf _ ha
  exact ⟨s, hs, C03_identity _ ha s hs⟩
set_option maxRecDepth 8192 in
example : (run C03_example).threads.map (fun t => (t.process, t.isMain)) = [(0, true), (0, false), (1, true)] ∧
    (run C03_example).counters.map (·.process) = [1] ∧ (run C03_example).visible = [2] := by decide
-- the hypotheses of the decoding theorems are met by the example's frame / native-symbol calls
set_option maxRecDepth 8192 in
example : (step (run (C03_example.take 14)) (.frameLabel 0 0 none .other 0)).2 = .h [0, 0] ∧
    (step (run (C03_example.take 15)) (.frameLabel 0 1 (some (some 0, some 3, none)) (.sub 1 1) 1)).2 = .h [0, 1] ∧
    (step (run (C03_example.take 16)) (.frameAddr 0 (.abs .ip 20) (.catVal "JS" 8) 0)).2 = .h [0, 2] ∧
    (step (run (C03_example.take 18)) (.nativeSymbol 0 0 ⟨32, none, "x"⟩)).2 = .h [0, 1] ∧
    (step (run (C03_example.take 19)) (.frameSym 0 (.rel .ip 0 33) none (0, 1) none none none 2 (.cat 1) 0)).2 = .h [0, 3] ∧
    (step (run (C03_example.take 21)) (.stack 0 (0, 1) (some (0, 0)))).2 = .h [0, 1] ∧
    (step (run (C03_example.take 22)) (.stackFrames 0 [(0, 0), (0, 1), (0, 2), (0, 3)])).2 = .h [0, 3] := by
  decide
-- the call with a frame of another thread is rejected
set_option maxRecDepth 8192 in
example : (step (run (C03_example.take 23)) (.stack 1 (0, 0) none)).2 = .rejected := by decide
