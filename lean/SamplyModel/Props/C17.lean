import SamplyModel.Lemmas.LifeStep
import SamplyModel.Lemmas.ConvSplit
import SamplyModel.Props.C01
import SamplyModel.Lemmas.ProfileIdString
/-!
# C17 — process / thread names and lifetimes follow COMM, EXEC, FORK and EXIT

Model: `Model/Converter.lean` + the output abstraction `views` of `Model/ConvFlush.lean`. Specification side:
`ConvSpec.Life` — the eager reading of the record history (incarnations found by search, no handles).

Main theorem (`C17_refines`): with default options (`reuse = false`), for a history that respects the FORK / EXEC
clauses of the kernel's record grammar (`Life.grammarOk`, the executable form of `LifeL.forkOk`: a FORK never
names a bound child, `tid ≠ pid`, `tid ≠ ptid`; EXEC on main threads only),

    (views (run cfg rs)).map C17_rowOf = Life.rows (Life.run cfg.ref rs)

as *lists* — both sides create entries in the same order. Ids reused after EXIT with or without FORK, a
main-thread EXIT before a sibling's EXIT (the kernel's order for `exit_group` with a zombie leader), the EXIT of
a thread whose process is not known, records that mention an exited id are all inside the statement.
The proof is a simulation (`Lemmas/LifeSim.lean`:
`Sim s l` = the entry tables are the incarnation tables, the suffix counters count incarnations, and the handles
stored in the process table point exactly at the alive incarnations; `Lemmas/LifeStep.lean`: every record
handler preserves it, the grammar makes the back-dating branches of `recycle_or_get_new{,_thread}` unreachable).

Repaired defect (finding C17-phantom-process-on-thread-exit, fix 8ede2c85): `handle_exit` used the *creating*
`Processes::get_by_pid` for non-main threads, so the EXIT of a thread after its main thread's EXIT (or of a pid
never seen) made a process entry `<pid>`, start 0, never ended. The pre-fix handler is kept as
`Conv.stepLegacy`; `C17_legacy_counterexample_phantom_process` (`decide`) shows the refinement is false for it on a
history inside the grammar. With the repair (`get_existing_by_pid`) the hypothesis `Life.orphanFree` that excluded
exactly this input is gone.

**Samples and EXEC** (`C17_exec_splits_samples`): along every history inside the grammar, the samples of a pid
accepted before an EXEC of that pid and those accepted after it are reported under *different process entries*
(`pid` vs `pid.1`, …): the output samples sit on the entries `C01_conservation_entry` names, and the pid suffix of
every sample before the EXEC is strictly smaller than that of every sample after it.

The property text itself is restated on the specification side, for every state, by
`C17_spec_comm_sets_name`, `C17_spec_fork_inherits_name`, `C17_spec_fork_inherits_process_name`,
`C17_spec_fork_sets_start`, `C17_spec_exit_sets_end`, `C17_spec_exec_splits` (+ `C17_spec_alive_unique` for the
one hypothesis of its last clause).

Specification fix found by the proof: an executable MMAP2 for an unbound pid creates the process entry
(`add_module_to_process → get_by_pid`) even before the first sample / with an empty path; `Life.step` now says
so (regression `example` below).

First instalment (kept): what the individual record handlers do to the entry tables, for every state —
`C17_thread_exit_sets_end`, `C17_comm_renames_thread`, `C17_comm_same_name_noop`, `C17_placeholders`.
-/
open Conv ConvSpec

/-- EXIT of a non-main thread that is bound: its thread entry gets the exit time as end time, every other
thread entry and every process entry is untouched. -/
theorem C17_thread_exit_sets_end (s : St) (p : ProcC) (tid time : Nat) (t : ThreadC)
    (ht : alGet p.threads tid = some t) :
    ((removeThread s p tid time).1.tents[t.h]?) = (s.tents[t.h]?).map (fun e => { e with end_ := some time }) ∧
    (∀ j, j ≠ t.h → (removeThread s p tid time).1.tents[j]? = s.tents[j]?) ∧
    (removeThread s p tid time).1.pents = s.pents ∧
    alGet (removeThread s p tid time).2.threads tid = none := by
  unfold removeThread
  simp only [ht]
  refine ⟨?_, ?_, rfl, ?_⟩
  · simp [putProc, setTEnd, setT, LifeL.modifyNth_get]
  · intro j hj
    simp only [putProc, setTEnd, setT]
    exact LifeL.modifyNth_get_ne _ _ _ _ (Ne.symm hj)
  · simp only [alGet, alDel]
    rw [Option.map_eq_none_iff, List.find?_eq_none]
    intro x hx
    simp only [List.mem_filter, Bool.not_eq_true', beq_eq_false_iff_ne, ne_eq] at hx
    simpa using hx.2

/-- COMM for a bound non-main thread (default options): its thread entry takes the new name; nothing else in
the entry tables changes. -/
theorem C17_comm_renames_thread (s : St) (p : ProcC) (tid time : Nat) (name : String) (th : ThreadC)
    (hr : s.cfg.reuse = false) (hne : tid ≠ p.pid) (ht : alGet p.threads tid = some th)
    (hn : th.name ≠ some name) :
    ((renameThread s p tid time name).tents[th.h]?) = (s.tents[th.h]?).map (fun e => { e with name := some name }) ∧
    (∀ j, j ≠ th.h → (renameThread s p tid time name).tents[j]? = s.tents[j]?) ∧
    (renameThread s p tid time name).pents = s.pents := by
  unfold renameThread
  simp only [hne, if_false, ht, hn, hr, Bool.false_eq_true]
  refine ⟨?_, ?_, rfl⟩
  · simp [putProc, setTName, setT, LifeL.modifyNth_get]
  · intro j hj
    simp only [putProc, setTName, setT]
    exact LifeL.modifyNth_get_ne _ _ _ _ (Ne.symm hj)

/-- A COMM that repeats the current name changes nothing at all. -/
theorem C17_comm_same_name_noop (s : St) (p : ProcC) (tid time : Nat) (name : String) (th : ThreadC)
    (hne : tid ≠ p.pid) (ht : alGet p.threads tid = some th) (hn : th.name = some name) :
    renameThread s p tid time name = s := by
  unfold renameThread
  simp [hne, ht, hn]

/-- Placeholder names: a thread never named shows as `Thread <tid>`, a process never named as `<pid>`. -/
theorem C17_placeholders (s : St) (out : List (Nat × OutSample)) (i : Nat) (te : TEntry) (pe : PEntry)
    (hp : s.pents[te.proc]? = some pe) :
    (viewOf s out i te).map (fun v => (v.name, v.processName)) =
      some (if te.isMain then pe.name else te.name.getD ("Thread <" ++ idStr te.tid te.suffix ++ ">"), pe.name) ∧
    (getByPid { s with procs := [] } 77).1.pents = s.pents ++ [{ pid := 77, suffix := (uniq s.usedPids 77).2, name := "<77>", start := 0 }] := by
  constructor
  · simp [viewOf, hp]
  · simp only [getByPid, alGet, addProcess, addThread, putProc, pidLabel, List.find?_nil, Option.map_none]
    congr 1

/-! ### Non-vacuity: the history of the design probe (names, `200` / `200.1`, lifetimes) -/
def C17_exHistory : List Rec :=
  [.comm 100 100 "parent" false 10, .sample 100 100 12 false 1 0x10 [], .fork 200 200 100 100 13,
   .comm 200 200 "child" true 14, .sample 200 200 15 false 1 0x10 [], .fork 100 101 100 100 16,
   .sample 100 101 17 false 1 0x10 [], .comm 100 101 "worker" false 18, .exit 100 101 19,
   .sample 100 100 20 false 1 0x10 [], .exit 200 200 21]

example : Life.grammarOk 12 C17_exHistory = true := by decide
example : (Life.rows (Life.run 12 C17_exHistory)).map (fun r => [r.pid, r.tid, r.name, r.processName]) =
    [["100", "100", "parent", "parent"], ["200", "200", "parent", "parent"],
     ["200.1", "200.1", "child", "child"], ["100", "101", "worker", "parent"]] := by decide
example : (Life.rows (Life.run 12 C17_exHistory)).map (fun r => (r.start, r.end_)) =
    [(0, none), (1, some 2), (2, some 9), (4, some 7)] := by decide
example : (views (run { ref := 12 } C17_exHistory)).map (fun v => [v.pid, v.tid, v.name, v.processName]) =
    [["100", "100", "parent", "parent"], ["200", "200", "parent", "parent"],
     ["200.1", "200.1", "child", "child"], ["100", "101", "worker", "parent"]] := by decide
example : (views (run { ref := 12 } C17_exHistory)).map (fun v => (v.start, v.end_)) =
    [(0, none), (1, some 2), (2, some 9), (4, some 7)] := by decide

/-! ### The refinement -/

def C17_rowOf (v : View) : Life.Row :=
  { pid := v.pid, tid := v.tid, isMain := v.isMain, name := v.name, processName := v.processName,
    start := v.start, end_ := v.end_, pstart := v.pstart, pend := v.pend }

/-- default options + kernel record grammar: the converter's thread entries, with their names and
    lifetimes, are exactly the incarnations of the eager reading of the history, in creation order -/
theorem C17_refines (cfg : Config) (rs : List Rec) (hr : cfg.reuse = false)
    (hg : Life.grammarOk cfg.ref rs = true) :
    (views (run cfg rs)).map C17_rowOf = Life.rows (Life.run cfg.ref rs) :=
  LifeL.views_rows (LifeL.sim_run cfg rs hr hg)

/-- The kernel's order for `exit_group` with a zombie leader: the main thread's EXIT precedes a sibling's. -/
def C17_exPhantom : List Rec :=
  [.comm 100 100 "app" false 1000, .fork 100 101 100 100 1100, .sample 100 101 1200 false 1 0x10 [],
   .exit 100 100 2000, .exit 100 101 2000]

/-- The defect repaired by 8ede2c85, on the pre-fix handler `Conv.stepLegacy` (`handle_exit` → creating
`get_by_pid`): for a history inside the grammar the legacy converter has a third entry — process `100.1`, named
`<100>`, start 0, never ended — that no record announces, so the refinement `C17_refines` is false for it; its rows
are those of the eager reading `Life.runLegacy` in which an orphan EXIT creates the process. The repaired
converter has exactly the two entries of the history, both ended at the main thread's EXIT (`C17_refines`
applies: the same history, checked here by evaluation too). -/
theorem C17_legacy_counterexample_phantom_process :
    Life.grammarOk 1000 C17_exPhantom = true ∧
    (Life.rows (Life.run 1000 C17_exPhantom)).map (fun r => (r.pid, r.tid, r.name, r.start, r.end_)) =
      [("100", "100", "app", 0, some 1000), ("100", "101", "app", 100, some 1000)] ∧
    (views (runLegacy { ref := 1000 } C17_exPhantom)).map (fun v => (v.pid, v.tid, v.name, v.start, v.end_)) =
      [("100", "100", "app", 0, some 1000), ("100", "101", "app", 100, some 1000),
       ("100.1", "100.1", "<100>", 0, none)] ∧
    (views (runLegacy { ref := 1000 } C17_exPhantom)).map C17_rowOf ≠ Life.rows (Life.run 1000 C17_exPhantom) ∧
    (views (runLegacy { ref := 1000 } C17_exPhantom)).map C17_rowOf = Life.rows (Life.runLegacy 1000 C17_exPhantom) ∧
    (views (run { ref := 1000 } C17_exPhantom)).map C17_rowOf = Life.rows (Life.run 1000 C17_exPhantom) ∧
    -- the minimal input: a lone EXIT of a thread of a never-seen pid
    (views (runLegacy {} [.exit 100 101 2000])).map (fun v => (v.pid, v.tid, v.name)) = [("100", "100", "<100>")] ∧
    views (run {} [.exit 100 101 2000]) = [] := by
  refine ⟨by decide, by decide, by decide, by decide, by decide, by decide, by decide, by decide⟩

/-- the hypotheses of `C17_refines` hold for the orphan-EXIT history, for a sibling's records after the main
thread's EXIT, and for an id reused after its EXIT without a FORK (the sample re-creates pid 100) -/
example : Life.grammarOk 1000 C17_exPhantom = true ∧
    Life.grammarOk 0 [.comm 100 100 "a" false 10, .fork 100 101 100 100 11, .exit 100 100 12,
      .sample 100 101 13 false 1 0x10 [], .exit 100 101 14, .exit 100 100 15, .exit 100 101 16] = true := by decide

/-- regression: an executable MMAP2 for an unbound pid before the first sample creates the process entry on
both sides (the eager specification originally created nothing here) -/
example : Life.grammarOk 0 [.mmap2 5 5 0x1000 0x1000 0 true "lib" 3] = true ∧
    (views (run {} [.mmap2 5 5 0x1000 0x1000 0 true "lib" 3])).map C17_rowOf =
      Life.rows (Life.run 0 [.mmap2 5 5 0x1000 0x1000 0 true "lib" 3]) ∧
    (Life.rows (Life.run 0 [.mmap2 5 5 0x1000 0x1000 0 true "lib" 3])).map (fun r => [r.pid, r.tid, r.name]) =
      [["5", "5", "<5>"]] := by decide

/-! ### The property text, on the specification side (`Life.step`, every state) -/
open LifeL

/-- a non-exec COMM for a live (pid, tid): the bindings are unchanged, the current thread incarnation takes the
COMM name, and for a main thread (pid = tid) the current process incarnation takes it too -/
theorem C17_spec_comm_sets_name (s : Life.S) (pid tid : Nat) (name : String) (t pi i : Nat)
    (hp : Life.curProc s pid = some pi) (ht : Life.curThread s pi tid = some i) :
    Life.curProc (Life.step s (.comm pid tid name false t)) pid = some pi ∧
    Life.curThread (Life.step s (.comm pid tid name false t)) pi tid = some i ∧
    Life.threadName (Life.step s (.comm pid tid name false t)) i = some name ∧
    (pid = tid → Life.procName (Life.step s (.comm pid tid name false t)) pi = some name) := by
  obtain ⟨x, hx, _⟩ := findIdx_some ht
  obtain ⟨y, hy, _⟩ := findIdx_some hp
  have key : Life.step s (.comm pid tid name false t) =
      if pid = tid then Life.modT (Life.modP s pi (fun p => { p with name := some name })) i
        (fun t => { t with name := some name })
      else Life.modT s i (fun t => { t with name := some name }) := by
    by_cases hpt : pid = tid
    · subst hpt
      rw [lstep_comm_main, hp, if_pos rfl]
      simp only [curThread_modP, ht]
    · rw [lstep_comm_thread _ _ _ _ _ hpt, if_neg hpt]
      have : Life.ensureProc s pid = (s, pi) := by unfold Life.ensureProc; rw [hp]
      rw [this]
      simp only [ht]
  have hcp : ∀ (s' : Life.S), Life.curProc (Life.modT s' i (fun t => { t with name := some name })) pid =
      Life.curProc s' pid := fun _ => rfl
  have hct : ∀ (s' : Life.S), Life.curThread (Life.modT s' i (fun t => { t with name := some name })) pi tid =
      Life.curThread s' pi tid := by
    intro s'
    unfold Life.curThread Life.modT
    exact findIdx_modifyNth _ _ _ _ (fun _ => rfl)
  have hcpP : Life.curProc (Life.modP s pi (fun p => { p with name := some name })) pid = Life.curProc s pid := by
    unfold Life.curProc Life.modP
    exact findIdx_modifyNth _ _ _ _ (fun _ => rfl)
  rw [key]
  by_cases hpt : pid = tid
  · simp only [if_pos hpt, hcp, hct, curThread_modP, hcpP]
    refine ⟨hp, ht, ?_, fun _ => ?_⟩
    · simp only [Life.threadName, Life.modT, Life.modP, getElem?_modifyNth_self _ hx, Option.bind_some]
    · simp only [Life.procName, Life.modT, Life.modP, getElem?_modifyNth_self _ hy, Option.bind_some]
  · simp only [if_neg hpt, hcp, hct]
    refine ⟨hp, ht, ?_, fun h => absurd h hpt⟩
    simp only [Life.threadName, Life.modT, getElem?_modifyNth_self _ hx, Option.bind_some]

/-- FORK of a thread in a live process by a live thread (child not bound): one thread incarnation is appended;
it carries the forking thread's current name, starts at the FORK time relative to the reference, has no end
time and gets the next free suffix of its tid. Nothing else changes. -/
theorem C17_spec_fork_inherits_name (s : Life.S) (pid tid ptid t pi i : Nat)
    (hp : Life.curProc s pid = some pi) (ht : Life.curThread s pi ptid = some i)
    (hn : Life.curThread s pi tid = none) :
    (Life.step s (.fork pid tid pid ptid t)).ts = s.ts ++
      [{ pinc := pi, tid := tid, suffix := Life.countT s tid, name := Life.threadName s i, start := t - s.ref,
         end_ := none, alive := true, isMain := false }] ∧
    (Life.step s (.fork pid tid pid ptid t)).ps = s.ps := by
  have he : Life.ensureProc s pid = (s, pi) := by unfold Life.ensureProc; rw [hp]
  have het : Life.ensureThread s pid ptid = s := by rw [ensureThread_eq hp, ht]
  rw [lstep_fork, if_neg (by simp), he]
  simp only [het, hn, ht, Option.bind_some]
  exact ⟨rfl, rfl⟩

/-- FORK of a process by a live process (child pid not bound): one process incarnation and its main thread are
appended; both carry the parent *process* name (not the forking thread's), start at the FORK time relative to the
reference, and get the next free suffix. -/
theorem C17_spec_fork_inherits_process_name (s : Life.S) (pid tid ppid ptid t ppi : Nat) (hne : pid ≠ ppid)
    (hp : Life.curProc s ppid = some ppi) (hn : Life.curProc s pid = none) :
    (Life.step s (.fork pid tid ppid ptid t)).ps = s.ps ++
      [{ pid := pid, suffix := Life.countP s pid, name := Life.procName s ppi, start := t - s.ref, end_ := none,
         alive := true }] ∧
    (Life.step s (.fork pid tid ppid ptid t)).ts = s.ts ++
      [{ pinc := s.ps.length, tid := pid, suffix := Life.countT s pid, name := Life.procName s ppi,
         start := t - s.ref, end_ := none, alive := true, isMain := true }] := by
  have he : Life.ensureProc s ppid = (s, ppi) := by unfold Life.ensureProc; rw [hp]
  rw [lstep_fork, if_pos hne, he]
  simp only [hn]
  exact ⟨rfl, rfl⟩

/-- lifetimes start at the FORK time (relative to the reference, saturating): the incarnation a FORK creates is
the last one of its table and has `start = t - ref`, no end time, and is alive. -/
theorem C17_spec_fork_sets_start (s : Life.S) (pid tid ppid ptid t : Nat) :
    (∀ pi i, pid = ppid → Life.curProc s pid = some pi → Life.curThread s pi ptid = some i →
      Life.curThread s pi tid = none →
      ∃ x, (Life.step s (.fork pid tid ppid ptid t)).ts[s.ts.length]? = some x ∧ x.tid = tid ∧ x.pinc = pi ∧
        x.start = t - s.ref ∧ x.end_ = none ∧ x.alive = true) ∧
    (∀ ppi, pid ≠ ppid → Life.curProc s ppid = some ppi → Life.curProc s pid = none →
      ∃ x y, (Life.step s (.fork pid tid ppid ptid t)).ps[s.ps.length]? = some x ∧
        (Life.step s (.fork pid tid ppid ptid t)).ts[s.ts.length]? = some y ∧ x.pid = pid ∧ y.tid = pid ∧
        y.pinc = s.ps.length ∧ y.isMain = true ∧ x.start = t - s.ref ∧ y.start = t - s.ref ∧ x.end_ = none ∧
        y.end_ = none ∧ x.alive = true ∧ y.alive = true) := by
  refine ⟨?_, ?_⟩
  · intro pi i he hp ht hn
    subst he
    rw [(C17_spec_fork_inherits_name s pid tid ptid t pi i hp ht hn).1]
    exact ⟨_, getElem?_concat_len _ _, rfl, rfl, rfl, rfl, rfl⟩
  · intro ppi hne hp hn
    obtain ⟨h1, h2⟩ := C17_spec_fork_inherits_process_name s pid tid ppid ptid t ppi hne hp hn
    rw [h1, h2]
    exact ⟨_, _, getElem?_concat_len _ _, getElem?_concat_len _ _, rfl, rfl, rfl, rfl, rfl, rfl, rfl, rfl, rfl, rfl⟩

/-- lifetimes end at the EXIT time (relative to the reference):
* EXIT of a bound non-main thread stamps exactly its current incarnation and retires it;
* EXIT of a main thread stamps the current process incarnation and every alive thread incarnation of it, and
  touches nothing else. -/
theorem C17_spec_exit_sets_end (s : Life.S) (pid tid t pi : Nat) (hp : Life.curProc s pid = some pi) :
    (∀ i, pid ≠ tid → Life.curThread s pi tid = some i →
      (Life.step s (.exit pid tid t)).ts =
        modifyNth s.ts i (fun x => { x with end_ := some (t - s.ref), alive := false }) ∧
      (Life.step s (.exit pid tid t)).ps = s.ps) ∧
    (pid = tid →
      (Life.step s (.exit pid tid t)).ps =
        modifyNth s.ps pi (fun x => { x with end_ := some (t - s.ref), alive := false }) ∧
      (Life.step s (.exit pid tid t)).ts =
        s.ts.map (fun x => if x.alive && x.pinc == pi then { x with end_ := some (t - s.ref), alive := false } else x)) := by
  have he : Life.ensureProc s pid = (s, pi) := by unfold Life.ensureProc; rw [hp]
  refine ⟨?_, ?_⟩
  · intro i hne ht
    rw [lstep_exit, if_neg hne, hp]
    simp only [he]
    simp only [ht]
    exact ⟨rfl, rfl⟩
  · intro heq
    rw [lstep_exit, if_pos heq, hp]
    exact ⟨rfl, rfl⟩

/-- EXEC on a main thread splits the process: the current process incarnation (and its threads) end at the
COMM time, and a new incarnation of the same pid opens at that time under the exec name, with the next pid
suffix (`> 0`, so it renders as `pid.k`) and its own main thread; the two are different entries, and — when the
ended incarnation was the only alive one of that pid, as in every reachable state (`C17_spec_alive_unique`) —
records after the EXEC resolve to the new entry. -/
theorem C17_spec_exec_splits (s : Life.S) (pid : Nat) (name : String) (t pi : Nat) (x : Life.PInc)
    (hp : Life.curProc s pid = some pi) (hx : s.ps[pi]? = some x) :
    (Life.step s (.comm pid pid name true t)).ps[pi]? =
      some { x with end_ := some ((if t = 0 then s.cur else t) - s.ref), alive := false } ∧
    (Life.step s (.comm pid pid name true t)).ps[s.ps.length]? =
      some { pid := pid, suffix := Life.countP s pid, name := some name,
             start := (if t = 0 then s.cur else t) - s.ref, end_ := none, alive := true } ∧
    (Life.step s (.comm pid pid name true t)).ts[s.ts.length]? =
      some { pinc := s.ps.length, tid := pid, suffix := Life.countT s pid, name := some name,
             start := (if t = 0 then s.cur else t) - s.ref, end_ := none, alive := true, isMain := true } ∧
    pi ≠ s.ps.length ∧ 0 < Life.countP s pid ∧
    ((∀ (j : Nat) (y : Life.PInc), s.ps[j]? = some y → y.alive = true → y.pid = pid → j = pi) →
      Life.curProc (Life.step s (.comm pid pid name true t)) pid = some s.ps.length) := by
  have hlt : pi < s.ps.length := LifeL.lt_of_getElem?_some hx
  obtain ⟨x', hx', hq⟩ := findIdx_some hp
  rw [hx] at hx'; cases hx'
  simp only [Bool.and_eq_true, beq_iff_eq] at hq
  rw [lstep_comm_exec_main, hp]
  have hcnt : Life.countP (Life.endProc s pi (Life.conv s (if t = 0 then s.cur else t))) pid = Life.countP s pid := by
    simp only [Life.countP, Life.endProc, Life.modP]
    exact filter_modifyNth_length _ _ _ _ (by intro y; rfl)
  have hcntT : Life.countT (Life.endProc s pi (Life.conv s (if t = 0 then s.cur else t))) pid = Life.countT s pid := by
    simp only [Life.countT, Life.endProc, Life.modP]
    refine filter_map_length _ _ _ (fun y => ?_)
    split <;> rfl
  simp only [Life.newProc, hcnt, hcntT]
  simp only [Life.endProc, Life.modP, Life.conv]
  refine ⟨?_, ?_, ?_, Nat.ne_of_lt hlt, ?_, ?_⟩
  · exact getElem?_concat_of_some _ (getElem?_modifyNth_self _ hx)
  · rw [← length_modifyNth s.ps pi (fun p => { p with end_ := some ((if t = 0 then s.cur else t) - s.ref), alive := false })]
    exact getElem?_concat_len _ _
  · rw [length_modifyNth]
    have := getElem?_concat_len (s.ts.map (fun x => if (x.alive && x.pinc == pi) = true then { x with end_ := some ((if t = 0 then s.cur else t) - s.ref), alive := false } else x)) { pinc := s.ps.length, tid := pid, suffix := Life.countT s pid, name := some name, start := (if t = 0 then s.cur else t) - s.ref, end_ := none, alive := true, isMain := true }
    rw [List.length_map] at this
    exact this
  · unfold Life.countP
    apply List.length_pos_of_mem (a := x)
    rw [List.mem_filter]
    exact ⟨List.mem_of_getElem? hx, by simp [hq.2]⟩
  · intro hu
    rw [length_modifyNth]
    obtain ⟨k, hk⟩ := findIdx_exists (l := modifyNth s.ps pi (fun p => { p with end_ := some ((if t = 0 then s.cur else t) - s.ref), alive := false }) ++ [{ pid := pid, suffix := Life.countP s pid, name := some name, start := (if t = 0 then s.cur else t) - s.ref, end_ := none, alive := true }])
      (q := fun p => p.alive && p.pid == pid) (getElem?_concat_len _ _) (by simp)
    unfold Life.curProc
    simp only
    rw [hk]
    obtain ⟨y, hy, hqy⟩ := findIdx_some hk
    simp only [Bool.and_eq_true, beq_iff_eq] at hqy
    simp only [getElem?_concat, length_modifyNth] at hy
    split at hy
    · rw [getElem?_modifyNth] at hy
      split at hy
      · next hpk =>
        subst hpk
        rw [hx] at hy
        simp only [Option.map_some, Option.some.injEq] at hy
        subst hy
        simp at hqy
      · next hpk => exact absurd (hu k y hy hqy.1 hqy.2).symm hpk
    · split at hy
      · next hk' => rw [hk']
      · cases hy

/-- in every state reached by a grammatical history, the alive process incarnation of a pid is unique (it is
the one `curProc` finds) — the hypothesis of the last clause of `C17_spec_exec_splits` -/
theorem C17_spec_alive_unique (ref : Nat) (rs : List Rec) (hg : Life.grammarOk ref rs = true) (j : Nat)
    (y : Life.PInc) (hy : (Life.run ref rs).ps[j]? = some y) (hal : y.alive = true) :
    Life.curProc (Life.run ref rs) y.pid = some j := by
  have h := sim_run { ref := ref } rs rfl hg
  obtain ⟨p, hb, hh⟩ := h.live.backP j y hy hal
  rw [h.live.curProc_bound hb, hh]


/-! ### Samples before and after an EXEC lie in different process entries -/

/-- **EXEC splits the samples of a process.** For every configuration with default options and every history
`pre ++ [EXEC of pid] ++ post` inside the grammar: the accepted samples of the whole history are those of `pre`
followed by those taken after the EXEC (`later`); every sample of `pid` taken before the EXEC is tagged with a
pid suffix strictly smaller than every sample of `pid` taken after it — i.e. they belong to different process
incarnations, rendered `idStr pid k` with different `k` (`100` / `100.1` / …); and (`C01_conservation_entry`) the
recorded samples of `views (run cfg …)` sit, one for one, on the entries with exactly these pid / tid strings. -/
theorem C17_exec_splits_samples (cfg : Config) (pre post : List Rec) (pid : Nat) (name : String) (t : Nat)
    (hr : cfg.reuse = false)
    (hg : Life.grammarOk cfg.ref (pre ++ .comm pid pid name true t :: post) = true) :
    ∃ later, acceptedInc cfg.ref (pre ++ .comm pid pid name true t :: post) = acceptedInc cfg.ref pre ++ later ∧
      (∀ a ∈ acceptedInc cfg.ref pre, ∀ b ∈ later, a.pid = pid → b.pid = pid → a.psuffix < b.psuffix) ∧
      List.Perm
        ((views (run cfg (pre ++ .comm pid pid name true t :: post))).flatMap
          (fun v => (C01_recorded v).map (fun o => (v.pid, v.tid, o.t, o.weight))))
        ((acceptedInc cfg.ref pre ++ later).map
          (fun a => (idStr a.pid a.psuffix, idStr a.tid a.tsuffix, a.t - cfg.ref, 1))) := by
  obtain ⟨later, h1, h2⟩ := exec_splits cfg pre post pid name t hr hg
  refine ⟨later, h1, h2, ?_⟩
  rw [← h1]
  exact C01_conservation_entry cfg _ hr hg

/-- non-vacuity: the reviewer's example — a sample before and one after the EXEC of pid 100 -/
example : Life.grammarOk 1000 [.comm 100 100 "app" false 800, .sample 100 100 1000 false 1 0x10 [],
      .comm 100 100 "new" true 1500, .sample 100 100 2000 false 1 0x10 []] = true ∧
    acceptedInc 1000 [.comm 100 100 "app" false 800, .sample 100 100 1000 false 1 0x10 [],
      .comm 100 100 "new" true 1500, .sample 100 100 2000 false 1 0x10 []] =
      [⟨100, 100, 1000, 0, 0⟩, ⟨100, 100, 2000, 1, 1⟩] ∧
    (views (run { ref := 1000 } [.comm 100 100 "app" false 800, .sample 100 100 1000 false 1 0x10 [],
      .comm 100 100 "new" true 1500, .sample 100 100 2000 false 1 0x10 []])).map
        (fun v => (v.pid, v.tid, v.samples.map (·.t))) = [("100", "100", [0]), ("100.1", "100.1", [1000])] := by
  decide


/-! ### The entry names are injective: different incarnations are different entries of the profile -/

/-- `make_unique_pid_or_tid` (profile.rs:308-320) as rendered by `idStr` — `"<id>"` for suffix 0,
`"<id>.<suffix>"` otherwise — is injective in the pair: two incarnations are reported under the same pid (tid)
string only if they have the same number and the same suffix. (Digits never contain `'.'`; proved on the
character lists in `Lemmas/ProfileIdString.lean`.) -/
theorem C17_idStr_injective (a s b t : Nat) (h : idStr a s = idStr b t) : a = b ∧ s = t := by
  have h' : PT.idString (a, s) = PT.idString (b, t) := h
  have := PT.idString_injective h'
  exact ⟨congrArg Prod.fst this, congrArg Prod.snd this⟩

/-- **EXEC splits the samples, on the strings of the output.** Same history as `C17_exec_splits_samples`: the pid
*string* of the entry that carries a sample of `pid` taken before the EXEC differs from the pid string of the
entry that carries any sample of `pid` taken after it, and (the `Perm` of `C17_exec_splits_samples`) these
strings are the `pid` fields of the thread entries of `views (run cfg …)` that hold the samples. -/
theorem C17_exec_splits_pid_strings (cfg : Config) (pre post : List Rec) (pid : Nat) (name : String) (t : Nat)
    (hr : cfg.reuse = false)
    (hg : Life.grammarOk cfg.ref (pre ++ .comm pid pid name true t :: post) = true) :
    ∃ later, acceptedInc cfg.ref (pre ++ .comm pid pid name true t :: post) = acceptedInc cfg.ref pre ++ later ∧
      (∀ a ∈ acceptedInc cfg.ref pre, ∀ b ∈ later, a.pid = pid → b.pid = pid →
        idStr a.pid a.psuffix ≠ idStr b.pid b.psuffix) ∧
      List.Perm
        ((views (run cfg (pre ++ .comm pid pid name true t :: post))).flatMap
          (fun v => (C01_recorded v).map (fun o => (v.pid, v.tid, o.t, o.weight))))
        ((acceptedInc cfg.ref pre ++ later).map
          (fun a => (idStr a.pid a.psuffix, idStr a.tid a.tsuffix, a.t - cfg.ref, 1))) := by
  obtain ⟨later, h1, h2, h3⟩ := C17_exec_splits_samples cfg pre post pid name t hr hg
  refine ⟨later, h1, ?_, h3⟩
  intro a ha b hb hap hbp heq
  have := (C17_idStr_injective _ _ _ _ heq).2
  have := h2 a ha b hb hap hbp
  omega

/-- non-vacuity / sanity: the strings of the example above are different, and `idStr` separates `1.23` from `12.3` -/
example : idStr 100 0 = "100" ∧ idStr 100 1 = "100.1" ∧ idStr 1 23 ≠ idStr 12 3 := by decide
