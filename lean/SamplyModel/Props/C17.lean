import SamplyModel.Lemmas.LifeStep
/-!
# C17 — process / thread names and lifetimes follow COMM, EXEC, FORK and EXIT (first instalment)

Model: `Model/Converter.lean`. Specification side: `ConvSpec.Life` — the eager reading of the record
history (incarnations found by search, no handles), under the record grammar `Life.grammarOk`.

Full statement (judged on samply's output on every run by `ConvJudge.judgeC17`, and the target of the
refinement proof under construction):

    cfg.reuse = false → Life.grammarOk cfg.ref rs = true →
    (views (run cfg rs)).map rowOf  ~  Life.rows (Life.run cfg.ref rs)        (List.Perm)

Proved so far (each for every state, i.e. also every reachable one): what the individual record handlers
do to the entry tables — an EXIT stamps the end time of exactly the thread entry bound to (pid, tid)
(`C17_thread_exit_sets_end`),
a COMM renames exactly the thread entry bound to (pid, tid) (`C17_comm_renames_thread`,
`C17_comm_same_name_noop`), placeholder names (`C17_placeholders`). Missing: the lift to whole
histories (one simulation invariant between handles and incarnations).
-/
open Conv ConvSpec

theorem modifyNth_get {α} (l : List α) (i : Nat) (f : α → α) : (modifyNth l i f)[i]? = (l[i]?).map f := by
  induction l generalizing i with
  | nil => simp [modifyNth]
  | cons x xs ih => cases i <;> simp [modifyNth, ih]

theorem modifyNth_get_ne {α} (l : List α) (i j : Nat) (f : α → α) (h : i ≠ j) :
    (modifyNth l i f)[j]? = l[j]? := by
  induction l generalizing i j with
  | nil => simp [modifyNth]
  | cons x xs ih =>
    cases i <;> cases j <;> simp [modifyNth] at h ⊢
    exact ih _ _ h

/-- EXIT of a non-main thread that is bound: its thread entry gets the exit time as end time, every other
thread entry and every process entry is untouched. -/
theorem C17_thread_exit_sets_end (s : St) (p : ProcC) (tid time : Nat) (t : ThreadC)
    (ht : alGet p.threads tid = some t) :
    ((removeThread s p tid time).1.tents[t.h]?) = (s.tents[t.h]?).map (fun e => { e with end_ := some time }) ∧
    (∀ j, j ≠ t.h → (removeThread s p tid time).1.tents[j]? = s.tents[j]?) ∧
    (removeThread s p tid time).1.pents = s.pents ∧
    alGet (removeThread s p tid time).2.threads tid = none := by
  unfold removeThread
  simp only [ht]
  refine ⟨?_, ?_, rfl, ?_⟩
  · simp [putProc, setTEnd, setT, modifyNth_get]
  · intro j hj
    simp only [putProc, setTEnd, setT]
    exact modifyNth_get_ne _ _ _ _ (Ne.symm hj)
  · simp only [alGet, alDel]
    rw [Option.map_eq_none_iff, List.find?_eq_none]
    intro x hx
    simp only [List.mem_filter, Bool.not_eq_true', beq_eq_false_iff_ne, ne_eq] at hx
    simpa using hx.2

/-- COMM for a bound non-main thread (default options): its thread entry takes the new name; nothing else in
the entry tables changes. -/
theorem C17_comm_renames_thread (s : St) (p : ProcC) (tid time : Nat) (name : String) (th : ThreadC)
    (hr : s.cfg.reuse = false) (hne : tid ≠ p.pid) (ht : alGet p.threads tid = some th)
    (hn : th.name ≠ some name) :
    ((renameThread s p tid time name).tents[th.h]?) = (s.tents[th.h]?).map (fun e => { e with name := some name }) ∧
    (∀ j, j ≠ th.h → (renameThread s p tid time name).tents[j]? = s.tents[j]?) ∧
    (renameThread s p tid time name).pents = s.pents := by
  unfold renameThread
  simp only [hne, if_false, ht, hn, hr, Bool.false_eq_true]
  refine ⟨?_, ?_, rfl⟩
  · simp [putProc, setTName, setT, modifyNth_get]
  · intro j hj
    simp only [putProc, setTName, setT]
    exact modifyNth_get_ne _ _ _ _ (Ne.symm hj)

/-- A COMM that repeats the current name changes nothing at all. -/
theorem C17_comm_same_name_noop (s : St) (p : ProcC) (tid time : Nat) (name : String) (th : ThreadC)
    (hne : tid ≠ p.pid) (ht : alGet p.threads tid = some th) (hn : th.name = some name) :
    renameThread s p tid time name = s := by
  unfold renameThread
  simp [hne, ht, hn]

/-- Placeholder names: a thread never named shows as `Thread <tid>`, a process never named as `<pid>`. -/
theorem C17_placeholders (s : St) (out : List (Nat × OutSample)) (i : Nat) (te : TEntry) (pe : PEntry)
    (hp : s.pents[te.proc]? = some pe) :
    (viewOf s out i te).map (fun v => (v.name, v.processName)) =
      some (if te.isMain then pe.name else te.name.getD ("Thread <" ++ idStr te.tid te.suffix ++ ">"), pe.name) ∧
    (getByPid { s with procs := [] } 77).1.pents = s.pents ++ [{ pid := 77, suffix := (uniq s.usedPids 77).2, name := "<77>", start := 0 }] := by
  constructor
  · simp [viewOf, hp]
  · simp only [getByPid, alGet, addProcess, addThread, putProc, pidLabel, List.find?_nil, Option.map_none]
    congr 1

/-! ### Non-vacuity: the history of the design probe (names, `200` / `200.1`, lifetimes) -/
def C17_exHistory : List Rec :=
  [.comm 100 100 "parent" false 10, .sample 100 100 12 false 1 0x10 [], .fork 200 200 100 100 13,
   .comm 200 200 "child" true 14, .sample 200 200 15 false 1 0x10 [], .fork 100 101 100 100 16,
   .sample 100 101 17 false 1 0x10 [], .comm 100 101 "worker" false 18, .exit 100 101 19,
   .sample 100 100 20 false 1 0x10 [], .exit 200 200 21]

example : Life.grammarOk 12 C17_exHistory = true := by decide
example : (Life.rows (Life.run 12 C17_exHistory)).map (fun r => [r.pid, r.tid, r.name, r.processName]) =
    [["100", "100", "parent", "parent"], ["200", "200", "parent", "parent"],
     ["200.1", "200.1", "child", "child"], ["100", "101", "worker", "parent"]] := by decide
example : (Life.rows (Life.run 12 C17_exHistory)).map (fun r => (r.start, r.end_)) =
    [(0, none), (1, some 2), (2, some 9), (4, some 7)] := by decide
example : (views (run { ref := 12 } C17_exHistory)).map (fun v => [v.pid, v.tid, v.name, v.processName]) =
    [["100", "100", "parent", "parent"], ["200", "200", "parent", "parent"],
     ["200.1", "200.1", "child", "child"], ["100", "101", "worker", "parent"]] := by decide
example : (views (run { ref := 12 } C17_exHistory)).map (fun v => (v.start, v.end_)) =
    [(0, none), (1, some 2), (2, some 9), (4, some 7)] := by decide

/-! ### The refinement -/

def C17_rowOf (v : View) : Life.Row :=
  { pid := v.pid, tid := v.tid, isMain := v.isMain, name := v.name, processName := v.processName,
    start := v.start, end_ := v.end_, pstart := v.pstart, pend := v.pend }

/-- default options + kernel record grammar: the converter's thread entries, with their names and
    lifetimes, are exactly the incarnations of the eager reading of the history, in creation order -/
theorem C17_refines (cfg : Config) (rs : List Rec) (hr : cfg.reuse = false)
    (hg : Life.grammarOk cfg.ref rs = true) :
    (views (run cfg rs)).map C17_rowOf = Life.rows (Life.run cfg.ref rs) :=
  LifeL.views_rows (LifeL.sim_run cfg rs hr hg)

/-- regression: an executable MMAP2 for an unbound pid before the first sample creates the process entry on
both sides (the eager specification originally created nothing here) -/
example : Life.grammarOk 0 [.mmap2 5 5 0x1000 0x1000 0 true "lib" 3] = true ∧
    (views (run {} [.mmap2 5 5 0x1000 0x1000 0 true "lib" 3])).map C17_rowOf =
      Life.rows (Life.run 0 [.mmap2 5 5 0x1000 0x1000 0 true "lib" 3]) ∧
    (Life.rows (Life.run 0 [.mmap2 5 5 0x1000 0x1000 0 true "lib" 3])).map (fun r => [r.pid, r.tid, r.name]) =
      [["5", "5", "<5>"]] := by decide
